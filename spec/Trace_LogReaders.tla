--------------------------- MODULE Trace_LogReaders ---------------------------
(***************************************************************************)
(* X06 - trace validation of recorded runs of the real readers             *)
(* (pmutt.io.vasp, pmutt.io.gaussian) over real text files.                *)
(*                                                                         *)
(* One trace = one file.  NDJSON events, in this order:                    *)
(*   open   : fam = "outcar" | "gauss" | "both" (which classifiers run     *)
(*            over the lines), pats = the read_pattern patterns that will  *)
(*            be called, each [key, mode] of LogFormat's pattern family;   *)
(*   line   : c = character codes of one line of the file the real         *)
(*            readers were given;                                          *)
(*   vib    : set_vib_wavenumbers_from_outcar: cut (Dec), imag, res =      *)
(*            what the real reader assigned (Seq(Dec)), kept = the other   *)
(*            entries of output_structure are as before, raised;           *)
(*   linecall : get_vib_wavenumber_from_line on the text c: res (Seq of    *)
(*            <= 1 Dec), raised = "" or the exception's type name;         *)
(*   missing: set_vib_wavenumbers_from_outcar on a path that does not      *)
(*            exist: raised;                                               *)
(*   greader: fn = zpe | sum | freq | rott | mass | sym: res (Seq(Dec)),   *)
(*            fnum / fden = unit factors taken from pmutt.constants for    *)
(*            the requested units (res * fden = value * fnum; conversion   *)
(*            itself is the subject of C12), isint, raised;                *)
(*   pattern: read_pattern: idx = which declared pattern, group, imm,      *)
(*            kind = "str" | "list", text (codes) or words (Seq(codes)),   *)
(*            raised.                                                      *)
(*                                                                         *)
(* `st` carries the SPECIFICATION's folds (LogFormat, required variant)    *)
(* through the line events; every call event is judged against them.       *)
(*                                                                         *)
(* Clauses (names of the clauses that FAIL on a line are accumulated in    *)
(* TLC register 1; verdicts are total):                                    *)
(*  line     : OutsideQuantifier (a generator error, not a verdict on the  *)
(*             code: the driver turns it into a machinery failure)         *)
(*  vib      : VibRaises, VibCount (as many values as selected lines),     *)
(*             VibValues (the values, in file order), VibKept              *)
(*  linecall : LineRaises, LineValue                                       *)
(*  missing  : MissingFile                                                 *)
(*  greader  : ReaderRaises, ScalarFirst (value of the first line of the   *)
(*             reader), ListCount, ListValues (all lines, file order),     *)
(*             SymIsInt                                                    *)
(*  pattern  : PatternRaises, PatternKind, PatternFirst, PatternNone,      *)
(*             PatternWords; PatternWords_KnownGroupZero instead when the  *)
(*             words are exactly those of group 0 for group >= 1 (known    *)
(*             finding X06-F1, LogFormat's variant "group0")               *)
(***************************************************************************)
EXTENDS LogFormat, TLC, TLCExt, Json, IOUtils

TraceLog == ndJsonDeserialize(IOEnv.TRACE_FILE)
VARIABLES l, st

One == <<1, 0>>
SomeClause(ok, name) == IF ok THEN {} ELSE {name}

St0 == [fam |-> "both", o |-> <<>>, g |-> [r \in Readers |-> <<>>], pats |-> <<>>, p |-> <<>>]

LineClauses(e) ==
   SomeClause(/\ PrintableLine(e.c)
              /\ (st.fam \in {"outcar", "both"} => OutcarInQ(e.c))
              /\ (st.fam \in {"gauss", "both"} => GaussInQ(e.c)), "OutsideQuantifier")

\* ---- set_vib_wavenumbers_from_outcar
VibClauses(e) ==
   IF e.raised # "" THEN {"VibRaises"}
   ELSE LET want == SelectVib("required", st.o, e.cut, e.imag) IN
        SomeClause(Len(e.res) = Len(want), "VibCount")
        \cup SomeClause(Len(e.res) # Len(want) \/ SameNums(want, e.res), "VibValues")
        \cup SomeClause(e.kept, "VibKept")

LineCallClauses(e) ==
   LET w == LineValue(e.c) IN
   CASE w.what = "value" -> SomeClause(e.raised = "", "LineRaises")
                            \cup SomeClause(e.raised # "" \/ (Len(e.res) = 1 /\ SameNum(w.v, e.res[1])), "LineValue")
     [] w.what = "none" -> SomeClause(e.raised = "TypeError", "LineRaises")
     [] OTHER -> {"OutsideQuantifier"}

\* ---- Gaussian readers
\* value v of the text against the result r under the unit factors
ValueOK(v, r, fnum, fden) ==
   IF fnum = One /\ fden = One THEN SameNum(v, r)
   ELSE IsNum(v) /\ Close(Mul(DecOf(v), fnum), Mul(r, fden), 7)
ReaderClauses(e) ==
   IF e.raised # "" THEN {"ReaderRaises"}
   ELSE LET want == st.g[e.fn] IN
        IF e.fn \in ScalarReaders
        THEN IF want = <<>> THEN {"OutsideQuantifier"}
             ELSE SomeClause(Len(e.res) = 1 /\ ValueOK(want[1], e.res[1], e.fnum, e.fden), "ScalarFirst")
                  \cup SomeClause(e.fn # "sym" \/ e.isint, "SymIsInt")
        ELSE SomeClause(Len(e.res) = Len(want), "ListCount")
             \cup SomeClause(Len(e.res) # Len(want)
                             \/ \A k \in 1..Len(want) : ValueOK(want[k], e.res[k], e.fnum, e.fden), "ListValues")

\* ---- read_pattern
PatternClauses(e) ==
   IF e.raised # "" THEN {"PatternRaises"}
   ELSE LET acc == st.p[e.idx] IN
        IF e.imm
        THEN LET w == PatFirst(acc, e.group) IN
             IF w.found THEN SomeClause(e.kind = "str", "PatternKind")
                             \cup SomeClause(e.kind # "str" \/ e.text = w.text, "PatternFirst")
             ELSE SomeClause(e.kind = "list" /\ e.words = <<>>, "PatternNone")
        ELSE SomeClause(e.kind = "list", "PatternKind")
             \cup (IF e.kind # "list" \/ e.words = PatAll("required", acc, e.group) THEN {}
                   \* the known shape X06-F1: exactly the words of group 0 although group >= 1 was asked for
                   ELSE IF e.group >= 1 /\ e.words = PatAll("group0", acc, e.group)
                        THEN {"PatternWords_KnownGroupZero"}
                   ELSE {"PatternWords"})

Clauses(e) ==
   CASE e.ev = "open" -> {}
     [] e.ev = "line" -> LineClauses(e)
     [] e.ev = "vib" -> VibClauses(e)
     [] e.ev = "linecall" -> LineCallClauses(e)
     [] e.ev = "missing" -> SomeClause(e.raised = "FileNotFoundError", "MissingFile")
     [] e.ev = "greader" -> ReaderClauses(e)
     [] e.ev = "pattern" -> PatternClauses(e)
     [] OTHER -> {"UnknownEvent"}

PatRec(p) == [key |-> p[1], mode |-> p[2]]
Step1(e) ==
   CASE e.ev = "open" -> [St0 EXCEPT !.fam = e.fam,
                                     !.pats = [k \in 1..Len(e.pats) |-> PatRec(e.pats[k])],
                                     !.p = [k \in 1..Len(e.pats) |-> Pat0]]
     [] e.ev = "line" ->
          [st EXCEPT !.o = IF st.fam \in {"outcar", "both"} THEN OutcarStep("required", st.o, e.c) ELSE st.o,
                     !.g = IF st.fam \in {"gauss", "both"}
                           THEN [r \in Readers |-> GStep("required", r, st.g[r], e.c)] ELSE st.g,
                     !.p = [k \in 1..Len(st.pats) |-> PatStep(st.p[k], st.pats[k], e.c)]]
     [] OTHER -> st

Init == l = 1 /\ st = St0 /\ TLCSet(1, {})
Next == /\ l <= Len(TraceLog)
        /\ LET e == TraceLog[l]  bad == Clauses(e) IN
             /\ IF bad # {} THEN TLCSet(1, TLCGet(1) \cup {<<e.tid, l, c>> : c \in bad}) ELSE TRUE
             /\ st' = Step1(e)
        /\ l' = l + 1
Spec == Init /\ [][Next]_<<l, st>>
Post == /\ PrintT(<<"FAILS", TLCGet(1)>>)
        /\ PrintT(<<"CONSUMED", TLCGet("stats").diameter - 1>>)
=============================================================================
