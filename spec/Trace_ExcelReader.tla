-------------------------- MODULE Trace_ExcelReader --------------------------
(***************************************************************************)
(* C15 - trace validation of recorded read_excel calls.  One NDJSON line   *)
(* per call:                                                               *)
(*   headers  the header row of the worksheet as written (character codes) *)
(*   rows     the data rows as written: cells [t |-> "e"|"n"|"s", v]       *)
(*   raised   "" or the name of the exception that escaped                 *)
(*   records  what read_excel returned, projected: a sequence of records,  *)
(*            each a sequence of <<key, value>>; values are "n"/"s"        *)
(*            scalars, "l" lists, "d" dictionaries (sequence of <<key,     *)
(*            scalar>>), "v" 7-vectors, "c" classes by qualified name,     *)
(*            "t" date-times, "a" ase.Atoms by formula, "nan" for a missing *)
(*            value and "o" for anything else (booleans arrive as numbers). *)
(*   opt      delimiter, min_frequency_cutoff, include_imaginary and the   *)
(*            modes of the OUTCAR files the sheet names.                    *)
(* The verdict is computed from the sheet alone with the operators of      *)
(* ExcelRecords.tla: Expected(sheet) is what the property requires.         *)
(* Clauses name what differs.  Verdicts are total.                         *)
(***************************************************************************)
EXTENDS ExcelRecords, Json, IOUtils, TLCExt

TraceLog == ndJsonDeserialize(IOEnv.TRACE_FILE)
VARIABLES l, st

Range(s) == {s[i] : i \in 1..Len(s)}
Conv(v) == IF v.t = "d" THEN DictV({<<p[1], p[2]>> : p \in Range(v.v)}) ELSE v
ObsRecord(s) == {<<p[1], Conv(p[2])>> : p \in Range(s)}

SameVal(a, b) == a.t = b.t /\ a.v = b.v
RowEq(ob, ex) == /\ Keys(ob) = Keys(ex)
                 /\ \A k \in Keys(ex) : SameVal(Get(ob, k), Get(ex, k))
KeyOK(ob, ex, k) == (Has(ob, k) <=> Has(ex, k)) /\ (Has(ex, k) /\ Has(ob, k) => SameVal(Get(ob, k), Get(ex, k)))

ObsAtoms(v) == IF v.t \in {"l", "v"} THEN {v.v[k] : k \in 1..Len(v.v)}
               ELSE IF v.t = "d" THEN {p[2] : p \in v.v}
               ELSE IF v.t = "c" THEN {}
               ELSE {v}
RecObsAtoms(rc) == UNION {ObsAtoms(p[2]) : p \in rc}

\* clauses failing on one row whose record differs from the required one
RowClauses(cls, rows, k, ob, ex, opt) ==
   LET row == rows[k]
       n == Len(cls)
       KeysOf(c) == {cls[j].a : j \in {i \in 1..n : cls[i].cls = c}}
       atoms == RecObsAtoms(ob)
       own == RowAtoms(row) \cup DerivedO(cls, row, opt)
       others == UNION {RowAtoms(rows[j]) : j \in (1..Len(rows)) \ {k}}
       explicitMode(key) == \E j \in 1..n : cls[j].cls = "mode" /\ cls[j].a = key /\ ~IsEmpty(row[j])
       allKeys == Keys(ob) \cup Keys(ex)
       Group(key) ==
          IF key \in KeysOf("ordinary") THEN "OrdinaryPassThrough"
          ELSE IF key = T_elements THEN "Composition"
          ELSE IF key = T_atoms THEN "AtomsObject"
          ELSE IF key = T_vib_wavenumbers THEN
               (IF \E j \in 1..n : cls[j].cls = "outcar" /\ ~IsEmpty(row[j]) THEN "VibOutcar" ELSE "VibList")
          ELSE IF key = T_rot_temperatures THEN "RotList"
          ELSE IF key \in KeysOf("list") THEN "ListField"
          ELSE IF key \in KeysOf("dict") THEN "DictField"
          ELSE IF key \in {T_a_low, T_a_high} THEN "NasaArrays"
          ELSE IF key \in ModeKeys /\ explicitMode(key) THEN "ModeModel"
          ELSE IF key \in ModeKeys \cup {T_model, T_n_degrees} THEN
               (IF \E j \in 1..n : cls[j].cls = "statmech" /\ ~IsEmpty(row[j]) THEN "Presets" ELSE "ModeModel")
          ELSE "ExactKeys"
   IN {Group(key) : key \in {q \in allKeys : ~KeyOK(ob, ex, q)}}
      \cup (IF \E a \in atoms : a.t = "nan" THEN {"NoEmptyCells"} ELSE {})
      \cup (IF \E a \in atoms : a \notin own /\ a \in others THEN {"NoLeak"} ELSE {})
      \cup (IF \E a \in atoms : a.t = "s" /\ a.v # Strip(a.v) THEN {"CellTrimmed"} ELSE {})
      \cup (IF \E q \in Keys(ob) : q # Strip(q) THEN {"HeaderTrimmed"} ELSE {})
      \cup (IF Keys(ob) # Keys(ex) THEN {"ExactKeys"} ELSE {})

ReadClauses(e) ==
   LET opt == [delim |-> e.opt.delim, cutoff |-> e.opt.cutoff, imag |-> e.opt.imag,
               files |-> {<<p[1], p[2]>> : p \in Range(e.opt.files)}]
       sheet == [headers |-> e.headers, rows |-> e.rows, opt |-> opt] IN
   IF ~SheetInQuantifier(sheet) THEN {"OutsideQuantifier"}        \* a generator defect, not a verdict
   ELSE IF e.raised # "" THEN {"Raises"}
   ELSE
     LET cls == DocClassesD(e.headers, opt.delim)
         nr == Len(e.rows)
         ex == [k \in 1..nr |-> ExpectedRowO(cls, e.rows[k], opt)]
         ob == [k \in 1..Len(e.records) |-> ObsRecord(e.records[k])]
     IN IF Len(e.records) # nr THEN {"OneRecordPerRow"}
        ELSE IF \A k \in 1..nr : RowEq(ob[k], ex[k]) THEN {}
        ELSE IF /\ \A k \in 1..nr : \E j \in 1..nr : RowEq(ob[k], ex[j])
                /\ \A j \in 1..nr : \E k \in 1..nr : RowEq(ob[k], ex[j])
             THEN {"RowOrder"}
        ELSE UNION {RowClauses(cls, e.rows, k, ob[k], ex[k], opt) : k \in {j \in 1..nr : ~RowEq(ob[j], ex[j])}}

Clauses(e) == IF e.ev = "read" THEN ReadClauses(e) ELSE {"UnknownEvent"}

Init == l = 1 /\ st = 0 /\ TLCSet(1, {})
Next == /\ l <= Len(TraceLog)
        /\ LET e == TraceLog[l]  bad == Clauses(e) IN
             /\ IF bad # {} THEN TLCSet(1, TLCGet(1) \cup {<<e.tid, l, cname>> : cname \in bad}) ELSE TRUE
             /\ st' = st + 1
        /\ l' = l + 1
Spec == Init /\ [][Next]_<<l, st>>
Post == /\ PrintT(<<"FAILS", TLCGet(1)>>)
        /\ PrintT(<<"CONSUMED", TLCGet("stats").diameter - 1>>)
=============================================================================
