---------------------------- MODULE StatMechSig ----------------------------
(***************************************************************************)
(* C01 - the kinds of mode model a species can be assembled from, which    *)
(* keywords each getter of each kind consumes, and which quantities a kind *)
(* does not provide.  Shared by the design model (StatMech.tla) and the    *)
(* trace specification (Trace_StatMech.tla) so that both judge option      *)
(* behaviour (raise_error / raise_warning / include_ZPE) by one table.     *)
(*                                                                         *)
(* "Constant" = pmutt.statmech.ConstantMode (user-set values, no relation  *)
(* between them), "Partial" = a user-written mode object that defines only *)
(* some of the getters (the set `have`), "LSR" = pmutt.statmech.lsr.LSR    *)
(* used as the electronic model.                                           *)
(***************************************************************************)
EXTENDS Integers, Sequences, FiniteSets

Getters == {"q", "Cv", "Cp", "U", "H", "S", "F", "G"}
TransKinds == {"FreeTrans", "Empty", "Constant", "Partial"}
VibKinds == {"Harmonic", "QRRHO", "Einstein", "Debye", "Empty", "Constant", "Partial"}
RotKinds == {"RotMono", "RotLinear", "RotNonlinear", "Empty", "Constant", "Partial"}
ElecKinds == {"GroundState", "LSR", "Empty", "Constant", "Partial"}
NuclKinds == {"EmptyNucl", "Empty", "Constant", "Partial"}

\* kinds whose values are set by the user: no thermodynamic relation between their getters is promised
UserSet(kind) == kind \in {"Constant", "Partial"}
\* kinds with a zero-point energy (method get_ZPE)
HasZPE(kind) == kind \in {"Harmonic", "QRRHO", "Einstein", "Debye"}

\* keywords consumed by each getter of each mode kind (from the method signatures)
Sig(kind, g) ==
   CASE kind = "FreeTrans" -> IF g \in {"q", "S", "F", "G"} THEN {"T", "P"} ELSE {}
     [] kind = "Harmonic" -> IF g = "q" THEN {"T", "include_ZPE"} ELSE {"T"}
     [] kind = "QRRHO" -> IF g = "q" THEN {} ELSE {"T"}
     [] kind \in {"Einstein", "Debye"} -> {"T"}
     [] kind \in {"RotMono", "RotLinear", "RotNonlinear"} -> IF g \in {"q", "S", "F", "G"} THEN {"T"} ELSE {}
     [] kind = "GroundState" -> IF g = "q" THEN {"T", "ignore_q_elec"}
                                ELSE IF g \in {"U", "H", "F", "G"} THEN {"T"} ELSE {}
     [] kind \in {"LSR", "Constant"} -> IF g \in {"U", "H", "F", "G"} THEN {"T"} ELSE {}
     [] kind = "Partial" -> IF g \in {"U", "H", "F", "G"} THEN {"T"} ELSE {}
     [] OTHER -> {}

\* a getter the kind provides but refuses (raises NotImplementedError whatever the options)
Missing(kind, g) == kind = "QRRHO" /\ g = "q"

\* a quantity the kind has no method for (getattr fails): the case raise_error / raise_warning are about.
\* g \in Getters \cup {"ZPE"};  have = the getters a Partial mode defines (ignored for the other kinds)
Lacks(kind, have, g) == IF g = "ZPE" THEN ~HasZPE(kind) ELSE (kind = "Partial" /\ g \notin have)

\* what a lacking mode contributes when raise_error = FALSE
DefaultOf(op) == IF op = "prod" THEN 1 ELSE 0

\* documented outcome of one species call on the modes kinds[1..n] (evaluated in slot order; the first slot
\* that fails decides): a lacking mode fails only under raise_error, a refusing mode always
LackSet(kinds, haves, g) == {k \in 1..Len(kinds) : Lacks(kinds[k], haves[k], g)}
Offending(kinds, haves, g, raiseError) ==
   {k \in 1..Len(kinds) : (raiseError /\ Lacks(kinds[k], haves[k], g)) \/ Missing(kinds[k], g)}
Outcome(kinds, haves, g, raiseError) ==
   LET off == Offending(kinds, haves, g, raiseError) IN
   IF off = {} THEN "value"
   ELSE LET k == CHOOSE i \in off : \A j \in off : i <= j IN
        IF Missing(kinds[k], g) THEN "NotImplementedError" ELSE "AttributeError"
WarnsExpected(lack, raiseError, raiseWarning) == ~raiseError /\ raiseWarning /\ lack # {}
=============================================================================
