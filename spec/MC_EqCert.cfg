\* quick: every matrix of 2-3 species x 2 elements, entries 0..2, up to species order; box -2..2
SPECIFICATION Spec
CONSTANTS
  NS <- NS23
  NE = 2
  MaxEntry = 2
  BoxR = 2
  Sorted = TRUE
  Rule = "full"
INVARIANT CertSound
CHECK_DEADLOCK FALSE
