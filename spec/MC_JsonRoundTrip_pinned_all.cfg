\* the tables of the pinned source, whole state space, every rejected invariant recorded
\* (expected: all seven)
SPECIFICATION RSpec
CONSTANTS
  Variant = "pinned"
  MaxDepth = 1
  MaxLife = 4
  Roots <- AllRoots
INVARIANT RecordRejected
POSTCONDITION PostRejected
CHECK_DEADLOCK FALSE
