\* the rule as found on signatures without keyword-only parameters: it refines the requirement there,
\* i.e. keyword-only parameters are the only place where co_varnames[:co_argcount] and the requirement differ
SPECIFICATION Spec
CONSTANTS
  Worlds <- RouteNoKwonly
  V <- VAsFound
INVARIANT TypeOK
INVARIANT RouteFaithful
INVARIANT NeverUnexpected
INVARIANT NothingDropped
INVARIANT ExpectedFaithful
INVARIANT AllowedFaithful
INVARIANT CollectInv
INVARIANT CallerUntouched
CHECK_DEADLOCK FALSE
