--------------------------- MODULE Trace_CtiWrap ---------------------------
(***************************************************************************)
(* C18 (wrapping) - trace validation of recorded calls of the real         *)
(* pmutt.io.cantera.obj_to_cti.  One NDJSON line per call:                 *)
(*   ev     "wrap"                                                         *)
(*   toks   the tokens of the value as the caller built it, in order, as   *)
(*          character codes (list/tuple: the elements; set: the elements   *)
(*          in the set's iteration order; dict: "key:value"; str: words)   *)
(*   before, after  the same projection of the value OBJECT read just      *)
(*          before and just after this call.  A trace id is a history of   *)
(*          calls on one object (the same list wrapped again, at other     *)
(*          widths; a phase written twice), so a call that alters the      *)
(*          caller's value fails InputUntouched on that line and           *)
(*          TokensPreserved on the later lines.                            *)
(*   ll, ml line_len and max_line_len                                      *)
(*   raised "" or the exception class name                                 *)
(*   out    the returned text as character codes                           *)
(* The text is split into lines and words and stripped of its delimiters   *)
(* here (CtiLayout!CtiLayoutOf), and judged by CtiLayout!WrapVerdict, the  *)
(* operator the design model CtiWrap.tla is checked against.  `st` counts  *)
(* the lines of the current trace id.  Verdicts are total.                 *)
(***************************************************************************)
EXTENDS CtiLayout, TLC, TLCExt, Json, IOUtils

TraceLog == ndJsonDeserialize(IOEnv.TRACE_FILE)
VARIABLES l, st

Clauses(e) ==
   CASE e.ev = "wrap" ->
          (IF e.before = e.toks /\ e.after = e.toks THEN {} ELSE {"InputUntouched"})
          \cup
          (IF e.raised # "" THEN {"Raises"}
           ELSE IF ~CtiFramed(e.out) THEN {"Delimited"}
                ELSE (IF CtiDelimited(e.out) THEN {} ELSE {"Delimited"})      \* a stray quote inside
                     \cup WrapVerdict(e.toks, e.ll, e.ml, TRUE, CtiLayoutOf(e.out)))
     [] OTHER -> {"UnknownEvent"}

Step(e) == IF st.tid = e.tid THEN [tid |-> e.tid, n |-> st.n + 1] ELSE [tid |-> e.tid, n |-> 1]

Init == l = 1 /\ st = [tid |-> -1, n |-> 0] /\ TLCSet(1, {})
Next == /\ l <= Len(TraceLog)
        /\ LET e == TraceLog[l]  bad == Clauses(e) IN
             /\ IF bad # {} THEN TLCSet(1, TLCGet(1) \cup {<<e.tid, l, c>> : c \in bad}) ELSE TRUE
             /\ st' = Step(e)
        /\ l' = l + 1
Spec == Init /\ [][Next]_<<l, st>>
Post == /\ PrintT(<<"FAILS", TLCGet(1)>>)
        /\ PrintT(<<"CONSUMED", TLCGet("stats").diameter - 1>>)
=============================================================================
