----------------------------- MODULE MC_Balance -----------------------------
(***************************************************************************)
(* C14 (D) - design model of the element-balance check.  One behaviour =   *)
(* one reaction of the case set; action Add folds one <<element, count>>   *)
(* of one species into the running Counter of its side (the loop of        *)
(* _count_elements).  At the end the Counter verdict must equal Balanced.  *)
(* Coefficients are tenths {0.1 .. 3}; species CH2, C3H6, C2H4, H2, C, O2, *)
(* H2O and "CH2 with O:0" (a zero entry).                                  *)
(***************************************************************************)
EXTENDS Balance, TLC
CONSTANTS Variant, Scope
VARIABLES r, side, j, m, acc
vars == <<r, side, j, m, acc>>

SideOf(s) == CASE s = "re" -> r.re [] s = "pr" -> r.pr [] s = "ts" -> r.ts
NextSide(s) == CASE s = "re" -> "pr" [] s = "pr" -> (IF r.hasTS THEN "ts" ELSE "end") [] s = "ts" -> "end"
Init == /\ InBalanceCases(r, Scope) /\ side = "re" /\ j = 1 /\ m = 1
        /\ acc = [re |-> {}, pr |-> {}, ts |-> {}]
Done == side = "end"
Add == /\ ~Done
       /\ LET sd == SideOf(side) IN
          IF j > Len(sd) THEN /\ side' = NextSide(side) /\ j' = 1 /\ m' = 1 /\ UNCHANGED acc
          ELSE IF m > Len(sd[j].comp) THEN /\ j' = j + 1 /\ m' = 1 /\ UNCHANGED <<side, acc>>
          ELSE /\ acc' = [acc EXCEPT ![side] = CAdd(Variant, @, sd[j].comp[m][1], sd[j].co * sd[j].comp[m][2])]
               /\ m' = m + 1 /\ UNCHANGED <<side, j>>
       /\ UNCHANGED r
Next == Add
Spec == Init /\ [][Next]_vars

WellFormed == \A s \in {"re", "pr", "ts"} : \A n \in 1..Len(SideOf(s)) : CompOK(SideOf(s)[n].comp)
Requirement == Done => (CVerdict(acc.re, acc.pr, acc.ts, r.hasTS) <=> Balanced(r))
\* the running Counter is the exact partial total of what has been folded so far
Partial == ~Done /\ side = "re" =>
             \A el \in ElementsOfSide(r.re) :
                CGet(acc.re, el) = Total(SubSeq(r.re, 1, j - 1), el)
                                   + (IF j <= Len(r.re)
                                      THEN r.re[j].co * CountIn(SubSeq(r.re[j].comp, 1, m - 1), el) ELSE 0)
\* vacuity guard: the case set contains balanced and unbalanced reactions, with and without TS
ASSUME Balanced(Rxn(<<Sp(1, C3H6)>>, <<>>, <<Sp(3, CH2)>>))
ASSUME Balanced(Rxn(<<Sp(10, CH2)>>, <<Sp(5, C2H4)>>, <<Sp(10, CH2z)>>))
ASSUME ~Balanced(Rxn(<<Sp(10, CH2)>>, <<Sp(10, C3H6)>>, <<Sp(10, CH2z)>>))
ASSUME Balanced(Rxn(<<Sp(10, H2O)>>, <<>>, <<Sp(10, H2), Sp(5, O2)>>))
=============================================================================
