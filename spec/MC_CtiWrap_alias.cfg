\* wrong algorithm (the caller's list object is used as the token list and the closing
\* marker is appended to it): EXPECTED TO BE REJECTED - the first call changes the caller's value
SPECIFICATION Spec
CONSTANTS
  TokLens <- LenSet
  MaxToks = 3
  LineLens <- WidthSet
  MaxLineLens <- WidthSet
  Variant = "alias"
INVARIANT TypeOK
PROPERTY InputUntouched
CHECK_DEADLOCK FALSE
