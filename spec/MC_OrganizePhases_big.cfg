\* exhaustive design model (thorough, 1 of 2): every layout of <= 3 phases x 3 species x <= 3 reactions
\* x <= 2 interactions x species given/omitted, calls on the same objects with the same or rebuilt
\* descriptions
SPECIFICATION Spec
CONSTANTS
  MaxPhases = 3
  SpCounts <- Sp3
  MaxRx = 3
  MaxIa = 2
  MaxCalls = 3
  Variant = "fixed"
  Scope = "narrow"
INVARIANT QuantifierOK
INVARIANT NeverRaises
INVARIANT PhasesOK
INVARIANT SpeciesOnce
INVARIANT SpeciesWhereNamed
INVARIANT ReactionOnce
INVARIANT ReactionAtHome
INVARIANT InteractionOnce
INVARIANT InteractionWithSpecies
INVARIANT NoInvention
INVARIANT ResultIsRequired
INVARIANT CallerDescriptionsUntouched
VIEW View
CHECK_DEADLOCK FALSE
