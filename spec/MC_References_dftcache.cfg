\* EXPECTED TO BE REJECTED: the "cached model enthalpies" variant (key (name, T_ref)) on a refit with two
\* references sharing a key (construct K1; append K2 - both unnamed, 300 K; fit)
SPECIFICATION Spec
CONSTANTS
  ND = 2
  RefKinds <- BehKinds
  InsKinds <- BehIns
  ExtSets <- BehExt
  InitSets <- BehInit
  MaxRefs = 3
  MaxOps = 2
  Variant = "explicit"
  Steps <- MCSteps
  Algo = "dftcache"
  Garbage = 1000
  Acts = {"setitem", "clear"}
  GivenSets <- NoGiven
  Record = FALSE
  Temps = {200, 1000}
INVARIANT NormalEquations
VIEW View
CHECK_DEADLOCK FALSE
