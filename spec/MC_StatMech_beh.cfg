\* every VibCache behaviour of a small instance, printed for replay
SPECIFICATION CSpec
CONSTANTS
  WN <- MCWNsmall
  SUBS <- MCSUBS
  MaxLenW = 2
  MaxOps = 2
INVARIANT EmitBehaviours
CHECK_DEADLOCK FALSE
