\* (D) second-use histories: one in-place edit (a coefficient, a species, re-assignment through the
\* setter) of 6 reactions x 3 dictionaries, then every public call: EditedEqualsFresh
SPECIFICATION Spec
CONSTANTS
  Rxns <- RxnSmall
  KwParts <- KwSmall
  ProbeNames <- MCProbeNames
  ProbeBlocks <- MCProbeBlocks
  Variant = "asbuilt"
  MaxCalls = 2
  MaxEdits = 1
  EditCoefs <- MCEditCoefs
  EditNames <- MCEditNames
INVARIANT TypeOK
INVARIANT EditedEqualsFresh
INVARIANT ResultOK
INVARIANT ActWithoutTSRefused
PROPERTY CallerUntouched
CHECK_DEADLOCK FALSE
