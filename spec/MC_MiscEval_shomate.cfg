\* Shomate.get_* as pinned (mix array of the last T added unsummed): EXPECTED TO BE REJECTED
INIT DInit
NEXT DNext
CONSTANTS
  MaxLen = 2
  EvalAlg = "lastbroadcast"
  Extra = FALSE
  AlgFams = {"Shomate"}
CHECK_DEADLOCK FALSE
