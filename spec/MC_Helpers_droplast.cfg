\* EXPECTED TO BE REJECTED (sensitivity): the expected arguments lose their last name
SPECIFICATION Spec
CONSTANTS
  Worlds <- RouteQuick
  V <- VDropLast
INVARIANT TypeOK
INVARIANT RouteFaithful
INVARIANT NeverUnexpected
INVARIANT NothingDropped
INVARIANT ExpectedFaithful
INVARIANT AllowedFaithful
INVARIANT CollectInv
INVARIANT CallerUntouched
CHECK_DEADLOCK FALSE
