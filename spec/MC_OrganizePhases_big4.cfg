\* exhaustive design model (thorough, 2 of 2): every layout of <= 3 phases x 4 species x <= 1 reaction
\* x <= 1 interaction x species given/omitted, calls on the same objects with the same or rebuilt
\* descriptions
SPECIFICATION Spec
CONSTANTS
  MaxPhases = 3
  SpCounts <- Sp4
  MaxRx = 1
  MaxIa = 1
  MaxCalls = 3
  Variant = "fixed"
  Scope = "narrow"
INVARIANT QuantifierOK
INVARIANT NeverRaises
INVARIANT PhasesOK
INVARIANT SpeciesOnce
INVARIANT SpeciesWhereNamed
INVARIANT ReactionOnce
INVARIANT ReactionAtHome
INVARIANT InteractionOnce
INVARIANT InteractionWithSpecies
INVARIANT NoInvention
INVARIANT ResultIsRequired
INVARIANT CallerDescriptionsUntouched
VIEW View
CHECK_DEADLOCK FALSE
