\* required behaviour (quick): every chain of <= 6 round trips over <= 7 live objects
SPECIFICATION Spec
CONSTANTS
  Workspaces <- MCWorkspaces
  MaxObjs = 7
  MaxOps = 6
  RoundMode = "nearest"
  KeepClass = TRUE
  LoseFlag = FALSE
  ThermdatAny = FALSE
  ThermdatOrder = "kept"
  RecordWs = FALSE
INVARIANT TypeOK
INVARIANT ClassSound
INVARIANT NineDigits
INVARIANT RoundIdempotent
INVARIANT PAdjCount
INVARIANT FlagKept
INVARIANT CovKept
INVARIANT SameFamily
PROPERTY ResultOrigin
PROPERTY PrecMonotone
PROPERTY SecondTripSame
PROPERTY OthersUntouched
VIEW View
CHECK_DEADLOCK FALSE
