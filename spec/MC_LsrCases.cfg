\* case generation + constant-level theorems; the state space is one trivial state
INIT DummyInit
NEXT DummyNext
CONSTANTS
  Slopes <- MCSlopes2
  Icpts <- MCIcpts2
  Energies <- MCEnergies2
  Temps = {250, 500}
  MaxN = 2
  MaxOps = 0
  Variant = "required"
  Kinds = {"lsr", "ext"}
  Stoichs = {2}
  ExtParts <- MCExtParts
CHECK_DEADLOCK FALSE
