---- MODULE MC_RxnString_TTrace_1790573160 ----
EXTENDS Sequences, TLCExt, Toolbox, Naturals, TLC, MC_RxnString

_expression ==
    LET MC_RxnString_TEExpression == INSTANCE MC_RxnString_TEExpression
    IN MC_RxnString_TEExpression!expression
----

_trace ==
    LET MC_RxnString_TETrace == INSTANCE MC_RxnString_TETrace
    IN MC_RxnString_TETrace!trace
----

_inv ==
    ~(
        TLCGet("level") = Len(_TETrace)
        /\
        cs = ([spd |-> <<43>>, rxd |-> <<61>>, kind |-> "print", r |-> [re |-> <<[nm |-> <<65>>, co |-> <<1, 999999999, 999999800>>]>>, ts |-> <<>>, pr |-> <<[nm |-> <<66, 50>>, co |-> <<1, 0, 0>>]>>], d |-> 0, space |-> FALSE, pad |-> <<0, 0, 0>>])
        /\
        q = ([mode |-> "Start", ip |-> <<>>, fp |-> <<>>, nm |-> <<>>])
        /\
        pcs = (<<[side |-> "re", txt |-> <<49, 65>>], [side |-> "pr", txt |-> <<66, 50>>]>>)
        /\
        i = (1)
        /\
        k = (3)
        /\
        out = ([re |-> <<[n |-> 1, nm |-> <<65>>, co |-> <<1, 0, 0>>]>>, ts |-> <<>>, pr |-> <<[n |-> 1, nm |-> <<66, 50>>, co |-> <<1, 0, 0>>]>>, hasTS |-> FALSE])
    )
----

_init ==
    /\ i = _TETrace[1].i
    /\ k = _TETrace[1].k
    /\ out = _TETrace[1].out
    /\ q = _TETrace[1].q
    /\ cs = _TETrace[1].cs
    /\ pcs = _TETrace[1].pcs
----

_next ==
    /\ \E i,j \in DOMAIN _TETrace:
        /\ \/ /\ j = i + 1
              /\ i = TLCGet("level")
        /\ i  = _TETrace[i].i
        /\ i' = _TETrace[j].i
        /\ k  = _TETrace[i].k
        /\ k' = _TETrace[j].k
        /\ out  = _TETrace[i].out
        /\ out' = _TETrace[j].out
        /\ q  = _TETrace[i].q
        /\ q' = _TETrace[j].q
        /\ cs  = _TETrace[i].cs
        /\ cs' = _TETrace[j].cs
        /\ pcs  = _TETrace[i].pcs
        /\ pcs' = _TETrace[j].pcs

\* Uncomment the ASSUME below to write the states of the error trace
\* to the given file in Json format. Note that you can pass any tuple
\* to `JsonSerialize`. For example, a sub-sequence of _TETrace.
    \* ASSUME
    \*     LET J == INSTANCE Json
    \*         IN J!JsonSerialize("MC_RxnString_TTrace_1790573160.json", _TETrace)

=============================================================================

 Note that you can extract this module `MC_RxnString_TEExpression`
  to a dedicated file to reuse `expression` (the module in the 
  dedicated `MC_RxnString_TEExpression.tla` file takes precedence 
  over the module `MC_RxnString_TEExpression` below).

---- MODULE MC_RxnString_TEExpression ----
EXTENDS Sequences, TLCExt, Toolbox, Naturals, TLC, MC_RxnString

expression == 
    [
        \* To hide variables of the `MC_RxnString` spec from the error trace,
        \* remove the variables below.  The trace will be written in the order
        \* of the fields of this record.
        i |-> i
        ,k |-> k
        ,out |-> out
        ,q |-> q
        ,cs |-> cs
        ,pcs |-> pcs
        
        \* Put additional constant-, state-, and action-level expressions here:
        \* ,_stateNumber |-> _TEPosition
        \* ,_iUnchanged |-> i = i'
        
        \* Format the `i` variable as Json value.
        \* ,_iJson |->
        \*     LET J == INSTANCE Json
        \*     IN J!ToJson(i)
        
        \* Lastly, you may build expressions over arbitrary sets of states by
        \* leveraging the _TETrace operator.  For example, this is how to
        \* count the number of times a spec variable changed up to the current
        \* state in the trace.
        \* ,_iModCount |->
        \*     LET F[s \in DOMAIN _TETrace] ==
        \*         IF s = 1 THEN 0
        \*         ELSE IF _TETrace[s].i # _TETrace[s-1].i
        \*             THEN 1 + F[s-1] ELSE F[s-1]
        \*     IN F[_TEPosition - 1]
    ]

=============================================================================



Parsing and semantic processing can take forever if the trace below is long.
 In this case, it is advised to uncomment the module below to deserialize the
 trace from a generated binary file.

\*
\*---- MODULE MC_RxnString_TETrace ----
\*EXTENDS IOUtils, TLC, MC_RxnString
\*
\*trace == IODeserialize("MC_RxnString_TTrace_1790573160.bin", TRUE)
\*
\*=============================================================================
\*

---- MODULE MC_RxnString_TETrace ----
EXTENDS TLC, MC_RxnString

trace == 
    <<
    ([cs |-> [spd |-> <<43>>, rxd |-> <<61>>, kind |-> "print", r |-> [re |-> <<[nm |-> <<65>>, co |-> <<1, 999999999, 999999800>>]>>, ts |-> <<>>, pr |-> <<[nm |-> <<66, 50>>, co |-> <<1, 0, 0>>]>>], d |-> 0, space |-> FALSE, pad |-> <<0, 0, 0>>],q |-> [mode |-> "Start", ip |-> <<>>, fp |-> <<>>, nm |-> <<>>],pcs |-> <<[side |-> "re", txt |-> <<49, 65>>], [side |-> "pr", txt |-> <<66, 50>>]>>,i |-> 1,k |-> 1,out |-> [re |-> <<>>, ts |-> <<>>, pr |-> <<>>, hasTS |-> FALSE]]),
    ([cs |-> [spd |-> <<43>>, rxd |-> <<61>>, kind |-> "print", r |-> [re |-> <<[nm |-> <<65>>, co |-> <<1, 999999999, 999999800>>]>>, ts |-> <<>>, pr |-> <<[nm |-> <<66, 50>>, co |-> <<1, 0, 0>>]>>], d |-> 0, space |-> FALSE, pad |-> <<0, 0, 0>>],q |-> [mode |-> "Int", ip |-> <<49>>, fp |-> <<>>, nm |-> <<>>],pcs |-> <<[side |-> "re", txt |-> <<49, 65>>], [side |-> "pr", txt |-> <<66, 50>>]>>,i |-> 2,k |-> 1,out |-> [re |-> <<>>, ts |-> <<>>, pr |-> <<>>, hasTS |-> FALSE]]),
    ([cs |-> [spd |-> <<43>>, rxd |-> <<61>>, kind |-> "print", r |-> [re |-> <<[nm |-> <<65>>, co |-> <<1, 999999999, 999999800>>]>>, ts |-> <<>>, pr |-> <<[nm |-> <<66, 50>>, co |-> <<1, 0, 0>>]>>], d |-> 0, space |-> FALSE, pad |-> <<0, 0, 0>>],q |-> [mode |-> "Name", ip |-> <<49>>, fp |-> <<>>, nm |-> <<65>>],pcs |-> <<[side |-> "re", txt |-> <<49, 65>>], [side |-> "pr", txt |-> <<66, 50>>]>>,i |-> 3,k |-> 1,out |-> [re |-> <<>>, ts |-> <<>>, pr |-> <<>>, hasTS |-> FALSE]]),
    ([cs |-> [spd |-> <<43>>, rxd |-> <<61>>, kind |-> "print", r |-> [re |-> <<[nm |-> <<65>>, co |-> <<1, 999999999, 999999800>>]>>, ts |-> <<>>, pr |-> <<[nm |-> <<66, 50>>, co |-> <<1, 0, 0>>]>>], d |-> 0, space |-> FALSE, pad |-> <<0, 0, 0>>],q |-> [mode |-> "Start", ip |-> <<>>, fp |-> <<>>, nm |-> <<>>],pcs |-> <<[side |-> "re", txt |-> <<49, 65>>], [side |-> "pr", txt |-> <<66, 50>>]>>,i |-> 1,k |-> 2,out |-> [re |-> <<[n |-> 1, nm |-> <<65>>, co |-> <<1, 0, 0>>]>>, ts |-> <<>>, pr |-> <<>>, hasTS |-> FALSE]]),
    ([cs |-> [spd |-> <<43>>, rxd |-> <<61>>, kind |-> "print", r |-> [re |-> <<[nm |-> <<65>>, co |-> <<1, 999999999, 999999800>>]>>, ts |-> <<>>, pr |-> <<[nm |-> <<66, 50>>, co |-> <<1, 0, 0>>]>>], d |-> 0, space |-> FALSE, pad |-> <<0, 0, 0>>],q |-> [mode |-> "Name", ip |-> <<>>, fp |-> <<>>, nm |-> <<66>>],pcs |-> <<[side |-> "re", txt |-> <<49, 65>>], [side |-> "pr", txt |-> <<66, 50>>]>>,i |-> 2,k |-> 2,out |-> [re |-> <<[n |-> 1, nm |-> <<65>>, co |-> <<1, 0, 0>>]>>, ts |-> <<>>, pr |-> <<>>, hasTS |-> FALSE]]),
    ([cs |-> [spd |-> <<43>>, rxd |-> <<61>>, kind |-> "print", r |-> [re |-> <<[nm |-> <<65>>, co |-> <<1, 999999999, 999999800>>]>>, ts |-> <<>>, pr |-> <<[nm |-> <<66, 50>>, co |-> <<1, 0, 0>>]>>], d |-> 0, space |-> FALSE, pad |-> <<0, 0, 0>>],q |-> [mode |-> "Name", ip |-> <<>>, fp |-> <<>>, nm |-> <<66, 50>>],pcs |-> <<[side |-> "re", txt |-> <<49, 65>>], [side |-> "pr", txt |-> <<66, 50>>]>>,i |-> 3,k |-> 2,out |-> [re |-> <<[n |-> 1, nm |-> <<65>>, co |-> <<1, 0, 0>>]>>, ts |-> <<>>, pr |-> <<>>, hasTS |-> FALSE]]),
    ([cs |-> [spd |-> <<43>>, rxd |-> <<61>>, kind |-> "print", r |-> [re |-> <<[nm |-> <<65>>, co |-> <<1, 999999999, 999999800>>]>>, ts |-> <<>>, pr |-> <<[nm |-> <<66, 50>>, co |-> <<1, 0, 0>>]>>], d |-> 0, space |-> FALSE, pad |-> <<0, 0, 0>>],q |-> [mode |-> "Start", ip |-> <<>>, fp |-> <<>>, nm |-> <<>>],pcs |-> <<[side |-> "re", txt |-> <<49, 65>>], [side |-> "pr", txt |-> <<66, 50>>]>>,i |-> 1,k |-> 3,out |-> [re |-> <<[n |-> 1, nm |-> <<65>>, co |-> <<1, 0, 0>>]>>, ts |-> <<>>, pr |-> <<[n |-> 1, nm |-> <<66, 50>>, co |-> <<1, 0, 0>>]>>, hasTS |-> FALSE]])
    >>
----


=============================================================================

---- CONFIG MC_RxnString_TTrace_1790573160 ----
CONSTANTS
    Variant = "trunc"
    Families = { "A" }

INVARIANT
    _inv

CHECK_DEADLOCK
    \* CHECK_DEADLOCK off because of PROPERTY or INVARIANT above.
    FALSE

INIT
    _init

NEXT
    _next

CONSTANT
    _TETrace <- _trace

ALIAS
    _expression
=============================================================================
\* Generated on Mon Sep 28 05:26:45 UTC 2026