----------------------------- MODULE Trace_Lsr -----------------------------
(***************************************************************************)
(* X07 - trace validation of recorded lives of LSR / ExtendedLSR objects.  *)
(* One NDJSON line per library call; numbers are Dec <<m, e>> (Dec2 in the *)
(* round-trip line).  `st` is the abstract object of Lsr.tla carried       *)
(* between the lines of one trace id: slopes `as`, intercept `b`, and the  *)
(* last evaluation (energy U in kcal/mol, temperature T), plus the call    *)
(* that happened since (`pend`), so that the action properties of the      *)
(* design model (TIndependent, LinearSlope, LinearIcpt, RoundTripKeeps)    *)
(* are judged between consecutive observations of the real object.         *)
(*                                                                         *)
(*  construct : kind, ok, as, b                                            *)
(*  float     : a part given as a number: ok, val (the number), rep (what  *)
(*              the species / reaction made of it reports, in kcal/mol)    *)
(*  set       : attr in slope | slope_at | intercept | reaction | surf |   *)
(*              gas, i, new, ok                                            *)
(*  eval      : T, the documented meaning of the parts at T (dE, Es, Eg:   *)
(*              the number given, or what the given object itself reports  *)
(*              through get_delta_E / get_E, else get_delta_H / get_H),    *)
(*              ndE / nEs / nEg (the part was given as a number), tconst   *)
(*              (every part has a T-independent energy), oRT =             *)
(*              <<U,H,F,G>>/RT, zero = <<S/R, Cv/R, Cp/R, S, Cv, Cp>>,     *)
(*              Ru = R(units), val = <<U,H,F,G>> in units, ok, fin         *)
(*  sum       : ExtendedLSR only: energies of the LSRs of the terms (zero  *)
(*              intercept) at the temperature of the last evaluation       *)
(*  roundtrip : ok, cls, as1/b1 before and as2/b2 after (Dec2), notes      *)
(*  replay    : got, want, wantnum (only when the replay comparison failed) *)
(* Verdicts are total: failing clause names are accumulated in TLC         *)
(* register 1 and printed by the postcondition.                            *)
(***************************************************************************)
EXTENDS Dec2, TLC, TLCExt, Json, IOUtils

TraceLog == ndJsonDeserialize(IOEnv.TRACE_FILE)
VARIABLES l, st

\* R in kcal/mol/K as documented by pmutt.constants.R ("kcal/mol/K ... 1.9872036e-3")
RKcal == <<19872036, -10>>

\* The as-found route of a number: kcal/mol -> eV by convert_unit (table entries kcal/mol = 0.000239006,
\* eV/molecule = 6.242e18 / 6.02214086e23), back by R('kcal/mol/K') / R('eV/K') = 1.9872036e-3 / 8.6173303e-5.
\* A value that is off by exactly this factor is the known finding X07-F2 (clauses *_KnownTableDrift);
\* any other deviation keeps the plain clause name.
Drift == <<100007755, -8>>
ASSUME DriftIsTheTableRoute ==
   Close(Mul(Mul(Drift, <<239006, -9>>), Mul(<<602214086, 15>>, <<86173303, -12>>)),
         Mul(<<6242, 15>>, RKcal), 7)
Dr(x, isnum) == IF isnum THEN Mul(x, Drift) ELSE x

SeqSet(s) == {s[i] : i \in 1..Len(s)}
NoSt == [kind |-> "none", as |-> <<>>, b |-> Zero, has |-> FALSE, U |-> Zero, T |-> Zero,
         tconst |-> FALSE, pend |-> "none", pi |-> 0, pold |-> Zero, pnew |-> Zero]

\* ---- construct
ConstructClauses(e) == IF e.ok THEN {} ELSE {"ConstructRaises"}

\* ---- float: a number stands for the energy it states (kcal/mol)
FloatClauses(e) ==
   IF ~e.ok THEN {"FloatRaises"} ELSE
   IF (IF IsZero(e.val) THEN IsZero(e.rep) ELSE Close(e.val, e.rep, 7)) THEN {}
   ELSE IF ~IsZero(e.val) /\ Close(Mul(e.val, Drift), e.rep, 7) THEN {"FloatMeansEnergy_KnownTableDrift"}
   ELSE {"FloatMeansEnergy"}

\* ---- eval
UKcal(e) == Mul(Mul(e.oRT[1], RKcal), e.T)
Shape(e) == Len(e.dE) = Len(st.as) /\ Len(e.Es) = Len(st.as) /\ Len(e.Eg) = Len(st.as)
             /\ Len(e.ndE) = Len(st.as) /\ Len(e.nEs) = Len(st.as) /\ Len(e.nEg) = Len(st.as)
             /\ Len(e.oRT) = 4 /\ Len(e.val) = 4 /\ Len(e.zero) = 6
EvalClauses(e) ==
   IF ~e.ok THEN {"EvalRaises"}
   ELSE IF ~e.fin THEN {"Finite"}
   ELSE IF ~Shape(e) THEN {"Shape"}
   ELSE
   LET n == Len(st.as)
       terms == [i \in 1..n |-> Mul(st.as[i], e.dE[i])]
       all == terms \o e.Es \o e.Eg \o <<st.b>>
       rhs == SumSeq(all)
       \* the same with every part given as a number sent through the as-found table route
       allD == [i \in 1..n |-> Dr(terms[i], e.ndE[i])] \o [i \in 1..n |-> Dr(e.Es[i], e.nEs[i])]
               \o [i \in 1..n |-> Dr(e.Eg[i], e.nEg[i])] \o <<st.b>>
       anynum == \E i \in 1..n : e.ndE[i] \/ e.nEs[i] \/ e.nEg[i]
       u == UKcal(e)
       dU == Sub(u, st.U)
       same == e.tconst /\ st.tconst
   IN (IF CloseIn(u, rhs, SeqSet(all), 6) THEN {}
       ELSE IF anynum /\ CloseIn(u, SumSeq(allD), SeqSet(allD), 6) THEN {"Relation_KnownTableDrift"}
       ELSE {"Relation"})
      \cup (IF \A q \in 2..4 : Close(e.oRT[q], e.oRT[1], 8) THEN {} ELSE {"FourEqual"})
      \cup (IF \A q \in 1..6 : IsZero(e.zero[q]) THEN {} ELSE {"NoEntropy"})
      \cup (IF \A q \in 1..4 : Close(e.val[q], Mul(Mul(e.oRT[q], e.Ru), e.T), 7) THEN {} ELSE {"Units"})
      \cup (IF st.has /\ st.pend = "none" /\ same /\ ~Close(u, st.U, 7) THEN {"TIndependent"} ELSE {})
      \cup (IF st.has /\ st.pend = "slope" /\ same
            THEN LET sc == {u, st.U, Mul(st.pnew, e.dE[st.pi]), Mul(st.pold, e.dE[st.pi])}
                     step == Mul(Sub(st.pnew, st.pold), e.dE[st.pi]) IN
                 IF CloseIn(dU, step, sc, 6) THEN {}
                 ELSE IF e.ndE[st.pi] /\ CloseIn(dU, Mul(step, Drift), sc, 6) THEN {"LinearSlope_KnownTableDrift"}
                 ELSE {"LinearSlope"}
            ELSE {})
      \cup (IF st.has /\ st.pend = "intercept" /\ same
               /\ ~CloseIn(dU, Sub(st.pnew, st.pold), {u, st.U, st.pnew, st.pold}, 6)
            THEN {"LinearIcpt"} ELSE {})
      \cup (IF st.has /\ st.pend = "roundtrip" /\ (same \/ e.T = st.T) /\ ~Close(u, st.U, 8)
            THEN {"RoundTripValue"} ELSE {})

\* ---- sum: an ExtendedLSR is the sum of the LSRs of its terms plus its intercept
SumClauses(e) ==
   IF ~e.ok THEN {"EvalRaises"}
   ELSE IF ~(st.has /\ st.pend = "none" /\ Len(e.terms) = Len(st.as)) THEN {"Shape"}
   ELSE LET all == e.terms \o <<st.b>> IN
        IF CloseIn(st.U, SumSeq(all), SeqSet(all), 6) THEN {} ELSE {"ExtIsSumOfLsr"}

\* ---- replay: the driver found the energy off TLC's rational on the 2^-20 grid: got, want, wantnum (the share
\*      of `want` that comes from parts given as numbers); the name of the verdict is decided here
ReplayClauses(e) ==
   LET sc == {e.want, e.wantnum}
       drifted == Add(Sub(e.want, e.wantnum), Mul(e.wantnum, Drift)) IN
   IF ~IsZero(e.wantnum) /\ CloseIn(e.got, drifted, sc, 7) /\ ~CloseIn(e.got, e.want, sc, 7)
   THEN {"ReplayState_KnownTableDrift"} ELSE {"ReplayState"}

\* ---- set
SetClauses(e) == IF e.ok THEN {} ELSE {"SetRaises"}

\* ---- roundtrip
RoundTripClauses(e) ==
   IF ~e.ok THEN {"RoundTripRaises"}
   ELSE (IF e.cls THEN {} ELSE {"RoundTripClass"})
        \cup (IF /\ Len(e.as2) = Len(e.as1) /\ Len(e.as1) = Len(st.as)
                 /\ \A i \in 1..Len(e.as1) : Equal2(e.as2[i], e.as1[i]) /\ Close(ToDec(e.as1[i]), st.as[i], 8)
                 /\ Equal2(e.b2, e.b1) /\ Close(ToDec(e.b1), st.b, 8)
                 /\ e.notes
              THEN {} ELSE {"RoundTripAttrs"})

Clauses(e) ==
   CASE e.ev = "construct" -> ConstructClauses(e)
     [] e.ev = "float" -> FloatClauses(e)
     [] e.ev = "eval" -> EvalClauses(e)
     [] e.ev = "sum" -> SumClauses(e)
     [] e.ev = "set" -> SetClauses(e)
     [] e.ev = "replay" -> ReplayClauses(e)
     [] e.ev = "roundtrip" -> RoundTripClauses(e)
     [] OTHER -> {"UnknownEvent"}

Step(e) ==
   CASE e.ev = "construct" -> [NoSt EXCEPT !.kind = e.kind, !.as = e.as, !.b = e.b]
     [] e.ev = "eval" -> IF e.ok /\ e.fin /\ Shape(e)
                         THEN [st EXCEPT !.has = TRUE, !.U = UKcal(e), !.T = e.T, !.tconst = e.tconst, !.pend = "none"]
                         ELSE [st EXCEPT !.has = FALSE, !.pend = "none"]
     [] e.ev = "set" ->
          IF ~e.ok THEN [st EXCEPT !.has = FALSE]
          ELSE IF e.attr \in {"slope", "slope_at"} /\ e.i \in 1..Len(st.as)
          THEN [st EXCEPT !.as[e.i] = e.new, !.pi = e.i, !.pold = st.as[e.i], !.pnew = e.new,
                          !.pend = IF st.pend = "none" THEN "slope" ELSE "mixed"]
          ELSE IF e.attr = "intercept"
          THEN [st EXCEPT !.b = e.new, !.pold = st.b, !.pnew = e.new,
                          !.pend = IF st.pend = "none" THEN "intercept" ELSE "mixed"]
          ELSE [st EXCEPT !.pend = "mixed"]
     [] e.ev = "roundtrip" -> [st EXCEPT !.pend = IF e.ok /\ st.pend = "none" THEN "roundtrip" ELSE "mixed"]
     [] OTHER -> st

Init == l = 1 /\ st = NoSt /\ TLCSet(1, {})
Next == /\ l <= Len(TraceLog)
        /\ LET e == TraceLog[l]  bad == Clauses(e) IN
             /\ IF bad # {} THEN TLCSet(1, TLCGet(1) \cup {<<e.tid, l, c>> : c \in bad}) ELSE TRUE
             /\ st' = Step(e)
        /\ l' = l + 1
Spec == Init /\ [][Next]_<<l, st>>
Post == /\ PrintT(<<"FAILS", TLCGet(1)>>)
        /\ PrintT(<<"CONSUMED", TLCGet("stats").diameter - 1>>)
=============================================================================
