----------------------------- MODULE OmkmRange -----------------------------
(***************************************************************************)
(* C18 (ranges) - pmutt.cantera._get_omkm_range as a state machine.        *)
(*                                                                         *)
(* State: `ids`, the collection the caller has built (a sequence of        *)
(* identifier texts: order and duplicates matter to the algorithm), and    *)
(* `out`, the observation of the last call (Idle after the collection      *)
(* changed).  Actions: Add(id) - the caller appends an identifier;         *)
(* Call(form) - the public call `_get_omkm_range(ids, format=form)`; calls *)
(* may be repeated on the same collection, which persists (IdsUntouched).   *)
(*                                                                         *)
(* The requirement is OmkmRangeText!Judge (see there).  The algorithm of   *)
(* the code is the named variant "pad4": split at the last delimiter, the  *)
(* header is the text before it ('' when there is none), int(), group by   *)
(* header in first-occurrence order, sort, consecutive groups             *)
(* (more_itertools: index - value constant), print "%04d".  Variant        *)
(* "keepwidth" is the repaired algorithm: the header keeps its delimiter   *)
(* (so `_0004` and `0004` differ) and the groups are keyed by (header,     *)
(* printed width), numbers are printed back at their own width.            *)
(* TLC checks `Faithful` = "the variant refines the requirement" over all  *)
(* collections of <= MaxIds identifiers from Universe.                     *)
(* In the model int() accepts exactly the non-empty digit strings (the     *)
(* model alphabet has no sign, blank or underscore-in-suffix).             *)
(***************************************************************************)
EXTENDS OmkmRangeText, TLC

CONSTANTS Heads,      \* texts up to and including the delimiter (<<>> = no delimiter)
          Numbers,    \* suffix values
          Widths,     \* printed widths: w means "%0wd" (1 = natural)
          Extra,      \* further raw identifier texts (e.g. non-integer suffixes)
          MaxIds,
          Variant     \* "pad4" | "keepwidth"

DELIM == 95
Universe == {hd \o Pad(n, w) : hd \in Heads, n \in Numbers, w \in Widths} \cup Extra

VARIABLES ids, out
vars == <<ids, out>>
Idle == [form |-> "idle"]

\* ---- the algorithms ------------------------------------------------------
SplitId(v, s) == LET i == LastPos(s, DELIM) IN
   [hd |-> IF v = "pad4" THEN (IF i = 0 THEN <<>> ELSE SubSeq(s, 1, i - 1)) ELSE SubSeq(s, 1, i),
    ft |-> SubSeq(s, i + 1, Len(s))]
IntOK(ft) == AllDigits(ft) /\ Len(ft) <= 9
Key(v, s) == LET sp == SplitId(v, s) IN IF v = "pad4" THEN <<sp.hd, 0>> ELSE <<sp.hd, Len(sp.ft)>>
HeadText(v, key) == IF v = "pad4" THEN (IF key[1] = <<>> THEN <<>> ELSE key[1] \o <<DELIM>>) ELSE key[1]
NumText(v, key, n) == IF v = "pad4" THEN Pad(n, 4) ELSE Pad(n, key[2])

\* distinct keys in first-occurrence order (python dict order)
KeysInOrder(v, s) ==
   LET first == {k \in 1..Len(s) : \A j \in 1..(k - 1) : Key(v, s[j]) # Key(v, s[k])}
       idx == SX!SetToSortSeq(first, LAMBDA a, b : a < b)
   IN [m \in 1..Len(idx) |-> Key(v, s[idx[m]])]
\* the footers of one key, sorted ascending, duplicates kept
Footers(v, s, key) ==
   LET pos == SX!SetToSortSeq({k \in 1..Len(s) : Key(v, s[k]) = key}, LAMBDA a, b : a < b)
   IN SortSeq([m \in 1..Len(pos) |-> DigitsToInt(SplitId(v, s[pos[m]]).ft)], LAMBDA a, b : a < b)
\* more_itertools.consecutive_groups on a sorted list: <<lo, hi>> pairs
Runs(f) ==
   LET starts == SX!SetToSortSeq({1} \cup {i \in 2..Len(f) : f[i] # f[i - 1] + 1}, LAMBDA a, b : a < b)
   IN [m \in 1..Len(starts) |->
         <<f[starts[m]], f[IF m = Len(starts) THEN Len(f) ELSE starts[m + 1] - 1]>>]
EntriesOfKey(v, s, key) ==
   LET r == Runs(Footers(v, s, key))  h == HeadText(v, key) IN
   [m \in 1..Len(r) |->
      IF r[m][1] = r[m][2] THEN h \o NumText(v, key, r[m][1])
      ELSE h \o NumText(v, key, r[m][1]) \o TO \o h \o NumText(v, key, r[m][2])]
Compress(v, s) ==
   IF \E k \in 1..Len(s) : ~IntOK(SplitId(v, s[k]).ft)
   THEN [raised |-> "ValueError", entries |-> <<>>]
   ELSE LET ks == KeysInOrder(v, s) IN
        [raised |-> "",
         entries |-> SX!FlattenSeq([m \in 1..Len(ks) |-> EntriesOfKey(v, s, ks[m])])]

\* ---- behaviours -----------------------------------------------------------
Init == ids = <<>> /\ out = Idle
Add(id) == /\ Len(ids) < MaxIds
           /\ ids' = Append(ids, id)
           /\ out' = Idle
Call(form) ==                 \* may follow a call in the other form on the same collection
   /\ out = Idle \/ out.form # form
   /\ LET r == Compress(Variant, ids) IN
        out' = [form |-> form, raised |-> r.raised,
                kind |-> IF form = "str" \/ r.raised # "" \/ r.entries = <<>> THEN "text" ELSE "elems",
                payload |-> IF r.raised # "" THEN <<>>
                            ELSE IF form = "str" THEN RenderStr(r.entries)
                            ELSE IF r.entries = <<>> THEN EmptyList      \* the code returns '[]'
                            ELSE RenderList(r.entries)]
   /\ UNCHANGED ids
Next == (\E id \in Universe : Add(id)) \/ Call("str") \/ Call("list")
Spec == Init /\ [][Next]_vars

\* ---- the property ----------------------------------------------------------
Verdict == IF out = Idle THEN {} ELSE Judge(ids, ids, DELIM, out.raised, out.kind, out.payload)
Faithful == Verdict = {}
NoSpuriousReject == "Raises" \notin Verdict
LayoutOK == "WellFormed" \notin Verdict
NoneLostInv == "NoneLost" \notin Verdict
NoneAddedInv == "NoneAdded" \notin Verdict
\* the two forms carry the same entries
FormsAgree == (out # Idle /\ out.raised = "" /\ out.form = "str") =>
                 LET r == Compress(Variant, ids) IN StrEntries(out.payload) = r.entries
\* rejection happens when some identifier is outside MustAccept (model sanity)
\* a call never changes the caller's collection (only Add does)
IdsUntouched == [][out' # Idle => ids' = ids]_vars
TypeOK == /\ ids \in Seq(Universe) /\ Len(ids) <= MaxIds
          /\ out.form \in {"idle", "str", "list"}
=============================================================================
