----------------------------- MODULE OmkmRange -----------------------------
(***************************************************************************)
(* C18 (ranges) - pmutt.cantera._get_omkm_range as a state machine.        *)
(*                                                                         *)
(* State: `ids`, the collection the caller has built (a sequence of        *)
(* identifier texts: order and duplicates matter to the algorithm), and    *)
(* `out`, the observation of the last call (Idle after the collection      *)
(* changed).  Actions: Add(id) - the caller appends an identifier;         *)
(* Call(form) - the public call `_get_omkm_range(ids, format=form)`; calls *)
(* may be repeated on the same collection, which persists (IdsUntouched).   *)
(*                                                                         *)
(* The requirement is OmkmRangeText!Judge (see there).  The algorithm of   *)
(* the code is the named variant "pad4": split at the last delimiter, the  *)
(* header is the text before it ('' when there is none), int(), group by   *)
(* header in first-occurrence order, sort, consecutive groups             *)
(* (more_itertools: index - value constant), print "%04d".  Variant        *)
(* "keepwidth" is the repaired algorithm: the header keeps its delimiter   *)
(* (so `_0004` and `0004` differ) and the groups are keyed by (header,     *)
(* printed width), numbers are printed back at their own width.            *)
(* TLC checks `Faithful` = "the variant refines the requirement" over all  *)
(* collections of <= MaxIds identifiers from Universe.                     *)
(* Variant "isdigit" is keepwidth with the footer test weakened to "only    *)
(* decimal digits of any script" (isdigit()+int()): EXPECTED TO BE REJECTED *)
(* - identifiers spelt with non-ASCII digits are renamed to ASCII and may   *)
(* merge into a range with real identifiers.                                *)
(* Variant "fastpath" is keepwidth with a shortcut for ONE identifier that  *)
(* returns the str layout whatever the format and never raises: EXPECTED TO  *)
(* BE REJECTED (OutputFormIsList, MustReject).                               *)
(* In the model the exact footer test accepts the non-empty ASCII digit     *)
(* strings; signs, blanks, letters, other scripts' digits are rejected.     *)
(***************************************************************************)
EXTENDS OmkmRangeText, TLC

CONSTANTS Heads,      \* texts up to and including the delimiter (<<>> = no delimiter)
          Numbers,    \* suffix values
          Widths,     \* printed widths: w means "%0wd" (1 = natural)
          Extra,      \* further raw identifier texts (e.g. non-integer suffixes)
          MaxIds,
          Variant     \* "pad4" | "keepwidth" | "isdigit" | "fastpath"

DELIM == 95
Universe == {hd \o Pad(n, w) : hd \in Heads, n \in Numbers, w \in Widths} \cup Extra

VARIABLES ids, out
vars == <<ids, out>>
Idle == [form |-> "idle"]

\* ---- the algorithms ------------------------------------------------------
SplitId(v, s) == LET i == LastPos(s, DELIM) IN
   [hd |-> IF v = "pad4" THEN (IF i = 0 THEN <<>> ELSE SubSeq(s, 1, i - 1)) ELSE SubSeq(s, 1, i),
    ft |-> SubSeq(s, i + 1, Len(s))]
\* Footers.  Identifiers are sequences of CODE POINTS (not bytes): a footer may be spelt with
\* decimal digits of another script.  python's int() and str.isdigit() accept those, so a
\* validation by isdigit()+int() reads 'a_' + ARABIC-INDIC THREE as 3 and prints it back as
\* 'a_3' - a rename.  UDigitVal: value of a Unicode decimal digit of the scripts in the model
\* alphabet (ASCII, Arabic-Indic U+0660.., Devanagari U+0966.., full-width U+FF10..), else -1
\* (letters, sign, blank, SUPERSCRIPT TWO U+00B2: isdigit() true but int() fails -> rejected).
UDigitVal(c) == IF c >= 48 /\ c <= 57 THEN c - 48
                ELSE IF c >= 1632 /\ c <= 1641 THEN c - 1632
                ELSE IF c >= 2406 /\ c <= 2415 THEN c - 2406
                ELSE IF c >= 65296 /\ c <= 65305 THEN c - 65296
                ELSE -1
UDigitsToInt(f) == LET g[i \in 0..Len(f)] == IF i = 0 THEN 0 ELSE g[i - 1] * 10 + UDigitVal(f[i]) IN g[Len(f)]
\* "pad4"/"keepwidth": the footer must be reproduced by printing its value (ASCII digits only);
\* "isdigit": any run of Unicode decimal digits is taken (EXPECTED TO BE REJECTED)
IntOK(v, ft) == /\ Len(ft) >= 1 /\ Len(ft) <= 9
                /\ IF v = "isdigit" THEN \A i \in 1..Len(ft) : UDigitVal(ft[i]) >= 0 ELSE AllDigits(ft)
Key(v, s) == LET sp == SplitId(v, s) IN IF v = "pad4" THEN <<sp.hd, 0>> ELSE <<sp.hd, Len(sp.ft)>>
HeadText(v, key) == IF v = "pad4" THEN (IF key[1] = <<>> THEN <<>> ELSE key[1] \o <<DELIM>>) ELSE key[1]
NumText(v, key, n) == IF v = "pad4" THEN Pad(n, 4) ELSE Pad(n, key[2])

\* distinct keys in first-occurrence order (python dict order)
KeysInOrder(v, s) ==
   LET first == {k \in 1..Len(s) : \A j \in 1..(k - 1) : Key(v, s[j]) # Key(v, s[k])}
       idx == SX!SetToSortSeq(first, LAMBDA a, b : a < b)
   IN [m \in 1..Len(idx) |-> Key(v, s[idx[m]])]
\* the footers of one key, sorted ascending, duplicates kept
Footers(v, s, key) ==
   LET pos == SX!SetToSortSeq({k \in 1..Len(s) : Key(v, s[k]) = key}, LAMBDA a, b : a < b)
   IN SortSeq([m \in 1..Len(pos) |-> UDigitsToInt(SplitId(v, s[pos[m]]).ft)], LAMBDA a, b : a < b)
\* more_itertools.consecutive_groups on a sorted list: <<lo, hi>> pairs
Runs(f) ==
   LET starts == SX!SetToSortSeq({1} \cup {i \in 2..Len(f) : f[i] # f[i - 1] + 1}, LAMBDA a, b : a < b)
   IN [m \in 1..Len(starts) |->
         <<f[starts[m]], f[IF m = Len(starts) THEN Len(f) ELSE starts[m + 1] - 1]>>]
EntriesOfKey(v, s, key) ==
   LET r == Runs(Footers(v, s, key))  h == HeadText(v, key) IN
   [m \in 1..Len(r) |->
      IF r[m][1] = r[m][2] THEN h \o NumText(v, key, r[m][1])
      ELSE h \o NumText(v, key, r[m][1]) \o TO \o h \o NumText(v, key, r[m][2])]
Compress(v, s) ==
   IF \E k \in 1..Len(s) : ~IntOK(v, SplitId(v, s[k]).ft)
   THEN [raised |-> "ValueError", entries |-> <<>>]
   ELSE LET ks == KeysInOrder(v, s) IN
        [raised |-> "",
         entries |-> SX!FlattenSeq([m \in 1..Len(ks) |-> EntriesOfKey(v, s, ks[m])])]

\* ---- behaviours -----------------------------------------------------------
Init == ids = <<>> /\ out = Idle
Add(id) == /\ Len(ids) < MaxIds
           /\ ids' = Append(ids, id)
           /\ out' = Idle
Call(form) ==                 \* may follow a call in the other form on the same collection
   /\ out = Idle \/ out.form # form
   /\ LET r == Compress(Variant, ids) IN
        out' = IF Variant = "fastpath" /\ Len(ids) = 1
               THEN [form |-> form, raised |-> "", kind |-> "text", payload |-> RenderStr(<<ids[1]>>)]
               ELSE [form |-> form, raised |-> r.raised,
                kind |-> IF form = "str" \/ r.raised # "" \/ r.entries = <<>> THEN "text" ELSE "elems",
                payload |-> IF r.raised # "" THEN <<>>
                            ELSE IF form = "str" THEN RenderStr(r.entries)
                            ELSE IF r.entries = <<>> THEN EmptyList      \* the code returns '[]'
                            ELSE RenderList(r.entries)]
   /\ UNCHANGED ids
Next == (\E id \in Universe : Add(id)) \/ Call("str") \/ Call("list")
Spec == Init /\ [][Next]_vars

\* ---- the property ----------------------------------------------------------
Verdict == IF out = Idle THEN {} ELSE Judge(ids, ids, DELIM, out.raised, out.form, out.kind, out.payload)
Faithful == Verdict = {}
NoSpuriousReject == "Raises" \notin Verdict
LayoutOK == "WellFormed" \notin Verdict
NoneLostInv == "NoneLost" \notin Verdict
NoneAddedInv == "NoneAdded" \notin Verdict
OutputFormInv == {"OutputFormIsList", "OutputFormIsString"} \cap Verdict = {}
MustRejectInv == "MustReject" \notin Verdict
\* the two forms carry the same entries
FormsAgree == (out # Idle /\ out.raised = "" /\ out.form = "str") =>
                 LET r == Compress(Variant, ids) IN StrEntries(out.payload) = r.entries
\* rejection happens when some identifier is outside MustAccept (model sanity)
\* a call never changes the caller's collection (only Add does)
IdsUntouched == [][out' # Idle => ids' = ids]_vars
TypeOK == /\ ids \in Seq(Universe) /\ Len(ids) <= MaxIds
          /\ out.form \in {"idle", "str", "list"}
=============================================================================
