----------------------------- MODULE Equilibrium -----------------------------
(***************************************************************************)
(* C16 - equilibrium compositions conserve atoms and minimise Gibbs energy.*)
(* Design model, part 1: the solver-outcome protocol of                    *)
(*    Equilibrium.get_net_comp(T, P)                                       *)
(* (part 2, the null-space certificate, is EqCert.tla; the numeric clauses *)
(* live in Trace_Equilibrium.tla because they judge recorded numbers).     *)
(*                                                                         *)
(* One object, up to MaxCalls calls.  Each call runs the numerical solver, *)
(* which ends Converged or Failed (its own success flag).  The property:   *)
(* a composition may come back silently only from Converged; from Failed a *)
(* Signal - a warning before the return, or an exception instead of it -   *)
(* must be observed (NoSilentFailure).  The rule is EqLin!ObservationAllowed*)
(* and is the same operator the trace specification applies to recorded    *)
(* calls.                                                                  *)
(*                                                                         *)
(* Variant = "Required" : the protocol the property demands.               *)
(* Variant = "Discard"  : implementation-shaped - the success flag is not  *)
(*    looked at, the result is returned whatever the outcome (this is what *)
(*    pmutt/equilibrium/_equilibrium.py does at the pinned commit);        *)
(*    MC_Equilibrium_discard.cfg is expected to be REJECTED by TLC.        *)
(*                                                                         *)
(* h records what a caller can observe per call; it is what (S->C) replays *)
(* into the real object (a "failed" step is realised by running the real   *)
(* solver with an iteration limit of 1 through the recording wrapper).     *)
(***************************************************************************)
EXTENDS EqLin, TLC

CONSTANTS MaxCalls, Variant
VARIABLES pc, out, sig, calls, h
vars == <<pc, out, sig, calls, h>>

Outcomes == {"converged", "failed"}
TypeOK == /\ pc \in {"idle", "solving", "solved"}
          /\ out \in Outcomes \cup {"none"}
          /\ sig \in BOOLEAN
          /\ calls \in 0..MaxCalls
          /\ Len(h) <= MaxCalls

Init == pc = "idle" /\ out = "none" /\ sig = FALSE /\ calls = 0 /\ h = <<>>

Call == /\ pc = "idle" /\ calls < MaxCalls
        /\ pc' = "solving" /\ out' = "none" /\ sig' = FALSE /\ calls' = calls + 1
        /\ UNCHANGED h
Solve(o) == /\ pc = "solving" /\ pc' = "solved" /\ out' = o
            /\ UNCHANGED <<sig, calls, h>>
\* the library warns because it saw the failure flag
Warn == /\ Variant = "Required" /\ pc = "solved" /\ out = "failed" /\ ~sig
        /\ sig' = TRUE /\ UNCHANGED <<pc, out, calls, h>>
Return == /\ pc = "solved"
          /\ (Variant = "Discard" \/ ObservationAllowed(out, "return", sig))
          /\ pc' = "idle" /\ h' = Append(h, [out |-> out, how |-> "return", sig |-> sig])
          /\ UNCHANGED <<out, sig, calls>>
Raise == /\ Variant = "Required" /\ pc = "solved" /\ out = "failed"
         /\ pc' = "idle" /\ h' = Append(h, [out |-> out, how |-> "raise", sig |-> sig])
         /\ UNCHANGED <<out, sig, calls>>

Next == Call \/ (\E o \in Outcomes : Solve(o)) \/ Warn \/ Return \/ Raise
Spec == Init /\ [][Next]_vars

\* ---- the property
NoSilentFailure == \A i \in 1..Len(h) : ObservationAllowed(h[i].out, h[i].how, h[i].sig)
\* a converged call always gets its result back (no spurious refusal)
ConvergedReturns == \A i \in 1..Len(h) : h[i].out = "converged" => h[i].how = "return"
\* as an action property: leaving "solved" after a failure needs a signal
SignalBeforeReturn ==
   [][(pc = "solved" /\ pc' = "idle" /\ out = "failed") =>
         (sig \/ h'[Len(h')].how = "raise")]_vars
\* every call can complete (the protocol never wedges the caller)
CanComplete == pc = "solved" => (ENABLED Return \/ ENABLED Raise \/ ENABLED Warn)

Done == pc = "idle" /\ calls = MaxCalls
EmitBehaviours == Done => PrintT(<<"BEH", h>>)
=============================================================================
