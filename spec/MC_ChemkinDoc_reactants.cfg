\* EXPECTED TO BE REJECTED (Partition): the classification of the pinned source,
\* ChemkinReaction._is_gas_phase = all REACTANTS gaseous; TLC exhibits a mechanism with gaseous
\* reactants and a surface product that lands in gas.inp / EAg.inp
SPECIFICATION Spec
CONSTANTS
  Pool <- MCPool
  Sites <- MCSites
  MaxSp = 3
  MaxRx = 2
  MaxMol = 2
  MaxCoef = 2
  GasTest = "reactants"
  LoneBulk = FALSE
  SDelims <- MCSDelims
  RDelims <- MCRDelims
  RunLists <- MCRunLists
  EvalMode = "each"
INVARIANT DistinctInv
INVARIANT Partition
INVARIANT EachOnceReactions
INVARIANT EachOnceElements
INVARIANT EachOnceGasSpecies
INVARIANT EachOnceSites
INVARIANT EachOnceAdsorbates
INVARIANT EachOnceBulk
INVARIANT CountsMatch
INVARIANT ReadBack
INVARIANT TubeInv
INVARIANT RunsInv
CHECK_DEADLOCK FALSE
