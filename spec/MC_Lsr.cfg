\* quick: exhaustive design model, LSR: 2 slopes x 2 intercepts x 6 reactions x 5 x 5 parts, 2 temperatures, <= 2 calls
SPECIFICATION Spec
CONSTANTS
  Slopes <- MCSlopes2
  Icpts <- MCIcpts2
  Energies <- MCEnergies2
  Temps = {250, 500}
  MaxN = 1
  MaxOps = 2
  Variant = "required"
  Kinds = {"lsr"}
  Stoichs = {2}
  ExtParts <- MCExtParts
INVARIANT NeverRaises
INVARIANT RelationHolds
INVARIANT FourEqual
INVARIANT NoEntropy
INVARIANT UnitsHold
PROPERTY TIndependent
PROPERTY LinearSlope
PROPERTY LinearIcpt
PROPERTY RoundTripKeeps
VIEW View
CHECK_DEADLOCK FALSE
