-------------------------------- MODULE Lin --------------------------------
(***************************************************************************)
(* Small exact linear algebra (built for C10, References.tla).             *)
(*                                                                         *)
(* Vectors are sequences, matrices are sequences of rows.  The number of   *)
(* columns n is passed explicitly (a matrix with no rows cannot carry it). *)
(*  - integer matrices: IRank (fraction-free elimination, rows reduced to  *)
(*    primitive form so entries stay small in 32-bit arithmetic);          *)
(*  - rational matrices (Rat.tla, <<num, den>>): reduced row echelon form, *)
(*    rank, solution set of a consistent system (particular solution +     *)
(*    null-space basis), and the minimum-norm least-squares solution       *)
(*    (what numpy.linalg.lstsq returns) computed from the normal equations *)
(*    A^T A o = A^T d followed by projection onto the row space.           *)
(***************************************************************************)
EXTENDS Rat, FiniteSets, TLC

\* ascending sequence of a finite set of integers
Asc(S) == CHOOSE s \in [1..Cardinality(S) -> S] :
             \A i, j \in 1..Cardinality(S) : i < j => s[i] < s[j]
InSeq(x, s) == \E k \in 1..Len(s) : s[k] = x
PosIn(x, s) == CHOOSE k \in 1..Len(s) : s[k] = x

\* ---------------------------------------------------------------- integers
RECURSIVE GcdOfSeq(_)
GcdOfSeq(v) == IF Len(v) = 0 THEN 0 ELSE Gcd(RAbs(v[1]), GcdOfSeq(Tail(v)))
Prim(v) == LET g == GcdOfSeq(v) IN
           IF g = 0 THEN v ELSE TLCEval([j \in 1..Len(v) |-> IF v[j] >= 0 THEN v[j] \div g ELSE -((-v[j]) \div g)])

RECURSIVE IRankFrom(_, _, _, _)
IRankFrom(M, n, r, c) ==
   IF r > Len(M) \/ c > n THEN r - 1
   ELSE LET cand == {i \in r..Len(M) : M[i][c] # 0} IN
        IF cand = {} THEN IRankFrom(M, n, r, c + 1)
        ELSE LET p == CHOOSE i \in cand : \A k \in cand : i <= k
                 S == TLCEval([i \in 1..Len(M) |-> IF i = r THEN M[p] ELSE IF i = p THEN M[r] ELSE M[i]])
                 piv == S[r][c]
                 M2 == TLCEval([i \in 1..Len(M) |->
                          IF i <= r THEN S[i]
                          ELSE Prim([j \in 1..Len(S[i]) |-> piv * S[i][j] - S[i][c] * S[r][j]])])
             IN IRankFrom(M2, n, r + 1, c + 1)
\* rank of an integer matrix with n columns
IRank(M, n) == IRankFrom(TLCEval([i \in 1..Len(M) |-> Prim(M[i])]), n, 1, 1)

\* ---------------------------------------------------------------- rationals
RVec(v) == TLCEval([i \in 1..Len(v) |-> R(v[i])])
RMat(A) == TLCEval([i \in 1..Len(A) |-> RVec(A[i])])
RZero(a) == a[1] = 0
RDot(u, v) == RSum(TLCEval([i \in 1..Len(u) |-> RMul(u[i], v[i])]))
MatVec(A, v) == TLCEval([i \in 1..Len(A) |-> RDot(A[i], v)])
Transpose(A, n) == TLCEval([j \in 1..n |-> TLCEval([i \in 1..Len(A) |-> A[i][j]])])
VAdd(u, v) == TLCEval([i \in 1..Len(u) |-> RAdd(u[i], v[i])])
VSub(u, v) == TLCEval([i \in 1..Len(u) |-> RSub(u[i], v[i])])
VScale(c, v) == TLCEval([i \in 1..Len(v) |-> RMul(c, v[i])])
IsZeroVec(v) == \A i \in 1..Len(v) : RZero(v[i])
Norm2(v) == RDot(v, v)
Augment(M, b) == TLCEval([i \in 1..Len(M) |-> Append(M[i], b[i])])

\* Gauss-Jordan on the first n columns (further columns are carried along)
RECURSIVE RrefFrom(_, _, _, _, _)
RrefFrom(M, n, r, c, piv) ==
   IF r > Len(M) \/ c > n THEN [m |-> M, piv |-> piv]
   ELSE LET cand == {i \in r..Len(M) : ~RZero(M[i][c])} IN
        IF cand = {} THEN RrefFrom(M, n, r, c + 1, piv)
        ELSE LET p == CHOOSE i \in cand : \A k \in cand : i <= k
                 S == TLCEval([i \in 1..Len(M) |-> IF i = r THEN M[p] ELSE IF i = p THEN M[r] ELSE M[i]])
                 prow == VScale(RDiv(R(1), S[r][c]), S[r])
                 M2 == TLCEval([i \in 1..Len(M) |-> IF i = r THEN prow ELSE VSub(S[i], VScale(S[i][c], prow))])
             IN RrefFrom(M2, n, r + 1, c + 1, Append(piv, c))
Rref(M, n) == RrefFrom(M, n, 1, 1, <<>>)
Rank(M, n) == Len(Rref(M, n).piv)

\* M x = b with M of n columns: particular solution (free variables 0), the free
\* columns, one null-space vector per free column, and whether the system is consistent
Solve(M, n, b) ==
   LET rr == Rref(Augment(M, b), n)
       piv == rr.piv
       free == {c \in 1..n : ~InSeq(c, piv)}
       xp == TLCEval([c \in 1..n |-> IF InSeq(c, piv) THEN rr.m[PosIn(c, piv)][n + 1] ELSE R(0)])
       nullv(f) == TLCEval([c \in 1..n |-> IF c = f THEN R(1)
                                  ELSE IF InSeq(c, piv) THEN RNeg(rr.m[PosIn(c, piv)][f])
                                  ELSE R(0)])
   IN [x |-> xp, free |-> free, null |-> TLCEval([f \in free |-> nullv(f)]),
       consistent |-> \A i \in (Len(piv) + 1)..Len(M) : RZero(rr.m[i][n + 1])]

Gram(A, n) == LET At == Transpose(A, n) IN TLCEval([j \in 1..n |-> TLCEval([k \in 1..n |-> RDot(At[j], At[k])])])
AtVec(A, n, d) == MatVec(Transpose(A, n), d)

\* minimum-norm least-squares solution of A o ~ d (A rational, n columns)
MinNormLS(A, n, d) ==
   LET s == Solve(Gram(A, n), n, AtVec(A, n, d))
       fs == Asc(s.free)
       k == Len(fs)
   IN IF k = 0 THEN s.x
      ELSE LET Nb == TLCEval([i \in 1..k |-> s.null[fs[i]]])
               G == TLCEval([i \in 1..k |-> TLCEval([j \in 1..k |-> RDot(Nb[i], Nb[j])])])
               rhs == TLCEval([i \in 1..k |-> RDot(Nb[i], s.x)])
               cc == Solve(G, k, rhs).x
           IN TLCEval([c \in 1..n |-> RSub(s.x[c], RSum(TLCEval([i \in 1..k |-> RMul(cc[i], Nb[i][c])])))])

\* null-space basis of A (n columns), as a sequence of vectors
NullBasis(A, n) == LET s == Solve(A, n, TLCEval([i \in 1..Len(A) |-> R(0)]))
                       fs == Asc(s.free)
                   IN TLCEval([i \in 1..Len(fs) |-> s.null[fs[i]]])
=============================================================================
