------------------------------- MODULE Units -------------------------------
(***************************************************************************)
(* C12 - the unit system of pmutt.constants: what a conversion table IS.   *)
(*                                                                         *)
(* This module is constant level (no variables).  It holds                 *)
(*  1. the catalogue of the unit system: which unit string measures which  *)
(*     quantity type, the coherent SI unit of every type, and for the      *)
(*     units that are an SI prefix away from the SI unit the exact power   *)
(*     of ten (1 SI unit = 10^p unit);                                     *)
(*  2. the definition of the four temperature scales, as exact rationals   *)
(*     (the Rankine reading of a temperature is the common currency:       *)
(*        C: 9/5 x + 491.67   K: 9/5 x   F: x + 459.67   R: x);            *)
(*  3. the periodic table (atomic number -> symbol);                       *)
(*  4. the laws of a conversion algebra as operators over an abstract      *)
(*     conversion function, used by the design model MC_Units.tla;         *)
(*  5. the case sets TLC generates for the replay into the real code       *)
(*     (MC_UnitsCases.tla).                                                *)
(*                                                                         *)
(* Reading of the property where its text is silent (narrower reading):    *)
(*  - "refused" = convert_unit raises (the documented ValueError; any      *)
(*    exception counts as a refusal, a returned number does not);          *)
(*  - the quantity types are those of pmutt's own type_dict; the catalogue *)
(*    below must agree with it on the units both know;                     *)
(*  - elements 113, 115, 117, 118 changed symbol in 2016: the placeholder   *)
(*    (Uut, Uup, Uus, Uuo) and the final symbol are both accepted.         *)
(***************************************************************************)
EXTENDS Rat, TLC, FiniteSets

\* ---------------------------------------------------------------- catalogue
Energy      == {"J", "kJ", "eV", "cal", "kcal", "L atm", "Eh", "Ha"}
EnergyAmt   == {"J/mol", "kJ/mol", "cal/mol", "kcal/mol", "eV/molecule", "Eh/molecule",
                "Ha/molecule", "eV/particle", "Eh/particle", "Ha/particle"}
Time        == {"ps", "ns", "ms", "s", "min", "hr", "day", "yr"}
Amount      == {"molecule", "molec", "particle", "mol"}
Temp        == {"C", "K", "F", "R"}
Length      == {"m", "cm", "nm", "km", "inch", "ft", "mile", "A"}
Area        == {"m2", "cm2", "A2", "km2", "inch2", "ft2"}
Volume      == {"m3", "cm3", "mL", "L", "inch3", "ft3"}
Mass        == {"kg", "g", "amu", "lbs"}
Pressure    == {"Pa", "kPa", "MPa", "atm", "bar", "mmHg", "torr", "psi"}

TypeNames == {"energy", "energy/amount", "time", "amount", "temp", "length", "area",
              "volume", "mass", "pressure"}
UnitsOf(t) ==
   CASE t = "energy" -> Energy [] t = "energy/amount" -> EnergyAmt [] t = "time" -> Time
     [] t = "amount" -> Amount [] t = "temp" -> Temp [] t = "length" -> Length
     [] t = "area" -> Area [] t = "volume" -> Volume [] t = "mass" -> Mass
     [] t = "pressure" -> Pressure [] OTHER -> {}
AllUnits == UNION {UnitsOf(t) : t \in TypeNames}
TypeOf(u) == CHOOSE t \in TypeNames : u \in UnitsOf(t)
Known(u) == u \in AllUnits

\* coherent SI unit of each type (the unit whose factor is 1)
SIUnit(t) ==
   CASE t = "energy" -> "J" [] t = "energy/amount" -> "J/mol" [] t = "time" -> "s"
     [] t = "amount" -> "mol" [] t = "temp" -> "K" [] t = "length" -> "m" [] t = "area" -> "m2"
     [] t = "volume" -> "m3" [] t = "mass" -> "kg" [] t = "pressure" -> "Pa"

\* 1 SI unit = 10^p unit, for the units that are exactly an SI prefix away
Pow10Exp == "J" :> 0 @@ "kJ" :> -3 @@ "J/mol" :> 0 @@ "kJ/mol" :> -3
         @@ "ps" :> 12 @@ "ns" :> 9 @@ "ms" :> 3 @@ "s" :> 0 @@ "mol" :> 0
         @@ "m" :> 0 @@ "cm" :> 2 @@ "nm" :> 9 @@ "km" :> -3 @@ "A" :> 10
         @@ "m2" :> 0 @@ "cm2" :> 4 @@ "A2" :> 20 @@ "km2" :> -6
         @@ "m3" :> 0 @@ "cm3" :> 6 @@ "mL" :> 6 @@ "L" :> 3
         @@ "kg" :> 0 @@ "g" :> 3
         @@ "Pa" :> 0 @@ "kPa" :> -3 @@ "MPa" :> -6 @@ "bar" :> -5
Decimal(u) == u \in DOMAIN Pow10Exp

\* strings that are not units (must be refused in either position)
NotUnits == {"arbitrary unit", "", "j", "Torr", "K/s", "m4"}

\* ---------------------------------------------------------------- temperature
RankOf(u, x) ==            \* exact Rankine reading of x on scale u
   CASE u = "C" -> RAdd(RMul(RFrac(9, 5), x), RFrac(49167, 100))
     [] u = "K" -> RMul(RFrac(9, 5), x)
     [] u = "F" -> RAdd(x, RFrac(45967, 100))
     [] u = "R" -> x
FromRank(u, r) ==
   CASE u = "C" -> RMul(RFrac(5, 9), RSub(r, RFrac(49167, 100)))
     [] u = "K" -> RMul(RFrac(5, 9), r)
     [] u = "F" -> RSub(r, RFrac(45967, 100))
     [] u = "R" -> r
TempConv(u, v, x) == FromRank(v, RankOf(u, x))

\* ---------------------------------------------------------------- periodic table
Symbols == <<"H", "He", "Li", "Be", "B", "C", "N", "O", "F", "Ne", "Na", "Mg", "Al", "Si", "P",
  "S", "Cl", "Ar", "K", "Ca", "Sc", "Ti", "V", "Cr", "Mn", "Fe", "Co", "Ni", "Cu", "Zn", "Ga",
  "Ge", "As", "Se", "Br", "Kr", "Rb", "Sr", "Y", "Zr", "Nb", "Mo", "Tc", "Ru", "Rh", "Pd", "Ag",
  "Cd", "In", "Sn", "Sb", "Te", "I", "Xe", "Cs", "Ba", "La", "Ce", "Pr", "Nd", "Pm", "Sm", "Eu",
  "Gd", "Tb", "Dy", "Ho", "Er", "Tm", "Yb", "Lu", "Hf", "Ta", "W", "Re", "Os", "Ir", "Pt", "Au",
  "Hg", "Tl", "Pb", "Bi", "Po", "At", "Rn", "Fr", "Ra", "Ac", "Th", "Pa", "U", "Np", "Pu", "Am",
  "Cm", "Bk", "Cf", "Es", "Fm", "Md", "No", "Lr", "Rf", "Db", "Sg", "Bh", "Hs", "Mt", "Ds", "Rg",
  "Cn", "", "Fl", "", "Lv", "", "">>
\* 113, 115, 117, 118 were renamed in 2016; either the placeholder or the final symbol is accepted
AltSymbols == 113 :> <<"Uut", "Nh">> @@ 115 :> <<"Uup", "Mc">> @@ 117 :> <<"Uus", "Ts">>
           @@ 118 :> <<"Uuo", "Og">>
SymbolsOf(z) == IF Symbols[z] # "" THEN <<Symbols[z]>> ELSE AltSymbols[z]
Elements == 1..Len(Symbols)

\* ---------------------------------------------------------------- laws of a conversion algebra
\* conv(u, v, x): value of x[u] expressed in v.  S: the units of one quantity type,
\* X: sample values (exact rationals).
Reflexive(conv(_, _, _), S, X)  == \A u \in S, x \in X : conv(u, u, x) = x
Inverse(conv(_, _, _), S, X)    == \A u, v \in S, x \in X : conv(v, u, conv(u, v, x)) = x
Transitive(conv(_, _, _), S, X) ==
   \A u, v, w \in S, x \in X : conv(v, w, conv(u, v, x)) = conv(u, w, x)
\* proportional: conv(u, v, x) = x * conv(u, v, 1)
Proportional(conv(_, _, _), S, X) == \A u, v \in S, x \in X : conv(u, v, x) = RMul(x, conv(u, v, R(1)))
\* affine: second differences vanish (three equally spaced points)
Affine(conv(_, _, _), S, X) ==
   \A u, v \in S, x \in X :
      RSub(conv(u, v, RAdd(x, R(2))), conv(u, v, RAdd(x, R(1)))) =
      RSub(conv(u, v, RAdd(x, R(1))), conv(u, v, x))
=============================================================================
