\* every behaviour of a small instance (3 round trips), printed for replay into the real library
SPECIFICATION Spec
CONSTANTS
  Workspaces <- BehWorkspaces
  MaxObjs = 5
  MaxOps = 3
  RoundMode = "nearest"
  KeepClass = TRUE
  LoseFlag = FALSE
  ThermdatAny = FALSE
  ThermdatOrder = "kept"
  RecordWs = TRUE
INVARIANT EmitBehaviours
CHECK_DEADLOCK FALSE
