\* (D) algebra: all 13 068 reactions with 1-2 species per side x coefficients {1/4,1,(3/2),2} x TS none/1/2,
\* three caller dictionaries, every public call once
SPECIFICATION Spec
CONSTANTS
  Rxns <- MCRxns
  KwParts <- KwSmall
  ProbeNames <- MCProbeNames
  ProbeBlocks <- MCProbeBlocks
  Variant = "asbuilt"
  MaxCalls = 1
  MaxEdits = 0
  EditCoefs <- MCEditCoefs
  EditNames <- MCEditNames
INVARIANT TypeOK
INVARIANT RouteRefines
INVARIANT StateRefines
INVARIANT ResultOK
INVARIANT Hess
INVARIANT Antisymmetry
INVARIANT ActDifference
INVARIANT DetailedBalance
INVARIANT KeqActRatio
INVARIANT ActWithoutTSRefused
PROPERTY CallerUntouched
CHECK_DEADLOCK FALSE
