----------------------------- MODULE MC_Zacros -----------------------------
EXTENDS Zacros
MCModeIds == {1, 2}
MCModeIds1 == {1}
MCModeIds3 == {1, 2, 3}
View == <<inp, obj, dct, Len(h)>>
ASSUME DimensionsOK
=============================================================================
