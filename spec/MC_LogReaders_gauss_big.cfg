\* X06: thorough tier: Gaussian alphabet, every file of <= 4 lines
SPECIFICATION Spec
CONSTANTS
  Lines <- MCLines
  Kinds <- GaussPlus
  MaxLen = 4
  Cuts <- MCCuts
  Pat <- MCPat
  Variant = "impl"
INVARIANT InQuantifier
INVARIANT Refines
INVARIANT VibRequired
INVARIANT ScalarRequired
INVARIANT ListRequired
INVARIANT PatternRequired
INVARIANT NoiseIndependent
PROPERTY Monotone
CHECK_DEADLOCK FALSE
