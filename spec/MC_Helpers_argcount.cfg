\* EXPECTED TO BE REJECTED: the rule as found, co_varnames[:co_argcount], does not see keyword-only parameters -
\* a supplied keyword that the signature names is dropped (NothingDropped / RouteFaithful / ExpectedFaithful)
SPECIFICATION Spec
CONSTANTS
  Worlds <- RouteQuick
  V <- VAsFound
INVARIANT TypeOK
INVARIANT RouteFaithful
INVARIANT NeverUnexpected
INVARIANT NothingDropped
INVARIANT AllowedFaithful
INVARIANT CollectInv
INVARIANT CallerUntouched
CHECK_DEADLOCK FALSE
