\* thorough tier: keyword-only parameters over {c, d} (1296 shapes x 32 keyword sets), six species names,
\* four block contents, three sets of ordinary keywords, ragged condition lists too
SPECIFICATION Spec
CONSTANTS
  Worlds <- AllBig
  V <- VRepaired
INVARIANT TypeOK
INVARIANT RouteFaithful
INVARIANT NeverUnexpected
INVARIANT NothingDropped
INVARIANT ExpectedFaithful
INVARIANT AllowedFaithful
INVARIANT CollectInv
INVARIANT SpecieFaithful
INVARIANT BlockKeysRemoved
INVARIANT FormatFaithful
INVARIANT FormatCount
INVARIANT DictFaithful
INVARIANT RaisesDocumented
INVARIANT NpFaithful
INVARIANT IterFaithful
INVARIANT AttrFaithful
INVARIANT CallerUntouched
CHECK_DEADLOCK FALSE
