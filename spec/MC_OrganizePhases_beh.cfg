\* (S->C) every behaviour of a small instance, printed for replay: every layout of <= 3 phases,
\* 0-2 species, <= 1 reaction, <= 1 interaction, species given/omitted, two calls (same / rebuilt
\* descriptions)
SPECIFICATION Spec
CONSTANTS
  MaxPhases = 3
  SpCounts <- Sp012
  MaxRx = 1
  MaxIa = 1
  MaxCalls = 2
  Variant = "fixed"
  Scope = "narrow"
INVARIANT EmitBehaviours
CHECK_DEADLOCK FALSE
