\* F -> C without the offset: expected violation of PathIndependent
SPECIFICATION Spec
CONSTANTS
  Variant = "nooffset"
  MaxSteps = 3
INVARIANT PathIndependent
CHECK_DEADLOCK FALSE
