\* EXPECTED TO BE REJECTED (outside the documented "function or class"): functools.partial objects, instances
\* with __call__ and classes without a Python __init__ have no __code__ - _pass_expected_arguments raises
\* AttributeError where the requirement, read on their signatures, would route the keywords
SPECIFICATION Spec
CONSTANTS
  Worlds <- RouteWide
  V <- VRepaired
INVARIANT TypeOK
INVARIANT RouteFaithful
INVARIANT NeverUnexpected
INVARIANT NothingDropped
INVARIANT ExpectedFaithful
INVARIANT AllowedFaithful
INVARIANT CollectInv
INVARIANT CallerUntouched
CHECK_DEADLOCK FALSE
