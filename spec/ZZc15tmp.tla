---- MODULE ZZc15tmp ----
EXTENDS MC_ExcelReader
====
