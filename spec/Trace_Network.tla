--------------------------- MODULE Trace_Network ---------------------------
(***************************************************************************)
(* X02 - trace validation of recorded executions of                        *)
(* pmutt.reaction.network.Network.  One NDJSON line per library call;      *)
(* states are small integers (the driver numbers the states it built and   *)
(* maps the library's node keys back by equality; 0 = a node key the       *)
(* driver never built); numbers are Dec <<m, e>>.  The definitions are     *)
(* those of NetworkDefs.tla (graph of a network, pathways) and of          *)
(* Extrema.tla (span) instantiated with the Dec order.                     *)
(*                                                                         *)
(*  build   : Network(reactions) / update_network(include_TS = inc).       *)
(*            rx = the reactions <<r, p, t>>; comp[i] = composition of     *)
(*            state i as <<species number, amount>> pairs; nodes = the     *)
(*            graph's nodes <<id, is_transition_state, <<species number,   *)
(*            amount>> pairs from the node's species / stoich attributes>>;*)
(*            edges = the graph's edges <<a, b>>.                          *)
(*  minspan : get_min_E_span(source s, targets tg, cutoff c (0 = none)).   *)
(*            calls = every get_E_span call made while it ran: <<path,     *)
(*            returned span>>; out = the returned value; G[i] = Gibbs      *)
(*            energy of state i computed by the driver from the species'   *)
(*            own getters.  The graph is the one observed by the preceding *)
(*            build line of the same trace.                                *)
(*  diagram : plot_coordinate_diagram(s, tg, cutoff c, max_paths maxp (0 = *)
(*            none), max_energy_span maxspan (if hasmax), pathway_numbers  *)
(*            nums (<<>> = none)); calls as above; labels = <<number,      *)
(*            span>> read from the legend entry of every plotted pathway,  *)
(*            in plotting order.                                           *)
(*  span    : get_E_span(path) called directly; the same as one call.      *)
(*                                                                         *)
(* Clauses: NodesExact, EdgesExact (or GraphIsNetwork_KnownTSKept when the *)
(* graph is exactly the include_TS = True graph although False was asked   *)
(* for), TSFlag, NodeAttrs (build); CutoffStates is reported as            *)
(* CutoffStates_KnownEdgeCount when the enumerated set is exactly the      *)
(* simple paths with at most cutoff EDGES;                                 *)
(* PathsAreSimple, CutoffStates, PathsOnce, PathsComplete, SpanDefinition, *)
(* MinIsLeast, Finite (minspan / diagram); Selection (diagram); Raises.    *)
(* A query without any required pathway, and a diagram from which every    *)
(* pathway is eliminated (by max_energy_span or by pathway_numbers), are   *)
(* outside the quantifier: nothing is judged.  The end points of a diagram *)
(* are never transition states.                                            *)
(***************************************************************************)
EXTENDS NetworkDefs, Dec, TLC, TLCExt, Json, IOUtils

TraceLog == ndJsonDeserialize(IOEnv.TRACE_FILE)
VARIABLES l, st

PairSet(s) == {<<s[i][1], s[i][2]>> : i \in 1..Len(s)}

\* ---- build
BuildClauses(e) ==
   IF e.raised # "" THEN {"Raises"} ELSE
   LET obsN == {e.nodes[i][1] : i \in 1..Len(e.nodes)}
       obsE == {{e.edges[i][1], e.edges[i][2]} : i \in 1..Len(e.edges)}
       once == /\ Len(e.nodes) = Cardinality(obsN) /\ Len(e.edges) = Cardinality(obsE)
               /\ \A i \in 1..Len(e.edges) : e.edges[i][1] # e.edges[i][2]
       okN == obsN = NodesOf(e.rx, e.inc) /\ Len(e.nodes) = Cardinality(obsN)
       okE == obsE = EdgesOf(e.rx, e.inc) /\ once
       \* KNOWN DEVIATION (finding X02-F4): include_TS = False was asked for and the graph is
       \* exactly the include_TS = True graph of the same reactions
       tsKept == /\ ~e.inc /\ (~okN \/ ~okE) /\ once
                 /\ obsN = NodesOf(e.rx, TRUE) /\ obsE = EdgesOf(e.rx, TRUE)
   IN (IF tsKept THEN {"GraphIsNetwork_KnownTSKept"}
       ELSE (IF okN THEN {} ELSE {"NodesExact"}) \cup (IF okE THEN {} ELSE {"EdgesExact"}))
      \* the flag says whether the state is the transition state of a reaction
      \cup (IF \A i \in 1..Len(e.nodes) :
                  e.nodes[i][1] # 0 => (e.nodes[i][2] <=> e.nodes[i][1] \in TSOf(e.rx, TRUE))
            THEN {} ELSE {"TSFlag"})
      \cup (IF \A i \in 1..Len(e.nodes) :
                  e.nodes[i][1] \in 1..Len(e.comp) =>
                     PairSet(e.nodes[i][3]) = PairSet(e.comp[e.nodes[i][1]])
                     /\ Len(e.nodes[i][3]) = Len(e.comp[e.nodes[i][1]])
            THEN {} ELSE {"NodeAttrs"})

\* ---- the graph carried from the build line
GN == {st.nodes[i][1] : i \in 1..Len(st.nodes)} \ {0}
GE == {{st.edges[i][1], st.edges[i][2]} : i \in 1..Len(st.edges)}

\* span = G[a] - G[b] + [a < b] (G[n] - G[1]) for some arg-max a, arg-min b (C19, k = 7)
SpanOK(G, span) ==
   \E a \in Ex!ArgMaxs(G, Le) : \E b \in Ex!ArgMins(G, Le) :
      CloseIn(span, Ex!SpanAt(G, a, b, Add, Sub, Zero), {G[a], G[b], G[1], G[Len(G)]}, 7)

PathOf(c) == c[1]
SpanOf(c) == c[2]
InRange(e, p) == \A i \in 1..Len(p) : p[i] \in 1..Len(e.G)

\* what both get_min_E_span and plot_coordinate_diagram must enumerate
PathClauses(e, R, T) ==
   LET n == Len(e.calls)
       paths == [i \in 1..n |-> PathOf(e.calls[i])]
   IN (IF \A i \in 1..n : IsPathway(GN, GE, e.s, T, paths[i]) THEN {} ELSE {"PathsAreSimple"})
      \* KNOWN DEVIATION (finding X02-F5): exactly the simple paths with at most cutoff EDGES
      \cup (IF e.c = 0 \/ \A i \in 1..n : Len(paths[i]) <= e.c THEN {}
            ELSE IF NoDup(paths) /\ RangeOf(paths) = Pathways(GN, GE, e.s, T, e.c + 1)
                 THEN {"CutoffStates_KnownEdgeCount"} ELSE {"CutoffStates"})
      \cup (IF NoDup(paths) THEN {} ELSE {"PathsOnce"})
      \cup (IF R \subseteq RangeOf(paths) THEN {} ELSE {"PathsComplete"})
      \cup (IF \A i \in 1..n :
                  (Len(paths[i]) >= 1 /\ InRange(e, paths[i])) =>
                     SpanOK(PathEnergies(e.G, paths[i]), SpanOf(e.calls[i]))
            THEN {} ELSE {"SpanDefinition"})

Judged(e, T) == st.ev = "build" /\ st.tid = e.tid /\ e.s \in GN /\ T \subseteq GN /\ e.s \notin T /\ T # {}

MinSpanClauses(e) ==
   LET T == RangeOf(e.tg) IN
   IF ~Judged(e, T) THEN {"UnknownEvent"} ELSE
   LET R == Pathways(GN, GE, e.s, T, e.c) IN
   IF R = {} THEN {} ELSE
   IF e.raised # "" THEN {"Raises"} \cup PathClauses(e, {}, T) ELSE
   IF ~e.finite THEN {"Finite"} ELSE
   PathClauses(e, R, T)
   \cup (IF /\ \E i \in 1..Len(e.calls) : e.out = SpanOf(e.calls[i])
            /\ \A i \in 1..Len(e.calls) : Le(e.out, SpanOf(e.calls[i]))
         THEN {} ELSE {"MinIsLeast"})

\* ---- D1: numbering and selection of the plotted pathways
RECURSIVE InsertSorted(_, _)
InsertSorted(s, v) ==
   IF s = <<>> THEN <<v>>
   ELSE IF Lt(v, s[1]) THEN <<v>> \o s ELSE <<s[1]>> \o InsertSorted(Tail(s), v)
RECURSIVE SortDec(_)
SortDec(s) == IF s = <<>> THEN <<>> ELSE InsertSorted(SortDec(Tail(s)), s[1])
Kept(e) ==
   LET sorted == SortDec([i \in 1..Len(e.calls) |-> SpanOf(e.calls[i])])
       first == IF e.maxp = 0 THEN sorted ELSE SubSeq(sorted, 1, MinOf(e.maxp, Len(sorted)))
   IN SelectSeq(first, LAMBDA v : ~e.hasmax \/ Le(v, e.maxspan))
Want(e, kept) == IF e.nums = <<>> THEN 1..Len(kept) ELSE RangeOf(e.nums) \cap (1..Len(kept))
SelectionOK(e, kept) ==
   LET nl == Len(e.labels) IN
   /\ {e.labels[i][1] : i \in 1..nl} = Want(e, kept)
   /\ \A i \in 1..(nl - 1) : e.labels[i][1] < e.labels[i + 1][1]
   /\ \A i \in 1..nl : e.labels[i][1] \in 1..Len(kept) => Close(e.labels[i][2], kept[e.labels[i][1]], 7)

\* the end points of a diagram are reactant / product states (the drawing of a transition
\* state needs the state after it)
TSNodes == TSOf(st.rx, TRUE)

DiagramClauses(e) ==
   LET T == RangeOf(e.tg) IN
   IF ~Judged(e, T) \/ (T \cup {e.s}) \cap TSNodes # {} THEN {"UnknownEvent"} ELSE
   LET R == Pathways(GN, GE, e.s, T, e.c) IN
   IF R = {} THEN {} ELSE
   IF ~e.finite THEN {"Finite"} ELSE
   \* the enumeration is judged whether or not the drawing succeeded (complete only if it was
   \* not interrupted: stage = "enum" means the exception came out of the enumeration itself)
   PathClauses(e, IF e.raised # "" /\ e.stage = "enum" THEN {} ELSE R, T)
   \cup (LET kept == Kept(e) IN
         IF e.raised # "" /\ e.stage = "enum" THEN {"Raises"}
         ELSE IF Want(e, kept) = {} THEN {}     \* nothing is left to draw: not specified
         ELSE IF e.raised # "" THEN {"Raises"}
         ELSE IF SelectionOK(e, kept) THEN {} ELSE {"Selection"})

SpanClauses(e) ==
   IF e.raised # "" THEN {"Raises"} ELSE
   IF ~e.finite THEN {"Finite"} ELSE
   IF Len(e.p) >= 1 /\ InRange(e, e.p) /\ SpanOK(PathEnergies(e.G, e.p), e.span) THEN {} ELSE {"SpanDefinition"}

Clauses(e) ==
   CASE e.ev = "build" -> (IF WellFormed(e.rx) THEN BuildClauses(e) ELSE {"UnknownEvent"})
     [] e.ev = "minspan" -> MinSpanClauses(e)
     [] e.ev = "diagram" -> DiagramClauses(e)
     [] e.ev = "span" -> SpanClauses(e)
     [] OTHER -> {"UnknownEvent"}

Step(e) == IF e.ev = "build" THEN e ELSE st

Init == l = 1 /\ st = [ev |-> "none"] /\ TLCSet(1, {})
Next == /\ l <= Len(TraceLog)
        /\ LET e == TraceLog[l]  bad == Clauses(e) IN
             /\ IF bad # {} THEN TLCSet(1, TLCGet(1) \cup {<<e.tid, l, c>> : c \in bad}) ELSE TRUE
             /\ st' = Step(e)
        /\ l' = l + 1
Spec == Init /\ [][Next]_<<l, st>>
Post == /\ PrintT(<<"FAILS", TLCGet(1)>>)
        /\ PrintT(<<"CONSUMED", TLCGet("stats").diameter - 1>>)
=============================================================================
