---- MODULE MC_Reaction_TTrace_1790574579 ----
EXTENDS Sequences, TLCExt, Toolbox, Naturals, TLC, MC_Reaction

_expression ==
    LET MC_Reaction_TEExpression == INSTANCE MC_Reaction_TEExpression
    IN MC_Reaction_TEExpression!expression
----

_trace ==
    LET MC_Reaction_TETrace == INSTANCE MC_Reaction_TETrace
    IN MC_Reaction_TETrace!trace
----

_inv ==
    ~(
        TLCGet("level") = Len(_TETrace)
        /\
        phase = ("run")
        /\
        ncalls = (0)
        /\
        last = ([kw |-> <<>>, call |-> [side |-> "-", rev |-> FALSE, act |-> FALSE, fn |-> "none"], res |-> <<>>])
        /\
        rxn = ([r |-> <<[n |-> <<"A">>, c |-> 4], [n |-> <<"A", "B">>, c |-> 1]>>, p |-> <<[n |-> <<"B">>, c |-> 4]>>, t |-> <<[n |-> <<"D">>, c |-> 4]>>])
        /\
        callerKw = (([k |-> "glob", id |-> <<"T">>] :> 1 @@ [k |-> "glob", id |-> <<"P">>] :> 1))
    )
----

_init ==
    /\ last = _TETrace[1].last
    /\ phase = _TETrace[1].phase
    /\ callerKw = _TETrace[1].callerKw
    /\ ncalls = _TETrace[1].ncalls
    /\ rxn = _TETrace[1].rxn
----

_next ==
    /\ \E i,j \in DOMAIN _TETrace:
        /\ \/ /\ j = i + 1
              /\ i = TLCGet("level")
        /\ last  = _TETrace[i].last
        /\ last' = _TETrace[j].last
        /\ phase  = _TETrace[i].phase
        /\ phase' = _TETrace[j].phase
        /\ callerKw  = _TETrace[i].callerKw
        /\ callerKw' = _TETrace[j].callerKw
        /\ ncalls  = _TETrace[i].ncalls
        /\ ncalls' = _TETrace[j].ncalls
        /\ rxn  = _TETrace[i].rxn
        /\ rxn' = _TETrace[j].rxn

\* Uncomment the ASSUME below to write the states of the error trace
\* to the given file in Json format. Note that you can pass any tuple
\* to `JsonSerialize`. For example, a sub-sequence of _TETrace.
    \* ASSUME
    \*     LET J == INSTANCE Json
    \*         IN J!JsonSerialize("MC_Reaction_TTrace_1790574579.json", _TETrace)

=============================================================================

 Note that you can extract this module `MC_Reaction_TEExpression`
  to a dedicated file to reuse `expression` (the module in the 
  dedicated `MC_Reaction_TEExpression.tla` file takes precedence 
  over the module `MC_Reaction_TEExpression` below).

---- MODULE MC_Reaction_TEExpression ----
EXTENDS Sequences, TLCExt, Toolbox, Naturals, TLC, MC_Reaction

expression == 
    [
        \* To hide variables of the `MC_Reaction` spec from the error trace,
        \* remove the variables below.  The trace will be written in the order
        \* of the fields of this record.
        last |-> last
        ,phase |-> phase
        ,callerKw |-> callerKw
        ,ncalls |-> ncalls
        ,rxn |-> rxn
        
        \* Put additional constant-, state-, and action-level expressions here:
        \* ,_stateNumber |-> _TEPosition
        \* ,_lastUnchanged |-> last = last'
        
        \* Format the `last` variable as Json value.
        \* ,_lastJson |->
        \*     LET J == INSTANCE Json
        \*     IN J!ToJson(last)
        
        \* Lastly, you may build expressions over arbitrary sets of states by
        \* leveraging the _TETrace operator.  For example, this is how to
        \* count the number of times a spec variable changed up to the current
        \* state in the trace.
        \* ,_lastModCount |->
        \*     LET F[s \in DOMAIN _TETrace] ==
        \*         IF s = 1 THEN 0
        \*         ELSE IF _TETrace[s].last # _TETrace[s-1].last
        \*             THEN 1 + F[s-1] ELSE F[s-1]
        \*     IN F[_TEPosition - 1]
    ]

=============================================================================



Parsing and semantic processing can take forever if the trace below is long.
 In this case, it is advised to uncomment the module below to deserialize the
 trace from a generated binary file.

\*
\*---- MODULE MC_Reaction_TETrace ----
\*EXTENDS IOUtils, TLC, MC_Reaction
\*
\*trace == IODeserialize("MC_Reaction_TTrace_1790574579.bin", TRUE)
\*
\*=============================================================================
\*

---- MODULE MC_Reaction_TETrace ----
EXTENDS TLC, MC_Reaction

trace == 
    <<
    ([phase |-> "rxn",ncalls |-> 0,last |-> [kw |-> <<>>, call |-> [side |-> "-", rev |-> FALSE, act |-> FALSE, fn |-> "none"], res |-> <<>>],rxn |-> [r |-> <<>>, p |-> <<>>, t |-> <<>>],callerKw |-> <<>>]),
    ([phase |-> "kw",ncalls |-> 0,last |-> [kw |-> <<>>, call |-> [side |-> "-", rev |-> FALSE, act |-> FALSE, fn |-> "none"], res |-> <<>>],rxn |-> [r |-> <<[n |-> <<"A">>, c |-> 4], [n |-> <<"A", "B">>, c |-> 1]>>, p |-> <<[n |-> <<"B">>, c |-> 4]>>, t |-> <<[n |-> <<"D">>, c |-> 4]>>],callerKw |-> <<>>]),
    ([phase |-> "run",ncalls |-> 0,last |-> [kw |-> <<>>, call |-> [side |-> "-", rev |-> FALSE, act |-> FALSE, fn |-> "none"], res |-> <<>>],rxn |-> [r |-> <<[n |-> <<"A">>, c |-> 4], [n |-> <<"A", "B">>, c |-> 1]>>, p |-> <<[n |-> <<"B">>, c |-> 4]>>, t |-> <<[n |-> <<"D">>, c |-> 4]>>],callerKw |-> ([k |-> "glob", id |-> <<"T">>] :> 1 @@ [k |-> "glob", id |-> <<"P">>] :> 1)])
    >>
----


=============================================================================

---- CONFIG MC_Reaction_TTrace_1790574579 ----
CONSTANTS
    Rxns <- RxnSmall
    KwParts <- KwSmall
    ProbeNames <- MCProbeNames
    ProbeBlocks <- MCProbeBlocks
    Variant = "actswap"
    MaxCalls = 2

INVARIANT
    _inv

CHECK_DEADLOCK
    \* CHECK_DEADLOCK off because of PROPERTY or INVARIANT above.
    FALSE

INIT
    _init

NEXT
    _next

CONSTANT
    _TETrace <- _trace

ALIAS
    _expression
=============================================================================
\* Generated on Mon Sep 28 05:49:43 UTC 2026