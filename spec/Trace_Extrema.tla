--------------------------- MODULE Trace_Extrema ---------------------------
(***************************************************************************)
(* C19 - trace validation of recorded PhaseDiagram scans and energy spans. *)
(* One NDJSON line per library call; numbers are Dec <<m, e>>; the         *)
(* selection operators are those of Extrema.tla instantiated with the Dec  *)
(* order Le (entries that agree to 9 digits count as tied: any of them is  *)
(* an acceptable minimum).                                                 *)
(*                                                                         *)
(*  scan1 : PhaseDiagram.get_GoRT_1D.  n reactions, np grid values;        *)
(*          tab (returned table, n x np) with its numpy shape tabshape;    *)
(*          st (returned stable_phases, flattened, 0-based) with its numpy *)
(*          shape stshape, stint (all entries integral); own[i][j] = the   *)
(*          reaction's own get_delta_GoRT at grid point j, called by the   *)
(*          driver; norm[i]; units (G_units given), R = R(G_units/K),      *)
(*          T[j] = temperature at grid point j; k > 0: this 1-D scan fixes *)
(*          the second variable of the preceding scan2 line of the same    *)
(*          trace at its k-th value.                                       *)
(*  scan2 : PhaseDiagram.get_GoRT_2D, the same with tab n x np x nq,       *)
(*          st np x nq (nested), own n x np x nq, T np x nq.               *)
(*  span  : Reactions.get_E_span / Network.get_E_span.                     *)
(*          api = "reactions": steps = one record per step [r, t, p] (the  *)
(*          Gibbs energy of its reactant state, <<>> or <<TS energy>>, its *)
(*          product state; each from the reaction's own get_G_state) and   *)
(*          the spec forms States(steps) itself - every step's reactant    *)
(*          state is a state of the sequence, whether or not it equals the *)
(*          previous product state.  api = "network": G = the energies of  *)
(*          the nodes of the path, in order.  span = the returned value.   *)
(*                                                                         *)
(*          tabfloat: the returned table has a floating dtype (tabdtype =  *)
(*          its name): a table of Gibbs energies must not take an integer  *)
(*          type from an integer-typed scan grid -> clause TableIsFloat.   *)
(* Clauses: TableShape, TableIsFloat, EntryMatches, StableShape,           *)
(* StableIsArgMinOfReturnedTable, OneDEqualsTwoDSlice, SpanDefinition,     *)
(* Finite.                                                                 *)
(***************************************************************************)
EXTENDS Extrema, Dec, TLC, TLCExt, Json, IOUtils

TraceLog == ndJsonDeserialize(IOEnv.TRACE_FILE)
VARIABLES l, st

One == <<1, 0>>
Plus1(s) == [j \in 1..Len(s) |-> s[j] + 1]                    \* numpy indices are 0-based
Plus2(s) == [j \in 1..Len(s) |-> Plus1(s[j])]

\* tab[i][j] * norm[i] = own[i][j] (* R * T[j]): no division; 2-3 multiplications -> k = 6
EntryOK(t, nrm, own, units, R, T) ==
   Close(Mul(t, nrm), IF units THEN Mul(Mul(own, R), T) ELSE own, 6)

Scan1Clauses(e) ==
   LET shapeT == e.tabshape = <<e.n, e.np>> /\ IsTable1(e.tab, e.n, e.np)
       shapeS == e.stshape = <<e.np>> /\ Shape1OK(e.st, e.np)
       rep == Plus1(e.st)
   IN (IF e.finite THEN {} ELSE {"Finite"})
      \cup (IF shapeT THEN {} ELSE {"TableShape"})
      \cup (IF e.tabfloat THEN {} ELSE {"TableIsFloat"})
      \cup (IF shapeS THEN {} ELSE {"StableShape"})
      \cup (IF ~shapeT \/ ~e.finite THEN {} ELSE
              (IF \A i \in 1..e.n : \A j \in 1..e.np :
                     EntryOK(e.tab[i][j], e.norm[i], e.own[i][j], e.units, e.R, e.T[j])
               THEN {} ELSE {"EntryMatches"})
              \cup (IF e.stint /\ Stable1OK(e.tab, e.np, rep, Le)
                    THEN {} ELSE {"StableIsArgMinOfReturnedTable"})
              \cup (IF e.k = 0 THEN {} ELSE
                    IF /\ st.ev = "scan2" /\ st.tid = e.tid /\ st.finite
                       /\ IsTable2(st.tab, e.n, e.np, st.nq) /\ e.k \in 1..st.nq
                       /\ \A i \in 1..e.n : \A j \in 1..e.np : Close(e.tab[i][j], st.tab[i][j][e.k], 8)
                       \* each report is an arg-min of the other scan's column
                       /\ Stable1OK(Slice(st.tab, e.k), e.np, rep, Le)
                       /\ Shape2OK(st.st, e.np, st.nq)
                       /\ Stable1OK(e.tab, e.np, [j \in 1..e.np |-> st.st[j][e.k] + 1], Le)
                       /\ shapeS
                    THEN {} ELSE {"OneDEqualsTwoDSlice"}))

Scan2Clauses(e) ==
   LET shapeT == e.tabshape = <<e.n, e.np, e.nq>> /\ IsTable2(e.tab, e.n, e.np, e.nq)
       shapeS == e.stshape = <<e.np, e.nq>> /\ Shape2OK(e.st, e.np, e.nq)
   IN (IF e.finite THEN {} ELSE {"Finite"})
      \cup (IF shapeT THEN {} ELSE {"TableShape"})
      \cup (IF e.tabfloat THEN {} ELSE {"TableIsFloat"})
      \cup (IF shapeS THEN {} ELSE {"StableShape"})
      \cup (IF ~shapeT \/ ~e.finite THEN {} ELSE
              (IF \A i \in 1..e.n : \A j \in 1..e.np : \A k \in 1..e.nq :
                     EntryOK(e.tab[i][j][k], e.norm[i], e.own[i][j][k], e.units, e.R, e.T[j][k])
               THEN {} ELSE {"EntryMatches"})
              \cup (IF e.stint /\ Stable2OK(e.tab, e.np, e.nq, Plus2(e.st), Le)
                    THEN {} ELSE {"StableIsArgMinOfReturnedTable"}))

\* span = G[a] - G[b] + [a < b] (G[n] - G[1]) for some arg-max a, arg-min b.
\* three additions of logged values: error < 6 units of the 9th digit of the
\* largest operand -> k = 7
SpanClauses(e) ==
   IF ~e.finite THEN {"Finite"} ELSE
   LET G == IF e.api = "reactions" THEN States(e.steps) ELSE e.G IN
   IF \E a \in ArgMaxs(G, Le) : \E b \in ArgMins(G, Le) :
         CloseIn(e.span, SpanAt(G, a, b, Add, Sub, Zero),
                 {G[a], G[b], G[1], G[Len(G)]}, 7)
   THEN {} ELSE {"SpanDefinition"}

Clauses(e) ==
   CASE e.ev = "scan1" -> Scan1Clauses(e)
     [] e.ev = "scan2" -> Scan2Clauses(e)
     [] e.ev = "span" -> SpanClauses(e)
     [] OTHER -> {"UnknownEvent"}

Step(e) == IF e.ev = "scan2" THEN e ELSE st

TInit == l = 1 /\ st = [ev |-> "none"] /\ TLCSet(1, {})
TNext == /\ l <= Len(TraceLog)
         /\ LET e == TraceLog[l]  bad == Clauses(e) IN
              /\ IF bad # {} THEN TLCSet(1, TLCGet(1) \cup {<<e.tid, l, c>> : c \in bad}) ELSE TRUE
              /\ st' = Step(e)
         /\ l' = l + 1
         /\ UNCHANGED vars
TSpec == TInit /\ call = "idle" /\ arg = <<>> /\ out = <<>> /\ [][TNext]_<<l, st, vars>>
Post == /\ PrintT(<<"FAILS", TLCGet(1)>>)
        /\ PrintT(<<"CONSUMED", TLCGet("stats").diameter - 1>>)
=============================================================================
