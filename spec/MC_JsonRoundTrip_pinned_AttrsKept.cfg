\* the tables of the pinned source: TLC is expected to REJECT this configuration (AttrsKept)
SPECIFICATION Spec
CONSTANTS
  Variant = "pinned"
  MaxDepth = 2
  MaxLife = 4
  Roots <- AllRoots
INVARIANT AttrsKept
CHECK_DEADLOCK FALSE
