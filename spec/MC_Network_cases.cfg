\* case generation only (constant level)
SPECIFICATION Spec
CONSTANTS
  Networks <- MCNetsTiny
  Cutoffs <- MCNone
  EVals <- MCZero
  EndAtTS = FALSE
  MaxTargets = 1
  Variant = "ok"
  Order = "asc"
CHECK_DEADLOCK FALSE
