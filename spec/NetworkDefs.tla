---------------------------- MODULE NetworkDefs ----------------------------
(***************************************************************************)
(* X02 - reaction networks (pmutt/reaction/network.py): definitions.       *)
(*                                                                         *)
(* What the module talks about                                             *)
(*   state      a side of a reaction (reactants, products, transition      *)
(*              state): a set of (species, stoichiometric amount) pairs.   *)
(*              Here a state is a small positive integer (its identity);   *)
(*              0 means "no transition state".                             *)
(*   reaction   <<r, p, t>>: reactant state, product state, TS state or 0. *)
(*   network    a sequence of reactions.                                   *)
(*   graph      (nodes, edges): nodes = states, an edge is a two-element   *)
(*              set of nodes.  Reactions are reversible, the graph is      *)
(*              undirected (the library builds networkx.Graph; the class   *)
(*              docstring's "networkx.DiGraph" is not what is built and is *)
(*              not taken as the meaning).                                 *)
(*                                                                         *)
(* REQUIRED RELATIONS (from the docstrings of Network, update_network,     *)
(* get_E_span, plot_coordinate_diagram; narrow reading where silent):      *)
(*  G1 "Nodes correspond to reaction states and the edges correspond to    *)
(*     reactions": nodes = every reactant and product state, and - when    *)
(*     transition states are included - every transition state.  A         *)
(*     reaction with an included transition state contributes the edges    *)
(*     reactants - TS and TS - products; any other reaction contributes    *)
(*     the edge reactants - products.  Nothing else is a node or an edge.  *)
(*  G2 update_network(include_TS): "Whether transition states should be    *)
(*     included": with include_TS = False no transition state is a node.   *)
(*  G3 the node attribute is_transition_state holds exactly on TS nodes.   *)
(*  P1 pathways from a source to a set of targets ("All pathways will      *)
(*     start here" / "All pathways will end here") are exactly the simple  *)
(*     paths of the graph (no repeated node, consecutive nodes adjacent)   *)
(*     that start at the source and end at a target - each once.           *)
(*  P2 cutoff = "Maximum number of states in the pathway": a pathway has   *)
(*     at most cutoff nodes; cutoff absent (here 0): no bound.             *)
(*  S1 energy span of a path = the C19 span (Extrema.tla, SpanSet) of the  *)
(*     energies of the path's states in path order.                        *)
(*  S2 minimum energy span = the least span over all pathways (where a     *)
(*     path admits several spans because its highest / lowest energy is    *)
(*     attained more than once, any consistent choice is accepted).        *)
(*  D1 coordinate diagram: pathways are numbered 1, 2, ... in ascending    *)
(*     order of energy span; max_paths keeps the max_paths pathways of     *)
(*     smallest span, max_energy_span then eliminates those with a larger  *)
(*     span, pathway_numbers selects by number.                            *)
(* Outside the quantifier (the text is silent): a source that is also a    *)
(* target; sources / targets that are not nodes; queries without any       *)
(* pathway; reactions whose two sides are the same state; a transition     *)
(* state shared by two reactions or equal to a reactant / product state.   *)
(***************************************************************************)
EXTENDS Integers, Sequences, FiniteSets

\* the span definition of C19, read-only (the constants / variables of the C19 design
\* model are irrelevant to the definitions used here)
Ex == INSTANCE Extrema WITH MaxR <- 1, MaxP <- 1, MaxR2 <- 1, MaxP2 <- 1, Vals <- {0},
                            MaxS <- 1, SVals <- {0}, MaxSteps <- 1, StepVals <- {0},
                            Variant <- "axis0", call <- "idle", arg <- <<>>, out <- <<>>

RangeOf(f) == {f[i] : i \in DOMAIN f}
MinOf(a, b) == IF a < b THEN a ELSE b
NoDup(s) == \A i, j \in 1..Len(s) : i # j => s[i] # s[j]

\* ------------------------------------------------------------------------
\* G1-G3: the graph of a network
\* ------------------------------------------------------------------------
HasTS(x, inc) == inc /\ x[3] # 0
RxNodes(x, inc) == {x[1], x[2]} \cup (IF HasTS(x, inc) THEN {x[3]} ELSE {})
RxEdges(x, inc) == IF HasTS(x, inc) THEN {{x[1], x[3]}, {x[2], x[3]}} ELSE {{x[1], x[2]}}
NodesOf(rxs, inc) == UNION {RxNodes(rxs[i], inc) : i \in 1..Len(rxs)}
EdgesOf(rxs, inc) == UNION {RxEdges(rxs[i], inc) : i \in 1..Len(rxs)}
TSOf(rxs, inc) == {rxs[i][3] : i \in {j \in 1..Len(rxs) : HasTS(rxs[j], inc)}}

\* the networks the statements are about
WellFormed(rxs) ==
   /\ \A i \in 1..Len(rxs) : rxs[i][1] # rxs[i][2] /\ rxs[i][1] # 0 /\ rxs[i][2] # 0
   /\ \A i, j \in 1..Len(rxs) :
         rxs[i][3] # 0 => /\ rxs[i][3] \notin {rxs[j][1], rxs[j][2]}
                          /\ (i # j => rxs[i][3] # rxs[j][3])

\* ------------------------------------------------------------------------
\* P1, P2: simple paths.  maxStates = the largest number of nodes allowed
\* ------------------------------------------------------------------------
MaxStates(N, cutoff) == IF cutoff = 0 THEN Cardinality(N) ELSE MinOf(cutoff, Cardinality(N))

\* the definition: p is a walk without repeated node along edges of (N, E)
IsSimplePath(N, E, p) ==
   /\ Len(p) >= 1
   /\ \A i \in 1..Len(p) : p[i] \in N
   /\ NoDup(p)
   /\ \A i \in 1..(Len(p) - 1) : {p[i], p[i + 1]} \in E
IsPathway(N, E, s, T, p) == IsSimplePath(N, E, p) /\ p[1] = s /\ p[Len(p)] \in T
SimplePaths(N, E, s, T, maxStates) ==
   {p \in UNION {[1..n -> N] : n \in 1..maxStates} : IsPathway(N, E, s, T, p)}

\* the same set computed by extension (used where the filter above is too slow; the two are
\* checked equal on every graph with <= 4 nodes in MC_Network_lemmas)
RECURSIVE Ext(_, _, _, _, _)
Ext(N, E, T, p, maxStates) ==
   (IF p[Len(p)] \in T THEN {p} ELSE {})
   \cup (IF Len(p) < maxStates
         THEN UNION {Ext(N, E, T, Append(p, n), maxStates)
                     : n \in {m \in N : m \notin RangeOf(p) /\ {p[Len(p)], m} \in E}}
         ELSE {})
PathsRec(N, E, s, T, maxStates) ==
   IF s \in N /\ maxStates >= 1 THEN Ext(N, E, T, <<s>>, maxStates) ELSE {}
Pathways(N, E, s, T, cutoff) == PathsRec(N, E, s, T, MaxStates(N, cutoff))

\* ------------------------------------------------------------------------
\* S1, S2 on integer energies (design model, case generation)
\* ------------------------------------------------------------------------
ILe(a, b) == a <= b
IAdd(a, b) == a + b
ISub(a, b) == a - b
PathEnergies(en, p) == [i \in 1..Len(p) |-> en[p[i]]]
SpanSetI(G) == Ex!SpanSet(G, ILe, IAdd, ISub, 0)
PathSpans(en, p) == SpanSetI(PathEnergies(en, p))
\* v is an acceptable minimum span over the path set P: some choice of one acceptable span
\* per path has v as its least element
MinSpanOK(v, P, en) ==
   /\ \E p \in P : v \in PathSpans(en, p)
   /\ \A p \in P : \E w \in PathSpans(en, p) : v <= w
MinSpanSet(P, en) == {v \in UNION {PathSpans(en, p) : p \in P} : MinSpanOK(v, P, en)}
=============================================================================
