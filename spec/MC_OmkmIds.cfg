\* skip_used: unique ids for every choice of user ids over <= 3 reactions, stable over a rewrite
SPECIFICATION ASpec
CONSTANTS
  N = 3
  UserIds = {"r_0000", "r_0001", "x_0007"}
  Variant = "skip_used"
INVARIANT IdsUnique
INVARIANT UserIdsKept
INVARIANT AllHaveIds
PROPERTY StableOnRewrite
CHECK_DEADLOCK FALSE
