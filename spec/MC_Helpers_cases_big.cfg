INIT Init
NEXT Next
CONSTANT Big = TRUE
CHECK_DEADLOCK FALSE
