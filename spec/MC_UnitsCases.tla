---------------------------- MODULE MC_UnitsCases ----------------------------
(***************************************************************************)
(* C12 - (S->C) the case sets TLC derives from the catalogue of Units.tla, *)
(* each with the outcome the SPECIFICATION predicts:                       *)
(*  pairs    every ordered pair of catalogued units and of the non-units:  *)
(*           "ok" / "refused", and for two SI-prefix units the exact       *)
(*           factor 10^p (has10 = TRUE);                                   *)
(*  temps    every ordered pair of temperature scales at integer points    *)
(*           where the exact rational result is a whole number of          *)
(*           hundredths: the expected value, in hundredths;                *)
(*  elements (Z, symbol) of the periodic table;                            *)
(*  types    (unit, quantity type).                                        *)
(* The driver makes the call on the real code and compares by equality.    *)
(***************************************************************************)
EXTENDS Units, Sequences, Json, IOUtils, SequencesExt

VARIABLE dummy

Names == AllUnits \cup NotUnits
PairCases ==
   {[u |-> u, v |-> v,
     expect |-> IF Known(u) /\ Known(v) /\ TypeOf(u) = TypeOf(v) THEN "ok" ELSE "refused",
     has10 |-> Known(u) /\ Known(v) /\ Decimal(u) /\ Decimal(v) /\ TypeOf(u) = TypeOf(v),
     p10 |-> IF Known(u) /\ Known(v) /\ Decimal(u) /\ Decimal(v) /\ TypeOf(u) = TypeOf(v)
             THEN Pow10Exp[v] - Pow10Exp[u] ELSE 0] : u \in Names, v \in Names}

TempPoints == {-273, -40, -1, 0, 5, 25, 32, 100, 212, 298, 500, 1000}
Hundredths(y) == RMul(y, R(100))
TempCases ==
   {[u |-> u, v |-> v, x |-> x, y100 |-> Hundredths(TempConv(u, v, R(x)))[1]] :
       <<u, v, x>> \in {t \in Temp \X Temp \X TempPoints :
                           RIsInt(Hundredths(TempConv(t[1], t[2], R(t[3]))))}}

ElementCases == {[z |-> z, syms |-> SymbolsOf(z)] : z \in Elements}
TypeCases == {[u |-> u, type |-> TypeOf(u), si |-> SIUnit(TypeOf(u))] : u \in AllUnits}

ASSUME JsonSerialize(IOEnv.OUT_FILE,
          [pairs |-> SetToSeq(PairCases), temps |-> SetToSeq(TempCases),
           elements |-> SetToSeq(ElementCases), types |-> SetToSeq(TypeCases)])
ASSUME PrintT(<<"CASES", Cardinality(PairCases), Cardinality(TempCases),
                Cardinality(ElementCases), Cardinality(TypeCases)>>)

Init == dummy = 0
Next == UNCHANGED dummy
=============================================================================
