----------------------------- MODULE ChemkinReq -----------------------------
(***************************************************************************)
(* C06 - Chemkin mechanism files transcribe the model faithfully.          *)
(*                                                                         *)
(* PART 1 (shared with Trace_ChemkinDoc.tla): the abstract mechanism, the  *)
(* abstract documents and the REQUIRED relation between them.              *)
(*                                                                         *)
(*  mechanism M = [sp, sites, rx]                                          *)
(*    sp[i]    = [name, ph ("G" gas | "S" on a surface), site (index into  *)
(*               sites, 0 = none), bulk (it is the bulk species of its     *)
(*               site), occ (sites occupied), els (sequence of element     *)
(*               names)]                                                   *)
(*    sites[j] = [name, bulk (name of the bulk species)]                   *)
(*    rx[k]    = [lhs, rhs (sequences of <<coef, species index>>), ads]    *)
(*  names are sequences of character codes.                                *)
(*                                                                         *)
(*  documents (what a file SAYS, whatever its layout):                     *)
(*    gas  = [els, sp (sequences of names), rx (sequence of entries)]      *)
(*    surf = [sites (sequence of [name, ads = sequence of <<name, occ>>]), *)
(*            bulk (sequence of names), rx]                                *)
(*    ea   = [count, rows (sequence of entries)]                           *)
(*    tube = [count, rows (sequence of [name, tag])]                       *)
(*    entry = [lhs, rhs (bags: sets of <<name, coef>>), stick]             *)
(*                                                                         *)
(*  required relation (the property):                                      *)
(*    Partition   a reaction is in the gas files iff EVERY species of it   *)
(*                (reactants and products) is gaseous, otherwise in the    *)
(*                surface files;                                           *)
(*    EachOnce*   every element, gas species, site, adsorbate, bulk        *)
(*                species and reaction that belongs in a section is there  *)
(*                exactly once; nothing else is there (NoStrangers);       *)
(*    CountsMatch a declared count equals the number of entries after it;  *)
(*    ReadBack    the printed equation, read back, is the same reaction    *)
(*                (ChemkinEq!ReadBackOK).                                  *)
(*  Readings taken where the text is silent (the narrower one):            *)
(*   - surf.inp receives no species list, so "every species" of surf.inp   *)
(*     is every non-gaseous species that takes part in a reaction          *)
(*     (transition states are not part of the mechanism files);            *)
(*   - a site is needed when one of its adsorbates takes part; sites       *)
(*     declared beyond the needed ones must still be sites of M;           *)
(*   - a bulk species that takes part must be declared; a declared bulk    *)
(*     species must be the bulk species of a site of M;                    *)
(*   - the reactions of a mechanism are pairwise different as equations.   *)
(*                                                                         *)
(* PART 2: the design model.  A session chooses <= MaxSp species from a    *)
(* pool, adds <= MaxRx reactions and writes all files (one operator per    *)
(* public writer, shaped like pmutt/io/chemkin.py: species of surf.inp are *)
(* discovered from the reactions, sites in order of first adsorbate, BULK  *)
(* lines for the discovered sites, counts taken after filtering).  GasTest *)
(* selects the classification: "all" (required) or "reactants" (what       *)
(* ChemkinReaction._is_gas_phase does in the pinned source).  TLC checks   *)
(* that the documents produced satisfy the required relation.              *)
(***************************************************************************)
EXTENDS ChemkinEq, TLC

Range(s) == {s[i] : i \in DOMAIN s}
RECURSIVE SetToSeq(_)
SetToSeq(S) == IF S = {} THEN <<>> ELSE LET x == CHOOSE x \in S : TRUE IN <<x>> \o SetToSeq(S \ {x})
RECURSIVE SortInts(_)
SortInts(S) == IF S = {} THEN <<>> ELSE LET x == CHOOSE x \in S : \A y \in S : x <= y IN <<x>> \o SortInts(S \ {x})
NoDup(s) == \A i, j \in DOMAIN s : i # j => s[i] # s[j]
GasTag == <<71, 65, 83>>                                   \* "GAS"

\* ------------------------------------------------------------- mechanism
Terms(r) == Range(r.lhs) \cup Range(r.rhs)
AllGaseous(M, r) == \A t \in Terms(r) : M.sp[t[2]].ph = "G"
ReactantsGaseous(M, r) == \A t \in Range(r.lhs) : M.sp[t[2]].ph = "G"
NamedSide(M, side) == [i \in DOMAIN side |-> <<side[i][1], M.sp[side[i][2]].name>>]
RxBags(M, r) == [lhs |-> Bag(NamedSide(M, r.lhs)), rhs |-> Bag(NamedSide(M, r.rhs))]
Partic(M) == UNION {{t[2] : t \in Terms(M.rx[k])} : k \in DOMAIN M.rx}    \* species taking part
Adsorbates(M) == {i \in Partic(M) : M.sp[i].ph # "G" /\ ~M.sp[i].bulk}
NeededSites(M) == {M.sp[i].site : i \in Adsorbates(M)}
DistinctRx(M) == \A a, b \in DOMAIN M.rx : a # b => RxBags(M, M.rx[a]) # RxBags(M, M.rx[b])

\* ------------------------------------------------- the required relation
SameEq(en, b) == en.lhs = b.lhs /\ en.rhs = b.rhs
Occur(entries, b) == Cardinality({k \in DOMAIN entries : SameEq(entries[k], b)})
\* indices of the model reactions an entry denotes (at most one when DistinctRx)
Denotes(M, en) == {i \in DOMAIN M.rx : SameEq(en, RxBags(M, M.rx[i]))}

\* `entries` is the reaction section of a file for the gaseous (wantGas) or the other reactions
\* test = "all": the required classification; "reactants": the named variant (reactants only)
IsGasBy(test, M, r) == IF test = "all" THEN AllGaseous(M, r) ELSE ReactantsGaseous(M, r)
PartitionBy(test, M, entries, wantGas) ==
   \A i \in DOMAIN M.rx : (Occur(entries, RxBags(M, M.rx[i])) >= 1) <=> (IsGasBy(test, M, M.rx[i]) = wantGas)
PartitionOK(M, entries, wantGas) == PartitionBy("all", M, entries, wantGas)
ReactionsOnce(M, entries) == \A i \in DOMAIN M.rx : Occur(entries, RxBags(M, M.rx[i])) <= 1
NoStrangers(M, entries) == \A k \in DOMAIN entries : Denotes(M, entries[k]) # {}
StickOK(M, entries) == \A k \in DOMAIN entries : \A i \in Denotes(M, entries[k]) : entries[k].stick = M.rx[i].ads

ElementsOK(M, els) == NoDup(els) /\ Range(els) = UNION {Range(M.sp[i].els) : i \in DOMAIN M.sp}
GasSpeciesOK(M, sp) == NoDup(sp) /\ Range(sp) = {M.sp[i].name : i \in {j \in DOMAIN M.sp : M.sp[j].ph = "G"}}

SiteIndex(M, name) == IF \E j \in DOMAIN M.sites : M.sites[j].name = name
                      THEN CHOOSE j \in DOMAIN M.sites : M.sites[j].name = name ELSE 0
SitesOK(M, sites) ==
   LET names == [k \in DOMAIN sites |-> sites[k].name] IN
   /\ NoDup(names)
   /\ Range(names) \subseteq {M.sites[j].name : j \in DOMAIN M.sites}
   /\ {M.sites[j].name : j \in NeededSites(M)} \subseteq Range(names)
AdsorbatesOK(M, sites) ==
   \A k \in DOMAIN sites :
      LET j == SiteIndex(M, sites[k].name)
          names == [a \in DOMAIN sites[k].ads |-> sites[k].ads[a][1]]
      IN /\ NoDup(names)
         /\ Range(sites[k].ads) = {<<M.sp[i].name, M.sp[i].occ>> : i \in {x \in Adsorbates(M) : M.sp[x].site = j}}
BulkOK(M, bulk) ==
   /\ NoDup(bulk)
   /\ Range(bulk) \subseteq {M.sites[j].bulk : j \in DOMAIN M.sites}
   /\ {M.sp[i].name : i \in {x \in Partic(M) : M.sp[x].bulk}} \subseteq Range(bulk)

CountOK(doc) == doc.count = Len(doc.rows)

TagOf(M, i) == IF M.sp[i].ph = "G" THEN GasTag
               ELSE IF M.sp[i].site = 0 THEN <<>> ELSE M.sites[M.sp[i].site].name
\* F = the species names that occur in any mole-fraction condition
TubeOK(M, F, doc) ==
   LET names == [k \in DOMAIN doc.rows |-> doc.rows[k].name] IN
   /\ NoDup(names)
   /\ Range(names) = F \cap {M.sp[i].name : i \in DOMAIN M.sp}
   /\ \A k \in DOMAIN doc.rows : \A i \in DOMAIN M.sp :
         M.sp[i].name = doc.rows[k].name => doc.rows[k].tag = TagOf(M, i)
=============================================================================
