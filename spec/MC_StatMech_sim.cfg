SPECIFICATION CSpec
CONSTANTS
  WN <- MCWN
  SUBS <- MCSUBS
  MaxLenW = 4
  MaxOps = 6
INVARIANT EmitBehaviours
CHECK_DEADLOCK FALSE
