------------------------- MODULE Trace_ReactorYaml -------------------------
(***************************************************************************)
(* C07 (reactor file) - one NDJSON line per real call of write_yaml:       *)
(*   c    the assignment TLC generated (assign, units, usys, gen)          *)
(*   obs  raised (exception class or ""), loaded (yaml.safe_load worked),  *)
(*        leaves of the loaded document [path, k, num, s, codes, b]        *)
(* The verdict is ReactorYaml!Verdict(c, obs); names of failing clauses    *)
(* are accumulated in TLC register 1.                                      *)
(***************************************************************************)
EXTENDS ReactorYaml, TLCExt, Json, IOUtils

TraceLog == ndJsonDeserialize(IOEnv.TRACE_FILE)
VARIABLES l, st

Clauses(e) == IF e.ev = "case" THEN Verdict(e.c, e.obs) ELSE {"UnknownEvent"}

Init == l = 1 /\ st = 0 /\ TLCSet(1, {})
Next == /\ l <= Len(TraceLog)
        /\ LET e == TraceLog[l]  bad == Clauses(e) IN
             IF bad # {} THEN TLCSet(1, TLCGet(1) \cup {<<e.tid, l, c>> : c \in bad}) ELSE TRUE
        /\ st' = st
        /\ l' = l + 1
Spec == Init /\ [][Next]_<<l, st>>
Post == /\ PrintT(<<"FAILS", TLCGet(1)>>)
        /\ PrintT(<<"CONSUMED", TLCGet("stats").diameter - 1>>)
=============================================================================
