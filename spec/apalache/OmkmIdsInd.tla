---------------------------- MODULE OmkmIdsInd ----------------------------
(***************************************************************************)
(* C07, unbounded face (Apalache) of OmkmIds.tla: the id-allocation loop   *)
(* of write_cti / write_thermo_yaml taken one iteration per step, with the *)
(* ids as arbitrary integers instead of six strings.                       *)
(*   id >= 0   the string "r_%04d" % id (what the counter produces)        *)
(*   id = -1   no id yet                                                   *)
(*   id <= -2  any other user string (cannot collide with the counter)     *)
(* Variant "skip_used" (source after fix: 6c77161): skips ids a user       *)
(* chose; the loop invariant LoopInv is inductive and implies IdsUnique,   *)
(* UserIdsKept and AllHaveIds at loop exit for EVERY choice of user ids    *)
(* (TLC: three user ids).  Variant "counter" (pinned source): rejected.    *)
(* Only the number of reactions is bounded (Gen(N)).                       *)
(***************************************************************************)
EXTENDS Integers, Sequences, FiniteSets, Apalache
CONSTANTS
  \* @type: Int;
  N,
  \* @type: Str;
  Variant
VARIABLES
  \* @type: Seq(Int);
  given,
  \* @type: Seq(Int);
  cur,
  \* @type: Int;
  k,
  \* @type: Int;
  i

Used == {given[a] : a \in {b \in DOMAIN given : given[b] # -1}}
GivenOK == /\ Len(given) <= N
           /\ \A a \in DOMAIN given : \A b \in DOMAIN given : (a # b /\ given[a] # -1) => given[a] # given[b]

Init == /\ given = Gen(5) /\ GivenOK
        /\ cur = given /\ k = 1 /\ i = 0

\* one iteration of the writer's loop
Step == /\ k <= Len(cur)
        /\ IF cur[k] # -1
           THEN UNCHANGED <<cur, i>>
           ELSE \E j \in Int :
                  /\ j >= i
                  /\ IF Variant = "skip_used"
                     THEN /\ j \notin Used
                          \* every counter value passed over was a user's id
                          /\ Cardinality({u \in Used : i <= u /\ u < j}) = j - i
                     ELSE j = i
                  /\ cur' = [cur EXCEPT ![k] = j]
                  /\ i' = j + 1
        /\ k' = k + 1
        /\ UNCHANGED given
Next == Step

LoopInv ==
   /\ GivenOK /\ Len(cur) = Len(given) /\ k >= 1 /\ k <= Len(cur) + 1 /\ i >= 0
   /\ \A a \in DOMAIN cur :
        /\ given[a] # -1 => cur[a] = given[a]
        /\ a >= k => cur[a] = given[a]
        /\ (a < k /\ given[a] = -1) => (cur[a] >= 0 /\ cur[a] < i /\ cur[a] \notin Used)
   /\ \A a \in DOMAIN cur : \A b \in DOMAIN cur :
        (a < b /\ b < k /\ given[a] = -1 /\ given[b] = -1) => cur[a] < cur[b]

\* what the document needs when the loop has finished
IdsUnique == k = Len(cur) + 1 => \A a \in DOMAIN cur : \A b \in DOMAIN cur : a # b => cur[a] # cur[b]
UserIdsKept == \A a \in DOMAIN cur : given[a] # -1 => cur[a] = given[a]
AllHaveIds == k = Len(cur) + 1 => \A a \in DOMAIN cur : cur[a] # -1
IndInv == LoopInv /\ IdsUnique /\ UserIdsKept /\ AllHaveIds

IndInit == /\ given = Gen(5) /\ cur = Gen(5) /\ k = Gen(1) /\ i = Gen(1) /\ LoopInv
=============================================================================
