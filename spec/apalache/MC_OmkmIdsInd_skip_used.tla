------------------------ MODULE MC_OmkmIdsInd_skip_used ------------------------
EXTENDS Integers, Sequences, FiniteSets, Apalache
VARIABLES
  \* @type: Seq(Int);
  given,
  \* @type: Seq(Int);
  cur,
  \* @type: Int;
  k,
  \* @type: Int;
  i
INSTANCE OmkmIdsInd WITH N <- 5, Variant <- "skip_used"
=============================================================================
