--------------------------- MODULE CovEffectInd ---------------------------
(***************************************************************************)
(* C17, unbounded face (Apalache).  The list half of CovEffect.tla -       *)
(* breakpoints iv and slopes sl under insert / pop - restated with typed   *)
(* variables so that Apalache can discharge an INDUCTIVE invariant: the    *)
(* breakpoints and slopes are arbitrary integers (no Grid, no Slopes       *)
(* constant), only the list length is bounded (MaxLen).  TLC's exhaustive  *)
(* check of CovEffect.tla covers the same actions on a finite grid plus    *)
(* the intercept arithmetic; this module removes the grid bound for the    *)
(* ordering part of the property.                                          *)
(*   Variant "bisect" (the source after fix: 7811735)        : inductive.   *)
(*   Variant "argmax" (the pinned source)                  : rejected.     *)
(***************************************************************************)
EXTENDS Integers, Sequences, FiniteSets, Apalache

CONSTANTS
  \* @type: Int;
  MaxLen,
  \* @type: Str;
  Variant

VARIABLES
  \* @type: Seq(Int);
  iv,
  \* @type: Seq(Int);
  sl,
  \* @type: Seq(Int);
  ic

\* _set_intercepts as a left fold: ic[1] = 0, ic[k] = ic[k-1] + (sl[k-1] - sl[k]) * iv[k]
\* @type: (Seq(Int), Seq(Int)) => Seq(Int);
Recompute(ivs, sls) ==
   LET \* @type: (Seq(Int), Int) => Seq(Int);
       Step(acc, b) == LET k == Len(acc) + 1 IN
                       IF k = 1 THEN <<0>> ELSE Append(acc, acc[k - 1] + (sls[k - 1] - sls[k]) * b)
   IN ApaFoldSeqLeft(Step, <<>>, ivs)

\* @type: (Seq(Int), Int, Int) => Seq(Int);
InsertAt(s, p, x) == SubSeq(s, 1, p) \o <<x>> \o SubSeq(s, p + 1, Len(s))
\* @type: (Seq(Int), Int) => Seq(Int);
RemoveAt(s, i) == SubSeq(s, 1, i - 1) \o SubSeq(s, i + 1, Len(s))

\* numpy.argmax(x < intervals): index of the first breakpoint above x, 0 when there is none
PosArgmax(x) ==
   LET above == {i \in DOMAIN iv : x < iv[i]} IN
   IF above = {} THEN 0
   ELSE Cardinality({i \in DOMAIN iv : \A j \in above : i < j})
\* position after every breakpoint <= x
PosBisect(x) == Cardinality({i \in DOMAIN iv : iv[i] <= x})
Pos(x) == IF Variant = "argmax" THEN PosArgmax(x) ELSE PosBisect(x)

Insert == \E x \in Int, s \in Int :
            /\ x >= 0 /\ Len(iv) < MaxLen
            /\ LET p == Pos(x) IN /\ iv' = InsertAt(iv, p, x)
                                  /\ sl' = InsertAt(sl, p, s)
            /\ ic' = Recompute(iv', sl')
Pop == \E i \in DOMAIN iv :
            /\ i >= 2
            /\ iv' = RemoveAt(iv, i) /\ sl' = RemoveAt(sl, i)
            /\ ic' = Recompute(iv', sl')

Init == \E s \in Int : iv = <<0>> /\ sl = <<s>> /\ ic = <<0>>
Next == Insert \/ Pop

Ascending == \A i \in DOMAIN iv : \A j \in DOMAIN iv : i < j => iv[i] <= iv[j]
Paired == Len(iv) = Len(sl) /\ Len(ic) = Len(iv)
FirstIsZero == Len(iv) >= 1 /\ iv[1] = 0
Bounded == Len(iv) <= MaxLen
ZeroAtZero == ic[1] = 0
Continuous == \A k \in DOMAIN iv : k >= 2 => sl[k - 1] * iv[k] + ic[k - 1] = sl[k] * iv[k] + ic[k]
IndInv == Ascending /\ Paired /\ FirstIsZero /\ Bounded /\ ZeroAtZero /\ Continuous

\* any state satisfying the invariant, not only the reachable ones
IndInit == /\ iv = Gen(6) /\ sl = Gen(6) /\ ic = Gen(6) /\ IndInv
=============================================================================
