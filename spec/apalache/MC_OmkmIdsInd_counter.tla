------------------------ MODULE MC_OmkmIdsInd_counter ------------------------
EXTENDS Integers, Sequences, FiniteSets, Apalache
VARIABLES
  \* @type: Seq(Int);
  given,
  \* @type: Seq(Int);
  cur,
  \* @type: Int;
  k,
  \* @type: Int;
  i
INSTANCE OmkmIdsInd WITH N <- 5, Variant <- "counter"
=============================================================================
