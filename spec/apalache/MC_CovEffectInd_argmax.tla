---------------------- MODULE MC_CovEffectInd_argmax ----------------------
EXTENDS Integers, Sequences, FiniteSets, Apalache
VARIABLES
  \* @type: Seq(Int);
  iv,
  \* @type: Seq(Int);
  sl,
  \* @type: Seq(Int);
  ic
INSTANCE CovEffectInd WITH MaxLen <- 6, Variant <- "argmax"
=============================================================================
