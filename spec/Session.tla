------------------------------- MODULE Session -------------------------------
(***************************************************************************)
(* X01 - a session: empirical species (NASA-7, NASA-9, Shomate) travelling *)
(* through ANY chain of the library's round trips keep their content.      *)
(*                                                                         *)
(* Abstract state                                                          *)
(*   orig : the species the user constructed (never changes after Init):   *)
(*          [fam, gas, flag = add_gas_P_adj as asked, cov = number of      *)
(*          PiecewiseCovEffect models the user attached, cs = model        *)
(*          coefficients, ts = model temperatures].                        *)
(*   ws   : the workspace - the objects that are live now.  Every object   *)
(*          knows its ORIGIN (index into orig) and its PRECISION CLASS:    *)
(*            "exact" all 17 digits of every number of the origin          *)
(*            "nine"  coefficients to 9 significant digits, temperatures   *)
(*                    to 0.1 K (it has been through a thermdat file)       *)
(*          plus what the real object would show: family, GasPressureAdj   *)
(*          count, cov count, flag, coefficients, temperatures.            *)
(*   h    : the calls so far (for replay into the real library).           *)
(*                                                                         *)
(* Numbers are modelled by small integers so that TLC can do the rounding: *)
(* a coefficient is an integer of up to 4 digits and a thermdat file keeps *)
(* its 2 leading digits (the real format keeps 9 of 17); a temperature is  *)
(* an integer number of 0.01 K and the file keeps 0.1 K.  Ties are rounded *)
(* half-even (what '%.8E' / '%.1f' do on the exact binary value).          *)
(*                                                                         *)
(* Actions (one per round-trip kind; keep = TRUE: the result is a new      *)
(* object and the source stays live, keep = FALSE: `x = roundtrip(x)`):    *)
(*   Json      json.loads(json.dumps(o, cls=pmuttEncoder),                 *)
(*                        object_hook=json_to_pmutt)                       *)
(*   Dict      type(o).from_dict(o.to_dict())                              *)
(*   DeepCopy  copy.deepcopy(o)                                            *)
(*   Thermdat  read_thermdat(write_thermdat([o_i : i in S])) for a set S   *)
(*             of workspace positions, written in workspace order          *)
(*                                                                         *)
(* Narrow readings (the Chemkin thermdat format has no field for them):    *)
(*  - Thermdat acts only on NASA-7 objects whose pressure adjustment was   *)
(*    not disabled and that carry no user-attached mixture model           *)
(*    (Carries); read_thermdat builds Nasa(...) with the defaults, so a    *)
(*    disabled adjustment or a coverage model cannot come back.  The cfg   *)
(*    MC_Session_anythermdat lifts the guard and is REJECTED.              *)
(*  - notes, smiles, cat_site, n_sites, model are not "content".           *)
(*                                                                         *)
(* Required behaviour = all switches at their required value.  Every other *)
(* value is one realistic way of getting it wrong; TLC must reject it:     *)
(*   RoundMode = "truncate"   the file writer truncates instead of rounding*)
(*                            (NineDigits fails: not the nearest value)    *)
(*   KeepClass = FALSE        a JSON/dict/deepcopy copy of a thermdat copy *)
(*                            is taken to be exact again (precision would  *)
(*                            "improve": ClassSound fails)                 *)
(*   LoseFlag = TRUE          the serialised form does not carry           *)
(*                            add_gas_P_adj=False (PAdjCount fails)        *)
(*   ThermdatOrder = "reversed" the species come back in another order     *)
(*                            (ResultOrigin fails)                         *)
(***************************************************************************)
EXTENDS Integers, Sequences, FiniteSets, TLC

CONSTANTS Workspaces,     \* set of initial workspaces (sequences of origin records)
          MaxObjs,        \* bound on live objects
          MaxOps,         \* bound on the number of round trips in a behaviour
          RoundMode,      \* "nearest" (required) | "truncate"
          KeepClass,      \* TRUE (required)
          LoseFlag,       \* FALSE (required)
          ThermdatAny,    \* FALSE (required reading of the quantifier)
          ThermdatOrder,  \* "kept" (required) | "reversed"
          RecordWs        \* TRUE: h carries the workspace after every call (replay configs)

VARIABLES orig, ws, h
vars == <<orig, ws, h>>

Abs(x) == IF x < 0 THEN -x ELSE x
Sgn(x) == IF x < 0 THEN -1 ELSE IF x > 0 THEN 1 ELSE 0

\* ---- rounding on the model numbers ------------------------------------------------
\* unit of the last kept digit when 2 significant digits are kept (|x| < 100000)
Unit2(x) == IF Abs(x) < 100 THEN 1 ELSE IF Abs(x) < 1000 THEN 10
            ELSE IF Abs(x) < 10000 THEN 100 ELSE 1000
RoundTo(mode, x, u) ==
   LET a == Abs(x)  q == a \div u  r == a % u
       up == IF mode = "truncate" THEN FALSE ELSE (2 * r > u \/ (2 * r = u /\ q % 2 = 1))
   IN Sgn(x) * (IF up THEN q + 1 ELSE q) * u
RoundC(mode, x) == RoundTo(mode, x, Unit2(x))     \* coefficient through a thermdat file
RoundT(mode, t) == RoundTo(mode, t, 10)           \* temperature (0.01 K) through a thermdat file

\* the REQUIRED relation between a number and its image in the file (a tie may go either way)
Sig2(y) == y % Unit2(y) = 0
NearC(x, y) == Sig2(y) /\ 2 * Abs(x - y) <= Unit2(x)
NearT(t, u) == u % 10 = 0 /\ 2 * Abs(t - u) <= 10

\* ---- objects ----------------------------------------------------------------------
Rank(p) == IF p = "exact" THEN 0 ELSE 1
ExpectedPAdj(g) == IF g.gas /\ g.flag THEN 1 ELSE 0
NewObj(k, g) == [origin |-> k, prec |-> "exact", fam |-> g.fam, gas |-> g.gas, flag |-> g.flag,
                 padj |-> ExpectedPAdj(g), cov |-> g.cov, cs |-> g.cs, ts |-> g.ts]

\* EmpiricalBase.__init__ as every from_dict / read_thermdat runs it: an enabled gas species
\* gets one adjustment unless the list handed in already holds one
Ctor(gas, flag, padj) == IF gas /\ flag /\ padj = 0 THEN 1 ELSE padj

\* what the round trip `act` makes of object o
Img(o, act) ==
   CASE act = "deepcopy" -> [o EXCEPT !.prec = IF KeepClass THEN o.prec ELSE "exact"]
     [] act \in {"json", "dict"} ->
          LET fl == IF LoseFlag THEN TRUE ELSE o.flag IN
          [o EXCEPT !.flag = fl, !.padj = Ctor(o.gas, fl, o.padj),
                    !.prec = IF KeepClass THEN o.prec ELSE "exact"]
     [] act = "thermdat" ->
          \* the file holds name, composition, phase, three temperatures, 14 coefficients;
          \* Nasa(**fields) is constructed with the defaults
          [o EXCEPT !.fam = "nasa7", !.flag = TRUE, !.cov = 0, !.padj = Ctor(o.gas, TRUE, 0),
                    !.prec = "nine",
                    !.cs = [j \in 1..Len(o.cs) |-> RoundC(RoundMode, o.cs[j])],
                    !.ts = [j \in 1..Len(o.ts) |-> RoundT(RoundMode, o.ts[j])]]

\* what the thermdat format can carry
Carries(o) == o.fam = "nasa7" /\ (ThermdatAny \/ (o.flag /\ o.cov = 0))

RECURSIVE Sorted(_)
Sorted(S) == IF S = {} THEN <<>>
             ELSE LET m == CHOOSE x \in S : \A y \in S : x <= y IN <<m>> \o Sorted(S \ {m})

Proj(w) == [i \in 1..Len(w) |-> [origin |-> w[i].origin, prec |-> w[i].prec, fam |-> w[i].fam,
                                  padj |-> w[i].padj, cov |-> w[i].cov, flag |-> w[i].flag,
                                  cs |-> w[i].cs, ts |-> w[i].ts]]
Rec(a, src, dst, keep) == [act |-> a, src |-> src, dst |-> dst, keep |-> keep,
                           ws |-> IF RecordWs THEN Proj(ws') ELSE <<>>]

Init == /\ orig \in Workspaces
        /\ ws = [k \in 1..Len(orig) |-> NewObj(k, orig[k])]
        /\ h = <<>>

Live == Len(h) < MaxOps

One(act, i, keep) ==
   /\ Live /\ (keep => Len(ws) < MaxObjs)
   /\ ws' = IF keep THEN Append(ws, Img(ws[i], act)) ELSE [ws EXCEPT ![i] = Img(ws[i], act)]
   /\ h' = Append(h, Rec(act, <<i>>, <<IF keep THEN Len(ws) + 1 ELSE i>>, keep))
   /\ UNCHANGED orig

Thermdat(S, keep) ==
   /\ Live /\ S # {} /\ \A i \in S : Carries(ws[i])
   /\ (keep => Len(ws) + Cardinality(S) <= MaxObjs)
   /\ LET src == Sorted(S)                     \* written in workspace order
          n == Len(src)
          out == [k \in 1..n |-> Img(ws[src[IF ThermdatOrder = "kept" THEN k ELSE n + 1 - k]], "thermdat")]
          dst == IF keep THEN [k \in 1..n |-> Len(ws) + k] ELSE src
      IN /\ ws' = IF keep THEN ws \o out
                  ELSE [i \in 1..Len(ws) |->
                          IF i \in S THEN out[CHOOSE k \in 1..n : src[k] = i] ELSE ws[i]]
         /\ h' = Append(h, Rec("thermdat", src, dst, keep))
   /\ UNCHANGED orig

\* closes a behaviour (one successor of a complete chain, so that it is printed exactly once)
Finish == /\ Len(h) = MaxOps
          /\ h' = Append(h, [act |-> "end", src |-> <<>>, dst |-> <<>>, keep |-> TRUE, ws |-> <<>>])
          /\ UNCHANGED <<orig, ws>>

Next == \/ Finish
        \/ \E i \in 1..Len(ws), keep \in BOOLEAN, a \in {"json", "dict", "deepcopy"} : One(a, i, keep)
        \/ \E S \in SUBSET (1..Len(ws)), keep \in BOOLEAN : Thermdat(S, keep)
Spec == Init /\ [][Next]_vars

\* ---- the property -----------------------------------------------------------------
TypeOK == /\ Len(ws) <= MaxObjs /\ Len(h) <= MaxOps + 1
          /\ \A i \in 1..Len(ws) : ws[i].origin \in 1..Len(orig) /\ ws[i].prec \in {"exact", "nine"}

\* every live object still is its origin, at its precision class (cumulative: always against
\* the ORIGIN, however long the chain)
ClassSound == \A i \in 1..Len(ws) :
   LET o == ws[i]  g == orig[o.origin] IN
   /\ Len(o.cs) = Len(g.cs) /\ Len(o.ts) = Len(g.ts)
   /\ o.prec = "exact" => (o.cs = g.cs /\ o.ts = g.ts)
NineDigits == \A i \in 1..Len(ws) :
   LET o == ws[i]  g == orig[o.origin] IN
   (o.prec = "nine" /\ Len(o.cs) = Len(g.cs) /\ Len(o.ts) = Len(g.ts)) =>
      /\ \A j \in 1..Len(g.cs) : NearC(g.cs[j], o.cs[j])
      /\ \A j \in 1..Len(g.ts) : NearT(g.ts[j], o.ts[j])
\* the file's rounding is a projection: a second trip changes nothing more
RoundIdempotent == \A k \in 1..Len(orig) :
   /\ \A j \in 1..Len(orig[k].cs) :
         LET x == orig[k].cs[j] IN RoundC(RoundMode, RoundC(RoundMode, x)) = RoundC(RoundMode, x)
   /\ \A j \in 1..Len(orig[k].ts) :
         LET t == orig[k].ts[j] IN RoundT(RoundMode, RoundT(RoundMode, t)) = RoundT(RoundMode, t)
\* exactly one GasPressureAdj on an enabled gas species at every point of the chain, none added
\* to the others; a disabled species stays disabled; the user's mixture models stay
PAdjCount == \A i \in 1..Len(ws) : ws[i].padj = ExpectedPAdj(orig[ws[i].origin])
FlagKept == \A i \in 1..Len(ws) : ws[i].flag = orig[ws[i].origin].flag
CovKept == \A i \in 1..Len(ws) : ws[i].cov = orig[ws[i].origin].cov
SameFamily == \A i \in 1..Len(ws) : ws[i].fam = orig[ws[i].origin].fam /\ ws[i].gas = orig[ws[i].origin].gas

Last == h'[Len(h')]
\* results correspond to their sources one to one, in order (thermdat keeps the order)
ResultOrigin == [][/\ Len(Last.dst) = Len(Last.src)
                   /\ \A k \in 1..Len(Last.src) : ws'[Last.dst[k]].origin = ws[Last.src[k]].origin]_vars
\* precision never improves along a chain
PrecMonotone == [][\A k \in 1..Len(Last.src) :
                      Rank(ws'[Last.dst[k]].prec) >= Rank(ws[Last.src[k]].prec)]_vars
\* a second thermdat round trip changes nothing more
SecondTripSame == [][Last.act = "thermdat" =>
                       \A k \in 1..Len(Last.src) :
                          ws[Last.src[k]].prec = "nine" =>
                             /\ ws'[Last.dst[k]].cs = ws[Last.src[k]].cs
                             /\ ws'[Last.dst[k]].ts = ws[Last.src[k]].ts]_vars
\* a round trip does not change the objects it did not replace
OthersUntouched == [][\A i \in 1..Len(ws) :
                         (Last.keep \/ \A k \in 1..Len(Last.src) : Last.src[k] # i) => ws'[i] = ws[i]]_vars

\* ---- behaviours for replay ----------------------------------------------------------
Done == Len(h) = MaxOps + 1
EmitBehaviours == Done => PrintT(<<"BEH", orig, h>>)
=============================================================================
