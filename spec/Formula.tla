------------------------------ MODULE Formula ------------------------------
(***************************************************************************)
(* C14 - chemical formulas: "a formula parses to its element counts with   *)
(* repeated symbols summed and missing counts read as one".                *)
(*                                                                         *)
(* Quantifier: formulas are concatenations of items  symbol [count]  with  *)
(* symbol = one upper-case letter optionally followed by one lower-case    *)
(* letter, count in 1..999 without leading zeros, any order, repeats       *)
(* allowed (CH3CH2OH).  An item is [sym |-> text, n |-> count], n = 0      *)
(* standing for "no count written".                                        *)
(*                                                                         *)
(* Required meaning:  Direct(items) - per symbol the sum of the counts,    *)
(* an unwritten count being 1.  The reader is the character automaton      *)
(* FStep for "upper-case letter, lower-case letters, digits" (the regular  *)
(* expression of pmutt.parse_formula; characters that belong to no         *)
(* element are skipped); ReadFormula folds it over a text.  Results are    *)
(* compared as sets of <<symbol, count>> (no order is required).           *)
(* Variant "overwrite" (a repeated symbol replaces the earlier count) is   *)
(* kept to show the model is sensitive; it is expected to be rejected.     *)
(***************************************************************************)
EXTENDS Text, FiniteSets

RECURSIVE FIntToDigits(_)
FIntToDigits(n) == IF n < 10 THEN <<48 + n>> ELSE Append(FIntToDigits(n \div 10), 48 + (n % 10))

\* acc: sequence of [sym, n] in order of first occurrence
FIndex(acc, sym) == IF \E j \in 1..Len(acc) : acc[j].sym = sym
                    THEN CHOOSE j \in 1..Len(acc) : acc[j].sym = sym ELSE 0
AddCount(variant, acc, sym, n) ==
   LET j == FIndex(acc, sym) IN
   IF j = 0 THEN Append(acc, [sym |-> sym, n |-> n])
   ELSE [acc EXCEPT ![j] = [sym |-> sym, n |-> IF variant = "overwrite" THEN n ELSE @.n + n]]
AsSet(acc) == {<<acc[j].sym, acc[j].n>> : j \in 1..Len(acc)}

\* ---- the generative side
RenderItem(it) == it.sym \o (IF it.n = 0 THEN <<>> ELSE FIntToDigits(it.n))
Render(items) == LET f[j \in 0..Len(items)] == IF j = 0 THEN <<>> ELSE f[j - 1] \o RenderItem(items[j])
                 IN f[Len(items)]
Direct(items) == LET f[j \in 0..Len(items)] ==
                        IF j = 0 THEN <<>>
                        ELSE AddCount("sum", f[j - 1], items[j].sym, IF items[j].n = 0 THEN 1 ELSE items[j].n)
                 IN f[Len(items)]
ItemOK(it) == /\ Len(it.sym) \in 1..2 /\ IsUpperC(it.sym[1])
              /\ (Len(it.sym) = 2 => IsLowerC(it.sym[2]))
              /\ it.n \in 0..999

\* ---- the reader
FInit == [sym |-> <<>>, cnt |-> <<>>, acc |-> <<>>]
Flush(variant, f) == IF f.sym = <<>> THEN f.acc
                     ELSE AddCount(variant, f.acc, f.sym, IF f.cnt = <<>> THEN 1 ELSE DigitsToInt(f.cnt))
Reset(variant, f) == [sym |-> <<>>, cnt |-> <<>>, acc |-> Flush(variant, f)]
FStep(variant, f, c) ==
   IF IsUpperC(c) THEN [sym |-> <<c>>, cnt |-> <<>>, acc |-> Flush(variant, f)]
   ELSE IF IsLowerC(c) THEN (IF f.sym # <<>> /\ f.cnt = <<>> THEN [f EXCEPT !.sym = Append(@, c)]
                             ELSE Reset(variant, f))
   ELSE IF IsDigitC(c) THEN (IF f.sym # <<>> THEN [f EXCEPT !.cnt = Append(@, c)] ELSE f)
   ELSE Reset(variant, f)
ReadFormula(s) == LET g[j \in 0..Len(s)] == IF j = 0 THEN FInit ELSE FStep("sum", g[j - 1], s[j])
                  IN Flush("sum", g[Len(s)])
CountsSupported(s) == \* every digit run has at most 9 digits (32-bit integers)
   \A a \in 1..Len(s) : \A b \in a..Len(s) : (\A j \in a..b : IsDigitC(s[j])) => b - a + 1 <= 9

\* ---------------------------------------------------------------- bounded case families
FSyms == {<<67>>, <<72>>, <<79>>, <<67, 108>>, <<80, 116>>}        \* C H O Cl Pt
FCounts == {0, 1, 2, 12, 999}
FItems == {[sym |-> s, n |-> n] : s \in FSyms, n \in FCounts}
FSmallItems == {[sym |-> s, n |-> n] : s \in {<<67>>, <<72>>, <<67, 108>>}, n \in {0, 2, 12}}
\* as a set, for case generation (dummy parameter: not evaluated eagerly)
FormulaCases(u) == {<<a>> : a \in FItems} \cup {<<a, b>> : a \in FItems, b \in FItems}
                   \cup {<<a, b, c>> : a \in FSmallItems, b \in FItems, c \in FSmallItems}
=============================================================================
