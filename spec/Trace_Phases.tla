---------------------------- MODULE Trace_Phases ----------------------------
(***************************************************************************)
(* C07 (phase histories) - trace validation of recorded edit histories of  *)
(* real phase objects.  One NDJSON line per public call:                   *)
(*   ev     "begin" | "new" | "append" | "extend" | "remove" | "pop" |     *)
(*          "clear" | "copy" | "assign"                                    *)
(*   p      identity of the phase object the call was made on              *)
(*   given  (new) "default" when the species argument was omitted, "none"  *)
(*          when None was passed, "list" when a list was passed            *)
(*   L      names of the species in the list argument (new/extend/assign)  *)
(*   s      name of the species argument (append/remove)                   *)
(*   i      index argument (pop)                                           *)
(*   names  <<pid, species_names>> of EVERY live phase object after the    *)
(*          call (the projection of the real state)                        *)
(*   own    <<species, pid>>: which live phase object `species.phase` is,  *)
(*          for the species inserted by this call                          *)
(*   ret, after  (copy) names of the returned list; names of p after the   *)
(*          driver appended a species to the RETURNED list                 *)
(*   elems  <<pid, phase.elements>> of every live object after the call    *)
(*          (<<>> when the driver did not look)                            *)
(*   api, wel, wsp  (observe) which writer was read (elements / to_cti /   *)
(*          to_omkm_yaml) and the elements and species names it states     *)
(*   refs   <<species, pid>> which live phase object EVERY species object   *)
(*          refers to after the call ("none" / "other")                     *)
(*   elem_of (begin) <<species, its elements>>                             *)
(*   raised TRUE when the library raised                                   *)
(* `st` is the `names` of the previous line of the same trace id, so the   *)
(* relations of Phases.tla are evaluated between consecutive observations. *)
(* Clauses (names of the failing ones are accumulated in TLC register 1):  *)
(*   Frame  Effect  NewIsWhatWasGiven  OwnerAfterInsert  CopySnapshot      *)
(*   CopyDetached  LiveSet  Raises  PhaseElementsAreUnionOfSpecies         *)
(*   WrittenSpeciesAreMembers  RemovalKeepsForeignReference (remove / pop  *)
(*   / clear on p leaves alone every species that refers to another phase) *)
(***************************************************************************)
EXTENDS Integers, Sequences, FiniteSets, TLC, TLCExt, Json, IOUtils

TraceLog == ndJsonDeserialize(IOEnv.TRACE_FILE)
VARIABLES l, st, eo, rf

Keys(pairs) == {pairs[k][1] : k \in 1..Len(pairs)}
Val(pairs, key) == pairs[CHOOSE k \in 1..Len(pairs) : pairs[k][1] = key][2]
Fn(pairs) == [key \in Keys(pairs) |-> Val(pairs, key)]

NoDupS(s) == \A i, j \in 1..Len(s) : i # j => s[i] # s[j]
RemoveAt(s, i) == SubSeq(s, 1, i - 1) \o SubSeq(s, i + 1, Len(s))
Has(s, x) == \E i \in 1..Len(s) : s[i] = x
FirstIndex(s, x) == CHOOSE i \in 1..Len(s) : s[i] = x /\ \A j \in 1..(i - 1) : s[j] # x

\* what the list of p must be after the call, given what it was (Phases.tla, `want`)
Required(e, old) ==
   CASE e.ev = "append" -> Append(old, e.s)
     [] e.ev = "extend" -> old \o e.L
     [] e.ev = "remove" -> IF Has(old, e.s) THEN RemoveAt(old, FirstIndex(old, e.s)) ELSE old
     [] e.ev = "pop"    -> LET j == IF e.i < 0 THEN Len(old) + e.i ELSE e.i      \* python index
                           IN IF j >= 0 /\ j < Len(old) THEN RemoveAt(old, j + 1) ELSE old
     [] e.ev = "clear"  -> <<>>
     [] e.ev = "copy"   -> old
     [] e.ev = "observe" -> old
     [] e.ev = "assign" -> e.L
     [] OTHER -> old

SetOf(s) == {s[k] : k \in 1..Len(s)}
\* UNION of the elements of the named species (eo = the begin line's table)
Union(nms) == UNION {SetOf(eo[nms[k]]) : k \in 1..Len(nms)}
ElementsOK(e, now) ==
   LET E == Fn(e.elems) IN
   \A q \in DOMAIN E : q \in DOMAIN now /\ NoDupS(E[q]) /\ SetOf(E[q]) = Union(now[q])

Inserted(e) == CASE e.ev = "append" -> {e.s}
                 [] e.ev \in {"extend", "assign"} -> {e.L[k] : k \in 1..Len(e.L)}
                 [] e.ev = "new" /\ e.given = "list" -> {e.L[k] : k \in 1..Len(e.L)}
                 [] OTHER -> {}

Clauses(e) ==
   IF e.ev = "begin" THEN {}
   ELSE IF e.raised THEN {"Raises"}
   ELSE
   LET now == Fn(e.names)
       others == DOMAIN st \ {e.p}
   IN (IF \A q \in others : q \in DOMAIN now /\ now[q] = st[q] THEN {} ELSE {"Frame"})
      \cup (IF DOMAIN now = DOMAIN st \cup {e.p} THEN {} ELSE {"LiveSet"})
      \cup (IF e.ev = "new"
            THEN (IF e.p \notin DOMAIN st /\ e.p \in DOMAIN now
                     /\ now[e.p] = (IF e.given = "list" THEN e.L ELSE <<>>)
                  THEN {} ELSE {"NewIsWhatWasGiven"})
            ELSE (IF e.p \in DOMAIN st /\ e.p \in DOMAIN now /\ now[e.p] = Required(e, st[e.p])
                  THEN {} ELSE {"Effect"}))
      \cup (IF \A s \in Inserted(e) : \E k \in 1..Len(e.own) : e.own[k] = <<s, e.p>>
            THEN {} ELSE {"OwnerAfterInsert"})
      \cup (IF e.ev = "copy"
            THEN (IF e.p \in DOMAIN st /\ e.ret = st[e.p] THEN {} ELSE {"CopySnapshot"})
                 \cup (IF e.p \in DOMAIN st /\ e.after = st[e.p] THEN {} ELSE {"CopyDetached"})
            ELSE {})
      \cup (IF ElementsOK(e, now) THEN {} ELSE {"PhaseElementsAreUnionOfSpecies"})
      \cup (IF e.ev = "observe"
            THEN (IF e.p \in DOMAIN st /\ NoDupS(e.wel) /\ SetOf(e.wel) = Union(st[e.p])
                  THEN {} ELSE {"PhaseElementsAreUnionOfSpecies"})
                 \cup (IF e.p \in DOMAIN st /\ e.wsp = st[e.p] THEN {} ELSE {"WrittenSpeciesAreMembers"})
            ELSE {})
      \cup (IF e.ev \in {"remove", "pop", "clear"}
            THEN LET R == Fn(e.refs) IN
                 (IF \A s \in DOMAIN rf : (rf[s] # e.p /\ rf[s] # "none") => (s \in DOMAIN R /\ R[s] = rf[s])
                  THEN {} ELSE {"RemovalKeepsForeignReference"})
            ELSE {})

Step(e) == IF e.ev = "begin" THEN <<>> ELSE IF e.raised THEN st ELSE Fn(e.names)

Init == l = 1 /\ st = <<>> /\ eo = <<>> /\ rf = <<>> /\ TLCSet(1, {})
Next == /\ l <= Len(TraceLog)
        /\ LET e == TraceLog[l]  bad == Clauses(e) IN
             /\ IF bad # {} THEN TLCSet(1, TLCGet(1) \cup {<<e.tid, l, c>> : c \in bad}) ELSE TRUE
             /\ st' = Step(e)
             /\ eo' = IF e.ev = "begin" THEN Fn(e.elem_of) ELSE eo
             /\ rf' = IF e.ev = "begin" THEN <<>> ELSE IF e.raised THEN rf ELSE Fn(e.refs)
        /\ l' = l + 1
Spec == Init /\ [][Next]_<<l, st, eo, rf>>
Post == /\ PrintT(<<"FAILS", TLCGet(1)>>)
        /\ PrintT(<<"CONSUMED", TLCGet("stats").diameter - 1>>)
=============================================================================
