------------------------------ MODULE FitCases ------------------------------
(* C03 - the discrete configuration space of a fit, enumerated by TLC and   *)
(* replayed into Nasa/Nasa9/Shomate.from_data / from_model.                  *)
EXTENDS Integers, Sequences, FiniteSets, TLC, Json, IOUtils, SequencesExt

Fams == {"nasa7", "nasa9", "shomate"}
Srcs == {"poly", "piecewise", "statmech_gas", "statmech_ads", "const", "zero"}
TrefPos == {"first", "break", "middle", "last", "low_edge", "high_edge", "lib"}
TmidForms == {"none", "scalar", "list"}
Routes == {"data", "model"}

Applicable(c) ==
   /\ (c.fam = "shomate" => c.nseg = 1 /\ c.tmid = "none" /\ c.src # "piecewise")
   /\ (c.fam = "nasa7" => c.nseg = 2 /\ (c.src = "piecewise" => c.tmid = "scalar"))
   /\ (c.fam = "nasa9" => /\ (c.tmid = "none" => c.nseg = 1)
                          /\ (c.tmid = "scalar" => c.nseg = 2)
                          /\ (c.src = "piecewise" => c.nseg >= 2))
   /\ (c.route = "model" => c.src \in {"statmech_gas", "statmech_ads", "poly"} /\ c.tref = "lib"
                            /\ (c.fam = "nasa9" => c.tmid # "scalar"))
   /\ (c.route = "data" => c.tref # "lib")
   /\ (c.tref = "break" => c.nseg >= 2 /\ c.tmid # "none")
   /\ (c.tref = "middle" => c.nseg = 3)
   /\ (c.tref = "last" => c.nseg >= 2)
Cases == {c \in [fam : Fams, src : Srcs, nseg : 1..3, tref : TrefPos, tmid : TmidForms, route : Routes] : Applicable(c)}
ASSUME IF "OUT_FILE" \in DOMAIN IOEnv THEN JsonSerialize(IOEnv.OUT_FILE, SetToSeq(Cases)) ELSE TRUE
VARIABLE x
Init == x = 0
Next == UNCHANGED x
=============================================================================
