------------------------------ MODULE FitCases ------------------------------
(* C03 - the discrete configuration space of a fit, enumerated by TLC and   *)
(* replayed into Nasa/Nasa9/Shomate.from_data / from_model.                  *)
(*                                                                           *)
(* Cases     = the cross product that is run IN FULL in every tier           *)
(*             (family x source x segments x T_ref position x T_mid form x   *)
(*             route).                                                       *)
(* Axes      = the further dimensions of the quantifier (round 5 audit): the *)
(*             window class, the number of data temperatures, the order and  *)
(*             container of the data, the container of T_mid, the form of    *)
(*             the model argument, fit_T_mid.  They are too many for a full  *)
(*             product, so every case carries the list of values ADMISSIBLE  *)
(*             for it (decided here) and the driver rotates through each     *)
(*             list; it refuses to finish (exit 2) unless every admissible   *)
(*             (family, route, axis, value) was exercised in the run.        *)
(* Narrow readings (where the property text / docstrings are silent):        *)
(*   - NASA-7 from_data takes T as a numpy array (documented type; a Python  *)
(*     list raises TypeError in `T <= T_mid`): no "pylist" container there;  *)
(*   - NASA-9 break lists are ascending (a descending list raises);          *)
(*   - from_statmech is a documented refusal (RuntimeError since 1.2.13);    *)
(*   - non-ascending / duplicated data only where the data are given         *)
(*     (from_data); from_model builds its own ascending grid.                *)
EXTENDS Integers, Sequences, FiniteSets, TLC, Json, IOUtils, SequencesExt

Fams == {"nasa7", "nasa9", "shomate"}
Srcs == {"poly", "piecewise", "statmech_gas", "statmech_ads", "const", "zero"}
\* below_break / above_break: one part in 1e9 next to a break; grid: exactly on a data temperature
TrefPos == {"first", "break", "below_break", "above_break", "middle", "last", "low_edge", "high_edge", "grid", "lib"}
TmidForms == {"none", "scalar", "list"}
Routes == {"data", "model"}

AtBreak == {"break", "below_break", "above_break"}

Applicable(c) ==
   /\ (c.fam = "shomate" => c.nseg = 1 /\ c.tmid = "none" /\ c.src # "piecewise")
   /\ (c.fam = "nasa7" => c.nseg = 2 /\ (c.src = "piecewise" => c.tmid = "scalar"))
   /\ (c.fam = "nasa9" => /\ (c.tmid = "none" => c.nseg = 1)
                          /\ (c.tmid = "scalar" => c.nseg = 2)
                          /\ (c.src = "piecewise" => c.nseg >= 2))
   \* every source except a piecewise one can be a model (constant and zero Cp included)
   /\ (c.route = "model" => c.src # "piecewise" /\ c.tref = "lib")
   /\ (c.route = "data" => c.tref # "lib")
   /\ (c.tref \in AtBreak => c.nseg >= 2 /\ c.tmid # "none")
   /\ (c.tref = "middle" => c.nseg = 3)
   /\ (c.tref = "last" => c.nseg >= 2)
Base == {c \in [fam : Fams, src : Srcs, nseg : 1..3, tref : TrefPos, tmid : TmidForms, route : Routes] : Applicable(c)}

\* ---- rotating axes
Wins == {"full", "wide", "narrow", "tiny", "low_end", "high_end", "high_only"}
Nts == {"15", "16", "mid", "199", "200"}
Orders == {"asc", "desc", "shuffled", "dup"}
Conts == {"ndarray", "int", "listCp", "pylist"}
TmForms == {"a", "b", "c"}      \* scalar: float / int / numpy.float64; list: list / tuple / ndarray; none: None / [] / empty ndarray
MForms == {"object", "class", "attrs"}
Fits == {"fit", "nofit"}
Grids == {"uniform", "per_interval"}
RefTypes == {"float", "np", "int"}     \* T_ref / HoRT_ref / SoR_ref as Python floats, numpy scalars, T_ref as an int

WinOK(c, w) == TRUE
NtOK(c, n) == TRUE
OrderOK(c, o) == c.route = "data" \/ o = "asc"
ContOK(c, k) == /\ (c.route = "model" => k = "ndarray")
                /\ (k = "pylist" => c.fam # "nasa7")
TmFormOK(c, f) == IF c.fam = "shomate" THEN f = "a"
                  ELSE IF c.fam = "nasa7" /\ c.tmid = "none" THEN f = "a"
                  ELSE IF c.fam = "nasa9" /\ c.route = "model" /\ c.tmid = "none" THEN f = "a"
                  ELSE TRUE
\* a class can only be passed for StatMech sources; name / T_low / T_high / elements can be left to the model's
\* attributes in Nasa.from_model and Shomate.from_model only (Nasa9.from_model requires them)
MFormOK(c, m) == IF c.route = "data" THEN m = "object"
                 ELSE /\ (m = "class" => c.src \in {"statmech_gas", "statmech_ads", "const", "zero"})
                      /\ (m = "attrs" => c.fam # "nasa9")
\* fit_T_mid (Nasa9.from_model only): T_mid = None needs the search; a given T_mid is either kept or used as the
\* starting guess of the search
FitOK(c, f) == IF c.fam = "nasa9" /\ c.route = "model" /\ c.tmid # "none" THEN TRUE ELSE f = "fit"
GridOK(c, g) == IF c.fam = "nasa9" /\ c.route = "data" THEN TRUE ELSE g = "uniform"
\* an int reference temperature needs a position that can be moved onto an integer
RefTypeOK(c, r) == IF c.route = "model" THEN r = "float" ELSE (r = "int" => c.tref \in {"first", "middle", "last"})

Pick(S, P(_)) == SetToSeq({v \in S : P(v)})
Case(c) == c @@ [wins |-> Pick(Wins, LAMBDA v : WinOK(c, v)),
                 nts |-> Pick(Nts, LAMBDA v : NtOK(c, v)),
                 orders |-> Pick(Orders, LAMBDA v : OrderOK(c, v)),
                 conts |-> Pick(Conts, LAMBDA v : ContOK(c, v)),
                 tmforms |-> Pick(TmForms, LAMBDA v : TmFormOK(c, v)),
                 mforms |-> Pick(MForms, LAMBDA v : MFormOK(c, v)),
                 fits |-> Pick(Fits, LAMBDA v : FitOK(c, v)),
                 grids |-> Pick(Grids, LAMBDA v : GridOK(c, v)),
                 refts |-> Pick(RefTypes, LAMBDA v : RefTypeOK(c, v))]
Cases == {Case(c) : c \in Base}
ASSUME \A c \in Cases : \A k \in {"wins", "nts", "orders", "conts", "tmforms", "mforms", "fits", "grids", "refts"} : Len(c[k]) >= 1
ASSUME IF "OUT_FILE" \in DOMAIN IOEnv THEN JsonSerialize(IOEnv.OUT_FILE, SetToSeq(Cases)) ELSE TRUE
VARIABLE x
Init == x = 0
Next == UNCHANGED x
=============================================================================
