\* implementation-shaped variant (seeded change C09-9): the rev_delta flag is cached at construction.
\* EXPECTED TO BE REJECTED: EditedEqualsFresh
SPECIFICATION Spec
CONSTANTS
  Vals <- MCValsSmall
  Slopes2 <- MCSlopes2
  Icpts <- MCIcpts
  Variant = "cachedflag"
  Kinds = {"bep"}
  MaxEdits = 2
INVARIANT TypeOK
INVARIANT ClampRefines
INVARIANT NotBelowMinimum
INVARIANT ClampConsistent
INVARIANT BepDifference
INVARIANT BepViaReaction
INVARIANT BepUandHSameBarrier
INVARIANT BepOffsetIsForwardBarrier
INVARIANT EditedEqualsFresh
CHECK_DEADLOCK FALSE
