------------------------------ MODULE Helpers ------------------------------
(***************************************************************************)
(* X04 - design model of the helper layer of pmutt/__init__.py.            *)
(*                                                                         *)
(* A behaviour is a caller's session: the caller holds some data (`world`, *)
(* one of Worlds; `w0` keeps what it was at the start) and makes up to     *)
(* world.calls public calls of the helpers that fit the data.  A call is   *)
(* stepped through as the code does it (pc / loc are the program counter   *)
(* and the local variables of the running helper) and ends in `out`, the   *)
(* observation of the call.  The invariants say that every observation is  *)
(* the one REQUIRED by HelpersRule from w0 - i.e. the implementation-      *)
(* shaped algorithm refines the requirement - and that the caller's data   *)
(* are never changed, so the same call can be repeated.                    *)
(*                                                                         *)
(* topics of a world                                                       *)
(*   "route"    [sh: signature shape, kw: set of supplied keyword names]   *)
(*              calls: _get_expected_arguments, _kwargs_allowed,           *)
(*              _pass_expected_arguments, _force_pass_arguments,           *)
(*              _check_obj (classes), _get_mode_quantity (bound methods)   *)
(*   "specie"   [kw: dictionary with blocks, names: species asked for]     *)
(*              calls: _get_specie_kwargs(name, ..kw)                      *)
(*   "format"   [names, lists]          calls: format_conditions           *)
(*   "listdict" [objs]                  calls: pmutt_list_to_dict          *)
(*   "npop"     [q]                     calls: _apply_numpy_operation      *)
(*   "iter"     [kind]                  calls: _is_iterable,               *)
(*                                             _check_iterable_attr        *)
(*                                                                         *)
(* V selects the algorithm variants:                                       *)
(*   route  "argcount" as found: co_varnames[:co_argcount]                 *)
(*          "kwonly"   repaired: [:co_argcount + co_kwonlyargcount]        *)
(*          "droplast" off by one (defective, to show sensitivity)         *)
(*   drop   "substring" as found: 'kwargs' in key | "suffix"               *)
(*   match  "exact" as found | "startswith" | "contains" (defective)       *)
(*   merge  "copy" as found | "inblock" (defective: the caller's block is  *)
(*          updated in place and handed back)                              *)
(*   format "asbuilt" | "truncate" (zip to the shortest; equal on the      *)
(*          documented equal-length input, differs on ragged input)        *)
(*   dict   "last" as found | "first" (both satisfy the requirement)       *)
(*   raises the exception pmutt_list_to_dict raises for a missing          *)
(*          attribute; documented = the classes its docstring lists        *)
(*   iter   "asbuilt" | "nostrtest" (defective)                            *)
(***************************************************************************)
EXTENDS HelpersRule, TLC

SX == INSTANCE SequencesExt

CONSTANTS Worlds, V

VARIABLES world, w0, pc, loc, out, ncalls
vars == <<world, w0, pc, loc, out, ncalls>>

Idle == [fn |-> "idle"]
NoLoc == [fn |-> "none"]

Init == /\ world \in Worlds /\ w0 = world
        /\ pc = "idle" /\ loc = NoLoc /\ out = Idle /\ ncalls = 0

CanBegin(topic) == pc = "idle" /\ world.topic = topic /\ ncalls < world.calls
Return(o) == /\ out' = o /\ pc' = "idle" /\ loc' = NoLoc /\ ncalls' = ncalls + 1

\* ------------------------------------------------------------------ routing
RouteCalls == {"pass", "force", "check_obj", "mode_quantity"}
RouteFns(sh) == {"expected", "allowed", "pass", "force"}
                \cup (IF sh.kind \in {"class", "bareclass"} THEN {"check_obj"} ELSE {})
                \cup (IF sh.kind = "method" THEN {"mode_quantity"} ELSE {})
ExpectedOf(sh) ==
   IF V.route = "droplast"
   THEN LET e == ImplExpected("kwonly", sh) IN SubSeq(e, 1, Len(e) - 1)
   ELSE ImplExpected(V.route, sh)

BeginRoute(fn) ==
   /\ CanBegin("route") /\ fn \in RouteFns(world.sh)
   /\ loc' = [fn |-> fn, exp |-> <<>>, i |-> 1, acc |-> {}]
   /\ pc' = IF fn \in {"force", "check_obj", "allowed"} THEN "kwargs_allowed" ELSE "get_expected"
   /\ out' = Idle
   /\ UNCHANGED <<world, w0, ncalls>>
\* _kwargs_allowed: inspect.signature(fn) has a VAR_KEYWORD parameter
KwargsAllowed ==
   /\ pc = "kwargs_allowed"
   /\ IF loc.fn = "allowed" THEN Return([fn |-> "allowed", res |-> world.sh.varkw]) /\ UNCHANGED <<world, w0>>
      ELSE /\ IF world.sh.varkw THEN loc' = [loc EXCEPT !.acc = world.kw] /\ pc' = "call"
              ELSE loc' = loc /\ pc' = "get_expected"
           /\ UNCHANGED <<world, w0, out, ncalls>>
\* _get_expected_arguments
GetExpected ==
   /\ pc = "get_expected"
   /\ IF ~HasCode(world.sh)
      THEN Return([fn |-> loc.fn, res |-> NotCalled("AttributeError")]) /\ UNCHANGED <<world, w0>>
      ELSE IF loc.fn = "expected"
      THEN Return([fn |-> "expected", res |-> [raised |-> "", names |-> Range(ExpectedOf(world.sh))]])
           /\ UNCHANGED <<world, w0>>
      ELSE /\ loc' = [loc EXCEPT !.exp = ExpectedOf(world.sh)] /\ pc' = "collect"
           /\ UNCHANGED <<world, w0, out, ncalls>>
\* the loop of _pass_expected_arguments
Collect ==
   /\ pc = "collect"
   /\ IF loc.i > Len(loc.exp) THEN pc' = "call" /\ loc' = loc
      ELSE LET a == loc.exp[loc.i] IN
           /\ pc' = pc
           /\ loc' = [loc EXCEPT !.i = @ + 1,
                                 !.acc = IF a # "self" /\ a \in world.kw THEN @ \cup {a} ELSE @]
   /\ UNCHANGED <<world, w0, out, ncalls>>
CallFn ==
   /\ pc = "call"
   /\ Return([fn |-> loc.fn, res |-> CallWith(world.sh, loc.acc)])
   /\ UNCHANGED <<world, w0>>

\* ------------------------------------------------------------------ _get_specie_kwargs
RemoveKey(d, key) == SelectSeq(d, LAMBDA e : e.k # key)
BeginSpecie(name) ==
   /\ CanBegin("specie") /\ name \in world.names
   /\ loc' = [fn |-> "specie", name |-> name, copy |-> world.kw, i |-> 1, spec |-> 0]
   /\ pc' = "specie_loop" /\ out' = Idle
   /\ UNCHANGED <<world, w0, ncalls>>
StepSpecie ==
   /\ pc = "specie_loop" /\ loc.i <= Len(world.kw)
   /\ LET key == world.kw[loc.i].k IN
        loc' = IF IsBlockKey(V.drop, key)
               THEN [loc EXCEPT !.i = @ + 1, !.copy = RemoveKey(@, key),
                                !.spec = IF SpecieMatches(V.match, key, loc.name) THEN loc.i ELSE @]
               ELSE [loc EXCEPT !.i = @ + 1]
   /\ UNCHANGED <<world, w0, pc, out, ncalls>>
FinishSpecie ==
   /\ pc = "specie_loop" /\ loc.i > Len(world.kw)
   /\ LET isblk == loc.spec # 0 /\ world.kw[loc.spec].b
          blk == IF isblk THEN Range(world.kw[loc.spec].blk) ELSE {}
          bkeys == {p[1] : p \in blk}
          rest == DictPairs(loc.copy)
      IN IF V.merge = "inblock" /\ isblk
         THEN \* block.update(copy); return block      (the block the caller holds is changed)
              LET ckeys == DictKeys(loc.copy)
                  merged == {<<p[1], <<"i", p[2], {}>>>> : p \in {q \in blk : q[1] \notin ckeys}} \cup rest
                  ints == {p \in merged : p[2][1] = "i"}
                  asblk == SX!SetToSeq({<<p[1], p[2][2]>> : p \in ints})
              IN /\ world' = [world EXCEPT !.kw[loc.spec].blk = asblk]
                 /\ Return([fn |-> "specie", name |-> loc.name, res |-> merged])
                 /\ w0' = w0
         ELSE /\ Return([fn |-> "specie", name |-> loc.name,
                         res |-> {p \in rest : p[1] \notin bkeys} \cup {<<p[1], <<"i", p[2], {}>>>> : p \in blk}])
              /\ UNCHANGED <<world, w0>>

\* ------------------------------------------------------------------ format_conditions
BeginFormat ==
   /\ CanBegin("format")
   /\ loc' = [fn |-> "format", j |-> 1, i |-> 1, conds |-> <<>>]
   /\ pc' = "format_loop" /\ out' = Idle
   /\ UNCHANGED <<world, w0, ncalls>>
StepFormat ==
   /\ pc = "format_loop" /\ loc.j <= Len(world.names)
   /\ loc' = IF loc.i <= Len(world.lists[loc.j])
             THEN [loc EXCEPT !.i = @ + 1,
                              !.conds = FormatStep(@, world.names[loc.j], loc.i, world.lists[loc.j][loc.i])]
             ELSE [loc EXCEPT !.j = @ + 1, !.i = 1]
   /\ UNCHANGED <<world, w0, pc, out, ncalls>>
FinishFormat ==
   /\ pc = "format_loop" /\ loc.j > Len(world.names)
   /\ Return([fn |-> "format",
              res |-> IF V.format = "truncate" THEN FormatTruncate(world.names, world.lists) ELSE loc.conds])
   /\ UNCHANGED <<world, w0>>

\* ------------------------------------------------------------------ pmutt_list_to_dict
BeginDict ==
   /\ CanBegin("listdict")
   /\ loc' = [fn |-> "listdict", i |-> 1, acc |-> <<>>]
   /\ pc' = "dict_loop" /\ out' = Idle
   /\ UNCHANGED <<world, w0, ncalls>>
StepDict ==
   /\ pc = "dict_loop" /\ loc.i <= Len(world.objs)
   /\ IF ~world.objs[loc.i].has
      THEN Return([fn |-> "listdict", raised |-> V.raises, res |-> <<>>])
      ELSE /\ loc' = [loc EXCEPT !.i = @ + 1, !.acc = ListToDictStep(V.dict, @, world.objs[loc.i].key, loc.i)]
           /\ UNCHANGED <<pc, out, ncalls>>
   /\ UNCHANGED <<world, w0>>
FinishDict ==
   /\ pc = "dict_loop" /\ loc.i > Len(world.objs)
   /\ Return([fn |-> "listdict", raised |-> "", res |-> loc.acc])
   /\ UNCHANGED <<world, w0>>

\* ------------------------------------------------------------------ one-step helpers
NpCall(op, verbose) ==
   /\ CanBegin("npop") /\ NpDefined(op, world.q)
   /\ Return([fn |-> "npop", op |-> op, verbose |-> verbose,
              res |-> IF verbose THEN [same |-> TRUE, v |-> 0] ELSE [same |-> FALSE, v |-> NpValue(op, world.q)]])
   /\ UNCHANGED <<world, w0>>
\* Python's iter() succeeds on strings too, hence the isinstance(val, str) test in front of it
IterSucceeds(kind) == kind \in IterableKinds \cup StringKinds
ImplIsIterable(kind) == IF V.iter # "nostrtest" /\ kind \in StringKinds THEN FALSE ELSE IterSucceeds(kind)
IterCall(fn) ==
   /\ CanBegin("iter")
   /\ Return([fn |-> fn,
              res |-> IF fn = "is_iterable" THEN <<ImplIsIterable(world.kind)>>
                      ELSE IF ~ImplIsIterable(world.kind) /\ world.kind # "none" THEN <<"wrapped">>
                      ELSE IF world.kind = "none" THEN <<"none">> ELSE <<"same">>])
   /\ UNCHANGED <<world, w0>>

Next == \/ \E fn \in {"expected", "allowed"} \cup RouteCalls : BeginRoute(fn)
        \/ KwargsAllowed \/ GetExpected \/ Collect \/ CallFn
        \/ (\E name \in (IF world.topic = "specie" THEN world.names ELSE {}) : BeginSpecie(name))
        \/ StepSpecie \/ FinishSpecie
        \/ BeginFormat \/ StepFormat \/ FinishFormat
        \/ BeginDict \/ StepDict \/ FinishDict
        \/ (\E op \in {"sum", "prod", "max", "min"}, vb \in BOOLEAN : NpCall(op, vb))
        \/ (\E fn \in {"is_iterable", "check_attr"} : IterCall(fn))
Spec == Init /\ [][Next]_vars

\* ------------------------------------------------------------------ the properties
Done == pc = "idle" /\ out # Idle
\* 1. routing
RouteFaithful == (Done /\ out.fn \in RouteCalls) => out.res = ReqOutcome(Mode(out.fn), w0.sh, w0.kw)
NeverUnexpected ==
   (Done /\ out.fn \in RouteCalls /\ out.res.raised = "") =>
      /\ out.res.got \subseteq Named(w0.sh) \cap w0.kw
      /\ out.res.extra \subseteq w0.kw \ Named(w0.sh)
      /\ (out.res.extra # {} => w0.sh.varkw /\ Mode(out.fn) = "force")
NothingDropped ==
   (Done /\ out.fn \in RouteCalls /\ out.res.raised = "") => (w0.kw \cap Named(w0.sh)) \subseteq out.res.got
ExpectedFaithful ==
   (Done /\ out.fn = "expected") => out.res.raised = "" /\ out.res.names \ {"self"} = ReqExpected(w0.sh)
AllowedFaithful == (Done /\ out.fn = "allowed") => out.res = ReqAllowed(w0.sh)
\* while collecting, only supplied keywords the signature names are gathered
CollectInv == pc = "collect" => loc.acc \subseteq world.kw \cap Named(world.sh)
\* 2. _get_specie_kwargs
SpecieFaithful == (Done /\ out.fn = "specie") => out.res = ReqSpecie(w0.kw, out.name)
BlockKeysRemoved == (Done /\ out.fn = "specie") => \A p \in out.res : ~EndsWith(p[1], UKWARGS)
\* 3. format_conditions
FormatFaithful == (Done /\ out.fn = "format") => out.res = ReqFormat(w0.names, w0.lists)
FormatCount == (Done /\ out.fn = "format") => Len(out.res) = MaxLen(w0.lists)
\* 4. pmutt_list_to_dict
DictFaithful ==
   (Done /\ out.fn = "listdict" /\ ListInQuantifier(w0.objs)) =>
      /\ out.raised = ""
      /\ DictKeysOK(w0.objs, out.res) /\ DictNoRepeat(out.res)
      /\ DictValueOK(w0.objs, out.res) /\ DictOrderOK(w0.objs, out.res)
RaisesDocumented ==
   (Done /\ out.fn = "listdict" /\ ~ListInQuantifier(w0.objs)) => out.raised \in V.documented
\* 5. one-step helpers
NpFaithful == (Done /\ out.fn = "npop") =>
                 IF out.verbose THEN out.res.same ELSE ~out.res.same /\ out.res.v = NpValue(out.op, w0.q)
IterFaithful == (Done /\ out.fn = "is_iterable") => out.res = <<ReqIsIterable(w0.kind)>>
AttrFaithful == (Done /\ out.fn = "check_attr" /\ AttrInQuantifier(w0.kind)) => out.res = <<ReqAttrShape(w0.kind)>>
\* all helpers: the caller's data are as they were
CallerUntouched == world = w0

TypeOK == /\ ncalls \in 0..2 /\ pc \in {"idle", "kwargs_allowed", "get_expected", "collect", "call",
                                       "specie_loop", "format_loop", "dict_loop"}
=============================================================================
