\* X06: v >= cutoff instead of v > cutoff: EXPECTED TO BE REJECTED (VibRequired)
SPECIFICATION Spec
CONSTANTS
  Lines <- MCLines
  Kinds <- OutcarKinds
  MaxLen = 2
  Cuts <- MCCuts
  Pat <- MCPat
  Variant = "ge"
INVARIANT InQuantifier
INVARIANT Refines
INVARIANT VibRequired
INVARIANT ScalarRequired
INVARIANT ListRequired
INVARIANT PatternRequired
INVARIANT NoiseIndependent
PROPERTY Monotone
CHECK_DEADLOCK FALSE
