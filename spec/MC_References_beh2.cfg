\* every behaviour of a second small instance with the further calls enabled (remove, __setitem__,
\* clear_offset, to_dict/from_dict reload) and objects constructed with offset= given; 2 calls, printed for replay
SPECIFICATION Spec
CONSTANTS
  ND = 2
  RefKinds <- Beh2Kinds
  InsKinds <- Beh2Ins
  ExtSets <- BehExt
  InitSets <- Beh2Init
  MaxRefs = 4
  MaxOps = 2
  Variant = "explicit"
  Steps <- MCSteps
  Algo = "lstsq"
  Garbage = 1000
  Acts = {"remove", "setitem", "clear", "reload"}
  GivenSets <- BehGiven
  Record = TRUE
  Temps = {200, 1000}
INVARIANT NormalEquations
INVARIANT Reproduces
INVARIANT KeysAreDescriptors
INVARIANT TrefIsMean
INVARIANT EmitBehaviours
CHECK_DEADLOCK FALSE
