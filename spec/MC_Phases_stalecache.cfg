\* elements remembered at the first read and not forgotten on pop/remove: EXPECTED TO BE REJECTED
\* (PhaseElementsAreUnionOfSpecies: observe, then remove the sole carrier of an element)
SPECIFICATION Spec
CONSTANTS
  PhaseObj <- P3
  KindOf <- Kinds3
  Species <- S3
  GivenLists <- Given3
  MaxLen = 3
  MaxOps = 6
  Variant = "fresh"
  ElemOf <- Elem3
  CacheVariant = "stale_on_removal"
  OwnerVariant = "keep"
INVARIANT TypeOK
INVARIANT ListsExactlyItsSpecies
INVARIANT OwnerAlive
INVARIANT PhaseElementsAreUnionOfSpecies
PROPERTY Frame
PROPERTY NewIsWhatWasGiven
PROPERTY OwnerAfterInsert
VIEW ViewDepth
CHECK_DEADLOCK FALSE
