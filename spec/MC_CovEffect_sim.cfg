\* random long behaviours (tlc -simulate) of a larger instance, printed for replay
SPECIFICATION Spec
CONSTANTS
  Grid = {0, 1, 2, 3, 4, 5, 6, 7, 8}
  Slopes <- SlopeSet
  MaxLen = 9
  MaxOps = 8
  Variant = "bisect"
  Sharing = "copy"
  InitSets <- MCInitSets
INVARIANT EmitBehaviours
CHECK_DEADLOCK FALSE
