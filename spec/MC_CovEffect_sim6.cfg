\* random behaviours (tlc -simulate) of exactly 6 edits from initial lists of every length 1..6 on the grid {0..8}/8
\* (all breakpoints in [0,1]), printed for replay
SPECIFICATION Spec
CONSTANTS
  Grid = {0, 1, 2, 3, 4, 5, 6, 7, 8}
  Slopes <- SlopeSet
  MaxLen = 12
  MaxOps = 6
  Variant = "bisect"
  Sharing = "copy"
  InitSets <- MCInitSim
INVARIANT EmitBehaviours
CHECK_DEADLOCK FALSE
