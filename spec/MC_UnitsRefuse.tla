--------------------------- MODULE MC_UnitsRefuse ---------------------------
(***************************************************************************)
(* C12 - design model of the accept/refuse matrix as a state machine.      *)
(* A process asks pairs of unit strings in any order, repeatedly.  `seen`  *)
(* is what an implementation may remember between requests; `last` is the  *)
(* request just answered.  RefusedEveryTime: a pair is refused exactly     *)
(* when a unit is unknown or the types differ - whatever was asked before. *)
(* Variant "check_first": types are checked on every request (pmutt).      *)
(* Variant "cache_first": the pair is remembered BEFORE the compatibility  *)
(* check and a remembered pair is answered from memory - refused only the  *)
(* first time: rejected (expected violation).                              *)
(***************************************************************************)
EXTENDS Integers, FiniteSets, TLC
CONSTANTS Variant, MaxRequests
VARIABLES seen, last, n
vars == <<seen, last, n>>
Names == {"m", "cm", "J", "kJ", "K", "nonsense"}
TypeOfName == "m" :> "length" @@ "cm" :> "length" @@ "J" :> "energy" @@ "kJ" :> "energy"
           @@ "K" :> "temp" @@ "nonsense" :> ""
MustRefuse(u, v) == TypeOfName[u] = "" \/ TypeOfName[v] = "" \/ TypeOfName[u] # TypeOfName[v]
Answer(u, v) ==
   IF Variant = "cache_first" /\ <<u, v>> \in seen /\ TypeOfName[u] # "" /\ TypeOfName[v] # ""
   THEN "value"
   ELSE IF MustRefuse(u, v) THEN "refused" ELSE "value"
Init == seen = {} /\ last = <<"m", "m", "value">> /\ n = 0
Request(u, v) == /\ n < MaxRequests
                 /\ last' = <<u, v, Answer(u, v)>>
                 /\ seen' = seen \cup {<<u, v>>}
                 /\ n' = n + 1
Next == \E u \in Names, v \in Names : Request(u, v)
Spec == Init /\ [][Next]_vars
RefusedEveryTime == (last[3] = "refused") <=> MustRefuse(last[1], last[2])
View == <<seen, last>>
=============================================================================
