--------------------------- MODULE ThermdatFormat ---------------------------
(***************************************************************************)
(* C05 - the Chemkin thermdat file format as pMuTT writes and reads it.    *)
(* Constant-level operators only (no variables, no constants), shared by   *)
(* the design model Thermdat.tla and the trace spec Trace_Thermdat.tla.    *)
(*                                                                         *)
(* Text is Seq(0..255) (Text.tla); a file is a sequence of lines without   *)
(* their newline.  An abstract species is the record                       *)
(*   [name  : Seq(code)          1-15 non-blank printable characters,      *)
(*    notes : Seq(code)          free text, first 8 characters are written,*)
(*    elems : Seq(<<symbol, n>>) n >= 0; entries with n = 0 are omitted,   *)
(*    phase : code,                                                        *)
(*    T     : <<Tlow, Thigh, Tmid>>  each <<m, e>> = m * 10^e (file order),*)
(*    ah, al: Seq(Coef) of length 7]                                       *)
(* Coef == <<sign, 9-digit mantissa, exponent>> meaning                    *)
(* sign * d.dddddddd * 10^exponent; zero is <<1, 0, 0>>.                   *)
(*                                                                         *)
(* REQUIRED LAYOUT (the property): a species is four 80-column records     *)
(* numbered 1-4 in column 80.  Record 1: name from column 1 (ends at the   *)
(* first blank, at most 15 characters so that column 16 is blank), notes / *)
(* date in columns 17-24, four composition slots in columns 25-44 (symbol  *)
(* left-justified in 2 columns + count right-justified in 3 columns, used  *)
(* slots contiguous from the first), phase in column 45, Tlow in 46-55,    *)
(* Thigh in 56-65, Tmid in 66-79.  Records 2-4: 15-character E-format      *)
(* fields (5, 5, 4 of them) a_high[1..7] then a_low[1..7]; the rest blank. *)
(*                                                                         *)
(* REQUIRED CLASSIFICATION of a line (LayoutClass): blank; comment ('!' in *)
(* column 1); record (digit 1-4 in column 80, nothing but blanks after     *)
(* it); otherwise THERMO / END when that is the FIRST TOKEN; otherwise a   *)
(* line of exactly three numbers is the temperature header.  A record is   *)
(* therefore never taken for a keyword line, whatever the species name or  *)
(* the notes contain.                                                      *)
(*                                                                         *)
(* Narrow readings (the property text is silent): names do not start with  *)
(* '!' (Chemkin's comment character; such a record is a comment by the     *)
(* format's own rule); element counts are integers; symbols are one or two *)
(* letters in any capitalisation (Pt, PT, pt, H, h): the writer accepts    *)
(* any dictionary key and upper-case symbols are the usual Chemkin form.   *)
(*                                                                         *)
(* IMPLEMENTATION-SHAPED VARIANTS (named, never used for verdicts on the   *)
(* code): classifier "substring" = the pinned reader ('THERMO' in line,    *)
(* 'END' in line, tested before anything else); "guarded" = the same but   *)
(* never for a line that carries a record number in column 80 (proposed    *)
(* repair).  Element scan "firstblank" = the pinned _read_line1 (symbol    *)
(* runs to the first blank at or after the slot start); "cap2" = the same  *)
(* but a slot without any blank is symbol(2) + count(3) (proposed repair). *)
(* Order "reuse"                                                           *)
(* = the pinned reader loop: no check of the record sequence, records 2-4  *)
(* update whatever record dictionary is lying around.                      *)
(***************************************************************************)
EXTENDS Text, FiniteSets

KwTHERMO == <<84, 72, 69, 82, 77, 79>>
KwEND == <<69, 78, 68>>
BANG == 33
DOT == 46
MINUS == 45
PLUS == 43
BIGE == 69

\* ------------------------------------------------------------- text helpers
Blanks(n) == [i \in 1..n |-> SP]
PadR(s, n) == IF Len(s) >= n THEN s ELSE s \o Blanks(n - Len(s))     \* left-justified
PadL(s, n) == IF Len(s) >= n THEN s ELSE Blanks(n - Len(s)) \o s     \* right-justified
RECURSIVE NatText(_)
NatText(n) == IF n < 10 THEN <<48 + n>> ELSE NatText(n \div 10) \o <<48 + (n % 10)>>
ZeroPad(n, w) == LET t == NatText(n) IN [i \in 1..(w - Len(t)) |-> 48] \o t
RECURSIVE Flatten(_)
Flatten(ss) == IF Len(ss) = 0 THEN <<>> ELSE ss[1] \o Flatten(Tail(ss))
\* first blank at or after column `from` (Len + 1 when there is none): str.find(' ', from)
RECURSIVE FindBlank(_, _)
FindBlank(s, from) == IF from > Len(s) THEN Len(s) + 1
                      ELSE IF s[from] = SP THEN from ELSE FindBlank(s, from + 1)

\* a fixed-point number token: optional sign, digits with at most one '.'
IsNumberTok(t) ==
   LET b == IF Len(t) > 0 /\ (t[1] = PLUS \/ t[1] = MINUS) THEN Tail(t) ELSE t IN
   /\ Len(b) > 0
   /\ \A i \in 1..Len(b) : IsDigitC(b[i]) \/ b[i] = DOT
   /\ Cardinality({i \in 1..Len(b) : b[i] = DOT}) <= 1
   /\ \E i \in 1..Len(b) : IsDigitC(b[i])
\* unsigned fixed-point token -> <<m, e>>; <<-1, 0>> when it is not one (or has > 9 digits)
FixedOf(t) ==
   IF ~IsNumberTok(t) \/ t[1] = PLUS \/ t[1] = MINUS THEN <<-1, 0>>
   ELSE LET hasDot == \E i \in 1..Len(t) : t[i] = DOT
            dp == IF hasDot THEN CHOOSE i \in 1..Len(t) : t[i] = DOT ELSE Len(t) + 1
            ds == SubSeq(t, 1, dp - 1) \o SubSeq(t, dp + 1, Len(t))
        IN IF Len(ds) > 9 THEN <<-1, 0>>
           ELSE <<DigitsToInt(ds), IF hasDot THEN -(Len(t) - dp) ELSE 0>>

\* --------------------------------------------------------------- the writer
IsPresent(el) == el[2] > 0
Present(elems) == SelectSeq(elems, IsPresent)
SlotText(el) == PadR(el[1], 2) \o PadL(NatText(el[2]), 3)
\* temperatures are printed with one decimal: t = <<m, -1>>
FixedText(t) == NatText(t[1] \div 10) \o <<DOT, 48 + (t[1] % 10)>>
ETextOf(c) == <<IF c[1] < 0 THEN MINUS ELSE SP, 48 + (c[2] \div 100000000), DOT>>
              \o ZeroPad(c[2] % 100000000, 8)
              \o <<BIGE, IF c[3] < 0 THEN MINUS ELSE PLUS>>
              \o ZeroPad(IF c[3] < 0 THEN -c[3] ELSE c[3], 2)
WriteRec1(s) ==
   LET p == Present(s.elems) IN
   PadR(s.name, 16) \o PadR(Cols(s.notes, 1, 8), 8)
   \o PadR(Flatten([k \in 1..Len(p) |-> SlotText(p[k])]), 20)
   \o <<s.phase>>
   \o PadR(FixedText(s.T[1]), 10) \o PadR(FixedText(s.T[2]), 10) \o PadR(FixedText(s.T[3]), 14)
   \o <<49>>
WriteRec2(s) == Flatten([k \in 1..5 |-> ETextOf(s.ah[k])]) \o Blanks(4) \o <<50>>
WriteRec3(s) == ETextOf(s.ah[6]) \o ETextOf(s.ah[7]) \o ETextOf(s.al[1]) \o ETextOf(s.al[2])
                \o ETextOf(s.al[3]) \o Blanks(4) \o <<51>>
WriteRec4(s) == ETextOf(s.al[4]) \o ETextOf(s.al[5]) \o ETextOf(s.al[6]) \o ETextOf(s.al[7])
                \o Blanks(19) \o <<52>>
WriteSpecies(s) == <<WriteRec1(s), WriteRec2(s), WriteRec3(s), WriteRec4(s)>>
\* "THERMO ALL" / "       100       500      1500"
HeaderLines == << <<84, 72, 69, 82, 77, 79, 32, 65, 76, 76>>,
                  Blanks(7) \o <<49, 48, 48>> \o Blanks(7) \o <<53, 48, 48>> \o Blanks(6) \o <<49, 53, 48, 48>> >>
WriteFile(L) == HeaderLines \o Flatten([k \in 1..Len(L) |-> WriteSpecies(L[k])]) \o <<KwEND>>

\* ----------------------------------------------------- line classification
\* record number carried in column 80 (0 when the line is not a record)
RecordNo(line) == IF Len(line) >= 80 /\ line[80] >= 49 /\ line[80] <= 52
                     /\ AllBlank(SubSeq(line, 81, Len(line)))
                  THEN line[80] - 48 ELSE 0
IsThreeNumbers(line) == LET t == Tokens(line) IN Len(t) = 3 /\ \A k \in 1..3 : IsNumberTok(t[k])

LayoutClass(line) ==
   IF AllBlank(line) THEN "blank"
   ELSE IF line[1] = BANG THEN "comment"
   ELSE IF RecordNo(line) > 0 THEN "record"
   ELSE IF FirstToken(line) = KwTHERMO THEN "thermo"
   ELSE IF FirstToken(line) = KwEND THEN "end"
   ELSE IF IsThreeNumbers(line) THEN "theader"
   ELSE "other"

\* the pinned reader: keyword by substring, tested first
SubstringClass(line) ==
   IF Contains(line, KwTHERMO) THEN "thermo"
   ELSE IF Contains(line, KwEND) THEN "end"
   ELSE IF Len(line) = 0 THEN "blank"
   ELSE IF line[1] = BANG THEN "comment"
   ELSE IF IsThreeNumbers(line) THEN "theader"
   ELSE IF RecordNo(line) > 0 THEN "record"
   ELSE "other"
\* proposed repair: a line with a record number in column 80 is never a keyword line
GuardedClass(line) ==
   IF RecordNo(line) = 0 /\ Contains(line, KwTHERMO) THEN "thermo"
   ELSE IF RecordNo(line) = 0 /\ Contains(line, KwEND) THEN "end"
   ELSE IF Len(line) = 0 THEN "blank"
   ELSE IF line[1] = BANG THEN "comment"
   ELSE IF IsThreeNumbers(line) THEN "theader"
   ELSE IF RecordNo(line) > 0 THEN "record"
   ELSE "other"
ClassOf(cls, line) == CASE cls = "layout" -> LayoutClass(line)
                        [] cls = "substring" -> SubstringClass(line)
                        [] cls = "guarded" -> GuardedClass(line)
SkipClasses == {"blank", "comment", "thermo", "end", "theader"}

\* ------------------------------------------------------------ record 1
NameOf(line) == TakeWord(Cols(line, 1, 16))
SlotAt(line, k) == Cols(line, 20 + 5 * k, 24 + 5 * k)        \* k = 1..4 : 25-29 ... 40-44
SlotSym(sl) == Trim(SubSeq(sl, 1, 2))
SlotCountText(sl) == LTrim(SubSeq(sl, 3, 5))
IsLetterC(c) == IsUpperC(c) \/ IsLowerC(c)
SlotOK(sl) == /\ Len(sl) = 5 /\ IsLetterC(sl[1])
              /\ (sl[2] = SP \/ IsLetterC(sl[2]))
              /\ AllDigits(SlotCountText(sl)) /\ SlotCountText(sl)[1] # 48
SlotElem(sl) == <<SlotSym(sl), IF SlotOK(sl) THEN DigitsToInt(SlotCountText(sl)) ELSE -1>>
RECURSIVE ElemsFrom(_, _)
ElemsFrom(line, k) == IF k > 4 THEN <<>>
                      ELSE IF AllBlank(SlotAt(line, k)) THEN ElemsFrom(line, k + 1)
                      ELSE <<SlotElem(SlotAt(line, k))>> \o ElemsFrom(line, k + 1)
ElemsByColumns(line) == ElemsFrom(line, 1)
CompositionOK(line) ==
   /\ Len(line) >= 44
   /\ \A k \in 1..4 : AllBlank(SlotAt(line, k)) \/ SlotOK(SlotAt(line, k))
   /\ \A k \in 1..3 : AllBlank(SlotAt(line, k)) => AllBlank(SlotAt(line, k + 1))
   /\ ~AllBlank(SlotAt(line, 1))

\* _read_line1's scan: symbol = columns ref .. (first blank at or after ref) - 1, count =
\* int(columns blank .. ref + 4); stops at a slot that starts with a blank.  cap = 0: as
\* pinned; cap = 2: when the five columns of the slot hold no blank the symbol is the
\* first two of them (repair).
RECURSIVE ScanFrom(_, _, _, _)
ScanFrom(line, ref, k, cap) ==
   IF k > 4 THEN [elems |-> <<>>, bad |-> FALSE]
   ELSE LET b0 == FindBlank(line, ref)
            b == IF cap > 0 /\ b0 >= ref + 5 THEN ref + cap ELSE b0
        IN IF b = ref THEN [elems |-> <<>>, bad |-> FALSE]
           ELSE LET ct == Trim(SubSeq(line, b, ref + 4))
                    rest == ScanFrom(line, ref + 5, k + 1, cap)
                IN IF AllDigits(ct)                       \* int('') and int('Pt..') raise
                   THEN [elems |-> <<<<SubSeq(line, ref, b - 1), DigitsToInt(ct)>>>> \o rest.elems,
                         bad |-> rest.bad]
                   ELSE [elems |-> <<>>, bad |-> TRUE]

TempsOf(line) == <<FixedOf(Trim(Cols(line, 46, 55))), FixedOf(Trim(Cols(line, 56, 65))),
                   FixedOf(Trim(Cols(line, 66, 79)))>>
TempsOK(line) == \A k \in 1..3 : TempsOf(line)[k][1] >= 0

ParseRec1(scan, line) ==
   LET sc == IF scan = "columns"
             THEN [elems |-> ElemsByColumns(line), bad |-> ~CompositionOK(line)]
             ELSE ScanFrom(line, 25, 1, IF scan = "cap2" THEN 2 ELSE 0)
   IN [sp |-> [name |-> NameOf(line), elems |-> sc.elems,
               phase |-> IF Len(line) >= 45 THEN line[45] ELSE 0, T |-> TempsOf(line)],
       bad |-> sc.bad \/ ~TempsOK(line)]

\* ------------------------------------------------------------ records 2-4
CZ == <<1, 0, 0>>
NormCoef(c) == IF c[2] = 0 THEN CZ ELSE c
EFieldAt(line, k) == Cols(line, 15 * k - 14, 15 * k)
\* <<0, 0, 0>> (sign 0) marks a field that is not a 15-character E-format number
CoefAt(line, k) == IF EFieldWellFormed(EFieldAt(line, k)) THEN NormCoef(EField(EFieldAt(line, k)))
                   ELSE <<0, 0, 0>>
CoefsOf(line, n) == [k \in 1..n |-> CoefAt(line, k)]
FieldsOK(line, n) == /\ Len(line) >= 79
                     /\ \A k \in 1..n : EFieldWellFormed(EFieldAt(line, k))
                     /\ AllBlank(Cols(line, 15 * n + 1, 79))
NFields(recno) == IF recno = 4 THEN 4 ELSE 5
\* seven coefficients with vals written from position `start` (others kept, missing = zero)
Upd7(old, start, vals) == [i \in 1..7 |-> IF i >= start /\ i < start + Len(vals) THEN vals[i - start + 1]
                                          ELSE IF i <= Len(old) THEN old[i] ELSE CZ]
Zero7 == [i \in 1..7 |-> CZ]

\* ------------------------------------------------------- the reader automaton
\* v = [cls |-> classifier, scan |-> element scan, ord |-> "strict" | "reuse"]
\* rs = [ph   : records of the current species read so far (0..3),
\*       has  : a record dictionary exists (reuse mode),
\*       pend : the species being assembled,
\*       err  : "" or the first error,
\*       emit : <<>> or <<completed species>> (output of the last step)]
NoSp == [name |-> <<>>, elems |-> <<>>, phase |-> 0, T |-> <<>>, ah |-> <<>>, al |-> <<>>]
RS0 == [ph |-> 0, has |-> FALSE, pend |-> NoSp, err |-> "", emit |-> <<>>]
VLayout == [cls |-> "layout", scan |-> "columns", ord |-> "strict"]
Fail(r, what) == IF r.err = "" THEN [r EXCEPT !.err = what] ELSE r

Step(v, rs, line) ==
   LET c == ClassOf(v.cls, line)
       r == [rs EXCEPT !.emit = <<>>]
   IN IF c \in SkipClasses THEN r
      ELSE IF c = "other" THEN Fail(r, "Unclassified")
      ELSE LET n == RecordNo(line) IN
           IF v.ord = "strict" /\ n # rs.ph + 1 THEN [Fail(r, "RecordOrder") EXCEPT !.ph = 0]
           ELSE IF n > 1 /\ ~rs.has THEN Fail(r, "NoRecord1")     \* UnboundLocalError
           ELSE CASE n = 1 ->
                       LET p == ParseRec1(v.scan, line)
                           q == [r EXCEPT !.ph = 1, !.has = TRUE,
                                          !.pend = [name |-> p.sp.name, elems |-> p.sp.elems,
                                                    phase |-> p.sp.phase, T |-> p.sp.T,
                                                    ah |-> <<>>, al |-> <<>>]]
                       IN IF p.bad THEN Fail(q, "Record1") ELSE q
                  [] n = 2 -> [r EXCEPT !.ph = 2, !.pend.ah = Upd7(Zero7, 1, CoefsOf(line, 5))]
                  [] n = 3 -> [r EXCEPT !.ph = 3,
                                        !.pend.ah = Upd7(r.pend.ah, 6, SubSeq(CoefsOf(line, 5), 1, 2)),
                                        !.pend.al = Upd7(Zero7, 1, SubSeq(CoefsOf(line, 5), 3, 5))]
                  [] n = 4 -> LET done == [r.pend EXCEPT !.al = Upd7(r.pend.al, 4, CoefsOf(line, 4))]
                              IN [r EXCEPT !.ph = 0, !.pend = done, !.emit = <<done>>]

\* the whole file
RECURSIVE ReadFrom(_, _, _, _, _)
ReadFrom(v, lines, k, rs, out) ==
   IF k > Len(lines) THEN [out |-> out, err |-> rs.err, ph |-> rs.ph]
   ELSE LET r == Step(v, rs, lines[k]) IN ReadFrom(v, lines, k + 1, r, out \o r.emit)
ReadFile(v, lines) == ReadFrom(v, lines, 1, RS0, <<>>)

\* ---------------------------------------------------------------- equality
\* what "the same species" means: name, phase, positive element counts (as a set of
\* pairs), temperatures, the fourteen coefficients.  Notes are not part of it.
ElemSet(es) == {es[i] : i \in 1..Len(es)}
SameElems(read, given) == Len(read) = Len(Present(given)) /\ ElemSet(read) = ElemSet(Present(given))
SameSpecies(read, given) ==
   /\ read.name = given.name /\ read.phase = given.phase
   /\ SameElems(read.elems, given.elems)
   /\ read.T = given.T /\ read.ah = given.ah /\ read.al = given.al
SameList(read, given) == Len(read) = Len(given) /\ \A k \in 1..Len(given) : SameSpecies(read[k], given[k])
IsPrefixOf(read, given) == Len(read) <= Len(given) /\ \A k \in 1..Len(read) : SameSpecies(read[k], given[k])

\* layout of a whole file (used as an invariant on the model's writer)
RecordLayoutOK(line) ==
   LET n == RecordNo(line) IN
   /\ Len(line) = 80
   /\ IF n = 1 THEN /\ Len(NameOf(line)) \in 1..15 /\ CompositionOK(line)
                    /\ line[45] # SP /\ TempsOK(line)
      ELSE FieldsOK(line, NFields(n))
FileLayoutOK(lines) == \A k \in 1..Len(lines) :
   LET c == LayoutClass(lines[k]) IN c # "other" /\ (c = "record" => RecordLayoutOK(lines[k]))
=============================================================================
