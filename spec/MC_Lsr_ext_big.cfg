\* thorough: exhaustive design model, ExtendedLSR of 1..2 terms over 6 reactions, <= 2 calls
SPECIFICATION Spec
CONSTANTS
  Slopes <- MCSlopes2
  Icpts <- MCIcpts2
  Energies <- MCEnergies2
  Temps = {250, 500}
  MaxN = 2
  MaxOps = 2
  Variant = "required"
  Kinds = {"ext"}
  Stoichs = {2}
  ExtParts <- MCExtParts
INVARIANT NeverRaises
INVARIANT RelationHolds
INVARIANT FourEqual
INVARIANT NoEntropy
INVARIANT UnitsHold
PROPERTY TIndependent
PROPERTY LinearSlopeAt
PROPERTY LinearIcpt
PROPERTY RoundTripKeeps
VIEW View
CHECK_DEADLOCK FALSE
