\* EXPECTED TO BE REJECTED: outside the quantifier (reactions across two interfaces / gas+bulk only) no phase or two phases list the reaction - why the quantifier is narrow
SPECIFICATION Spec
CONSTANTS
  MaxPhases = 3
  SpCounts <- Sp3
  MaxRx = 2
  MaxIa = 1
  MaxCalls = 3
  Variant = "fixed"
  Scope = "wide"
INVARIANT ReactionOnce
VIEW View
CHECK_DEADLOCK FALSE
