\* EXPECTED TO BE REJECTED: outside the quantifier (reactions across two interfaces / gas+bulk only) no phase or two phases list the reaction - why the quantifier is narrow
SPECIFICATION Spec
CONSTANTS
  MaxPhases = 2
  SpCounts <- Sp2
  MaxRx = 1
  MaxIa = 0
  MaxCalls = 3
  Variant = "fixed"
  Scope = "wide"
INVARIANT ReactionOnce
VIEW View
CHECK_DEADLOCK FALSE
