\* C04 design model, wrapper variant "required"
SPECIFICATION Spec
CONSTANTS
  Variant = "required"
INVARIANT TypeOK
INVARIANT WellFormed
INVARIANT Refines
CHECK_DEADLOCK FALSE
