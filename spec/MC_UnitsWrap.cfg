\* C04 design model, wrapper variant "required"
SPECIFICATION Spec
CONSTANTS
  Variant = "required"
  ShomateOwn <- MCShomateOwn
  ClassFilter <- MCAllClasses
INVARIANT TypeOK
INVARIANT WellFormed
INVARIANT Refines
CHECK_DEADLOCK FALSE
