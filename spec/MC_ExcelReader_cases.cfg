\* case generation for the quick tier (same sheets as MC_ExcelReader.cfg)
INIT CInit
NEXT CNext
CONSTANTS
  Groups <- MCGroups
  GroupSheets <- MCGroupSheets
  Variant = "code"
  SetName = "quick"
CHECK_DEADLOCK FALSE
