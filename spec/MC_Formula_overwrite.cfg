\* a reader that overwrites repeated symbols: EXPECTED TO BE REJECTED
SPECIFICATION Spec
CONSTANTS
  Variant = "overwrite"
  MaxItems = 2
INVARIANT Requirement
CHECK_DEADLOCK FALSE
