\* exhaustive design model, thorough: all hand-written layouts and four species per side
SPECIFICATION Spec
CONSTANTS
  Variant = "round"
  Families = {"A", "B", "Cfull", "D", "E", "F", "G"}
INVARIANT ModeOK
INVARIANT LexerShape
INVARIANT Requirement
INVARIANT Functional
INVARIANT ExpectSound
CHECK_DEADLOCK FALSE
