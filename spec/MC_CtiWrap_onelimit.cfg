\* wrong algorithm (first line filled to max_line_len): EXPECTED TO BE REJECTED (WidthOK)
\* greedy filling as in the code: token lengths {1,5,28,30}, <= 5 tokens,
\* (line_len, max_line_len) over {30,31,60,80,100}^2
SPECIFICATION Spec
CONSTANTS
  TokLens <- LenSet
  MaxToks = 5
  LineLens <- WidthSet
  MaxLineLens <- WidthSet
  Variant = "onelimit"
INVARIANT TypeOK
INVARIANT PlacedPreserved
INVARIANT WidthOK
INVARIANT DoneOK
PROPERTY InputUntouched
CHECK_DEADLOCK FALSE
