---------------------------- MODULE MC_Observers ----------------------------
EXTENDS Observers
A(v, k) == [val |-> v, kind |-> k]
\* arguments: temperature ids 1..3 (the driver maps them to whole-number temperatures so that every dtype
\* can carry them); scalars are one-element values
ArgsSmall == {A(<<1>>, "sflt"), A(<<1>>, "sint"), A(<<2>>, "sflt"), A(<<1, 2>>, "farr"), A(<<1, 2>>, "iarr"),
              A(<<2, 1>>, "list")}
ArgsBig == ArgsSmall \cup {A(<<2>>, "sint"), A(<<3, 1, 2>>, "farr"), A(<<3, 1, 2>>, "iarr"), A(<<1, 2>>, "list"),
                           A(<<2, 3>>, "farr")}
StoresSmall == {[a |-> A(<<1, 2>>, "farr"), b |-> A(<<1, 2>>, "iarr")],
                [a |-> A(<<1>>, "sint"), b |-> A(<<2, 1>>, "list")]}
StoresBig == StoresSmall \cup {[a |-> A(<<3, 1, 2>>, "iarr"), b |-> A(<<2>>, "sflt")],
                               [a |-> A(<<1, 2>>, "list"), b |-> A(<<1, 2>>, "farr")]}
StoresOne == {[a |-> A(<<1, 2>>, "farr"), b |-> A(<<1>>, "sint")]}
ArgsTiny == {A(<<2>>, "sflt"), A(<<2, 1>>, "iarr"), A(<<1, 2>>, "farr")}
RefSet == {"a", "b"}
AllFields == 1..NF
OnlyFirst == {1}
View == <<content, store, cache, memo, last, seen, dirty, n>>
=============================================================================
