\* the width-preserving algorithm with the footer test weakened to isdigit()+int():
\* EXPECTED TO BE REJECTED (a footer spelt with digits of another script is renamed to ASCII)
SPECIFICATION Spec
CONSTANTS
  Heads <- HeadsUni
  Numbers <- NumsAll
  Widths <- WidthsQuick
  Extra <- ExtraUni
  MaxIds = 2
  Variant = "isdigit"
INVARIANT TypeOK
INVARIANT NoSpuriousReject
INVARIANT LayoutOK
INVARIANT NoneLostInv
INVARIANT NoneAddedInv
CHECK_DEADLOCK FALSE
