\* thorough: exhaustive design model, LSR: 3 slopes x 3 intercepts x 21 reactions x 7 x 7 parts, 2 temperatures, <= 2 calls
SPECIFICATION Spec
CONSTANTS
  Slopes <- MCSlopes
  Icpts <- MCIcpts
  Energies <- MCEnergies
  Temps = {250, 500}
  MaxN = 1
  MaxOps = 2
  Variant = "required"
  Kinds = {"lsr"}
  Stoichs = {1, 2}
  ExtParts <- MCExtParts
INVARIANT NeverRaises
INVARIANT RelationHolds
INVARIANT FourEqual
INVARIANT NoEntropy
INVARIANT UnitsHold
PROPERTY TIndependent
PROPERTY LinearSlope
PROPERTY LinearIcpt
PROPERTY RoundTripKeeps
VIEW View
CHECK_DEADLOCK FALSE
