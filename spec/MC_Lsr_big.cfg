\* thorough: LSR with 3 temperatures and <= 3 calls
SPECIFICATION Spec
CONSTANTS
  Slopes <- MCSlopes
  Icpts <- MCIcpts
  Energies <- MCEnergies
  Temps = {250, 500, 1000}
  MaxN = 1
  MaxOps = 3
  Variant = "required"
  Kinds = {"lsr"}
  Stoichs = {1, 2}
  ExtParts <- MCExtParts
INVARIANT NeverRaises
INVARIANT RelationHolds
INVARIANT FourEqual
INVARIANT NoEntropy
INVARIANT UnitsHold
PROPERTY TIndependent
PROPERTY LinearSlope
PROPERTY LinearIcpt
PROPERTY RoundTripKeeps
VIEW View
CHECK_DEADLOCK FALSE
