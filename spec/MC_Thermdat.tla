---------------------------- MODULE MC_Thermdat ----------------------------
(* Alphabets of the exhaustive C05 design model (generated once; see notes/C05.md). *)
EXTENDS Thermdat

\* names: A, H2, END, XENDY, THERMO, 1A, 100, LEGEND(S)_15chr, ENDO-1,2 (keyword prefix, hyphen, comma), thermo(s) (lower case, parentheses)
NameSeq == <<<<65>>,
            <<72, 50>>,
            <<69, 78, 68>>,
            <<88, 69, 78, 68, 89>>,
            <<84, 72, 69, 82, 77, 79>>,
            <<49, 65>>,
            <<49, 48, 48>>,
            <<76, 69, 71, 69, 78, 68, 40, 83, 41, 95, 49, 53, 99, 104, 114>>,
            <<69, 78, 68, 79, 45, 49, 44, 50>>,
            <<116, 104, 101, 114, 109, 111, 40, 115, 41>>>>
\* composition: H2; C12 H0 O1; Pt123; H2 C12 Pt123 O1; Pt12 Cl999 C1 Na100; H100 Ni5; Pt0 H2 O1 (zero first); Ar0 C1 H3 He0 N1 O2 (six entries, non-zero after the fourth); PT1 cu12 x3 RU128 and h2 ru128 (symbols not capitalised Xx)
ElemSeq == <<<<<<<<72>>, 2>>>>,
            <<<<<<67>>, 12>>, <<<<72>>, 0>>, <<<<79>>, 1>>>>,
            <<<<<<80, 116>>, 123>>>>,
            <<<<<<72>>, 2>>, <<<<67>>, 12>>, <<<<80, 116>>, 123>>, <<<<79>>, 1>>>>,
            <<<<<<80, 116>>, 12>>, <<<<67, 108>>, 999>>, <<<<67>>, 1>>, <<<<78, 97>>, 100>>>>,
            <<<<<<72>>, 100>>, <<<<78, 105>>, 5>>>>,
            <<<<<<80, 116>>, 0>>, <<<<72>>, 2>>, <<<<79>>, 1>>>>,
            <<<<<<65, 114>>, 0>>, <<<<67>>, 1>>, <<<<72>>, 3>>, <<<<72, 101>>, 0>>, <<<<78>>, 1>>, <<<<79>>, 2>>>>,
            <<<<<<80, 84>>, 1>>, <<<<99, 117>>, 12>>, <<<<120>>, 3>>, <<<<82, 85>>, 128>>>>,
            <<<<<<104>>, 2>>, <<<<114, 117>>, 128>>>>>>
PhaseSeq == <<71, 83>>                      \* G, S
\* notes: none, "ab END c" (blanks and a keyword inside columns 17-24)
NoteSeq == <<<<>>, <<97, 98, 32, 69, 78, 68, 32, 99>>>>
\* coefficients: all zero; fourteen distinct values (an interleaving slip shows); extremes
CoefSeq == << [ah |-> [k \in 1..7 |-> CZ], al |-> [k \in 1..7 |-> CZ]],
              [ah |-> [k \in 1..7 |-> <<1, 100000000 + k, k>>], al |-> [k \in 1..7 |-> <<-1, 200000000 + k, -k>>]],
              [ah |-> <<<<1, 999999999, 30>>, <<-1, 999999999, -30>>, CZ, <<1, 100000000, -30>>, <<-1, 100000000, 30>>, <<1, 123456789, 0>>, <<-1, 987654321, -9>>>>,
               al |-> <<CZ, <<-1, 123456789, 10>>, <<1, 500000000, -1>>, CZ, <<1, 314159265, 0>>, <<-1, 271828182, 4>>, <<1, 100000001, -10>>>>] >>
\* temperatures <<Tlow, Thigh, Tmid>> in tenths of a kelvin: 1.0/9999.9/500.0 and 200.1/3500.0/1000.0
TempSeq == << <<<<10, -1>>, <<99999, -1>>, <<5000, -1>>>>, <<<<2001, -1>>, <<35000, -1>>, <<10000, -1>>>> >>

Mk(n, e, p, no, c, t) == [name |-> NameSeq[n], notes |-> NoteSeq[no], elems |-> ElemSeq[e], phase |-> PhaseSeq[p],
                          T |-> TempSeq[t], ah |-> CoefSeq[c].ah, al |-> CoefSeq[c].al]
\* every single-species file over the full cross product
Singles == {<<Mk(n, e, p, no, c, t)>> : n \in 1..Len(NameSeq), e \in 1..Len(ElemSeq), p \in 1..2,
                                        no \in 1..2, c \in 1..3, t \in 1..2}
\* in lists of 2..3 species the other fields follow the name index (all values still occur)
SpOf(j) == Mk(j, (j % Len(ElemSeq)) + 1, (j % 2) + 1, ((j \div 2) % 2) + 1, (j % 3) + 1, (j % 2) + 1)
Pairs == {<<SpOf(a), SpOf(b)>> : a, b \in 1..Len(NameSeq)}
Triples == {<<SpOf(a), SpOf(b), SpOf(c)>> : a, b, c \in 1..Len(NameSeq)}
MCLists == Singles \cup Pairs \cup Triples
\* a smaller set for the variants that TLC must reject / for quick case generation
MCSmall == {<<Mk(n, e, 1, 1, 2, 2)>> : n \in 1..Len(NameSeq), e \in 1..Len(ElemSeq)} \cup Pairs
=============================================================================
