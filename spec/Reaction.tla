------------------------------- MODULE Reaction -------------------------------
(***************************************************************************)
(* C08 - pmutt.reaction.Reaction: states, changes, activation quantities,  *)
(* equilibrium constants and per-species keyword routing, on SYMBOLIC      *)
(* reactions.                                                              *)
(*                                                                         *)
(* A species value is an opaque symbol, an ATOM <<name, cond>>: the        *)
(* species called `name` evaluated under the keyword set `cond` it         *)
(* receives.  A reaction quantity is a formal integer combination of atoms *)
(* (Lin: a finite map atom -> coefficient, unit 1/4 because stoichiometric *)
(* coefficients are given in quarters).  For the state functions the       *)
(* combination is read additively (sum of nu_i X_i); for partition         *)
(* functions and equilibrium constants it is read multiplicatively (the    *)
(* coefficients are the exponents of prod X_i^nu_i, resp. the exponent of  *)
(* exp(.)), so "q ratios multiply correspondingly" and "K_f K_r = 1" are   *)
(* the same statements as ActDifference and Antisymmetry in that group.    *)
(*                                                                         *)
(* The caller's keyword dictionary callerKw is a function from keys        *)
(*   [k |-> "glob",  id |-> <<"T">>]       ordinary condition (T, P)       *)
(*   [k |-> "block", id |-> name]          the entry "<name>_kwargs"       *)
(* to values (integers, resp. small dictionaries).                         *)
(*                                                                         *)
(* REQUIRED (the property):                                                *)
(*   ReqRoute    a species sees the ordinary conditions overridden by its  *)
(*               own block; nobody else's block reaches it;                *)
(*   ReqState    coefficient of an atom = sum of nu over the positions of  *)
(*               the side that carry it;                                   *)
(*   Delta(rev, act) = State(final) - State(initial) with                  *)
(*               initial = reactants (products when rev),                  *)
(*               final   = transition state when act, else the other side; *)
(*   Antisymmetry, ActDifference, DetailedBalance, KeqActRatio,            *)
(*   RouteIsolation, CallerUntouched;                                      *)
(*   ActWithoutTSRefused: a reaction without a transition state has no     *)
(*               "transition state minus reactants": every getter called   *)
(*               with act = True refuses (raises); and whatever a getter   *)
(*               returns must still obey ActDifference / KeqActRatio.      *)
(* IMPLEMENTATION-SHAPED: ImplRoute is _get_specie_kwargs (copy, drop      *)
(* every block key, merge the block whose key equals "<name>_kwargs");     *)
(* ImplState is the zip/accumulate loop of get_state_quantity; ImplStates  *)
(* is _get_states.  TLC checks that they refine the requirement.           *)
(* Variant selects defective algorithms kept to show that the invariants   *)
(* bite:  "alias"   routing pops the block keys from the caller's own      *)
(*                  dictionary instead of a copy,                          *)
(*        "prefix"  a block is matched when its name is a prefix of the    *)
(*                  species name (H2_kwargs reaching H2O),                 *)
(*        "suffix"  ... or a suffix of it (O_kwargs reaching H2O),         *)
(*        "actswap" _get_states ignores rev when act is set,               *)
(*        "snapshot" the coefficients are copied when they are assigned    *)
(*                  and the getters use the copy: a later in-place edit    *)
(*                  of a coefficient list is ignored (EditedEqualsFresh),  *)
(*        "actfallback" act = True on a reaction WITHOUT a transition      *)
(*                  state silently evaluates the plain reaction change     *)
(*                  instead of refusing (a subclass override doing         *)
(*                  `act = act and self.transition_state is not None`).    *)
(***************************************************************************)
EXTENDS Integers, Sequences, FiniteSets, TLC

CONSTANTS Rxns,       \* reactions [r |-> side, p |-> side, t |-> side]; side = Seq([n |-> name, c |-> quarters]); t = <<>>: no TS
          KwParts,    \* caller dictionaries as [glob |-> f, blocks |-> g] (see Kw)
          ProbeNames, \* names whose routing is examined in addition to the reaction's species
          ProbeBlocks,\* block contents used by RouteIsolation
          Variant,    \* "asbuilt" | "alias" | "prefix" | "suffix" | "actswap" | "actfallback" | "snapshot"
          MaxCalls,
          MaxEdits,   \* in-place edits of the reaction's public attributes between evaluations
          EditCoefs,  \* coefficients an edit may write
          EditNames   \* species an edit may put in place of another

\* rxn is the PUBLIC state of the reaction object (species and coefficient lists, which the user may edit in
\* place); snap is what a defective implementation keeps privately at assignment time (variant "snapshot")
VARIABLES rxn, callerKw, last, ncalls, phase, snap, nedits
vars == <<rxn, callerKw, last, ncalls, phase, snap, nedits>>

GT == <<"T">>
GP == <<"P">>
GIds == {GT, GP}
EmptyFn == [x \in {} |-> 0]

GlobKey(g) == [k |-> "glob", id |-> g]
BlockKey(n) == [k |-> "block", id |-> n]
\* flatten [glob, blocks] into the dictionary the caller passes as **kwargs
Kw(parts) ==
   [key \in {GlobKey(g) : g \in DOMAIN parts.glob} \cup {BlockKey(n) : n \in DOMAIN parts.blocks} |->
      IF key.k = "glob" THEN parts.glob[key.id] ELSE parts.blocks[key.id]]
BlockKeys(kw) == {key \in DOMAIN kw : key.k = "block"}
GlobKeys(kw) == DOMAIN kw \ BlockKeys(kw)

IsPrefix(a, b) == Len(a) <= Len(b) /\ SubSeq(b, 1, Len(a)) = a
Override(base, spec) == [g \in DOMAIN base \cup DOMAIN spec |-> IF g \in DOMAIN spec THEN spec[g] ELSE base[g]]

\* ---- routing -----------------------------------------------------------
ReqRoute(kw, name) ==
   LET own == BlockKey(name)
       Own(g) == own \in DOMAIN kw /\ g \in DOMAIN kw[own]
       Glob(g) == GlobKey(g) \in DOMAIN kw
   IN [g \in {x \in GIds : Own(x) \/ Glob(x)} |-> IF Own(g) THEN kw[own][g] ELSE kw[GlobKey(g)]]

IsSuffix(a, b) == Len(a) <= Len(b) /\ SubSeq(b, Len(b) - Len(a) + 1, Len(b)) = a
Matches(key, name) == CASE Variant = "prefix" -> IsPrefix(key.id, name)
                        [] Variant = "suffix" -> IsSuffix(key.id, name)
                        [] OTHER -> key.id = name
\* _get_specie_kwargs: copy; every key containing 'kwargs' is popped from the copy; the one equal to
\* '<name>_kwargs' is remembered and merged over the rest
ImplRoute(kw, name) ==
   LET base == [g \in {key.id : key \in GlobKeys(kw)} |-> kw[GlobKey(g)]]
       hits == {key \in BlockKeys(kw) : Matches(key, name)}
       spec == IF hits = {} THEN EmptyFn ELSE kw[CHOOSE key \in hits : TRUE]
   IN Override(base, spec)
\* what the call leaves in the dictionary object the caller holds
AfterCall(kw) == IF Variant = "alias" THEN [key \in GlobKeys(kw) |-> kw[key]] ELSE kw

\* ---- formal combinations of atoms --------------------------------------
ZeroLin == EmptyFn
Get(l, x) == IF x \in DOMAIN l THEN l[x] ELSE 0
Prune(l) == [x \in {y \in DOMAIN l : l[y] # 0} |-> l[x]]
LAdd(a, b) == Prune([x \in DOMAIN a \cup DOMAIN b |-> Get(a, x) + Get(b, x)])
LNeg(a) == [x \in DOMAIN a |-> -a[x]]
LSub(a, b) == LAdd(a, LNeg(b))
Single(x, c) == IF c = 0 THEN ZeroLin ELSE [y \in {x} |-> c]

RECURSIVE SumCoef(_, _)
SumCoef(side, I) == IF I = {} THEN 0 ELSE LET i == CHOOSE j \in I : TRUE IN side[i].c + SumCoef(side, I \ {i})

ReqState(side, kw) ==
   LET atoms == {<<side[i].n, ReqRoute(kw, side[i].n)>> : i \in 1..Len(side)}
   IN Prune([x \in atoms |-> SumCoef(side, {i \in 1..Len(side) : side[i].n = x[1]})])

\* get_state_quantity: state_quantity = 0; for specie, coeff in zip(...): += value(specie, routed kwargs)*coeff
RECURSIVE ImplFold(_, _, _)
ImplFold(side, kw, i) ==
   IF i = 0 THEN ZeroLin
   ELSE LAdd(ImplFold(side, kw, i - 1), Single(<<side[i].n, ImplRoute(kw, side[i].n)>>, side[i].c))
ImplState(side, kw) == ImplFold(side, kw, Len(side))

SideOf(rx, s) == CASE s = "r" -> rx.r [] s = "p" -> rx.p [] s = "t" -> rx.t
HasTS(rx) == Len(rx.t) > 0

\* ---- initial / final state of a change ---------------------------------
States(rev, act) == [init |-> IF rev THEN "p" ELSE "r",
                     final |-> IF act THEN "t" ELSE IF rev THEN "r" ELSE "p"]
ImplStates(rev, act) == IF Variant = "actswap" /\ act THEN [init |-> "r", final |-> "t"]
                        ELSE States(rev, act)

ReqDelta(rx, kw, rev, act) ==
   LSub(ReqState(SideOf(rx, States(rev, act).final), kw), ReqState(SideOf(rx, States(rev, act).init), kw))
ImplDelta(rx, kw, rev, act) ==
   LSub(ImplState(SideOf(rx, ImplStates(rev, act).final), kw), ImplState(SideOf(rx, ImplStates(rev, act).init), kw))

\* ---- public calls --------------------------------------------------------
\* every getter can be called on every reaction, also with act = TRUE when there is no transition state
Calls(rx) ==
   {[fn |-> "state", side |-> s, rev |-> FALSE, act |-> FALSE] : s \in {"r", "p", "t"}}
   \cup {[fn |-> f, side |-> "-", rev |-> rv, act |-> a] : f \in {"delta", "keq"}, rv \in BOOLEAN, a \in BOOLEAN}
   \cup {[fn |-> "act", side |-> "-", rev |-> rv, act |-> TRUE] : rv \in BOOLEAN}

\* the outcome "the call raised" as a value of the same shape as a combination
Refused == [x \in {<<(<<"!">>), EmptyFn>>} |-> 1]
NeedsTS(c) == (c.fn = "state" /\ c.side = "t") \/ (c.fn \in {"delta", "act", "keq"} /\ c.act)

\* transition_state is None: zip(None, None) raises inside get_state_quantity
ImplDeltaR(rx, kw, rev, act) ==
   IF act /\ ~HasTS(rx)
   THEN (IF Variant = "actfallback" THEN ImplDelta(rx, kw, rev, FALSE) ELSE Refused)
   ELSE ImplDelta(rx, kw, rev, act)
NegR(l) == IF l = Refused THEN Refused ELSE LNeg(l)

\* result of a call as a combination (keq: the exponent of exp, i.e. -delta G)
ImplResult(rx, kw, c) ==
   CASE c.fn = "state" -> IF c.side = "t" /\ ~HasTS(rx) THEN Refused ELSE ImplState(SideOf(rx, c.side), kw)
     [] c.fn = "delta" -> ImplDeltaR(rx, kw, c.rev, c.act)
     [] c.fn = "act"   -> ImplDeltaR(rx, kw, c.rev, TRUE)
     [] c.fn = "keq"   -> NegR(ImplDeltaR(rx, kw, c.rev, c.act))
ReqResult(rx, kw, c) ==
   IF NeedsTS(c) /\ ~HasTS(rx) THEN Refused
   ELSE CASE c.fn = "state" -> ReqState(SideOf(rx, c.side), kw)
          [] c.fn = "delta" -> ReqDelta(rx, kw, c.rev, c.act)
          [] c.fn = "act"   -> ReqDelta(rx, kw, c.rev, TRUE)
          [] c.fn = "keq"   -> LNeg(ReqDelta(rx, kw, c.rev, c.act))

NoCall == [fn |-> "none", side |-> "-", rev |-> FALSE, act |-> FALSE]

NoRxn == [r |-> <<>>, p |-> <<>>, t |-> <<>>]
\* the reaction and the caller's dictionary are chosen by two set-up steps (so that TLC spreads the
\* work over its workers); after that every step is one public call
Init == /\ rxn = NoRxn /\ snap = NoRxn /\ nedits = 0 /\ callerKw = EmptyFn /\ phase = "rxn" /\ ncalls = 0
        /\ last = [call |-> NoCall, kw |-> EmptyFn, rx |-> NoRxn, res |-> ZeroLin]
PickRxn == /\ phase = "rxn" /\ rxn' \in Rxns /\ snap' = rxn' /\ phase' = "kw"
           /\ UNCHANGED <<callerKw, last, ncalls, nedits>>
PickKw == /\ phase = "kw" /\ callerKw' \in {Kw(p) : p \in KwParts} /\ phase' = "run"
          /\ UNCHANGED <<rxn, last, ncalls, snap, nedits>>

\* what the getters read: the public lists, or (defective) the coefficients copied at assignment with the
\* species of the public lists
Seen == IF Variant = "snapshot"
        THEN [s \in {"r", "p", "t"} |->
                IF Len(SideOf(snap, s)) = Len(SideOf(rxn, s))
                THEN [i \in 1..Len(SideOf(rxn, s)) |-> [n |-> SideOf(rxn, s)[i].n, c |-> SideOf(snap, s)[i].c]]
                ELSE SideOf(rxn, s)]
        ELSE [s \in {"r", "p", "t"} |-> SideOf(rxn, s)]
SeenRxn == [r |-> Seen["r"], p |-> Seen["p"], t |-> Seen["t"]]

Call(c) == /\ phase = "run" /\ ncalls < MaxCalls
           /\ last' = [call |-> c, kw |-> callerKw, rx |-> rxn, res |-> ImplResult(SeenRxn, callerKw, c)]
           /\ callerKw' = AfterCall(callerKw)
           /\ ncalls' = ncalls + 1
           /\ UNCHANGED <<rxn, phase, snap, nedits>>

\* ---- the user edits the reaction between evaluations ---------------------------
WithSide(rx, s, side) == [r |-> IF s = "r" THEN side ELSE rx.r, p |-> IF s = "p" THEN side ELSE rx.p,
                          t |-> IF s = "t" THEN side ELSE rx.t]
Edited(nrx, nsnap) == /\ phase = "run" /\ nedits < MaxEdits
                      /\ rxn' = nrx /\ snap' = nsnap /\ nedits' = nedits + 1
                      /\ UNCHANGED <<callerKw, last, ncalls, phase>>
\* rxn.<side>_stoich[i] = c  (also: the caller edits the list it passed in - the same object)
EditCoef == \E s \in {"r", "p", "t"} : \E i \in 1..Len(SideOf(rxn, s)) : \E c \in EditCoefs :
               Edited(WithSide(rxn, s, [SideOf(rxn, s) EXCEPT ![i].c = c]), snap)
\* rxn.reactants[i] = another species
EditSpecies == \E s \in {"r", "p"} : \E i \in 1..Len(SideOf(rxn, s)) : \E n \in EditNames :
                  Edited(WithSide(rxn, s, [SideOf(rxn, s) EXCEPT ![i].n = n]), snap)
\* rxn.<side>_stoich = [..]  through the setter: a defective private copy is refreshed as well
Reassign == \E s \in {"r", "p", "t"} : \E c \in EditCoefs :
               LET side == [i \in 1..Len(SideOf(rxn, s)) |-> [n |-> SideOf(rxn, s)[i].n, c |-> c]]
               IN Edited(WithSide(rxn, s, side), WithSide(snap, s, side))

Next == PickRxn \/ PickKw \/ (\E c \in Calls(rxn) : Call(c)) \/ EditCoef \/ EditSpecies \/ Reassign
Spec == Init /\ [][Next]_vars

\* ---- the property --------------------------------------------------------
NamesOf(rx) == {rx.r[i].n : i \in 1..Len(rx.r)} \cup {rx.p[i].n : i \in 1..Len(rx.p)}
               \cup {rx.t[i].n : i \in 1..Len(rx.t)}

\* the relations below depend on (rxn, callerKw) only: they are evaluated once per pair, before the first call
Fresh == phase = "run" /\ ncalls = 0
TypeOK == /\ (nedits = 0 => rxn \in Rxns \cup {NoRxn}) /\ ncalls \in 0..MaxCalls /\ phase \in {"rxn", "kw", "run"}
          /\ \A key \in DOMAIN callerKw : key.k \in {"glob", "block"}

\* the implementation-shaped algorithms compute what is required
RouteRefines == Fresh => \A n \in NamesOf(rxn) \cup ProbeNames : ImplRoute(callerKw, n) = ReqRoute(callerKw, n)
StateRefines == Fresh => \A s \in {"r", "p", "t"} : ImplState(SideOf(rxn, s), callerKw) = ReqState(SideOf(rxn, s), callerKw)
ResultOK == last.call.fn # "none" => last.res = ReqResult(last.rx, last.kw, last.call)
\* an edited reaction answers like a fresh reaction built from the public attributes it had at the call
\* (last.rx; histories evaluate, edit, evaluate again)
EditedEqualsFresh == (last.call.fn # "none" /\ last.rx \notin Rxns) => last.res = ReqResult(last.rx, last.kw, last.call)

Dlt(rev, act) == ImplDelta(rxn, callerKw, rev, act)
\* reversing the direction flips the sign of the change
Antisymmetry == Fresh => Dlt(TRUE, FALSE) = LNeg(Dlt(FALSE, FALSE))
\* forward minus reverse activation quantity = reaction change (q_act_f / q_act_r = q_f)
\* stated on whatever the getters RETURN: a refusal satisfies it, a fallback value does not
DltR(rev, act) == ImplDeltaR(rxn, callerKw, rev, act)
Returned(rev) == DltR(rev, TRUE) # Refused
ActDifference == (Fresh /\ Returned(FALSE) /\ Returned(TRUE)) =>
                    LSub(DltR(FALSE, TRUE), DltR(TRUE, TRUE)) = Dlt(FALSE, FALSE)
\* K = exp(-delta G): K_f K_r = exp(0); K_act_f / K_act_r = K_f
DetailedBalance == Fresh => LAdd(LNeg(Dlt(FALSE, FALSE)), LNeg(Dlt(TRUE, FALSE))) = ZeroLin
KeqActRatio == (Fresh /\ Returned(FALSE) /\ Returned(TRUE)) =>
                  LSub(LNeg(DltR(FALSE, TRUE)), LNeg(DltR(TRUE, TRUE))) = LNeg(Dlt(FALSE, FALSE))
\* no transition state: every getter that needs one refuses
ActWithoutTSRefused == (last.call.fn # "none" /\ NeedsTS(last.call) /\ ~HasTS(last.rx)) => last.res = Refused
\* a change is the stoichiometry-weighted sum over the final minus the initial side (Hess)
Hess == Fresh => \A rv \in BOOLEAN, a \in (IF HasTS(rxn) THEN BOOLEAN ELSE {FALSE}) :
           Dlt(rv, a) = ReqDelta(rxn, callerKw, rv, a)

\* replacing, adding or removing the block of ONE name changes only atoms of that name
WithBlock(kw, n, b) == [key \in DOMAIN kw \cup {BlockKey(n)} |-> IF key = BlockKey(n) THEN b ELSE kw[key]]
WithoutBlock(kw, n) == [key \in DOMAIN kw \ {BlockKey(n)} |-> kw[key]]
OthersOnly(l, n) == [x \in {y \in DOMAIN l : y[1] # n} |-> l[x]]
RouteIsolation == Fresh =>
   \A n \in NamesOf(rxn) \cup ProbeNames :
      \A kw2 \in {WithBlock(callerKw, n, b) : b \in ProbeBlocks} \cup {WithoutBlock(callerKw, n)} :
         \A s \in {"r", "p", "t"} :
            OthersOnly(ImplState(SideOf(rxn, s), kw2), n) = OthersOnly(ImplState(SideOf(rxn, s), callerKw), n)

\* the dictionary the caller holds is never modified by a call
CallerUntouched == [][phase = "run" => callerKw' = callerKw]_vars

\* ---- exact stand-in values used by the generated cases --------------------
\* every atom gets its own integer: 100*base(name) + 10*T + P (0 = keyword absent)
CondT(cond) == IF GT \in DOMAIN cond THEN cond[GT] ELSE 0
CondP(cond) == IF GP \in DOMAIN cond THEN cond[GP] ELSE 0
=============================================================================
