INIT DInit
NEXT DNext
