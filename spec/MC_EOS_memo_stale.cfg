\* C20 design model, selection "isreal", get_Vm memoised with key (T, P) only (expected to be REJECTED)
SPECIFICATION Spec
CONSTANTS
  RootVals <- MCRoots
  ReVals <- MCRe
  ImVals <- MCIm
  Pressures <- MCPressures
  Amounts <- MCAmounts
  IdealRTs <- MCIdealRTs
  Memo = "state_only"
  Variant = "isreal"
INVARIANT OnEquation
INVARIANT OracleMatches
INVARIANT ScanComplete
INVARIANT Selected
INVARIANT IdealLimit
PROPERTY RoundTrip
PROPERTY LinearInN
VIEW MCView
CHECK_DEADLOCK FALSE
