\* thorough tier: <= 5 reactions over <= 5 intermediates, <= 7 nodes, <= 7 edges, cutoffs 0, 2..5
SPECIFICATION Spec
CONSTANTS
  Networks <- MCNetsBig
  Cutoffs <- MCCutoffsBig
  EVals <- MCZero
  EndAtTS = FALSE
  MaxTargets = 2
  Variant = "ok"
  Order = "asc"
INVARIANT GraphIsNetwork
INVARIANT CurSimple
INVARIANT FoundSound
INVARIANT CutoffStates
INVARIANT FoundExact
INVARIANT SpanDefinition
INVARIANT MinSpan
CHECK_DEADLOCK TRUE
