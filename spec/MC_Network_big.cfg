\* thorough tier: <= 4 reactions over <= 4 intermediates, <= 6 nodes, <= 6 edges, cutoffs 0, 2..5
SPECIFICATION Spec
CONSTANTS
  Networks <- MCNetsBig
  Cutoffs <- MCCutoffsBig
  EVals <- MCZero
  EndAtTS = FALSE
  MaxTargets = 2
  Variant = "ok"
  Order = "asc"
INVARIANT GraphIsNetwork
INVARIANT CurSimple
INVARIANT FoundSound
INVARIANT CutoffStates
INVARIANT FoundExact
INVARIANT SpanDefinition
INVARIANT MinSpan
CHECK_DEADLOCK TRUE
