\* exhaustive, larger case set (two species on both sides)
SPECIFICATION Spec
CONSTANTS
  Variant = "counter"
  Scope = "thorough"
INVARIANT WellFormed
INVARIANT Requirement
INVARIANT Partial
CHECK_DEADLOCK FALSE
