\* thorough design model: as MC_ChemkinDoc.cfg with <= 3 molecules per side (15 sides, 210 reactions
\* per species choice)
SPECIFICATION Spec
CONSTANTS
  Pool <- MCPool
  Sites <- MCSites
  MaxSp = 3
  MaxRx = 2
  MaxMol = 3
  MaxCoef = 2
  GasTest = "all"
  LoneBulk = FALSE
  SDelims <- MCSDelims
  RDelims <- MCRDelims
INVARIANT DistinctInv
INVARIANT Partition
INVARIANT EachOnceReactions
INVARIANT EachOnceElements
INVARIANT EachOnceGasSpecies
INVARIANT EachOnceSites
INVARIANT EachOnceAdsorbates
INVARIANT EachOnceBulk
INVARIANT CountsMatch
INVARIANT ReadBack
INVARIANT TubeInv
CHECK_DEADLOCK FALSE
