\* thorough design model: as MC_ChemkinDoc.cfg with <= 3 molecules per side, coefficients 1-3 (18 sides
\* per species choice)
SPECIFICATION Spec
CONSTANTS
  Pool <- MCPool
  Sites <- MCSites
  MaxSp = 3
  MaxRx = 2
  MaxMol = 3
  MaxCoef = 3
  GasTest = "all"
  LoneBulk = FALSE
  SDelims <- MCSDelims
  RDelims <- MCRDelims
  RunLists <- MCRunLists
  EvalMode = "each"
INVARIANT DistinctInv
INVARIANT Partition
INVARIANT EachOnceReactions
INVARIANT EachOnceElements
INVARIANT EachOnceGasSpecies
INVARIANT EachOnceSites
INVARIANT EachOnceAdsorbates
INVARIANT EachOnceBulk
INVARIANT CountsMatch
INVARIANT ReadBack
INVARIANT TubeInv
INVARIANT RunsInv
CHECK_DEADLOCK FALSE
