------------------------------- MODULE OmkmDoc -------------------------------
(***************************************************************************)
(* C07 (thermo / kinetics documents) - what an OpenMKM thermo YAML file    *)
(* and a Cantera CTI file must say about a model.                          *)
(*                                                                         *)
(* A written file is tokenised by the harness (yaml.safe_load / Python's   *)
(* ast - CTI is Python syntax) and projected to an ABSTRACT DOCUMENT: a    *)
(* list of sections and, per entry, a small record `obs`.  Next to every   *)
(* entry the harness logs `exp`, what the MODEL says (names, membership,   *)
(* the model's own numbers through its public getters, unit conversion     *)
(* factors from the unit table).  The operators below are the property:    *)
(* each returns the set of names of the clauses that fail.                 *)
(*                                                                         *)
(*   BeginVerdict     Raises WellFormed Sections UnitsSection MotzWise     *)
(*   SpeciesVerdict   NothingElse Shape SpeciesFields NumberMatches        *)
(*   ReactionVerdict  NothingElse EquationMatches RateForm NumberMatches   *)
(*                    UnitAttached StickingSpecies MotzWise UserIdKept     *)
(*                    IdAssigned                                           *)
(*   InterVerdict     NothingElse InteractionFields NumberMatches          *)
(*                    UnitAttached UserIdKept                              *)
(*   BepVerdict       NothingElse BepFields NumberMatches UnitAttached     *)
(*                    BepMembers UserIdKept                                *)
(*   PhaseVerdict     NothingElse PhaseLists PhaseKind PhaseNote            *)
(*                    NumberMatches                                        *)
(*                    UnitAttached RangeDenotesMembers PhaseKeywords       *)
(*   EndVerdict       EachSpeciesOnce EachPhaseOnce EachReactionOnce       *)
(*                    EachBepOnce EachInteractionOnce UniqueIds            *)
(*                    DocumentsAgreeOnBeps                                 *)
(*                                                                         *)
(* Numbers are Dec values.  YAML carries full precision: 8 significant     *)
(* digits are demanded; CTI prints rate parameters with 6 digits: 5 are    *)
(* demanded there.  Products with conversion factors are cross-multiplied  *)
(* (no division): written * f_den = model * f_num to 6 digits.             *)
(* Range notation is read with OmkmRangeText (C18): entries must be well   *)
(* formed and DENOTE exactly the ids of the members.                       *)
(*                                                                         *)
(* The id allocation of the writers is a state machine of its own:         *)
(* OmkmIds.tla.                                                            *)
(***************************************************************************)
EXTENDS Dec, TLC
T == INSTANCE Text
R == INSTANCE OmkmRangeText

KY == 8      \* digits demanded of full-precision fields
KC == 5      \* digits demanded of CTI rate parameters (printed "%.5e")
KX == 6      \* digits demanded of cross-multiplied relations

SeqSet(s) == {s[i] : i \in 1..Len(s)}
NoDup(s) == \A i, j \in 1..Len(s) : i # j => s[i] # s[j]
If(c, name) == IF c THEN {} ELSE {name}

\* ---- decimal text -> Dec (truncated to 9 significant digits) -----------------
FirstPos(s, ch) == IF \E i \in 1..Len(s) : s[i] = ch
                   THEN CHOOSE i \in 1..Len(s) : s[i] = ch /\ \A j \in 1..(i - 1) : s[j] # ch ELSE 0
ExpPos(s) == LET i == FirstPos(s, 101) IN IF i # 0 THEN i ELSE FirstPos(s, 69)
Parts(s0) ==
   LET neg == Len(s0) > 0 /\ s0[1] = 45
       s == IF Len(s0) > 0 /\ (s0[1] = 45 \/ s0[1] = 43) THEN Tail(s0) ELSE s0
       ep == ExpPos(s)
       mant == IF ep = 0 THEN s ELSE SubSeq(s, 1, ep - 1)
       ex == IF ep = 0 THEN <<>> ELSE SubSeq(s, ep + 1, Len(s))
       exneg == Len(ex) > 0 /\ ex[1] = 45
       exd == IF Len(ex) > 0 /\ (ex[1] = 45 \/ ex[1] = 43) THEN Tail(ex) ELSE ex
       dp == FirstPos(mant, 46)
   IN [neg |-> neg, ep |-> ep, exneg |-> exneg, exd |-> exd,
       ip |-> IF dp = 0 THEN mant ELSE SubSeq(mant, 1, dp - 1),
       fp |-> IF dp = 0 THEN <<>> ELSE SubSeq(mant, dp + 1, Len(mant))]
NumWF(s) == LET p == Parts(s) IN
   /\ T!AllDigits(p.ip) /\ (p.fp = <<>> \/ T!AllDigits(p.fp))
   /\ (p.ep = 0 \/ (T!AllDigits(p.exd) /\ Len(p.exd) <= 3))
NumVal(s) == LET p == Parts(s)
                 D == p.ip \o p.fp
                 NZ == {i \in 1..Len(D) : D[i] # 48}
             IN IF NZ = {} THEN Zero
                ELSE LET nz == CHOOSE i \in NZ : \A j \in NZ : i <= j
                         last == IF nz + 8 < Len(D) THEN nz + 8 ELSE Len(D)
                         m == T!DigitsToInt(SubSeq(D, nz, last))
                         e == (IF p.ep = 0 THEN 0 ELSE (IF p.exneg THEN -1 ELSE 1) * T!DigitsToInt(p.exd))
                              - Len(p.fp) + (Len(D) - last)
                     IN <<IF p.neg THEN -m ELSE m, e>>
\* "<number> <unit>"
SplitOK(c) == FirstPos(c, 32) > 1 /\ NumWF(SubSeq(c, 1, FirstPos(c, 32) - 1))
NumPart(c) == NumVal(SubSeq(c, 1, FirstPos(c, 32) - 1))
UnitPart(c) == SubSeq(c, FirstPos(c, 32) + 1, Len(c))

\* a scalar of the document (harness: _num_or_text) read as a number, with or without unit text
HasNum(x) == x.k = "num" \/ (x.k = "str" /\ SplitOK(x.codes))
NumOf(x) == IF x.k = "num" THEN x.num ELSE NumPart(x.codes)
UnitOf(x) == IF x.k = "str" /\ SplitOK(x.codes) THEN UnitPart(x.codes) ELSE <<>>
\* in YAML a dimensional value is "<number> <unit>"; in CTI a bare number (the units() directive rules)
UnitFormOK(fmt, x, unit) == IF fmt = "yaml" THEN x.k = "str" /\ SplitOK(x.codes) /\ UnitPart(x.codes) = unit
                            ELSE x.k = "num"

\* ---- begin: well-formedness, sections, units --------------------------------------
KnownDirectives == {"units", "ideal_gas", "stoichiometric_solid", "interacting_interface", "species",
                    "lateral_interaction", "surface_reaction", "bep", "enable_motz_wise", "disable_motz_wise"}
Count(s, x) == Cardinality({i \in 1..Len(s) : s[i] = x})
YamlSections(x) == {"units"} \cup (IF x.phases # <<>> THEN {"phases"} ELSE {})
                   \cup (IF x.species # <<>> THEN {"species"} ELSE {})
                   \cup (IF x.has_rx THEN {"reactions"} ELSE {})
                   \cup (IF x.nbeps > 0 THEN {"beps"} ELSE {})
                   \cup (IF x.has_inter THEN {"interactions"} ELSE {})
BeginVerdict(e) ==
   IF e.raised # "" THEN {"Raises"}
   ELSE IF ~e.loaded THEN {"WellFormed"}
   ELSE LET s == e.sections  x == e.exp IN
        (IF e.fmt = "yaml"
         THEN If(YamlSections(x) \subseteq SeqSet(s) /\ SeqSet(s) \subseteq YamlSections(x) \cup SeqSet(x.may)
                 /\ NoDup(s), "Sections")       \* x.may: sections of lists given EMPTY may appear (empty)
         ELSE If(SeqSet(s) \subseteq KnownDirectives, "WellFormed")
              \cup If(Len(s) > 0 /\ s[1] = "units" /\ Count(s, "units") = 1, "Sections")
              \cup If(x.has_rx => (e.motz = (IF x.motz THEN "true" ELSE "false")), "MotzWise"))
        \cup If(e.units = x.units, "UnitsSection")

\* ---- species ---------------------------------------------------------------------------
SegClose(a, b) == /\ Close(a.lo, b.lo, KY) /\ Close(a.hi, b.hi, KY) /\ Len(a.a) = Len(b.a)
                  /\ \A i \in 1..Len(a.a) : Close(a.a[i], b.a[i], KY)
SpeciesVerdict(fmt, o, x) ==
   IF ~x.found THEN {"NothingElse"}
   ELSE If(o.shape_ok, "Shape")
        \cup If(o.extra = <<>>, "NothingElse")
        \cup If(/\ o.model = x.model
                /\ Len(o.comp) = Len(x.comp)
                /\ \A i \in 1..Len(x.comp) : \E j \in 1..Len(o.comp) :
                      o.comp[j][1] = x.comp[i][1] /\ IsZero(Sub(o.comp[j][2], x.comp[i][2]))
                /\ o.has_sites = x.has_sites
                /\ (x.has_sites => IsZero(Sub(o.sites, x.sites))), "SpeciesFields")
        \cup If(/\ Len(o.segs) = Len(x.segs)
                /\ \A i \in 1..Len(x.segs) : \E j \in 1..Len(o.segs) : SegClose(o.segs[j], x.segs[i]),
                "NumberMatches")

\* ---- reactions -----------------------------------------------------------------------------
TermSet(s) == {<<s[i][1], s[i][2]>> : i \in 1..Len(s)}
SameSide(a, b) == Len(a) = Len(b) /\ TermSet(a) = TermSet(b)
ReactionVerdict(fmt, o, x) ==
   IF ~x.found THEN {"NothingElse"}
   ELSE IF x.err # "" THEN {"ModelValueUnavailable"}
   ELSE LET k == IF fmt = "yaml" THEN KY ELSE KC IN
        If(o.extra = <<>>, "NothingElse")
        \cup If(o.eq_ok /\ SameSide(o.l, x.l) /\ SameSide(o.r, x.r), "EquationMatches")
        \cup If(o.type = x.type, "RateForm")
        \cup If(/\ HasNum(o.A) /\ Close(NumOf(o.A), x.A, k)
                /\ HasNum(o.b) /\ Close(NumOf(o.b), x.b, KY)
                /\ HasNum(o.Ea) /\ (Close(NumOf(o.Ea), x.Ea, k) \/ (IsZero(NumOf(o.Ea)) /\ IsZero(x.Ea))),
                "NumberMatches")
        \cup If(UnitFormOK(fmt, o.Ea, x.Ea_unit) /\ o.A.k = "num" /\ o.b.k = "num", "UnitAttached")
        \cup If(fmt = "yaml" /\ x.type = "stick" => o.stick_species = x.stick_species, "StickingSpecies")
        \cup If(fmt = "yaml" /\ x.type = "stick" => o.motz = (IF x.motz THEN "true" ELSE "false"), "MotzWise")
        \cup If(o.id # "" /\ o.id # "None", "IdAssigned")
        \cup If(x.id # "" => o.id = x.id, "UserIdKept")

\* ---- lateral interactions ---------------------------------------------------------------------
InterVerdict(fmt, o, x) ==
   IF ~x.found THEN {"NothingElse"}
   ELSE If(o.extra = <<>>, "NothingElse")
        \cup If(o.pair = x.pair /\ o.th_ok /\ Len(o.thresholds) = Len(x.thresholds)
                /\ Len(o.strengths) = Len(x.slopes), "InteractionFields")
        \cup If(/\ Len(o.thresholds) = Len(x.thresholds)
                /\ \A i \in 1..Len(x.thresholds) : IsZero(Sub(o.thresholds[i], x.thresholds[i]))
                /\ Len(o.strengths) = Len(x.slopes)
                /\ \A i \in 1..Len(x.slopes) :
                      /\ HasNum(o.strengths[i])
                      /\ LET lhs == Mul(NumOf(o.strengths[i]), x.fq)  rhs == Mul(x.slopes[i], x.fe)
                         IN Close(lhs, rhs, KX), "NumberMatches")
        \cup If(\A i \in 1..Len(o.strengths) : UnitFormOK(fmt, o.strengths[i], x.unit), "UnitAttached")
        \cup If(o.id # "" /\ o.id # "None", "IdAssigned")
        \cup If(x.id # "" => o.id = x.id, "UserIdKept")

\* ---- BEPs: members are given as positions of reactions; rid[k] = id text of reaction k --------------
Members(entries, idx, rid) ==
   /\ \A i \in 1..Len(entries) : R!EntryWF(entries[i])
   /\ \A i \in 1..Len(idx) : idx[i] <= Len(rid)
   /\ R!DenoteAll(entries) = {rid[idx[i]] : i \in 1..Len(idx)}
BepVerdict(fmt, o, x, rid) ==
   IF ~x.found THEN {"NothingElse"}
   ELSE If(o.extra = <<>>, "NothingElse")
        \cup If(o.direction = x.direction, "BepFields")
        \cup If(/\ HasNum(o.slope) /\ Close(NumOf(o.slope), x.slope, KY)
                /\ HasNum(o.intercept) /\ Close(NumOf(o.intercept), Mul(x.intercept, x.fE), KX), "NumberMatches")
        \cup If(UnitFormOK(fmt, o.intercept, x.unit) /\ o.slope.k = "num", "UnitAttached")
        \cup If(Members(o.cleavage, x.cleavage, rid) /\ Members(o.synthesis, x.synthesis, rid), "BepMembers")
        \cup If(o.id # "" /\ o.id # "None", "IdAssigned")
        \cup If(x.id # "" => o.id = x.id, "UserIdKept")

\* ---- phases ----------------------------------------------------------------------------------------
RangeOK(form, kw, entries, idx, ids, kind, fmt, word) ==
   IF fmt = "yaml"
   THEN (kind = "solid" /\ kw = "") \/ (kw = (IF idx = <<>> THEN "none" ELSE word))
   ELSE IF form = "absent" THEN idx = <<>>
   ELSE form = "range" /\ Members(entries, idx, ids)
PhaseVerdict(fmt, o, x, rid, iid) ==
   IF ~x.found THEN {"NothingElse"}
   ELSE If(o.extra = <<>>, "NothingElse")
        \cup If(o.kind = x.kind, "PhaseKind")
        \cup If(fmt = "cti" => o.note = x.note, "PhaseNote")      \* words of the note, in order
        \cup If(/\ NoDup(o.species) /\ SeqSet(o.species) = SeqSet(x.species)
                /\ NoDup(o.elements) /\ SeqSet(o.elements) = SeqSet(x.elements)
                /\ (fmt = "cti" /\ x.kind = "iface" => SeqSet(o.parents) = SeqSet(x.parents)), "PhaseLists")
        \cup (IF x.kind = "iface"
              THEN If(HasNum(o.sd) /\ Close(Mul(NumOf(o.sd), x.fa), Mul(x.sd, x.fq), KX), "NumberMatches")
                   \cup If(UnitFormOK(fmt, o.sd, x.sd_unit), "UnitAttached")
              ELSE IF x.kind = "solid" /\ fmt = "cti"
              THEN If(HasNum(o.density) /\ Close(Mul(NumOf(o.density), x.fv), Mul(x.density, x.fm), KX), "NumberMatches")
              ELSE {})
        \cup (IF fmt = "yaml"
              THEN If(/\ RangeOK(o.rx_form, o.rx_kw, <<>>, x.rx, rid, x.kind, fmt,
                                 IF x.kind = "gas" THEN "all" ELSE "declared-species")
                      /\ (x.kind = "iface" =>
                            /\ RangeOK(o.int_form, o.int_kw, <<>>, x.inter, iid, x.kind, fmt, "declared-species")
                            /\ o.beps_kw = (IF x.nbeps = 0 THEN "none" ELSE "all")), "PhaseKeywords")
              ELSE If(/\ RangeOK(o.rx_form, "", o.rx_entries, x.rx, rid, x.kind, fmt, "")
                      /\ RangeOK(o.int_form, "", o.int_entries, x.inter, iid, x.kind, fmt, ""),
                      "RangeDenotesMembers")
                   \cup If(x.kind = "iface" =>
                             (IF o.beps_form = "absent" THEN x.nbeps = 0
                              ELSE NoDup(o.beps_names) /\ Len(o.beps_names) = x.nbeps
                                   /\ \A i \in 1..Len(x.bep_names) :
                                         x.bep_names[i] # "" => x.bep_names[i] \in SeqSet(o.beps_names)),
                           "PhaseLists"))

\* ---- end: every thing once, ids unique ------------------------------------------------------------------
EndVerdict(st) ==
   LET x == st.exp IN
   If(NoDup(st.sp) /\ SeqSet(st.sp) = SeqSet(x.species), "EachSpeciesOnce")
   \cup If(NoDup(st.ph) /\ SeqSet(st.ph) = SeqSet(x.phases), "EachPhaseOnce")
   \cup If(Len(st.rid) = x.nrx, "EachReactionOnce")
   \* every BEP object of the model is written exactly once (bk = which object each entry is)
   \cup If(Len(st.bid) = x.nbeps /\ NoDup(st.bk) /\ SeqSet(st.bk) = 1..x.nbeps, "EachBepOnce")
   \* the CTI file and the YAML file written before it state the same BEPs under the same ids
   \cup If((st.fmt = "cti" /\ st.prev.ok) =>
             {<<st.bk[i], st.bid[i]>> : i \in 1..Len(st.bk)} = st.prev.pairs, "DocumentsAgreeOnBeps")
   \cup If(Len(st.iid) = x.ninter, "EachInteractionOnce")
   \cup If(NoDup(st.rid) /\ NoDup(st.bid) /\ NoDup(st.iid), "UniqueIds")

=============================================================================
