------------------------------ MODULE MC_Poly ------------------------------
EXTENDS Poly, Json, IOUtils, SequencesExt
ASSUME CalculusOK
ASSUME SelectOK
ASSUME OrderOnlyAtSharedBound
\* sets inside records are serialised as arrays
Ser(c) == [f |-> c.f, segs |-> c.segs, ord |-> c.ord, ps |-> c.ps,
           acc |-> [i \in 1..Len(c.acc) |-> SetToSeq(c.acc[i])], impl |-> c.impl]
SerAll(S) == LET q == SetToSeq(S) IN [i \in 1..Len(q) |-> Ser(q[i])]
EmitCases == IF "OUT_FILE" \in DOMAIN IOEnv
             THEN JsonSerialize(IOEnv.OUT_FILE,
                    [scalar |-> SerAll(ScalarCases), array |-> SerAll(ArrayCases), long |-> SerAll(LongArrayCases)])
             ELSE TRUE
ASSUME EmitCases
=============================================================================
