------------------------------ MODULE MC_Poly ------------------------------
EXTENDS Poly, Json, IOUtils, SequencesExt
ASSUME CalculusOK
ASSUME SelectOK
\* sets inside records are serialised as arrays
Ser(c) == [f |-> c.f, segs |-> c.segs, ps |-> c.ps,
           acc |-> [i \in 1..Len(c.acc) |-> SetToSeq(c.acc[i])], impl |-> c.impl]
EmitCases == IF "OUT_FILE" \in DOMAIN IOEnv
             THEN JsonSerialize(IOEnv.OUT_FILE,
                    [scalar |-> [i \in 1..Cardinality(ScalarCases) |-> Ser(SetToSeq(ScalarCases)[i])],
                     array  |-> [i \in 1..Cardinality(ArrayCases) |-> Ser(SetToSeq(ArrayCases)[i])],
                     long   |-> [i \in 1..Cardinality(LongArrayCases) |-> Ser(SetToSeq(LongArrayCases)[i])]])
             ELSE TRUE
ASSUME EmitCases
=============================================================================
