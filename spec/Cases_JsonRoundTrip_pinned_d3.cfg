\* case generation (pinned tables), varied chain <= 3
INIT CInit
NEXT CNext
CONSTANTS
  Variant = "pinned"
  MaxDepth = 3
  MaxLife = 0
  Roots <- AllRoots
CHECK_DEADLOCK FALSE
