----------------------------- MODULE References -----------------------------
(***************************************************************************)
(* C10 - pmutt.empirical.references.References as a state machine over     *)
(* exact linear algebra (Lin.tla, Rat.tla).                                *)
(*                                                                         *)
(* A reference species is a record [x, d, t, nm]: nm its name (0 stands    *)
(* for None; the required fit ignores it), x its composition over the      *)
(* descriptors 1..ND (small integers), d = HoRT_dft(t) - HoRT_exp the      *)
(* dimensionless offset it asks for (an integer here), t its reference     *)
(* temperature.  Abstract state of a References object:                    *)
(*    refs    the list of reference species,                               *)
(*    keys    the descriptors that have an offset (ascending),             *)
(*    off     the offsets (rationals, aligned with keys),                  *)
(*    tref    the reference temperature used for the T_ref/T scaling,      *)
(*    fitted  the list `refs` as it was at the last fit.                   *)
(* One action per public call: InitFit (the constructor fits), InitGiven   *)
(* (offset= passed: nothing fitted), AppendRef, ExtendRefs, InsertRef,     *)
(* PopRef, RemoveRef, SetRef (__setitem__), ClearOffset, Reload (to_dict / *)
(* from_dict), Fit.                                                        *)
(*                                                                         *)
(* NAMED DEVIATION (what the code does): append/extend/insert/pop only edit *)
(* the list; offset and T_ref are NOT refitted until fit_HoRT_offset() is  *)
(* called explicitly.  Variant = "explicit" models that: between an edit   *)
(* and the next Fit the state is STALE (refs # fitted) and the property    *)
(* requires nothing of keys/off/tref there.  Variant = "auto" is the       *)
(* hypothetical object that refits on every edit.  The property text       *)
(* quantifies over "sequences of appending references and refitting", so   *)
(* the stale state is allowed; every invariant below is required in every  *)
(* post-Fit state (Fresh).  MC_References_nostale.cfg asks for AlwaysFresh *)
(* under "explicit" and is expected to be rejected (append; no fit).       *)
(*                                                                         *)
(* Required relation (the property):                                       *)
(*   NormalEquations  A^T (d - A off) = 0                                  *)
(*   Optimal          moving one offset by an integer step never lowers    *)
(*                    the residual norm (what "least squares" means)       *)
(*   Reproduces       rank A = number of references => d - A off = 0       *)
(*                    (square full rank is the case named in the text;     *)
(*                    independent rows are enough, and TLC checks that it  *)
(*                    follows)                                             *)
(*   FitIsContraction |A off| <= |d|;  OffsetsBounded |off|^2 <= |d|^2     *)
(*                    F^(rank-1) (F = sum of squared entries of A)         *)
(*   KeysAreDescriptors, TrefIsMean                                        *)
(*   application: AdjE(x) = -(off . x) is the energy/(R tref); H/RT and    *)
(*   G/RT get AdjE(x) tref/T: Linear, TIndependent, ReproducesAtTref.      *)
(* Implementation-shaped algorithm: FitOf = normal equations + projection  *)
(* on the row space (= numpy lstsq's minimum-norm solution), MinNorm.      *)
(***************************************************************************)
EXTENDS Lin, TLC

CONSTANTS ND,        \* number of descriptors the references can contain
          RefKinds,  \* reference species that can be appended
          InsKinds,  \* reference species that can be inserted before an existing one
          ExtSets,   \* lists that can be passed to extend
          InitSets,  \* lists the object can be constructed with
          MaxRefs, MaxOps,
          Variant,   \* "explicit" (the code) | "auto"
          Steps,     \* integer perturbations of one offset tried by Optimal
          Temps,     \* temperatures tried by TIndependent
          Record,    \* TRUE: h carries the full record of every step (replay); FALSE: the action only
          Algo,      \* "lstsq" (the code) | "squarefast" | "dftcache" (named variants, expected to be rejected)
          Garbage,   \* size of the offsets an undetected singular square solve returns
          Acts,      \* which of the further list/offset calls are enabled: "remove", "setitem", "clear", "reload"
          GivenSets  \* [keys, off, tref] records a References object can be constructed with (offset= given: no fit)

VARIABLES refs, keys, off, tref, fitted, cache, h
vars == <<refs, keys, off, tref, fitted, cache, h>>

\* ---- the fit
Descs(rs) == {j \in 1..ND : \E i \in 1..Len(rs) : rs[i].x[j] # 0}
KeySeq(rs) == Asc(Descs(rs))
AMat(rs, ks) == TLCEval([i \in 1..Len(rs) |-> TLCEval([k \in 1..Len(ks) |-> rs[i].x[ks[k]]])])
DVec(rs) == TLCEval([i \in 1..Len(rs) |-> rs[i].d])
RECURSIVE SumT(_)
SumT(rs) == IF Len(rs) = 0 THEN 0 ELSE rs[1].t + SumT(Tail(rs))
MeanT(rs) == RFrac(SumT(rs), Len(rs))
\* Variant "squarefast": when there are as many references as descriptors the system is
\* solved directly (LU) and least squares is used only if the solver reports singularity.
\* LU in floating point reports it only for an exactly zero pivot; for many rank-deficient
\* integer matrices rounding leaves a ~1e-16 pivot and the solver returns finite offsets of
\* order 1e16 that have nothing to do with the least-squares solution.  Abstraction of that
\* (worst) case: a singular square yields an arbitrary large vector, here Garbage everywhere.
SquareSingular(rs, ks) == Len(rs) = Len(ks) /\ IRank(AMat(rs, ks), Len(ks)) < Len(ks)
FitWith(rs, dv) == LET ks == KeySeq(rs) IN
   [keys |-> ks,
    off |-> IF Algo = "squarefast" /\ SquareSingular(rs, ks)
            THEN TLCEval([k \in 1..Len(ks) |-> R(Garbage)])
            ELSE MinNormLS(RMat(AMat(rs, ks)), Len(ks), RVec(dv)),
    tref |-> MeanT(rs)]
\* the required fit: every reference contributes its OWN model enthalpy (d of that reference)
FitOf(rs) == FitWith(rs, DVec(rs))
\* Variant "dftcache": the object remembers, between fits, the model enthalpy of each reference under
\* the key (name, T_ref) - field nm is the name, 0 standing for None (the default) - and on a refit
\* evaluates only references whose key is new.  References sharing a key (unnamed, or duplicate
\* names, same T_ref) then pick up another species' value (the last one stored wins).
CacheLookup(c, r) == LET idx == {i \in 1..Len(c) : c[i].nm = r.nm /\ c[i].t = r.t} IN
                     IF idx = {} THEN r.d ELSE c[CHOOSE i \in idx : \A j \in idx : j <= i].d
DEff(rs, c) == TLCEval([i \in 1..Len(rs) |-> IF Algo = "dftcache" THEN CacheLookup(c, rs[i]) ELSE rs[i].d])
NewCache(rs, c) == IF Algo = "dftcache"
                   THEN TLCEval([i \in 1..Len(rs) |-> [nm |-> rs[i].nm, t |-> rs[i].t, d |-> DEff(rs, c)[i]]])
                   ELSE <<>>
\* what the object computes on a fit
FitAlgo(rs, c) == FitWith(rs, DEff(rs, c))

Residual(rs, ks, o) == VSub(RVec(DVec(rs)), MatVec(RMat(AMat(rs, ks)), o))
RowsIndependent(rs, ks) == IRank(AMat(rs, ks), Len(ks)) = Len(rs)
ColsIndependent(rs, ks) == IRank(AMat(rs, ks), Len(ks)) = Len(ks)
SameT(rs) == \A i \in 1..Len(rs) : rs[i].t = rs[1].t

\* ---- the application
\* energy / (R tref) added to a species of composition x (x may have descriptors outside keys)
AdjE(ks, o, x) == RNeg(RSum(TLCEval([k \in 1..Len(ks) |-> RMul(o[k], R(x[ks[k]]))])))
\* what is added to H/RT and G/RT at temperature T
Adj(ks, o, tr, x, T) == RMul(AdjE(ks, o, x), RDiv(tr, R(T)))
Targets == [1..(ND + 1) -> 0..1]        \* descriptor ND+1 never occurs in a reference

\* ---- behaviours
Snap(rs, frs, ks, o, tr) ==
   [keys |-> ks, off |-> o, tref |-> tr,
    fitv |-> MatVec(RMat(AMat(rs, ks)), o),          \* off . x_i for the current references
    unique |-> ColsIndependent(frs, ks)]
Rec(a, arg) ==
   IF ~Record THEN [act |-> a] ELSE
   LET f == FitOf(refs') IN
   [act |-> a, arg |-> arg, n |-> Len(refs'),
    cur |-> Snap(refs', fitted', keys', off', tref'),
    fresh |-> Snap(refs', refs', f.keys, f.off, f.tref),
    isfresh |-> refs' = fitted',
    det |-> RowsIndependent(refs', f.keys),
    samet |-> SameT(refs')]

DoFit(rs) == LET f == FitAlgo(rs, cache) IN
             /\ keys' = f.keys /\ off' = f.off /\ tref' = f.tref /\ fitted' = rs
             /\ cache' = NewCache(rs, cache)
After(rs) == IF Variant = "auto" THEN DoFit(rs) ELSE UNCHANGED <<keys, off, tref, fitted, cache>>

InitFit == /\ refs \in InitSets
        /\ LET f == FitAlgo(refs, <<>>) IN keys = f.keys /\ off = f.off /\ tref = f.tref
        /\ fitted = refs
        /\ cache = NewCache(refs, <<>>)
        /\ h = <<IF ~Record THEN [act |-> "construct"] ELSE
                 [act |-> "construct", arg |-> refs, n |-> Len(refs),
                  cur |-> Snap(refs, refs, keys, off, tref),
                  fresh |-> Snap(refs, refs, keys, off, tref),
                  isfresh |-> TRUE, det |-> RowsIndependent(refs, keys), samet |-> SameT(refs)]>>
\* References(offset=..., T_ref=..., references=...): the offsets are taken as given, nothing is fitted
InitGiven == /\ refs \in InitSets
             /\ \E g \in GivenSets : keys = g.keys /\ off = g.off /\ tref = g.tref
             /\ fitted = <<>> /\ cache = <<>>
             /\ h = <<IF ~Record THEN [act |-> "given"] ELSE
                      [act |-> "given", arg |-> refs, n |-> Len(refs),
                       cur |-> Snap(refs, <<>>, keys, off, tref),
                       fresh |-> LET f == FitOf(refs) IN Snap(refs, refs, f.keys, f.off, f.tref),
                       isfresh |-> FALSE, det |-> RowsIndependent(refs, KeySeq(refs)), samet |-> SameT(refs)]>>
Init == InitFit \/ InitGiven
AppendRef(r) == /\ Len(refs) < MaxRefs /\ Len(h) <= MaxOps
                /\ refs' = Append(refs, r)
                /\ After(refs')                    \* explicit: offset NOT refitted (as in the code)
                /\ h' = Append(h, Rec("append", <<r>>))
ExtendRefs(rs) == /\ Len(refs) + Len(rs) <= MaxRefs /\ Len(h) <= MaxOps
                  /\ refs' = refs \o rs
                  /\ After(refs')                  \* explicit: offset NOT refitted (as in the code)
                  /\ h' = Append(h, Rec("extend", rs))
InsertRef(p, r) == /\ Len(refs) < MaxRefs /\ p \in 0..(Len(refs) - 1) /\ Len(h) <= MaxOps
                   /\ refs' = SubSeq(refs, 1, p) \o <<r>> \o SubSeq(refs, p + 1, Len(refs))
                   /\ After(refs')                 \* explicit: offset NOT refitted (as in the code)
                   /\ h' = Append(h, Rec("insert", <<r, p>>))
PopRef(p) == /\ Len(refs) >= 2 /\ p \in 1..Len(refs) /\ Len(h) <= MaxOps
             /\ refs' = SubSeq(refs, 1, p - 1) \o SubSeq(refs, p + 1, Len(refs))
             /\ After(refs')                       \* explicit: offset NOT refitted (as in the code)
             /\ h' = Append(h, Rec("pop", <<p - 1, IF p = Len(refs) THEN 1 ELSE 0>>))
Fit == /\ Len(h) <= MaxOps /\ h[Len(h)].act # "fit"
       /\ UNCHANGED refs
       /\ DoFit(refs)
       /\ h' = Append(h, Rec("fit", <<>>))
\* further calls of the public API (all of them only edit the list / the dictionary; none refits)
RemoveRef(p) == /\ "remove" \in Acts /\ Len(refs) >= 2 /\ p \in 1..Len(refs) /\ Len(h) <= MaxOps
                /\ refs' = SubSeq(refs, 1, p - 1) \o SubSeq(refs, p + 1, Len(refs))
                /\ After(refs')
                /\ h' = Append(h, Rec("remove", <<p - 1>>))
SetRef(p, r) == /\ "setitem" \in Acts /\ p \in 1..Len(refs) /\ refs[p] # r /\ Len(h) <= MaxOps
                /\ refs' = [refs EXCEPT ![p] = r]
                /\ After(refs')
                /\ h' = Append(h, Rec("setitem", <<r, p - 1>>))
\* clear_offset(): the dictionary is emptied (no descriptor has an offset: nothing is added to any
\* species) until the next fit; T_ref is kept
ClearOffset == /\ "clear" \in Acts /\ Len(keys) > 0 /\ Len(h) <= MaxOps
               /\ UNCHANGED <<refs, tref, cache>>
               /\ keys' = <<>> /\ off' = <<>> /\ fitted' = <<>>
               /\ h' = Append(h, Rec("clear", <<>>))
\* to_dict / from_dict (or JSON): the reloaded object holds the same references, offsets and T_ref; it
\* is not refitted
Reload == /\ "reload" \in Acts /\ Len(h) <= MaxOps /\ h[Len(h)].act # "reload"
          /\ UNCHANGED <<refs, keys, off, tref, fitted, cache>>
          /\ h' = Append(h, Rec("reload", <<>>))
Next == \/ \E r \in RefKinds : AppendRef(r)
        \/ \E rs \in ExtSets : ExtendRefs(rs)
        \/ \E p \in 1..MaxRefs : PopRef(p)
        \/ \E p \in 0..(MaxRefs - 1), r \in InsKinds : InsertRef(p, r)
        \/ Fit
        \/ \E p \in 1..MaxRefs : RemoveRef(p)
        \/ \E p \in 1..MaxRefs, r \in InsKinds : SetRef(p, r)
        \/ ClearOffset \/ Reload
Spec == Init /\ [][Next]_vars

\* ---- the property (required in every post-Fit state)
Fresh == refs = fitted
NormalEquations ==
   Fresh => IsZeroVec(MatVec(Transpose(RMat(AMat(refs, keys)), Len(keys)), Residual(refs, keys, off)))
Optimal ==
   Fresh => LET best == Norm2(Residual(refs, keys, off)) IN
            \A k \in 1..Len(keys), dlt \in Steps :
               RLe(best, Norm2(Residual(refs, keys,
                      TLCEval([j \in 1..Len(keys) |-> IF j = k THEN RAdd(off[j], R(dlt)) ELSE off[j]]))))
Reproduces == Fresh /\ RowsIndependent(refs, keys) => IsZeroVec(Residual(refs, keys, off))
\* (otherwise the residual is in general non-zero and only NormalEquations / Optimal constrain it)
\* the fitted values A off are the orthogonal projection of d: never longer than d
FitIsContraction ==
   Fresh => RLe(Norm2(MatVec(RMat(AMat(refs, keys)), off)), Norm2(RVec(DVec(refs))))
\* size of the offsets.  For an integer matrix of rank r the product of the squared non-zero
\* singular values is the sum of the squared r x r minors, an integer >= 1, and each is at most
\* F = sum of the squared entries; so sigma_min^2 >= 1 / F^(r-1) and the minimum-norm (and any
\* basic) least-squares solution satisfies |off|^2 <= |d|^2 F^(r-1).
RECURSIVE IPow(_, _)
IPow(b, n) == IF n <= 0 THEN 1 ELSE b * IPow(b, n - 1)
Frob2(A) == LET rowsq(v) == RSum(TLCEval([j \in 1..Len(v) |-> R(v[j] * v[j])]))[1]
            IN RSum(TLCEval([i \in 1..Len(A) |-> R(rowsq(A[i]))]))[1]
OffsetsBounded ==
   Fresh => LET A == AMat(refs, keys)  r == IRank(A, Len(keys)) IN
            RLe(Norm2(off), RMul(Norm2(RVec(DVec(refs))), R(IPow(Frob2(A), r - 1))))
KeysAreDescriptors == Fresh => keys = KeySeq(refs)
TrefIsMean == Fresh => tref = MeanT(refs)
\* implementation-shaped: the minimum-norm solution (orthogonal to the null space of A)
MinNorm == Fresh => LET nb == NullBasis(RMat(AMat(refs, keys)), Len(keys)) IN
                    \A i \in 1..Len(nb) : RZero(RDot(nb[i], off))

\* application clauses hold for whatever offsets the object holds (stale or not)
Unit(j) == TLCEval([i \in 1..(ND + 1) |-> IF i = j THEN 1 ELSE 0])
Linear == \A x \in Targets :
             AdjE(keys, off, x) = RSum(TLCEval([j \in 1..(ND + 1) |-> RMul(R(x[j]), AdjE(keys, off, Unit(j)))]))
AbsentContributesNothing == RZero(AdjE(keys, off, Unit(ND + 1)))
TIndependent == \A x \in Targets, T1, T2 \in Temps :
                   T1 < T2 => RMul(Adj(keys, off, tref, x, T1), R(T1)) = RMul(Adj(keys, off, tref, x, T2), R(T2))
\* reference i evaluated at its own T_ref with the adjustment: the reproduction error is
\* d_i (t_i - tref)/t_i, i.e. zero when the reference temperatures agree
ReproducesAtTref ==
   Fresh /\ RowsIndependent(refs, keys) =>
      \A i \in 1..Len(refs) :
         LET err == RAdd(R(refs[i].d), Adj(keys, off, tref, refs[i].x, refs[i].t)) IN
         /\ err = RMul(R(refs[i].d), RDiv(RSub(R(refs[i].t), tref), R(refs[i].t)))
         /\ SameT(refs) => RZero(err)

\* what the code does between an edit and the next fit
StaleAfterEdit == [][h'[Len(h')].act \notin {"fit", "clear"} => UNCHANGED <<keys, off, tref, fitted, cache>>]_vars
\* NOT a property of the code (expected to be rejected under Variant = "explicit")
AlwaysFresh == Fresh

Done == Len(h) = MaxOps + 1
EmitBehaviours == Done => PrintT(<<"BEH", h>>)
=============================================================================
