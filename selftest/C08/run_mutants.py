"""C08 binding self-test (b): realistic source mutants in a scratch worktree must give VIOLATION.
Usage: python selftest/C08/run_mutants.py /tmp/wt_C08 [name ...]   (worktree of /repo; never /repo itself)
Writes selftest/C08/<name>.patch and prints exit code + violated clauses of `./check C08 --tier quick`.
"""
import os
import re
import subprocess
import sys
import tempfile
import shutil

RX = 'pmutt/reaction/__init__.py'
PM = 'pmutt/__init__.py'
MUTANTS = [
    ('m01_states_rev_ignored_when_act', RX,
     "    if act:\n        final_state = 'transition state'\n",
     "    if act:\n        initial_state = 'reactants'\n        final_state = 'transition state'\n"),
    ('m02_delta_sign', RX,
     "            return final_quantity - initial_quantity\n",
     "            return initial_quantity - final_quantity\n"),
    ('m03_block_matched_by_prefix', PM,
     "            if key == '{}_kwargs'.format(specie_name):\n",
     "            if specie_name.startswith(key[:-len('_kwargs')]):\n"),
    ('m04_block_updated_in_place', PM,
     "        specie_kwargs.update(specie_specific_kwargs)\n",
     "        specie_specific_kwargs.update(specie_kwargs)\n        specie_kwargs = specie_specific_kwargs\n"),
    ('m05_keq_sign', RX,
     "        return np.exp(-self.get_delta_GoRT(rev=rev, act=act, **kwargs))\n",
     "        return np.exp(self.get_delta_GoRT(rev=rev, act=act, **kwargs))\n"),
    ('m06_q_times_coeff', RX,
     "                        _force_pass_arguments(method, **specie_kwargs)**coeff\n",
     "                        _force_pass_arguments(method, **specie_kwargs)*coeff\n"),
    ('m07_S_act_drops_rev', RX,
     "        return self.get_delta_SoR(rev=rev, act=True, **kwargs)\n",
     "        return self.get_delta_SoR(act=True, **kwargs)\n"),
    ('m08_routing_skipped', RX,
     "                        _force_pass_arguments(method, **specie_kwargs)*coeff\n",
     "                        _force_pass_arguments(method, **kwargs)*coeff\n"),
    ('m09_chemkin_delta_G_ignores_act', RX,
     "        initial_state, final_state = _get_states(rev=rev, act=act)\n"
     "        delta_GoRT = self.get_delta_quantity(initial_state=initial_state,\n"
     "                                             final_state=final_state,\n"
     "                                             method_name='get_GoRT',\n"
     "                                             **kwargs)\n        return delta_GoRT\n\n    def get_G_act(self, units, T, rev=False, **kwargs):\n        \"\"\"Calculates the Gibbs energy of activation. If there is no transition",
     None),   # filled below (second occurrence = ChemkinReaction)
    ('m10_delta_F_units_drops_rev', RX,
     "        return self.get_delta_FoRT(rev=rev, T=T, act=act, **kwargs) * T * c.R(\n",
     "        return self.get_delta_FoRT(T=T, act=act, **kwargs) * T * c.R(\n"),
    ('m11_ts_alias_is_products', RX,
     "             or state == 'ts':\n            species = self.transition_state\n            species_stoich = self.transition_state_stoich\n",
     "             or state == 'ts':\n            species = self.transition_state\n            species_stoich = self.products_stoich\n"),
    ('m12_first_coefficient_only', RX,
     "        for specie, coeff in zip(species, stoich):\n            # Process the inputs and methods for each specie\n",
     "        for specie, coeff in zip(species, [stoich[0]] * len(species)):\n            # Process the inputs and methods for each specie\n"),
]


def apply(wt, name, path, old, new):
    p = os.path.join(wt, path)
    s = open(p).read()
    if name == 'm09_chemkin_delta_G_ignores_act':
        marker = "class ChemkinReaction(Reaction):"
        i = s.index(marker)
        old = ("        initial_state, final_state = _get_states(rev=rev, act=act)\n"
               "        delta_GoRT = self.get_delta_quantity(")
        j = s.index(old, i)
        s = s[:j] + old.replace("act=act", "act=False") + s[j + len(old):]
    else:
        if s.count(old) < 1:
            raise SystemExit('%s: pattern not found' % name)
        s = s.replace(old, new, 1)
    open(p, 'w').write(s)


def main():
    wt = sys.argv[1]
    assert os.path.realpath(wt) != '/repo'
    only = sys.argv[2:]
    here = os.path.dirname(os.path.abspath(__file__))
    verif = os.path.dirname(os.path.dirname(here))
    for name, path, old, new in MUTANTS:
        if only and name not in only:
            continue
        subprocess.run(['git', '-C', wt, 'checkout', '-q', '.'], check=True)
        apply(wt, name, path, old, new)
        diff = subprocess.run(['git', '-C', wt, 'diff'], stdout=subprocess.PIPE, text=True).stdout
        open(os.path.join(here, name + '.patch'), 'w').write(diff)
        out = tempfile.mkdtemp(prefix='c08mut_')
        env = dict(os.environ, VERIF_REPO=wt, VERIF_OUT=out)
        r = subprocess.run(['./check', 'C08', '--tier', 'quick'], cwd=verif, env=env,
                           stdout=subprocess.PIPE, stderr=subprocess.STDOUT, text=True)
        clauses = sorted(set(re.findall(r'violated clause (\S+) tags=(\{[^}]*\})', r.stdout)))
        byc = {}
        for c, t in clauses:
            byc.setdefault(c, 0)
            byc[c] += 1
        nviol = len(re.findall(r'^VIOLATION ', r.stdout, re.M))
        print('%-36s exit=%d VIOLATION lines=%d clauses=%s' % (name, r.returncode, nviol, sorted(byc)), flush=True)
        if r.returncode == 2:
            print(r.stdout[-1500:])
        shutil.rmtree(out, ignore_errors=True)
    subprocess.run(['git', '-C', wt, 'checkout', '-q', '.'], check=True)


if __name__ == '__main__':
    main()
