"""C08 binding self-test (a): corrupt one recorded field -> the trace spec names the clause.
Run:  cd /verif && PYTHONPATH=/repo:/verif /venv/bin/python -W ignore selftest/C08/corrupt_fields.py
"""
import copy
import sys

from harness import core
from harness.drivers import c08


def bump(dec, rel=1e-4):
    m, e = dec
    return [int(m * (1 + rel)) + (1 if m >= 0 else -1), e]


def find(pred):
    seed = 0
    while True:
        seed += 1
        for cls, mix in (('Reaction', 'statmech'), ('SurfaceReaction', 'mixed'), ('ChemkinReaction', 'empirical')):
            evs, mism, info = c08.execute({'kind': 'real', 'cls': cls, 'mix': mix, 'cseed': seed})
            for ev in evs:
                if pred(ev):
                    return ev
        if seed > 400:
            raise SystemExit('no event found for predicate')


def main():
    sumts = find(lambda e: e['ev'] == 'quant' and e['kind'] == 'sum' and e['q'] == 'G' and e['hasTS'] and e['hasAct']
                 and e['hasSp'] and e.get('hasK') and all(e['kfin'])
                 and any(k[:-7] in {x['n'] for s in 'rpt' for x in e['sp'][s]} for k in e['bk']))
    prod = find(lambda e: e['ev'] == 'quant' and e['kind'] == 'prod' and e['hasTS'] and e['hasAct'] and e['hasSp'])
    iso = find(lambda e: e['ev'] == 'iso' and e['kind'] == 'sum')

    def mut(ev, fn):
        e = copy.deepcopy(ev)
        fn(e)
        return e

    def set_(path, f):
        def g(e):
            o = e
            for p in path[:-1]:
                o = o[p]
            o[path[-1]] = f(o[path[-1]])
        return g

    def block_species_value(e):
        # change the value the addressed species has under ITS block only (routing must pick it)
        names = {x['n']: x for s in 'rpt' for x in e['sp'][s]}
        for j, k in enumerate(e['bk']):
            if k[:-7] in names:
                names[k[:-7]]['v'][1 + j] = bump(names[k[:-7]]['v'][1 + j], 1e-2)
                return
    tests = [
        ('unchanged sum event', sumts, None, set()),
        ('unchanged prod event', prod, None, set()),
        ('unchanged iso event', iso, None, set()),
        ('state value', sumts, set_(['st', 'r'], bump), {'StateIsWeightedSum', 'DeltaOfStates'}),
        ('forward delta', sumts, set_(['dl', 0], bump), {'Hess', 'DeltaOfStates', 'Antisymmetry', 'ActDifference'}),
        ('reverse delta sign', sumts, set_(['dl', 2], lambda d: [-d[0], d[1]]), {'Hess', 'DeltaOfStates', 'Antisymmetry'}),
        ('reverse barrier', sumts, set_(['dl', 3], bump), {'Hess', 'DeltaOfStates', 'ActDifference', 'ActIsDeltaToTS'}),
        ('get_*_act value', sumts, set_(['act', 1], bump), {'ActDifference', 'ActIsDeltaToTS'}),
        ('Keq', sumts, set_(['keq', 0], bump), {'KeqIsExpMinusDG', 'KfKrIsOne', 'KeqActRatio'}),
        ('Keq reverse', sumts, set_(['keq', 2], bump), {'KeqIsExpMinusDG', 'KfKrIsOne'}),
        ('species value under its block', sumts, block_species_value, {'StateIsWeightedSum', 'Hess'}),
        ('stoichiometric coefficient', sumts, set_(['sp', 'p', 0, 'nu'], lambda d: bump(d, 1e-2)), {'StateIsWeightedSum', 'Hess'}),
        ('kwargs after', sumts, set_(['ka'], lambda s: s + ' '), {'CallerKwargsUntouched'}),
        ('q state', prod, set_(['st', 'p'], bump), {'QStateIsProduct', 'QRatio'}),
        ('q delta', prod, set_(['dl', 0], bump), {'QRatio', 'QReversal', 'QActRatio'}),
        ('q act', prod, set_(['act', 0], bump), {'QActRatio', 'ActIsDeltaToTS'}),
        ('q n4 witness', prod, set_(['sp', 'r', 0, 'n4'], lambda n: n + 1), {'WITNESS', 'QStateIsProduct'}),
        ('iso s1', iso, set_(['s1'], bump), {'RouteIsolation'}),
        ('iso dropped key', iso, set_(['drop'], lambda s: 'nobody_kwargs'), {'RouteIsolation'}),
    ]
    traces = []
    for tid, (name, ev, fn, want) in enumerate(tests):
        traces.append((tid, [ev if fn is None else mut(ev, fn)]))
    fails, stats = core.validate_traces('Trace_Reaction', 'Trace', traces, shards=4)
    got = {}
    for tid, idx, clause in fails:
        got.setdefault(tid, set()).add(clause)
    bad = 0
    for tid, (name, ev, fn, want) in enumerate(tests):
        g = got.get(tid, set())
        ok = (g == want)
        bad += not ok
        print('%-34s -> %-70s %s' % (name, sorted(g), 'ok' if ok else 'EXPECTED %s' % sorted(want)))
    # (b) a deleted line must break the consumed-length postcondition -> MachineryError is raised by
    # validate_traces only when CONSUMED differs from the number of lines written; dropping an event
    # before writing is invisible by construction, so we check the unknown-event path instead
    fails, _ = core.validate_traces('Trace_Reaction', 'Trace', [(0, [{'ev': 'bogus'}])], shards=1)
    print('unknown event ->', fails)
    bad += fails != [(0, 0, 'UnknownEvent')]
    sys.exit(1 if bad else 0)


if __name__ == '__main__':
    main()
