"""C05 binding demonstration (a): corrupt ONE recorded field of a real trace and show
that Trace_Thermdat.tla names the clause.  Run from /verif:
    PYTHONPATH=/repo:/verif /venv/bin/python selftest/C05/corrupt.py
Exit 0 when every corruption is reported under its expected clause and the
uncorrupted trace is clean."""
import copy
import sys

from harness import core
from harness.drivers import c05


def sp(name, els, ph='G'):
    return {'name': name, 'notes': 'DFT', 'elements': els, 'phase': ph, 'T': [200.0, 3500.0, 1000.0],
            'a_high': [1.5, -2.25e-3, 3.125e-7, -4.5e-11, 5.0e-15, -6.0e4, 7.0],
            'a_low': [8.0, 9.0e-3, -1.0e-6, 1.1e-9, -1.2e-13, 1.3e4, -14.0]}


CASE = {'cid': 'selftest', 'kind': 'random', 'supp': None, 'supp_txt': '! comment\n', 'write_date': False,
        'dict_input': False, 'formats': ['list', 'dict'],
        'species': [sp('CH3OH', [['C', 1], ['H', 4], ['O', 1]]), sp('Pt(S)', [['Pt', 1]], 'S'),
                    sp('H2', [['H', 2]])]}


def line_idx(events, pred):
    return [i for i, e in enumerate(events) if e['ev'] == 'line' and pred(''.join(map(chr, e['c'])))]


def set_line(events, i, text):
    events[i] = {'ev': 'line', 'c': [ord(ch) for ch in text]}


def corruptions(base):
    out = []
    txt = lambda e: ''.join(map(chr, e['c']))
    rec = lambda n: line_idx(base, lambda s: len(s) == 80 and s[79] == str(n))
    # 1 one mantissa digit of a coefficient in record 2
    ev = copy.deepcopy(base); i = rec(2)[1]; s = txt(ev[i]); set_line(ev, i, s[:5] + ('9' if s[5] != '9' else '8') + s[6:])
    out.append(('mantissa digit in record 2', ev, {'WrittenCoefs'}))
    # 2 record number pushed out of column 80
    ev = copy.deepcopy(base); i = rec(3)[0]; s = txt(ev[i]); set_line(ev, i, s[:75] + ' ' + s[75:])
    out.append(('record number in column 81', ev, {'Col80'}))
    # 3 element count left-aligned instead of right-aligned
    ev = copy.deepcopy(base); i = rec(1)[0]; s = txt(ev[i]); set_line(ev, i, s[:24] + 'C 1  ' + s[29:])
    out.append(('count not right-aligned', ev, {'CompositionCols'}))
    # 4 phase column blank
    ev = copy.deepcopy(base); i = rec(1)[1]; s = txt(ev[i]); set_line(ev, i, s[:44] + ' ' + s[45:])
    out.append(('blank phase column', ev, {'PhaseCol', 'WrittenPhase'}))
    # 5 E field one character short (a digit removed, blank added before the record number)
    ev = copy.deepcopy(base); i = rec(4)[0]; s = txt(ev[i]); set_line(ev, i, s[:7] + s[8:60] + ' ' + s[60:])
    out.append(('14-character field', ev, {'FieldWidth15'}))
    # 6 a record-2 line missing
    ev = copy.deepcopy(base); del ev[rec(2)[2]]
    out.append(('record 2 deleted', ev, {'RecordOrder'}))
    # 7 name changed in the file
    ev = copy.deepcopy(base); i = rec(1)[2]; s = txt(ev[i]); set_line(ev, i, 'D2' + s[2:])
    out.append(('name changed in record 1', ev, {'WrittenName'}))
    # 8 temperature changed by 0.2 K in the file
    ev = copy.deepcopy(base); i = rec(1)[0]; s = txt(ev[i]); set_line(ev, i, s[:45] + '200.2' + s[50:])
    out.append(('T_low off by 0.2 K in the file', ev, {'WrittenTemps'}))
    # 9 the real reader's result: one species dropped
    ev = copy.deepcopy(base); r = [i for i, e in enumerate(ev) if e['ev'] == 'read'][0]; del ev[r]['sp'][1]
    out.append(('read result lacks a species', ev, {'SameNamesInOrder'}))
    # 10 the real reader's result: one coefficient digit
    ev = copy.deepcopy(base); ev[r]['sp'][2]['al'][3][1] += 1
    out.append(('read coefficient differs in the 9th digit', ev, {'ReadCoefs'}))
    # 11 read temperature off by 0.2 K
    ev = copy.deepcopy(base); ev[r]['sp'][0]['T'][2] = core.to_dec(1000.2)
    out.append(('read T_mid off by 0.2 K', ev, {'ReadTemps'}))
    # 12 read element count
    ev = copy.deepcopy(base); ev[r]['sp'][0]['elems'][1][1] = 5
    out.append(('read element count differs', ev, {'ReadElements'}))
    # 13 dict keys not the names
    ev = copy.deepcopy(base); r2 = [i for i, e in enumerate(ev) if e['ev'] == 'read'][1]; ev[r2]['keys'][0] = [88]
    out.append(('dict key differs from the name', ev, {'ReadKeys'}))
    # 14 the END line missing its keyword -> unclassifiable line
    ev = copy.deepcopy(base); i = line_idx(base, lambda s: s == 'END')[0]; set_line(ev, i, 'FIN')
    out.append(('unknown line', ev, {'Classified'}))
    # 15 last species' record 4 missing
    ev = copy.deepcopy(base); del ev[rec(4)[2]]
    out.append(('last record 4 deleted', ev, {'WrittenAll'}))
    # 16 name running into column 16
    ev = copy.deepcopy(base); i = rec(1)[0]; s = txt(ev[i]); set_line(ev, i, 'ABCDEFGHIJKLMNOP' + s[16:])
    out.append(('16-character name', ev, {'NameCols'}))
    # 17 temperature field not a number
    ev = copy.deepcopy(base); i = rec(1)[1]; s = txt(ev[i]); set_line(ev, i, s[:55] + '35x0.0' + s[61:])
    out.append(('T_high not a number', ev, {'TempCols'}))
    # 18 a species written twice
    ev = copy.deepcopy(base); i = rec(1)[2]; ev[i:i] = copy.deepcopy(ev[i:i + 4])
    out.append(('species written twice', ev, {'WrittenExtra'}))
    # 19 the real reader raised
    ev = copy.deepcopy(base); ev[r]['raised'] = 'ValueError: x'
    out.append(('reader raised', ev, {'ReaderRaises'}))
    # 20 wrong container type
    ev = copy.deepcopy(base); ev[r]['kind'] = 'tuple'
    out.append(('list format returned a tuple', ev, {'ReadContainer'}))
    # 21 the real writer raised
    ev = [dict(copy.deepcopy(base[0]), raised='IndexError: pop from empty list')]
    out.append(('writer raised', ev, {'WriterRaises'}))
    return out


def main():
    events, mism, info = c05.execute(CASE)
    if mism:
        print('unexpected mismatch on the base case', mism); return 1
    cs = corruptions(events)
    traces = [(0, events)] + [(k + 1, ev) for k, (_, ev, _) in enumerate(cs)]
    fails, stats = core.validate_traces('Trace_Thermdat', 'Trace', traces)
    got = {}
    for tid, idx, clause in fails:
        got.setdefault(tid, set()).add(clause)
    rc = 0
    print('base trace: %s' % (sorted(got.get(0, set())) or 'clean'))
    if got.get(0):
        rc = 1
    for k, (what, _, want) in enumerate(cs):
        g = got.get(k + 1, set())
        ok = want <= g
        print('%-45s -> %s %s' % (what, sorted(g), 'ok' if ok else 'MISSING %s' % sorted(want - g)))
        rc = rc or (0 if ok else 1)
    return rc


if __name__ == '__main__':
    sys.exit(main())
