#!/bin/sh
# C05 binding demonstration (b): every source mutant must be reported as a VIOLATION.
# Usage: sh selftest/C05/run_mutants.sh   (from /verif; uses a scratch worktree, never /repo)
# The proposed fixes of proposed_fixes/C05_*.patch are applied first when /repo lacks them.
HERE="$(cd "$(dirname "$0")/../.." && pwd)"
WT=$(mktemp -d /tmp/wt_C05_mut.XXXXXX)
rmdir "$WT"
git -C /repo worktree add --detach "$WT" HEAD >/dev/null 2>&1 || exit 2
for f in "$HERE"/proposed_fixes/C05_*.patch; do
  git -C "$WT" apply "$f" 2>/dev/null && echo "applied $(basename "$f")"
done
git -C "$WT" diff > "$WT.base"
RC=0
for m in "$HERE"/selftest/C05/m*.patch; do
  git -C "$WT" apply "$m" || { echo "CANNOT APPLY $m"; RC=1; continue; }
  OUT=$(cd "$HERE" && VERIF_REPO="$WT" ./check C05 --tier quick 2>&1)
  N=$(echo "$OUT" | grep -c '^VIOLATION')
  CL=$(echo "$OUT" | grep 'violated clause' | awk '{print $3}' | sort -u | tr '\n' ' ')
  if [ "$N" -gt 0 ]; then echo "CAUGHT  $(basename "$m"): $CL"; else echo "MISSED  $(basename "$m")"; echo "$OUT" | tail -3; RC=1; fi
  git -C "$WT" apply -R "$m"
done
git -C /repo worktree remove --force "$WT"
rm -f "$WT.base"
exit $RC
