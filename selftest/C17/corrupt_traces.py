"""Binding demonstration for C17: a recorded history of the real PiecewiseCovEffect is accepted by
Trace_CovEffect.tla; corrupting one recorded field makes TLC name the clause.
run:  PYTHONPATH=/repo:/verif /venv/bin/python -W ignore selftest/C17/corrupt_traces.py
(on a tree without proposed_fixes/C17_constructor_copies_lists.patch the 'as recorded' trace already shows the
known finding C17-F1 on its frozen lines; the demonstration therefore uses a history whose reload goes through JSON
text and has no sibling, which is clean on either tree)
"""
import copy
import sys

from harness import core
from harness.drivers import c17


def show(label, events, expect):
    fails, _ = core.validate_traces('Trace_CovEffect', 'Trace', [(0, events)], shards=1)
    got = sorted(set(c for _, _, c in fails))
    ok = got == sorted(expect)
    print('%-58s -> %-40s %s' % (label, got, 'as expected' if ok else 'EXPECTED %s' % expect))
    return ok


def first(ev, kind, nth=0):
    return [k for k, e in enumerate(ev) if e['ev'] == kind][nth]


def main():
    case = {'cid': 'demo', 'kind': 'real', 'rot': 5,
            'ctor': {'container': 'list', 'num': 'float', 'names': ['CO(S)', 'H2O(S)', 'lat_1'],
                     'name_omitted': False, 'positional': False, 'sibling': False},
            'ops': [{'act': 'construct', 'iv0': [0.0, 0.25, 0.6], 'sl0': [-3.0, 5.0, -3.0]},
                    {'act': 'insert', 'x': 0.4, 's': 2.0},
                    {'act': 'pop', 'x': -1},
                    {'act': 'pop0', 'x': 0},
                    {'act': 'reload', 'via': 'json'},
                    {'act': 'insert', 'x': 1.0, 's': 0.0},
                    {'act': 'reload', 'via': 'json', 'final': True}]}
    ev, mism, _ = c17.execute(case)
    ok = not mism
    ok &= show('as recorded (%d lines)' % len(ev), ev, [])

    e = copy.deepcopy(ev)
    k = first(e, 'insert')
    e[k]['sl'][1], e[k]['sl'][2] = e[k]['sl'][2], e[k]['sl'][1]
    ok &= show('insert: two slopes swapped in the state', e,
               ['Continuous', 'InsertOK', 'InterceptsFresh', 'PopOK', 'Unique'])

    e = copy.deepcopy(ev)
    k = first(e, 'insert')
    e[k]['ic'][2] = [123456789, -9]
    ok &= show('insert: one intercept stale', e, ['Continuous', 'InterceptsFresh'])

    e = copy.deepcopy(ev)
    k = first(e, 'pop')
    e[k]['i'] = -2                                    # the call removed the last pair, the log says pop(-2)
    ok &= show('pop: negative index names another pair', e, ['PopOK'])

    e = copy.deepcopy(ev)
    k = first(e, 'pop', 1)
    e[k]['raised'] = False
    ok &= show('pop(0): not refused', e, ['PopZeroRefused'])

    e = copy.deepcopy(ev)
    k = first(e, 'construct')
    e[k]['nm'] = 'CO(S)-H2O(S)'
    ok &= show('construct: name replaced', e, ['ConstructKeeps', 'NamesKept'])

    e = copy.deepcopy(ev)
    k = first(e, 'reload')
    e[k]['nm'] = c17.NONE
    ok &= show('reload: name lost', e, ['NamesKept', 'ReloadSame'])

    e = copy.deepcopy(ev)
    k = [j for j, x in enumerate(e) if x['ev'] == 'eval' and x['T'] != core.to_dec(298.15) and x['U'][0] != 0][0]
    e[k]['H'] = core.to_dec(core_val(e[k]['U']) * core_val(e[k]['T']) / 298.15)
    ok &= show('eval: H normalised with 298.15 K instead of T', e, ['HEqualsU'])

    e = copy.deepcopy(ev)
    k = [j for j, x in enumerate(e) if x['ev'] == 'eval' and x['U'][0] != 0][0]
    e[k]['U'] = e[k]['H'] = e[k]['G'] = e[k]['F'] = core.to_dec(core_val(e[k]['U']) * 1.001)
    ok &= show('eval: energy off by 0.1 %', e, ['Unique'])

    e = copy.deepcopy(ev)
    k = [j for j, x in enumerate(e) if x['ev'] == 'eval' and x['x'][0] == 0][0]
    e[k]['U'] = e[k]['H'] = e[k]['G'] = e[k]['F'] = [1, -3]
    ok &= show('eval: non-zero at zero coverage', e, ['Unique', 'ZeroAtZero'])

    e = copy.deepcopy(ev)
    k = [j for j, x in enumerate(e) if x['ev'] == 'dim' and x['F'][0] != 0 and x['T'] != core.to_dec(298.15)][0]
    e[k]['F'] = core.to_dec(core_val(e[k]['F']) * 298.15 / core_val(e[k]['T']))
    ok &= show('dim: get_F evaluated as if T were 298.15 K', e, ['DimF'])

    e = copy.deepcopy(ev)
    k = [j for j, x in enumerate(e) if x['ev'] == 'dim' and x['U'][0] != 0][0]
    e[k]['units'] = 'L bar/mol' if e[k]['units'] != 'L bar/mol' else 'L atm/mol'
    ok &= show('dim: value declared in another unit (%s)' % e[k]['units'], e, ['DimF', 'DimG', 'DimH', 'DimU'])

    e = copy.deepcopy(ev)
    k = first(e, 'dim')
    e[k]['S'] = [1, -6]
    ok &= show('dim: entropy not zero', e, ['NoEntropyNoCp'])

    e = copy.deepcopy(ev)
    k = first(e, 'frozen')
    e[k]['sl'][0] = [7, 0]
    ok &= show('frozen: the serialised object changed afterwards', e, ['ReloadDetached', 'ReloadDetachedFresh'])
    print('ALL AS EXPECTED' if ok else 'SOME DIFFER')
    return 0 if ok else 1


def core_val(d):
    return d[0] * 10.0 ** d[1]


if __name__ == '__main__':
    sys.exit(main())
