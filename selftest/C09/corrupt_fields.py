"""Binding demonstration (a) for C09: corrupt one recorded field per clause and require
Trace_Kinetics.tla to name exactly that clause.  Run with
    VERIF_REPO=<tree with the C09 fixes> PYTHONPATH=$VERIF_REPO:/verif /venv/bin/python selftest/C09/corrupt_fields.py
"""
import copy
import sys

from harness import core
from harness.drivers import c09


def bump(dec, rel=1e-4):
    m, e = dec
    return [int(m * (1 + rel)) + (1 if m >= 0 else -1), e] if m else [1, -3]


def first(evs, pred):
    for e in evs:
        if pred(e):
            return copy.deepcopy(e)
    raise SystemExit('no event for ' + pred.__doc__)


def main():
    cases = [
        {'kind': 'clamp_rand', 'cls': 'ChemkinReaction', 'regH': 'above', 'regG': 'high', 'cseed': 11},
        {'kind': 'clamp_rand', 'cls': 'SurfaceReaction', 'regH': 'below', 'regG': 'below', 'cseed': 12},
        {'kind': 'bep', 'desc': 'delta_H', 'bcls': 'base', 'cls': 'Reaction', 'slope': 0.3, 'icpt': 12.0, 'uh': True, 'cseed': 13},
        {'kind': 'site', 'cls': 'ChemkinReaction', 'rs': [['surfA', 1], ['surfB', 1]], 'hasTS': True, 'cseed': 14},
        {'kind': 'site', 'cls': 'SurfaceReaction', 'rs': [['surfA', 2], ['gas', 1]], 'hasTS': False, 'cseed': 15},
        {'kind': 'a_rand', 'cseed': 16},
    ]
    evs = []
    for c in cases:
        out = c09.execute(c)
        if out[0] is None:
            raise SystemExit(out[1])
        evs += out[0]
    fails, _ = core.validate_traces('Trace_Kinetics', 'Trace_Kinetics', [(0, evs)])
    if fails:
        raise SystemExit('recorded trace is not clean on this tree: %r' % fails[:5])
    probes = []

    def add(expect, e, **changes):
        for k, f in changes.items():
            e[k] = f(e[k]) if callable(f) else f
        probes.append((expect, e))
    add({'ClampH'}, first(evs, lambda e: e['ev'] == 'clamp' and e['q'] == 'H' and e['val'][0] > 0), val=lambda v: bump(v))
    add({'ClampG', 'NotBelowMinimum'}, first(evs, lambda e: e['ev'] == 'clamp' and e['q'] == 'G' and e['val'][0] > 0),
        val=lambda v: [-abs(v[0]), v[1]])
    add({'ClampH', 'NotBelowMinimum'}, first(evs, lambda e: e['ev'] == 'clamp' and e['q'] == 'H' and e['hasTS']),
        ts=[10 ** 8, 2])
    add({'BepRelation'}, first(evs, lambda e: e['ev'] == 'bep' and e['dir'] == 'rev'), slope=lambda v: bump(v, 1e-3))
    add({'BepRelation'}, first(evs, lambda e: e['ev'] == 'bep' and e['dir'] == 'fwd'), dir='rev')
    add({'BepDifference'}, first(evs, lambda e: e['ev'] == 'bepdiff'), er=lambda v: bump(v))
    add({'BepViaReaction'}, first(evs, lambda e: e['ev'] == 'bepvia' and e['dir'] == 'rev'), via=lambda v: bump(v))
    add({'BepUandHSameBarrier'}, first(evs, lambda e: e['ev'] == 'bepuh'), uts=lambda v: bump(v))
    add({'AEntropyRoute'}, first(evs, lambda e: e['ev'] == 'A' and e['route'] == 'entropy' and e['cls'] == 'Reaction'),
        val=lambda v: bump(v), val10=lambda v: bump(v))
    add({'ANoTS'}, first(evs, lambda e: e['ev'] == 'A' and e['route'] == 'nots'), val=lambda v: bump(v), val10=lambda v: bump(v))
    add({'ASiteDensityPower'}, first(evs, lambda e: e['ev'] == 'A' and e['cls'] != 'Reaction'), val10=lambda v: bump(v))
    add({'ANoTS', 'ASiteDensityPower'}, first(evs, lambda e: e['ev'] == 'A' and e['route'] == 'nots' and e['cls'] == 'SurfaceReaction'),
        rs=[['surfA', 1], ['gas', 1]])
    add({'APositive', 'ANoTS', 'ASiteDensityPower'}, first(evs, lambda e: e['ev'] == 'A' and e['route'] == 'nots'),
        val=lambda v: [-v[0], v[1]])
    add({'WITNESS'}, first(evs, lambda e: e['ev'] == 'A' and e['route'] == 'entropy'), x=lambda v: bump(v, 1e-3))
    add({'Raises'}, {'ev': 'raised', 'fn': 'get_A', 'msg': 'x'})
    bad = 0
    traces = [(i, [e]) for i, (_, e) in enumerate(probes)]
    fails, _ = core.validate_traces('Trace_Kinetics', 'Trace_Kinetics', traces)
    for i, (expect, e) in enumerate(probes):
        got = {c for t, _, c in fails if t == i}
        flag = 'ok ' if got == expect else 'BAD'
        bad += got != expect
        print('%s corrupted %-8s expect %s got %s' % (flag, e['ev'], sorted(expect), sorted(got)))
    # (b') a deleted line must be noticed by the length postcondition: checked by core (consumed != lines)
    sys.exit(1 if bad else 0)


if __name__ == '__main__':
    main()
