#!/bin/sh
# Binding demonstration (b) for C09: every mutant patch, applied to a scratch worktree that
# already carries the proposed C09 fixes, must make ./check C09 exit 1.
# usage: sh selftest/C09/run_mutants.sh [patch ...]
HERE="$(cd "$(dirname "$0")/../.." && pwd)"
WT=$(mktemp -d /tmp/wt_C09_mut.XXXXXX)
OUTD=$(mktemp -d)
git -C /repo worktree add --detach "$WT" HEAD >/dev/null 2>&1 || exit 2
for f in "$HERE"/proposed_fixes/C09_*.patch; do git -C "$WT" apply "$f" 2>/dev/null; done   # no-op once the fixes are committed
[ $# -gt 0 ] || set -- "$HERE"/selftest/C09/m*.patch
rc_all=0
for p in "$@"; do
  case "$p" in /*) ;; *) p="$PWD/$p";; esac
  git -C "$WT" apply "$p" || { echo "CANNOT APPLY $p"; rc_all=2; continue; }
  (cd "$HERE" && VERIF_OUT="$OUTD" VERIF_REPO="$WT" ./check C09 --tier quick > "$OUTD/log" 2>&1); rc=$?
  clauses=$(grep -o 'violated clause [A-Za-z]*' "$OUTD/log" | sort | uniq -c | awk '{printf "%s(%s) ", $4, $1}')
  [ $rc -eq 1 ] && verdict=CAUGHT || { verdict="MISSED(rc=$rc)"; rc_all=1; }
  echo "$(basename "$p" .patch): $verdict $clauses"
  git -C "$WT" apply -R "$p"
done
git -C /repo worktree remove --force "$WT"
rm -rf "$OUTD"
exit $rc_all
