"""C01 binding demonstration (a) for the clauses added in the quantifier audit: corrupt ONE recorded field of
a clean trace and require the trace specification to name the clause.  Run:
   PYTHONPATH=${VERIF_REPO:-/repo}:/verif /venv/bin/python selftest/C01/corrupt_traces.py
The clean traces are recorded from the real library on fixed configuration cases (one physical species with a
linear scaling relation as the electronic model and an extra model, one species with a user-written partial
mode); known findings (Debye shift, S_elements in every entry, int32 rotor) are not in play or are ignored."""
import copy
import os
import sys

sys.path.insert(0, os.environ.get('VERIF_REPO', '/repo'))
from harness import core
from harness.drivers import c01

CASES = [
    {'kind': 'config', 'cfg': {'trans': 'FreeTrans', 'vib': 'Harmonic', 'rot': 'RotLinear', 'elec': 'LSR', 'nucl': 'Empty'},
     'hasTrans': True, 'qMissing': False, 'physical': True, 'nLackZPE': 4, 'npoints': 2, 'cseed': 11, 'idx': 3,
     'edge': 'interior', 'form': 'classes'},
    {'kind': 'config', 'cfg': {'trans': 'Empty', 'vib': 'Einstein', 'rot': 'Partial', 'elec': 'GroundState', 'nucl': 'Constant'},
     'hasTrans': False, 'qMissing': False, 'physical': False, 'nLackZPE': 4, 'npoints': 1, 'cseed': 8, 'idx': 4,
     'edge': 'interior', 'form': 'instances'},
]
IGNORE = ('_Known',)


def bump(dec, rel=1e-3):
    m, e = dec
    if m == 0:
        return [1, -3]
    return [int(m * (1 + rel)), e]


def first(events, ev, pred=lambda e: True):
    for i, e in enumerate(events):
        if e['ev'] == ev and pred(e):
            return i
    raise SystemExit('no clean %s event to corrupt' % ev)


def row(e, **kw):
    for r in e['rows']:
        if all(r[k] == v for k, v in kw.items()):
            return r
    raise SystemExit('row not found')


def corruptions(clean):
    """(name of the corruption, trace index, event index, mutator, clause expected)"""
    ev0, ev1 = clean[0], clean[1]
    out = []
    i = first(ev0, 'energy')
    out.append(('energy: value with ZPE', 0, i, lambda e: row(e, izpe='on', re=False, rw=False).update(
        val=bump(row(e, izpe='on', re=False, rw=False)['val'])), 'EnergyIncludesZPE'))
    out.append(('energy: dimensional value', 0, i, lambda e: row(e, izpe='off', re=True, rw=True).update(
        vald=bump(row(e, izpe='off', re=True, rw=True)['vald'])), 'EnergyDimensional'))
    out.append(('energy: default include_ZPE behaves as on', 0, i, lambda e: row(e, izpe='default', re=True, rw=True).update(
        val=row(e, izpe='on', re=True, rw=True)['val']), 'IncludeZPEDefaultOff'))
    i = first(ev1, 'energy')
    out.append(('energy: lacking ZPE not raised', 1, i, lambda e: e.update(vibKind='Empty'), 'EnergyOutcome'))
    i = first(ev0, 'lsr')
    out.append(('lsr: energy', 0, i, lambda e: e.update(U=bump(e['U'])), 'LSRLinearScaling'))
    j = max(k for k, e in enumerate(ev0) if e['ev'] == 'lsr')          # after the edit: a non-zero slope
    out.append(('lsr: reported reference energy', 0, j, lambda e: e['terms'][0]['sub'].__setitem__(0, bump(e['terms'][0]['sub'][0], 1e-1)),
                'LSRLinearScaling'))
    out.append(('lsr: entropy', 0, i, lambda e: e.update(S=[1, -2]), 'LSRNoEntropy'))
    i = first(ev0, 'routed')
    out.append(('routed: one entry', 0, i, lambda e: e['rows'][2]['b'].__setitem__(1, bump(e['rows'][2]['b'][1])),
                'RoutedEqualsInstances'))
    i = first(ev0, 'argtype')
    out.append(('argtype: numpy int64 differs', 0, i, lambda e: e['alts'][3]['v'].__setitem__(4, bump(e['alts'][3]['v'][4])),
                'ArgumentTypeInvariant'))
    i = first(ev0, 'verbose', lambda e: e['nmisc'] >= 1 and e['g'] == 'S' and not e['hasRefs'])
    out.append(('verbose: extra model entry', 0, i, lambda e: e['dmisc'].__setitem__(0, bump(e['dmisc'][0])),
                'VerboseMatchesMiscModel'))
    i = first(ev0, 'verbose', lambda e: e['hasRefs'] and e['g'] == 'H')
    out.append(('verbose: references slot', 0, i, lambda e: e.update(refs=bump(e['refs'], 1e-2)), 'ReferencesSlotIsOffset'))
    i = first(ev0, 'opt')
    out.append(('opt: dimensional enthalpy', 0, i, lambda e: e['rows'][0].update(Hd=bump(e['rows'][0]['Hd']),
                                                                                 Hvec=[bump(x) for x in e['rows'][0]['Hvec']]),
                'OptDimScale'))
    out.append(('opt: dimensional verbose vector', 0, i, lambda e: e['rows'][1]['Hvec'].__setitem__(0, bump(e['rows'][1]['Hvec'][0], 0.5)),
                'OptDimVerbose'))
    i = first(ev1, 'missing', lambda e: e['g'] != 'ZPE' and not e['dim'] and row(e, re=True, rw=True)['out'] == 'AttributeError')
    out.append(('missing: raise_error ignored', 1, i, lambda e: row(e, re=True, rw=True).update(out='value', out0='value'),
                'MissingQuantityRaises'))
    out.append(('missing: warning although raise_warning off', 1, i, lambda e: row(e, re=False, rw=False).update(nwarn=1, nwarn0=1),
                'WarningIffRequested'))
    out.append(('missing: lacking slot not the default', 1, i, lambda e: row(e, re=False, rw=True)['vec'].__setitem__(2, [5, -1]),
                'MissingUsesDefault'))
    out.append(('missing: total not the sum', 1, i, lambda e: row(e, re=False, rw=True).update(tot=[123, 0]),
                'MissingTotalIsSumOfVector'))
    i = first(ev0, 'harmonic')
    out.append(('harmonic: default q without ZPE', 0, i, lambda e: e.update(qdef=e['qnz']), 'HarmonicQDefaultIncludesZPE'))
    i = first(ev1, 'missing', lambda e: e['g'] == 'ZPE')
    out.append(('missing ZPE: raise_error does not raise', 1, i, lambda e: row(e, re=True, rw=False).update(out='value', out0='value'),
                'MissingQuantityRaises'))
    return out


def main():
    clean = []
    for c in CASES:
        events, info = c01.execute(c)
        if 'raised' in info:
            raise SystemExit('clean case raised: %s' % info['raised'])
        clean.append(events)
    fails, _ = core.validate_traces('Trace_StatMech', 'Trace', list(enumerate(clean)), shards=2)
    bad = [f for f in fails if not any(s in f[2] for s in IGNORE)]
    if bad:
        raise SystemExit('clean traces do not validate: %r' % bad[:5])
    rc = 0
    for name, t, i, mut, clause in corruptions(clean):
        tr = copy.deepcopy(clean[t])
        mut(tr[i])
        fails, _ = core.validate_traces('Trace_StatMech', 'Trace', [(0, tr)], shards=1)
        got = sorted({c for (_, idx, c) in fails if idx == i})
        ok = clause in got
        print('%-50s -> %s %s' % (name, 'named' if ok else 'NOT NAMED', ','.join(got)))
        rc |= 0 if ok else 1
    sys.exit(rc)


if __name__ == '__main__':
    main()
