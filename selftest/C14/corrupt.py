"""C14 binding self-test (a): corrupt one recorded field of an otherwise clean trace and
require Trace_RxnString.tla to name the expected clause.

    PYTHONPATH=${VERIF_REPO:-/repo}:/verif /venv/bin/python selftest/C14/corrupt.py

Exit 0 when every corruption is reported with (at least) the expected clause and the
uncorrupted traces are clean."""
import copy
import os
import sys

sys.path.insert(0, os.environ.get('VERIF_REPO', '/repo'))
from harness import core                      # noqa: E402
from harness.drivers import c14               # noqa: E402
from harness.drivers.c14 import codes         # noqa: E402

PRINT = {'kind': 'print', 'r': {'re': [['CH3(S)', '0.5'], ['H2O', '2.0']], 'ts': [['A_TS', '1.0']],
                                'pr': [['C*', '1.5']]},
         'fmt': '.2f', 'space': False, 'spd': '+', 'rxd': '<=>', 'pad': [1, 1, 0], 'ring': True}
HAND = {'kind': 'hand', 'text': ' 2A + 0.5 A + B2 = 3C* ', 'spd': '+', 'rxd': '=', 'names': ['A', 'B2', 'C*']}
MISS = dict(HAND, missing='B2')
BAL = {'kind': 'balance', 're': [[[1, 3], [['C', 3], ['H', 6]], True]], 'pr': [[[1, 1], [['C', 1], ['H', 2.0]], True]],
       'ts': [[[2, 3], [['C', 1.5], ['H', 3]], True]], 'hasTS': True}
UNBAL = {'kind': 'balance', 're': [[[5, 10], [['C', 2], ['H', 4]], True]], 'pr': [[[10, 10], [['C', 1], ['H', 3]], True]],
         'ts': [], 'hasTS': False}
NOCOMP = {'kind': 'balance', 're': [[[1, 1], [['C', 1]], True]], 'pr': [[[1, 1], [], False]], 'ts': [], 'hasTS': False}
DROP = {'kind': 'hand', 'text': 'A = 2T1 + T2 = B2', 'spd': '+', 'rxd': '=', 'names': ['A', 'B2', 'T1', 'T2'],
        'missing': 'T2', 'strict': False, 'warn': True}
FORM = {'kind': 'formula', 'items': [['C', 0], ['H', 3], ['C', 0], ['H', 2], ['O', 0], ['H', 0]]}


def sub(text, old, new):
    s = c14.uncodes(text)
    assert old in s, (old, s)
    return codes(s.replace(old, new, 1))


def main():
    base = {k: c14.execute(v)[0] for k, v in
            dict(PRINT=PRINT, HAND=HAND, MISS=MISS, BAL=BAL, UNBAL=UNBAL, FORM=FORM, NOCOMP=NOCOMP,
                 DROP=DROP).items()}
    tests = []            # (label, events, expected clause or None)

    def add(label, src, expected, fn=None, drop=None):
        evs = copy.deepcopy(base[src])
        if fn:
            fn(evs)
        if drop is not None:
            del evs[drop]
        tests.append((label, evs, expected))
    for k in base:
        add('clean ' + k, k, None)
    add('print: printed coefficient 0.50 -> 0.60', 'PRINT', 'PrintDenotes',
        lambda e: e[0].__setitem__('out', sub(e[0]['out'], '0.50', '0.60')))
    add('print: TS state missing from the text', 'PRINT', 'PrintDenotes',
        lambda e: e[0].__setitem__('out', sub(e[0]['out'], '<=>A_TS', '')))
    add('print: species order swapped in the text', 'PRINT', 'PrintDenotes',
        lambda e: e[0].__setitem__('out', sub(e[0]['out'], '0.50CH3(S)+2H2O', '2H2O+0.50CH3(S)')))
    add('parse(printed): result coefficient 0.5 -> 0.6', 'PRINT', 'RoundTrip',
        lambda e: e[1]['re'][0].__setitem__(1, codes('0.6')))
    add('parse(printed): result name changed', 'PRINT', 'ParserAgrees',
        lambda e: e[1]['pr'][0].__setitem__(0, codes('C')))
    add('parse(printed): result lost its TS', 'PRINT', 'RoundTrip',
        lambda e: (e[1].__setitem__('hasTS', False), e[1].__setitem__('ts', [])))
    add('print line deleted (parse judged without its print)', 'PRINT', 'PadWitness', drop=0)
    add('ring: one reaction missing from the result', 'PRINT', 'RingAgrees',
        lambda e: e[2].__setitem__('rxns', []))
    add('parse(hand): merged coefficient 2.5 -> 2.0 (overwrite instead of sum)', 'HAND', 'ParserAgrees',
        lambda e: e[0]['re'][0].__setitem__(1, codes('2.0')))
    add('parse(hand): repeated species not merged', 'HAND', 'ParserAgrees',
        lambda e: e[0].__setitem__('re', [[codes('A'), codes('2.0')], [codes('A'), codes('0.5')],
                                          [codes('B2'), codes('1.0')]]))
    add('parse(hand): raised although every species is known', 'HAND', 'ParseRaises',
        lambda e: (e[0].__setitem__('ok', False), e[0].__setitem__('err', codes('KeyError: x'))))
    add('parse(missing): error does not name the species', 'MISS', 'UnknownNamed',
        lambda e: e[0].__setitem__('err', sub(e[0]['err'], '"B2"', '"??"')))
    add('parse(missing): wrong exception type', 'MISS', 'UnknownNamed',
        lambda e: e[0].__setitem__('err', sub(e[0]['err'], 'KeyError', 'IndexError')))
    add('print: format claimed .4f although .2f was printed', 'PRINT', 'PrintDenotes',
        lambda e: (e[0].__setitem__('fmt', codes('.4f')),
                   e[0]['re'][0].__setitem__(1, codes('0.5001'))))
    add('parse(TS unknown, raise_error=False): TS kept', 'DROP', 'ParserAgrees',
        lambda e: (e[0].__setitem__('hasTS', True), e[0].__setitem__('ts', [[codes('T1'), codes('2.0')]])))
    add('parse(TS unknown, raise_error=False): warning does not name it', 'DROP', 'UnknownNamed',
        lambda e: e[0].__setitem__('warns', []))
    add('balance: species without composition accepted', 'NOCOMP', 'BalanceExact',
        lambda e: (e[0].__setitem__('accepted', True), e[0].__setitem__('err', [])))
    add('balance: rational coefficient 1/3 logged as 1/4', 'BAL', 'BalanceExact',
        lambda e: e[0]['re'][0].__setitem__(0, [1, 4]))
    add('balance: balanced reaction rejected', 'BAL', 'BalanceExact',
        lambda e: (e[0].__setitem__('accepted', False), e[0].__setitem__('err', codes('ValueError: x'))))
    add('balance: unbalanced reaction accepted', 'UNBAL', 'BalanceExact',
        lambda e: (e[0].__setitem__('accepted', True), e[0].__setitem__('err', [])))
    add('balance: rejection is not a ValueError', 'UNBAL', 'BalanceRaises',
        lambda e: e[0].__setitem__('err', codes('TypeError: x')))
    add('formula: one count off by one', 'FORM', 'FormulaDirect',
        lambda e: e[0]['result'][1].__setitem__(1, e[0]['result'][1][1] + 1))
    add('formula: repeated symbol overwritten (C: 1)', 'FORM', 'FormulaReader',
        lambda e: e[0]['result'][0].__setitem__(1, 1))
    add('formula: items do not render to the text', 'FORM', 'FormulaWitness',
        lambda e: e[0]['items'][1].__setitem__(1, 4))
    traces = [(i, evs) for i, (_, evs, _) in enumerate(tests)]
    fails, _ = core.validate_traces('Trace_RxnString', 'Trace', traces, shards=4)
    got = {}
    for tid, idx, clause in fails:
        got.setdefault(tid, set()).add(clause)
    bad = 0
    for i, (label, _, expected) in enumerate(tests):
        g = sorted(got.get(i, ()))
        ok = (not g) if expected is None else (expected in g)
        bad += not ok
        print('%-4s %-72s expected=%-15s reported=%s' % ('ok' if ok else 'FAIL', label, expected, g))
    print('corruption self-test: %d/%d as expected' % (len(tests) - bad, len(tests)))
    return 1 if bad else 0


if __name__ == '__main__':
    sys.exit(main())
