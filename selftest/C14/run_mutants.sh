#!/bin/sh
# C14 binding self-test (b): every source mutant under selftest/C14/*.patch, applied to a scratch
# worktree of the repository (with the proposed C14 fixes applied first when HEAD does not have
# them yet), must make `./check C14` exit 1 with VIOLATION lines.
#   sh selftest/C14/run_mutants.sh [pattern]      e.g.  sh selftest/C14/run_mutants.sh m3
HERE="$(cd "$(dirname "$0")" && pwd)"
VERIF="$(cd "$HERE/../.." && pwd)"
PAT="${1:-m}"
FAIL=0
for P in "$HERE"/${PAT}*.patch; do
  N=$(basename "$P" .patch)
  WT=$(mktemp -d /tmp/wt_C14_mut.XXXXXX)
  rmdir "$WT"
  git -C /repo worktree add --detach "$WT" HEAD >/dev/null 2>&1 || { echo "$N: cannot create worktree"; FAIL=1; continue; }
  for F in "$VERIF"/proposed_fixes/C14_*.patch; do
    if git -C "$WT" apply --check "$F" 2>/dev/null; then git -C "$WT" apply "$F"; fi
  done
  if ! git -C "$WT" apply "$P"; then echo "$N: patch does not apply"; FAIL=1
  else
    OUT=$(cd "$VERIF" && VERIF_REPO="$WT" ./check C14 --tier quick 2>&1); RC=$?
    CL=$(echo "$OUT" | grep '^VIOLATION' | sed 's/.*clause=//' | sort | uniq -c | tr '\n' ' ')
    if [ "$RC" = 1 ] && [ -n "$CL" ]; then echo "$N: CAUGHT rc=$RC clauses: $CL"
    else echo "$N: NOT CAUGHT rc=$RC"; echo "$OUT" | tail -3; FAIL=1; fi
  fi
  git -C /repo worktree remove --force "$WT" >/dev/null 2>&1
done
exit $FAIL
