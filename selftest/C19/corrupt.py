"""Binding demonstration (a) for C19: record a few real traces, corrupt ONE field of one
line, and require Trace_Extrema.tla to name the expected clause on exactly that line;
delete one line's required field -> the trace is not consumed (MachineryError).
Run:  PYTHONPATH=${VERIF_REPO:-/repo}:/verif /venv/bin/python -W ignore selftest/C19/corrupt.py
(meaningful on a tree where ./check C19 is green)."""
import copy
import sys

from harness import core
from harness.drivers import c19

PD1 = {'kind': 'rpd', 'seed': 11, 'dim': 1, 'species': 'nasa', 'n': 4, 'm1': 6, 'm2': 0,
       'x1': 'T', 'x2': 'P', 'norm_mode': 'signed', 'units': 'kJ/mol', 'slices': 2}
PD2 = {'kind': 'rpd', 'seed': 12, 'dim': 2, 'species': 'statmech', 'n': 3, 'm1': 4, 'm2': 3,
       'x1': 'T', 'x2': 'G1_kwargs', 'norm_mode': 'coverage', 'units': None, 'slices': 3}
SP = {'kind': 'rspan', 'seed': 5, 'ts': [True, False, True, True], 'gas': True, 'units': 'kJ/mol'}
SPN = {'kind': 'rspan', 'seed': 9, 'ts': [True, False, True], 'gas': False, 'noncontig': True, 'units': 'eV'}


def bump(dec, rel=1e-4):
    m, e = dec
    return [int(m * (1 + rel)) + 1, e]


def worst_index(col):
    vals = [m * 10.0 ** e for m, e in col]
    return vals.index(max(vals))


def corruptions(base):
    out = []
    # 1-D: one table entry off by 1e-4 relative
    ev = copy.deepcopy(base[0]); ev[0]['tab'][1][2] = bump(ev[0]['tab'][1][2])
    out.append(('EntryMatches', 0, 0, ev, None, None))
    # 1-D: one reported phase replaced by the phase with the HIGHEST energy there
    ev = copy.deepcopy(base[0]); ev[0]['st'][3] = worst_index([r[3] for r in ev[0]['tab']])
    out.append(('StableIsArgMinOfReturnedTable', 0, 0, ev, None, None))
    # 1-D: report one entry short
    ev = copy.deepcopy(base[0]); ev[0]['st'] = ev[0]['st'][:-1]; ev[0]['stshape'] = [len(ev[0]['st'])]
    out.append(('StableShape', 0, 0, ev, None, None))
    # 1-D: wrong R (units) -> EntryMatches
    ev = copy.deepcopy(base[0]); ev[0]['R'] = bump(ev[0]['R'], 1e-3)
    out.append(('EntryMatches', 0, 0, ev, None, None))
    # 2-D: transposed report shape
    ev = copy.deepcopy(base[1]); ev[0]['stshape'] = ev[0]['stshape'][::-1]
    out.append(('StableShape', 1, 0, ev, None, None))
    # 2-D: one reported phase wrong
    ev = copy.deepcopy(base[1]); ev[0]['st'][2][1] = worst_index([r[2][1] for r in ev[0]['tab']])
    # (the slice line that is compared with this 2-D report then fails too - allowed)
    out.append(('StableIsArgMinOfReturnedTable', 1, 0, ev, 'OneDEqualsTwoDSlice', None))
    # 2-D: table shape claims one more reaction
    ev = copy.deepcopy(base[1]); ev[0]['tabshape'][0] += 1
    out.append(('TableShape', 1, 0, ev, None, None))
    # 2-D: the returned table claims an integer dtype
    ev = copy.deepcopy(base[1]); ev[0]['tabfloat'] = False; ev[0]['tabdtype'] = 'int64'
    out.append(('TableIsFloat', 1, 0, ev, None, None))
    # slice line: the 1-D table differs from the 2-D slice
    ev = copy.deepcopy(base[1]); ev[1]['tab'][0][0] = bump(ev[1]['tab'][0][0]); ev[1]['own'][0][0] = bump(ev[1]['own'][0][0])
    out.append(('OneDEqualsTwoDSlice', 1, 1, ev, None, None))
    # span: off by 1e-4 of the span / the cycle term dropped
    for api_idx in (0, 1):
        ev = copy.deepcopy(base[2]); ev[api_idx]['span'] = bump(ev[api_idx]['span'], 1e-3)
        out.append(('SpanDefinition', 2, api_idx, ev, None, None))
    ev = copy.deepcopy(base[2]); ev[0]['finite'] = False
    out.append(('Finite', 2, 0, ev, None, None))
    # non-contiguous sequence: a later step's reactant state pushed above every state
    # (what the library reported is then no longer highest - lowest over ALL states)
    ev = copy.deepcopy(base[3])
    top = max(m * 10.0 ** e for st in ev[0]['steps'] for m, e in [st['r']] + st['t'] + [st['p']])
    ev[0]['steps'][1]['r'] = core.to_dec(top + 5.0)
    out.append(('SpanDefinition', 3, 0, ev, None, None))
    return out


def main():
    base = []
    for case in (PD1, PD2, SP, SPN):
        events, mism = c19.execute(case)
        if mism:
            print('library raised / mismatched on the base case:', mism); return 1
        base.append(events)
    fails, _ = core.validate_traces('Trace_Extrema', 'Trace_Extrema', list(enumerate(base)))
    if fails:
        print('base traces are not clean (run on a green tree):', fails); return 1
    bad = 0
    for want, tid, idx, evs, also, _ in corruptions(base):
        traces = [(t, evs if t == tid else base[t]) for t in range(len(base))]
        fails, _ = core.validate_traces('Trace_Extrema', 'Trace_Extrema', traces, shards=1)
        got = sorted(set(fails))
        ok = (tid, idx, want) in got and all(f[0] == tid and (f[1] == idx or f[2] == also) for f in got)
        print('%-32s -> %s %s' % (want, got, 'ok' if ok else 'UNEXPECTED'))
        bad += 0 if ok else 1
    # a line whose record lacks a field the spec reads: the trace cannot be consumed
    evs = copy.deepcopy(base[2]); del evs[0]['steps']
    try:
        core.validate_traces('Trace_Extrema', 'Trace_Extrema', [(0, evs)], shards=1)
        print('missing field: consumed (UNEXPECTED)'); bad += 1
    except core.MachineryError:
        print('missing field               -> MachineryError (trace not consumed) ok')
    return 1 if bad else 0


if __name__ == '__main__':
    sys.exit(main())
