"""Binding demonstration (a) for X02: record real traces of one network, corrupt ONE field of
one line, and require Trace_Network.tla to name the expected clause on exactly that line;
delete a field the spec reads -> the trace is not consumed (MachineryError).
Run:  PYTHONPATH=${VERIF_REPO:-/repo}:/verif /venv/bin/python -W ignore selftest/X02/corrupt.py
(the recorded calls use no cutoff, include_TS=True and '+', so the base trace is clean on the
unchanged tree as well as on the fixed one)."""
import copy
import sys

from harness import core
from harness.drivers import x02

# A =[T5]= B, B = C, A =[T6]= C, C = D  (states 1..4, transition states 5, 6); distinct energies
RX = [[1, 2, 5], [2, 3, 0], [1, 3, 6], [3, 4, 0]]
EN = [0, 2, 1, 3, 4, 6]


def record():
    events = []
    R, net = x02._make(x02._int_net(RX, en=EN), True, events)
    rec = x02.Recorder(R, net)
    q = {'s': 1, 't': [4], 'c': 0, 'units': 'eV', 'T': 300.0}
    events.append(x02.do_minspan(R, net, rec, q)[0])                       # 1
    events.append(x02.do_minspan(R, net, rec, dict(q, s=2))[0])            # 2  (2-3-4 and 2-5-1-6-3-4)
    events.append(x02.do_diagram(R, net, rec, q)[0])                       # 3
    events.append(x02.do_diagram(R, net, rec, dict(q, maxp=1))[0])         # 4
    events.append(x02.do_span(R, net, rec, [1, 6, 3, 4], 'eV', 300.0))     # 5
    events.append(x02.do_minspan(R, net, rec, dict(q, t=[3]))[0])          # 6  (1-6-3 and 1-5-2-3)
    return events


def bump(dec, rel=1e-3):
    m, e = dec
    return [int(m * (1 + rel)) + 1, e]


def corruptions(base):
    out = []

    def mk(idx):
        ev = copy.deepcopy(base)
        return ev, ev[idx]
    ev, e = mk(0); e['nodes'] = e['nodes'][:-1]
    out.append(('NodesExact', 0, ev, {'UnknownEvent', 'PathsAreSimple', 'PathsComplete', 'Raises', 'Selection'}))
    ev, e = mk(0); e['edges'].append([2, 4])
    out.append(('EdgesExact', 0, ev, {'PathsComplete', 'Selection'}))
    ev, e = mk(0)
    for n in e['nodes']:
        if n[0] == 5:
            n[1] = False
    out.append(('TSFlag', 0, ev, set()))
    ev, e = mk(0); e['nodes'][0][2][0][1] = [2, 0]
    out.append(('NodeAttrs', 0, ev, set()))
    # minspan: one enumerated pathway (not the one with the least span) missing
    ev, e = mk(1)
    worst = max(range(len(e['calls'])), key=lambda i: e['calls'][i][1][0] * 10.0 ** e['calls'][i][1][1])
    del e['calls'][worst]
    out.append(('PathsComplete', 1, ev, set()))
    ev, e = mk(1); e['calls'].append(copy.deepcopy(e['calls'][0]))
    out.append(('PathsOnce', 1, ev, set()))
    ev, e = mk(1); e['calls'][worst][0] = [1, 2, 4]
    out.append(('PathsAreSimple', 1, ev, {'PathsComplete', 'SpanDefinition'}))
    ev, e = mk(1); e['calls'][worst][1] = bump(e['calls'][worst][1])
    out.append(('SpanDefinition', 1, ev, set()))
    ev, e = mk(1); e['out'] = e['calls'][worst][1]
    out.append(('MinIsLeast', 1, ev, set()))
    ev, e = mk(1); e['out'] = bump(e['out'], -1e-3)
    out.append(('MinIsLeast', 1, ev, set()))
    # a six-state pathway although at most four states were asked for (and not the edge-count set)
    ev, e = mk(2); e['c'] = 4
    out.append(('CutoffStates', 2, ev, set()))
    # cutoff 3 and exactly the pathways with <= 3 EDGES: the known deviation is named as such
    ev, e = mk(6); e['c'] = 3
    out.append(('CutoffStates_KnownEdgeCount', 6, ev, set()))
    # include_TS = False asked for, the graph is exactly the include_TS = True graph
    ev, e = mk(0); e['inc'] = False
    out.append(('GraphIsNetwork_KnownTSKept', 0, ev, set()))
    # ... but not when anything else differs as well
    ev, e = mk(0); e['inc'] = False; e['edges'].append([2, 4])
    out.append(('EdgesExact', 0, ev, {'NodesExact', 'PathsComplete', 'Selection'}))
    ev, e = mk(1); e['finite'] = False
    out.append(('Finite', 1, ev, set()))
    ev, e = mk(1); e['raised'] = 'ValueError: x'
    out.append(('Raises', 1, ev, set()))
    # diagram: legend entries
    ev, e = mk(3); e['labels'][0][1] = bump(e['labels'][0][1])
    out.append(('Selection', 3, ev, set()))
    ev, e = mk(3); e['labels'] = e['labels'][:-1]
    out.append(('Selection', 3, ev, set()))
    ev, e = mk(3); e['labels'] = e['labels'][::-1]
    out.append(('Selection', 3, ev, set()))
    ev, e = mk(4); e['labels'][0][1] = base[3]['labels'][-1][1]        # max_paths=1 kept the LARGEST span
    out.append(('Selection', 4, ev, set()))
    ev, e = mk(4); e['maxp'] = 2                                       # two were asked for, one drawn
    out.append(('Selection', 4, ev, set()))
    ev, e = mk(3); e['calls'] = e['calls'][:1]
    out.append(('PathsComplete', 3, ev, {'Selection'}))
    ev, e = mk(5); e['span'] = bump(e['span'])
    out.append(('SpanDefinition', 5, ev, set()))
    return out


def main():
    base = record()
    fails, _ = core.validate_traces('Trace_Network', 'Trace', [(0, base)], shards=1)
    if fails:
        print('base trace is not clean (run on a green tree):', fails); return 1
    bad = 0
    for want, idx, evs, also in corruptions(base):
        fails, _ = core.validate_traces('Trace_Network', 'Trace', [(0, evs)], shards=1)
        got = sorted(set(fails))
        ok = (0, idx, want) in got and all((f[1] == idx and f[2] == want) or f[2] in also for f in got)
        print('%-16s line %d -> %s %s' % (want, idx, [(f[1], f[2]) for f in got], 'ok' if ok else 'UNEXPECTED'))
        bad += 0 if ok else 1
    evs = copy.deepcopy(base); del evs[1]['calls']
    try:
        core.validate_traces('Trace_Network', 'Trace', [(0, evs)], shards=1)
        print('missing field: consumed (UNEXPECTED)'); bad += 1
    except core.MachineryError:
        print('missing field    -> MachineryError (trace not consumed) ok')
    return 1 if bad else 0


if __name__ == '__main__':
    sys.exit(main())
