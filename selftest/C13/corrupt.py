"""C13 binding self-test (a): corrupt one recorded field of a clean trace and require the
trace specification to name the clause.  Run:  PYTHONPATH=${VERIF_REPO:-/repo}:/verif \
/venv/bin/python selftest/C13/corrupt.py   (exit 0 = every corruption was named)."""
import copy
import json
import sys

from harness import core
from harness.drivers import c13


def base_case():
    rnd = __import__('random').Random(5)
    ev1 = {'act': 'eval', 'o': 1, 'scalar': False, 'Ts': [300.0, 700.0, 1500.0], 'P': 20.0,
           'xB': 0.25, 'xC': 0.7}
    ev2 = dict(ev1, o=2, scalar=True, Ts=[450.0], P=0.01)
    return {'cid': 'selftest', 'kind': 'real', 'fam': 'Nasa', 'coef': c13._rand_coef(rnd, 'Nasa'),
            'slopes': c13._rand_slopes(rnd),
            'ops': [{'act': 'construct', 'phase': 'gas', 'flag': True, 'none': False,
                     'given': ['CovB', 'P2C', 'CovC']}, ev1,
                    {'act': 'reload', 'src': 1, 'via': 'json'}, ev2,
                    {'act': 'deepcopy', 'src': 2},
                    {'act': 'attach', 'src': 3, 'kind': 'P2B'}, dict(ev1, o=3)]}


def bump(dec):                       # change the 4th significant digit
    m, e = dec
    return [m + 10 ** max(0, len(str(abs(m))) - 4) if m else 1000, e if m else -3]


def corruptions():
    def drop_padj(ev):
        ev[0]['objs'][0].remove('PAdj')
    def extra_padj(ev):
        ev[2]['objs'][1].append('PAdj')
    def lose_model(ev):
        ev[2]['objs'][1].remove('P2C')
    def dict_entry(ev):
        ev[2]['objs'][1][0] = 'dict'
    def touch_other(ev):
        ev[4]['objs'][0].append('P1')
    def total_S(ev):
        ev[1]['r']['S'][1] = bump(ev[1]['r']['S'][1])
    def total_H(ev):
        ev[3]['r']['H'][0] = bump(ev[3]['r']['H'][0])
    def total_Cp(ev):
        ev[1]['r']['Cp'][2] = bump(ev[1]['r']['Cp'][2])
    def total_G(ev):
        ev[1]['r']['G'][0] = bump(ev[1]['r']['G'][0])
    def swap_route(ev):
        m = [x for x in ev[1]['ms'] if x['k'] == 'CovB'][0]
        m['cB'], m['cC'] = m['cC'], m['cB']
    def last_T(ev):                  # contribution of the last temperature used for all
        m = [x for x in ev[1]['ms'] if x['k'] == 'P2C'][0]
        for q in ('Cp', 'H', 'S'):
            m['cC'][q] = [m['cC'][q][-1]] * len(m['cC'][q])
    def ln_p(ev):
        ev[3]['lnP'] = bump(ev[3]['lnP'])
    def no_pressure(ev):             # S(P) reported equal to S(default P)
        ev[3]['r']['S'] = list(ev[3]['r']['S1'])
    def short(ev):
        ev[1]['r']['H'] = ev[1]['r']['H'][:-1]
    def raised(ev):
        ev[1]['ok']['S'] = False
        ev[1]['r']['S'] = []
    def list_changed(ev):
        ev[1]['after'] = ev[1]['after'] + ['PAdj']
    def delete_call(ev):
        del ev[2]
    return [(drop_padj, {'PAdjCount'}), (extra_padj, {'PAdjCount'}), (lose_model, {'UserModelsKept'}),
            (dict_entry, {'AllDecoded', 'UserModelsKept'}), (touch_other, {'OthersUntouched'}),
            (total_S, {'SumOnceS', 'GFollows', 'EntropyPressure'}), (total_H, {'SumOnceH', 'GFollows'}),
            (total_Cp, {'SumOnceCp'}), (total_G, {'SumOnceG', 'GFollows', 'GibbsPressure'}),
            (swap_route, {'SumOnceH', 'SumOnceG'}), (last_T, {'SumOnceCp', 'SumOnceH', 'SumOnceS'}),
            (ln_p, {'EntropyPressure', 'GibbsPressure'}), (no_pressure, {'EntropyPressure', 'SumOnceS', 'GFollows'}),
            (short, {'ShapeH'}), (raised, {'RaisesS'}), (list_changed, {'ListStable'}),
            (delete_call, None)]


def main():
    events, mism = c13.execute(base_case())
    if mism:
        print('base case not clean on this tree:', mism)
        return 1
    fails, _ = core.validate_traces('Trace_MiscModels', 'Trace', [(0, events)])
    if fails:
        print('base trace not clean on this tree:', fails)
        return 1
    rc = 0
    for fn, want in corruptions():
        ev = copy.deepcopy(events)
        fn(ev)
        try:
            fails, _ = core.validate_traces('Trace_MiscModels', 'Trace', [(0, ev)])
            got = {c for _, _, c in fails}
            ok = want is not None and want <= got
            note = ''
        except core.MachineryError as ex:
            got = {'<trace rejected by the machinery>'}
            ok = want is None
            note = str(ex).splitlines()[-1][:80] if not ok else ''
        print('%-14s -> %s %s %s' % (fn.__name__, sorted(got), 'OK' if ok else 'MISSED (wanted %s)' % want, note))
        rc |= 0 if ok else 1
    return rc


if __name__ == '__main__':
    sys.exit(main())
