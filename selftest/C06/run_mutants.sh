#!/bin/sh
# C06 binding demonstration (b): applies every mutant patch of selftest/C06 to a scratch worktree
# of /repo - on top of the two proposed C06 fixes when /repo does not contain them yet, so that
# the base is green - and expects ./check C06 to exit 1 with VIOLATION lines.
# usage: sh selftest/C06/run_mutants.sh [mutant-name ...]      (evidence/replays go to a scratch dir)
HERE="$(cd "$(dirname "$0")/../.." && pwd)"
WT=$(mktemp -d /tmp/wt_C06_mut.XXXXXX)
OUTD=$(mktemp -d /tmp/c06_mut_out.XXXXXX)
rmdir "$WT"
git -C /repo worktree add --detach "$WT" HEAD >/dev/null 2>&1 || exit 2
trap 'git -C /repo worktree remove --force "$WT" >/dev/null 2>&1; rm -rf "$OUTD"' EXIT
for FIX in "$HERE"/proposed_fixes/C06_*.patch; do
  if git -C "$WT" apply --check "$FIX" 2>/dev/null; then git -C "$WT" apply "$FIX"; echo "base: applied $(basename "$FIX")"; fi
done
NAMES="$*"
[ -z "$NAMES" ] && NAMES=$(ls "$HERE"/selftest/C06/m*.patch | xargs -n1 basename | sed 's/\.patch$//')
RC=0
for n in $NAMES; do
  P="$HERE/selftest/C06/$n.patch"
  git -C "$WT" apply "$P" || { echo "MUTANT $n: patch does not apply"; RC=2; continue; }
  OUT=$(cd "$HERE" && VERIF_OUT="$OUTD" VERIF_REPO="$WT" ./check C06 --tier quick 2>&1)
  XC=$?
  CL=$(echo "$OUT" | grep '^VIOLATION' | sed 's/.*clause=//' | sort | uniq -c | tr '\n' ' ')
  if [ $XC = 1 ] && echo "$OUT" | grep -q '^VIOLATION'; then echo "MUTANT $n: CAUGHT  $CL"; else echo "MUTANT $n: MISSED (exit $XC)"; echo "$OUT" | tail -3; RC=1; fi
  git -C "$WT" apply -R "$P"
done
exit $RC
