"""C06 binding demonstration (a): corrupt ONE recorded field of a clean trace and require the
trace specification to name the clause.  Run:
   PYTHONPATH=${VERIF_REPO:-/repo}:/verif /venv/bin/python selftest/C06/corrupt_traces.py
The clean trace is recorded from the real writers on a fixed mechanism without the two known
defects in play (no reaction with gaseous reactants and a non-gaseous product; `read` events are
replaced by what the specification itself reads), so it validates on the unchanged tree too."""
import copy
import json
import os
import sys

sys.path.insert(0, os.environ.get('VERIF_REPO', '/repo'))
from harness import core
from harness.drivers import c06

TH = {'a1': 3.5, 'a2': 1e-3, 'a6': -1000., 'a7': 5.}


def sp(name, ph, site, bulk, occ, els, a6):
    d = {'name': name, 'ph': ph, 'site': site, 'bulk': bulk, 'occ': occ, 'els': els}
    d.update(TH)
    d['a6'] = a6
    return d


CASE = {
    'cid': 'selftest', 'kind': 'rand',
    'sites': [{'name': 'PT111', 'bulk': 'PT(B)', 'sden': 2.5e-9, 'dens': 21.4}],
    'species': [sp('A2', 'G', 0, False, 0, {'H': 2}, -1000.), sp('B', 'G', 0, False, 0, {'H': 1}, 2000.),
                sp('PT(S)', 'S', 1, False, 1, {'Pt': 1}, 0.), sp('A(S)', 'S', 1, False, 2, {'H': 1, 'Pt': 1}, -3000.),
                sp('PT(B)', 'S', 1, True, 1, {'Pt': 1}, 0.)],
    'ts': [sp('TS1', 'S', 1, False, 1, {'H': 2}, 9000.), sp('TS2', 'G', 0, False, 1, {'H': 2}, 12000.)],
    'rx': [{'lhs': [[1, 1], [2, 3]], 'rhs': [[2, 4], [2, 5]], 'ads': True, 'stick': 0.3, 'beta': 0., 'ts': 0},
           {'lhs': [[2, 4], [2, 5]], 'rhs': [[1, 1], [2, 3]], 'ads': False, 'stick': 0.5, 'beta': 1., 'ts': 1},
           {'lhs': [[1, 1]], 'rhs': [[2, 2]], 'ads': False, 'stick': 0.5, 'beta': 0.5, 'ts': 2}],
    'opts': {'T': 500., 'P': None, 'act': 'get_G_act', 'ads_act': 'get_H_act', 'unit': 'kcal/mol', 'ff': ' .3E',
             'sd': '+', 'rd': '=', 'cd': '  ', 'sden_op': 'min', 'mw': True, 'ea_act': 'get_GoRT_act',
             'ea_ads_act': 'get_HoRT_act', 'ea_ff': ' .2E', 'ea_rd': '<=>', 'tflow_ff': '.3E', 'tube_ff': ' .3f',
             'conds': [{'T': 300., 'P': 1., 'Q': 10., 'abyv': 100.}, {'T': 500., 'P': 2., 'Q': 20., 'abyv': 50.}],
             'fracs': [{'A2': 0.5, 'B': 0.5, 'PT(S)': 1.}, {'A2': 0.25}]},
    'exp': {'gasrx': [0, 0, 1], 'gassp': [[65, 50], [66]],
            'sites': [{'name': core.text_codes('PT111'), 'ads': [core.text_codes('PT(S)'), core.text_codes('A(S)')]}],
            'bulk': [core.text_codes('PT(B)')], 'neag': 1, 'neas': 2},
}


def spec_read(lines):
    """What Trace_ChemkinDoc reads in a reaction section, computed here only to build a clean
    `read` event (it is the specification, not this function, that judges it)."""
    out = []
    for ln in lines:
        if len(ln) > 3 and all(t['n'] for t in ln[-3:]) and any('=' in t['s'] for t in ln[:-3]):
            eq = ''.join(t['s'] for t in ln[:-3])
            l, r = eq.split('=')
            def side(s):
                res = []
                for term in s.split('+'):
                    k = 0
                    while term[k].isdigit():
                        k += 1
                    res.append([int(term[:k] or 1), core.text_codes(term[k:])])
                return res
            out.append({'lhs': side(l), 'rhs': side(r)})
    return out


def find(ev, name, **kw):
    for i, e in enumerate(ev):
        if e['ev'] == name and all(e.get(k) == v for k, v in kw.items()):
            return i
    raise KeyError(name)


def tok_num(tok, m):
    tok['v'] = [m, tok['v'][1]]


def corruptions(ev):
    g, s = find(ev, 'write_gas'), find(ev, 'write_surf')
    eas, eag = find(ev, 'write_ea', gas=False), find(ev, 'write_ea', gas=True)
    tf, tu = find(ev, 'write_tflow'), find(ev, 'write_tube')
    rg = find(ev, 'read', file='gas')

    def line_with(e, word):
        return next(i for i, ln in enumerate(ev[e]['lines']) if any(t['s'] == word for t in ln))
    C = []

    def add(name, clause, fn):
        C.append((name, clause, fn))
    add('model A of a surface reaction +1%', 'Num_A', lambda t: t[s]['model'][1]['v'].__setitem__(0, [t[s]['model'][1]['v'][0][0] + 10000000, t[s]['model'][1]['v'][0][1]]))
    add('printed beta of gas reaction', 'Num_Beta', lambda t: tok_num(t[g]['lines'][line_with(g, 'A2=2B')][2], 6000))
    add('printed Ea of gas reaction', 'Num_Ea', lambda t: tok_num(t[g]['lines'][line_with(g, 'A2=2B')][3], t[g]['lines'][line_with(g, 'A2=2B')][3]['v'][0] + 2))
    add('sticking coefficient printed 0.31', 'Num_A', lambda t: tok_num(t[s]['lines'][line_with(s, 'A2+2PT(S)=2A(S)+2PT(B)')][1], 3100))
    add('gas species line removed', 'EachOnceGasSpecies', lambda t: t[g]['lines'].pop(line_with(g, 'B')))
    add('element written twice', 'EachOnceElements', lambda t: t[g]['lines'].insert(line_with(g, 'H'), copy.deepcopy(t[g]['lines'][line_with(g, 'H')])))
    add('gas reaction also in surf.inp', 'Partition', lambda t: t[s]['lines'].insert(line_with(s, 'STICK'), copy.deepcopy(t[g]['lines'][line_with(g, 'A2=2B')])))
    add('surface reaction missing from surf.inp', 'Partition', lambda t: t[s]['lines'].pop(line_with(s, '2A(S)+2PT(B)=A2+2PT(S)')))
    add('surface reaction written twice', 'EachOnceReactions', lambda t: t[s]['lines'].insert(line_with(s, '2A(S)+2PT(B)=A2+2PT(S)'), copy.deepcopy(t[s]['lines'][line_with(s, '2A(S)+2PT(B)=A2+2PT(S)')])))

    def coef(t):
        tok = t[s]['lines'][line_with(s, '2A(S)+2PT(B)=A2+2PT(S)')][0]
        tok['s'] = '3A(S)+2PT(B)=A2+2PT(S)'
        tok['c'] = core.text_codes(tok['s'])
    add('coefficient 2 -> 3 in an equation', 'NoStrangers', coef)
    add('STICK line dropped', 'StickMatches', lambda t: t[s]['lines'].pop(line_with(s, 'STICK')))
    add('END of reactions dropped', 'WellFormed', lambda t: t[g]['lines'].pop())
    add('occupancy 2 -> 1', 'EachOnceAdsorbates', lambda t: tok_num(t[s]['lines'][line_with(s, 'A(S)')][1], 1))
    add('adsorbate line removed', 'EachOnceAdsorbates', lambda t: t[s]['lines'].pop(line_with(s, 'PT(S)')))
    add('BULK line removed', 'EachOnceBulk', lambda t: t[s]['lines'].pop(line_with(s, 'BULK')))
    add('SITE name changed', 'EachOnceSites', lambda t: t[s]['lines'][line_with(s, 'SITE')][1].update({'s': 'PT100', 'c': core.text_codes('PT100')}))
    add('site density digit', 'Num_Sden', lambda t: tok_num(t[s]['lines'][line_with(s, 'SDEN')][3], 250001))
    add('bulk density', 'Num_Density', lambda t: tok_num(t[s]['lines'][line_with(s, 'BULK')][2], 215))
    add('unit header', 'UnitsDeclared', lambda t: t[s]['lines'][line_with(s, 'REACTIONS')][2].update({'s': 'KJ'}))
    add('EA count', 'CountsMatch', lambda t: tok_num(t[eas]['lines'][0][0], 3))
    add('EA value', 'Num_EA', lambda t: tok_num(t[eas]['lines'][2][2], t[eas]['lines'][2][2]['v'][0] + 1))
    add('EAg row removed', 'Partition', lambda t: t[eag]['lines'].pop(1))
    add('T_flow row removed', 'CountsMatch', lambda t: t[tf]['lines'].pop(0))
    add('T_flow P and Q swapped', 'Num_Tflow', lambda t: t[tf]['lines'][1].__setitem__(slice(1, 3), [t[tf]['lines'][1][2], t[tf]['lines'][1][1]]))
    add('tube count', 'CountsMatch', lambda t: tok_num(t[tu]['lines'][1][0], 5))
    add('tube fraction', 'Num_Frac', lambda t: tok_num(t[tu]['lines'][2][3], 300))
    add('tube phase tag', 'EachOnceTube', lambda t: t[tu]['lines'][4][1].update({'s': 'GAS', 'c': core.text_codes('GAS')}))
    add('tube species row removed', 'EachOnceTube', lambda t: t[tu]['lines'].pop(3))
    add('disk text differs', 'FileEqualsString', lambda t: t[g].update({'same': False}))
    add('writer raised', 'Raises', lambda t: t[s].update({'raised': 'TypeError: x', 'lines': []}))
    add('reader stoichiometry', 'ReadBack', lambda t: t[rg]['rx'][0]['rhs'][0].__setitem__(0, 3))
    add('reader drops a reaction (with species)', 'ReadBack', lambda t: t[rg]['rxo'].pop())
    add('reader raised', 'ReaderRaises', lambda t: t[rg].update({'raised': 'KeyError: x'}))
    def wit_ts(t, ev_i, rx_i):            # initial-state value: enters barrier and reaction change
        w = t[ev_i]['wit'][rx_i]['w'][0]
        w['is'][0][1] = [w['is'][0][1][0] + 90000000, w['is'][0][1][1]]
    add('species-level initial-state value (surf.inp)', 'Num_Ea_Species', lambda t: wit_ts(t, s, 1))
    add('species-level initial-state value (EAs.inp)', 'Num_EA_Species', lambda t: wit_ts(t, eas, 1))
    add('printed Ea of gas reaction vs species', 'Num_Ea_Species', lambda t: tok_num(t[g]['lines'][line_with(g, 'A2=2B')][3], t[g]['lines'][line_with(g, 'A2=2B')][3]['v'][0] + 2))
    add('printed A of a surface reaction (x10)', 'Num_A_Species', lambda t: t[s]['lines'][line_with(s, '2A(S)+2PT(B)=A2+2PT(S)')][1]['v'].__setitem__(1, t[s]['lines'][line_with(s, '2A(S)+2PT(B)=A2+2PT(S)')][1]['v'][1] + 1))
    add('expected partition of the TLC case', 'ReplayDoc', lambda t: t[0]['exp'].update({'gasrx': [0, 1, 1]}))
    add('expected EA count of the TLC case', 'ReplayDoc', lambda t: t[0]['exp'].update({'neas': 3}))
    return C


def main():
    events, mism = c06.execute(CASE)
    assert not mism, mism
    for e in events:                       # clean read events (the pinned reader is a known defect)
        if e['ev'] == 'read':
            w = events[find(events, 'write_' + e['file'])]
            e['raised'], e['rx'] = '', spec_read(w['lines'])
            e['rxo'] = copy.deepcopy(e['rx'])
    traces = [(0, events)]
    names = ['clean']
    C = corruptions(events)
    for k, (name, clause, fn) in enumerate(C):
        t = copy.deepcopy(events)
        fn(t)
        traces.append((k + 1, t))
        names.append(name)
    fails, stats = core.validate_traces('Trace_ChemkinDoc', 'Trace', traces, shards=4)
    by = {}
    for tid, idx, cl in fails:
        by.setdefault(tid, set()).add(cl)
    bad = 0
    if by.get(0):
        print('FAIL clean trace rejected:', sorted(by[0]))
        bad += 1
    for k, (name, clause, fn) in enumerate(C):
        got = sorted(by.get(k + 1, ()))
        ok = clause in got
        print('%-4s %-45s expect %-20s got %s' % ('ok' if ok else 'FAIL', name, clause, got))
        bad += (not ok)
    print('corruptions: %d, not detected as expected: %d' % (len(C), bad))
    sys.exit(1 if bad else 0)


if __name__ == '__main__':
    main()
