"""Binding demonstration for X06: a recorded run of the real readers over a small OUTCAR-like and a
small Gaussian-like file is judged by Trace_LogReaders.tla; corrupting one recorded field makes TLC
name the clause.
run:  PYTHONPATH=${VERIF_REPO:-/repo}:/verif /venv/bin/python -W ignore selftest/X06/corrupt_traces.py
(on the unchanged tree the recorded trace already fails the known-finding clause
PatternWords_KnownGroupZero (X06-F1); the script shows which clauses each corruption ADDS)
"""
import copy
import sys

from harness import core, lib_x06
from harness.drivers import x06

OUTCAR = {'cid': 'demo_o', 'kind': 'demo', 'fam': 'outcar',
          'lines': [' Eigenvectors and eigenvalues of the dynamical matrix', '',
                    lib_x06.vasp_mode_line(1, 3821.7174), lib_x06.vasp_mode_line(2, 100.0),
                    '             X         Y         Z           dx          dy          dz',
                    lib_x06.vasp_mode_line(3, 64.404843), lib_x06.vasp_mode_line(4, 10.607462, True)],
          'nl': True, 'cuts': [0.0, 100.0], 'imags': [False, True], 'readers': [], 'pats': [], 'pcalls': [],
          'linecalls': [lib_x06.vasp_mode_line(1, 3821.7174), ' no number here'], 'missing': True, 'expect': None}
GAUSS = {'cid': 'demo_g', 'kind': 'demo', 'fam': 'gauss',
         'lines': lib_x06.gauss_freq_lines([1602.4829, 3817.5313, 3922.3046, 4000.5])
         + lib_x06.gauss_thermo_lines(0.021285, -76.386893, 18.01056, 2, [39.38381, 20.87735, 13.64487])
         + lib_x06.gauss_thermo_lines(0.5, -1.25, 2.01565, 12, [87.5, 87.5, 43.75]),
         'nl': True, 'cuts': [], 'readers': [[fn, None] for fn in ('zpe', 'sum', 'freq', 'rott', 'mass', 'sym')]
         + [['zpe', 'eV/molecule'], ['freq', '1/m'], ['mass', 'g/mol']],
         'pats': [['and ', 'two'], ['No such ', 'rest']],
         'pcalls': [[0, 0, True], [0, 1, True], [0, 0, False], [0, 1, False], [1, 0, True], [1, 0, False]],
         'linecalls': [], 'missing': False, 'expect': None}


def clauses(events):
    fails, _ = core.validate_traces('Trace_LogReaders', 'Trace', [(0, events)], shards=1)
    return set(c for _, _, c in fails)


def find(evs, **kw):
    return next(k for k, e in enumerate(evs) if all(e.get(a) == b for a, b in kw.items()))


def main():
    ok = True
    for case in (OUTCAR, GAUSS):
        ev, _ = x06.execute(case)
        base = clauses(ev)
        print('%-66s -> %s' % ('%s as recorded' % case['cid'], sorted(base)))

        def show(label, edit, expect):
            nonlocal ok
            e2 = copy.deepcopy(ev)
            edit(e2)
            added = clauses(e2) - base
            good = expect in added
            ok = ok and good
            print('%-66s -> %s %s' % (label, sorted(added), '' if good else '   <-- EXPECTED ' + expect))

        if case is OUTCAR:
            v = find(ev, ev='vib', imag=True)
            show('vib: one value changed in the 7th digit', lambda t: t[v]['res'][0].__setitem__(0, t[v]['res'][0][0] + 100), 'VibValues')
            show('vib: two values swapped', lambda t: t[v]['res'].__setitem__(slice(0, 2), t[v]['res'][1::-1]), 'VibValues')
            show('vib: last value dropped', lambda t: t[v]['res'].pop(), 'VibCount')
            show('vib: imaginary mode reported positive', lambda t: t[v]['res'][-1].__setitem__(0, -t[v]['res'][-1][0]), 'VibValues')
            show('vib: other entry of the dict lost', lambda t: t[v].__setitem__('kept', False), 'VibKept')
            show('vib: raised', lambda t: t[v].__setitem__('raised', 'ValueError'), 'VibRaises')
            c100 = find(ev, ev='vib', imag=False, cut=[100000000, -6])
            show('vib cutoff 100: the value 100.0 also returned',
                 lambda t: t[c100]['res'].append([100000000, -6]), 'VibCount')
            lc = find(ev, ev='linecall')
            show('linecall: THz value returned', lambda t: t[lc]['res'].__setitem__(0, [114572212, -6]), 'LineValue')
            show('linecall: no TypeError for a line without a number',
                 lambda t: t[lc + 1].__setitem__('raised', ''), 'LineRaises')
            show('missing file: no exception', lambda t: t[find(t, ev='missing')].__setitem__('raised', ''), 'MissingFile')
            ln = find(ev, ev='line', c=x06.codes(OUTCAR['lines'][3]))
            show('line: a frequency line removed from the recorded text', lambda t: t.pop(ln), 'VibCount')
        else:
            z = find(ev, ev='greader', fn='zpe')
            show('zpe: value of the SECOND block returned', lambda t: t[z]['res'].__setitem__(0, [500000000, -9]), 'ScalarFirst')
            f = find(ev, ev='greader', fn='freq')
            show('freq: one frequency missing', lambda t: t[f]['res'].pop(1), 'ListCount')
            show('freq: order changed', lambda t: t[f]['res'].reverse(), 'ListValues')
            fm = find(ev, ev='greader', fn='freq', units='1/m')
            show('freq in 1/m: factor forgotten', lambda t: t[fm].__setitem__('fden', [1, 0]), 'ListValues')
            s = find(ev, ev='greader', fn='sym')
            show('sym: not an int', lambda t: t[s].__setitem__('isint', False), 'SymIsInt')
            show('rott: raised', lambda t: t[find(t, ev='greader', fn='rott')].__setitem__('raised', 'ValueError'), 'ReaderRaises')
            p1 = find(ev, ev='pattern', imm=True, group=1, idx=1)
            show('read_pattern first: group 0 text for group 1',
                 lambda t: t[p1].__setitem__('text', t[find(t, ev='pattern', imm=True, group=0, idx=1)]['text']), 'PatternFirst')
            pa = find(ev, ev='pattern', imm=False, group=0, idx=1)
            show('read_pattern all: a word dropped', lambda t: t[pa]['words'].pop(), 'PatternWords')
            show('read_pattern all: a str returned', lambda t: t[pa].__setitem__('kind', 'str'), 'PatternKind')
            pn = find(ev, ev='pattern', imm=True, idx=2)
            show('read_pattern no match: None-like result', lambda t: t[pn].__setitem__('words', [[110]]), 'PatternNone')
    print('BINDING OK' if ok else 'BINDING INCOMPLETE')
    return 0 if ok else 1


if __name__ == '__main__':
    sys.exit(main())
