#!/bin/sh
# Applies every X06 mutant (selftest/X06/*.patch) to a scratch worktree of /repo's HEAD (the UNCHANGED
# tree, on which ./check X06 exits 0 with the known finding X06-F1) and expects ./check X06 to print
# VIOLATION lines (violations that are not known findings).
# usage: sh selftest/X06/run_mutants.sh [mutant-name ...]
HERE="$(cd "$(dirname "$0")/../.." && pwd)"
WT=$(mktemp -d /tmp/wt_X06_mut.XXXXXX)
OUTD=$(mktemp -d /tmp/x06_mut_out.XXXXXX)
rmdir "$WT"
git -C /repo worktree add --detach "$WT" HEAD >/dev/null 2>&1 || exit 2
trap 'git -C /repo worktree remove --force "$WT" >/dev/null 2>&1; rm -rf "$OUTD"' EXIT
if [ -z "$SKIP_BASE" ]; then
  BASE=$(cd "$HERE" && VERIF_OUT="$OUTD" VERIF_REPO="$WT" ./check X06 --tier quick 2>&1 | tail -1)
  echo "UNMUTATED: $BASE"
fi
NAMES="$*"
[ -z "$NAMES" ] && NAMES=$(ls "$HERE"/selftest/X06/*.patch | xargs -n1 basename | sed 's/\.patch$//' | sort -u)
RC=0
for n in $NAMES; do
  P="$HERE/selftest/X06/$n.patch"
  git -C "$WT" apply "$P" || { echo "MUTANT $n: patch does not apply"; RC=2; continue; }
  OUT=$(cd "$HERE" && VERIF_OUT="$OUTD" VERIF_REPO="$WT" ./check X06 --tier quick 2>&1)
  CL=$(echo "$OUT" | grep 'violated clause' | awk '{print $3}' | sort -u | tr '\n' ' ')
  if echo "$OUT" | grep -q '^VIOLATION'; then echo "MUTANT $n: CAUGHT  $CL"; else echo "MUTANT $n: MISSED"; echo "$OUT" | tail -3; RC=1; fi
  git -C "$WT" apply -R "$P"
done
exit $RC
