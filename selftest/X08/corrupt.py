"""X08 binding self-test (a): corrupt one recorded field of a clean trace and require the trace
specification to name the clause.  Needs a tree in which the class works (the proposed X08 fixes):
  PYTHONPATH=<scratch worktree with proposed_fixes/X08_*.patch>:/verif /venv/bin/python selftest/X08/corrupt.py
(exit 0 = the base traces are clean and every corruption was named by exactly the expected clauses)."""
import copy
import sys

from harness import core
from harness.drivers import x08


def scale(dec, num, den=1):
    """multiply a Dec [m, e] by num/den (keeps 9 digits)"""
    m = dec[0] * num // den
    e = dec[1]
    while abs(m) >= 10 ** 9:
        m //= 10
        e += 1
    dec[0], dec[1] = m, e


def bump2(a, d=3):
    sg = -1 if (a[0] < 0 or a[1] < 0) else 1
    lo = abs(a[1])
    a[1] = sg * (lo - d if lo > 50000000 else lo + d)


def species(phase, geom, **kw):
    sp = {'name': 'sp1', 'phase': phase, 'els': {'C': 1, 'O': 2}, 'wn': [667.0, 1388.0, 2349.0], 'E': -22.5,
          'A': 2.5e-19, 'geom': geom, 'sigma': None, 'inertia': None, 'mol': None,
          'weights': {'C': 12.0116, 'O': 15.999}}
    sp.update(kw)
    return sp


def main():
    import pmutt.constants as c
    w = {'C': float(c.atomic_weight['C']), 'O': float(c.atomic_weight['O'])}
    cases = [
        {'kind': 'species', 'cseed': 1, 'via': 'dict',
         'species': species('G', 'nonlinear', sigma=2, inertia=[1.1e-46, 2.3e-46, 3.7e-46], weights=w)},
        {'kind': 'species', 'cseed': 2, 'via': 'json',
         'species': species('G', 'linear', sigma=2, inertia=[7.2e-46], weights=w)},
        {'kind': 'species', 'cseed': 3, 'via': 'json', 'species': species('S', None, weights=w)},
        {'kind': 'species', 'cseed': 4, 'via': 'dict',
         'species': species('G', None, sigma=2, mol='H2O', weights=w)},
        {'kind': 'compare', 'fam': 'nasa', 'nmodes': 3, 'tmode': 'array', 'n': 4, 'cseed': 5},
        {'kind': 'compare', 'fam': 'shomate', 'nmodes': 2, 'tmode': 'default', 'n': 4, 'cseed': 6},
    ]
    base = [x08.execute(cs)[0] for cs in cases]
    fails, _ = core.validate_traces('Trace_Zacros', 'Trace', list(enumerate(base)), shards=1)
    if fails:
        print('selftest: the base traces are not clean:', fails)
        return 1
    C = []

    def add(name, tid, idx, clauses, fn):
        C.append((name, tid, idx, set(clauses), fn))
    ev = lambda t, i: t[i]
    add('vibrational energy x 1.00001', 0, 0, ['VibEnergy'], lambda t: scale(t[0]['r']['eps'][1], 100001, 100000))
    add('vibrational temperature x 1.00001', 0, 0, ['VibTemperature'], lambda t: scale(t[0]['r']['theta'][0], 100001, 100000))
    add('theta list one short', 0, 0, ['VibLengths'], lambda t: t[0]['r']['theta'].pop())
    add('zero point energy doubled', 0, 0, ['ZeroPointEnergy'], lambda t: scale(t[0]['r']['zpe'], 2))
    add('q_vib x 1.0001', 0, 0, ['QVib'], lambda t: scale(t[0]['r']['qvib'], 10001, 10000))
    add('q_vib not reported', 0, 0, ['QVibDefined'], lambda t: t[0]['r'].__setitem__('hasq', False))
    add('sensor 1-exp(-x) inconsistent', 0, 0, ['WITNESS', 'QVib'], lambda t: scale(t[0]['s']['om'][0], 99, 100))
    add('witness x wrong', 0, 0, ['WITNESS'], lambda t: scale(t[0]['s']['x'][2], 101, 100))
    add('a moment changed', 0, 0, ['MomentsOfInertia', 'QRotNonlinear'], lambda t: scale(t[0]['r']['I3'][1], 2))
    add('T_I x 1.0001', 0, 0, ['RotConstant', 'QRotNonlinear'], lambda t: scale(t[0]['r']['TI'], 10001, 10000))
    add('nonlinear q_rot x 1.00002', 0, 0, ['QRotNonlinear'], lambda t: scale(t[0]['r']['qrot'], 100002, 100000))
    add('linear q_rot x 2 (sigma ignored)', 1, 0, ['QRotLinear'], lambda t: scale(t[0]['r']['qrot'], 2))
    add('surface q_rot = 1', 2, 0, ['QRotSurface'], lambda t: t[0]['r'].__setitem__('qrot', [1, 0]))
    add('surface reports I3', 2, 0, ['DefinedQuantities'], lambda t: t[0]['r'].__setitem__('hasI3', True))
    add('mass x 1000 (g instead of kg)', 0, 0, ['MassPerMolecule', 'QTrans2D'], lambda t: scale(t[0]['r']['MW'], 1000))
    add('q_trans2D x 1.00002', 2, 0, ['QTrans2D'], lambda t: scale(t[0]['r']['qtrans'], 100002, 100000))
    add('MW missing although A_st given', 2, 0, ['DefinedQuantities'], lambda t: t[0]['r'].__setitem__('hasMW', False))
    add('moments from atoms off by 2.3e-5 (CODATA amu instead of the documented table)', 3, 0, ['MomentsOfInertia', 'QRotNonlinear'],
        lambda t: scale(t[0]['r']['I3'][0], 1000023, 1000000))
    add('stored A_st, 17th digit', 0, 0, ['StoredInputs'], lambda t: bump2(t[0]['st']['A']))
    add('stored potential energy lost', 1, 0, ['StoredInputs'], lambda t: t[0]['st'].__setitem__('E', [0, 0, 0]))
    add('stored symmetry number None', 1, 0, ['StoredInputs'], lambda t: t[0]['st']['nones'].append('sigma'))
    add('constructor raised', 2, 0, ['Raises'], lambda t: t[0].__setitem__('raised', True))
    add('q_rot not finite', 0, 0, ['Finite'], lambda t: t[0].__setitem__('finite', False))
    add('get_q = 2', 0, 1, ['DefaultPartitionFunction'], lambda t: t[1].__setitem__('q', [2, 0]))
    add('get_HoRT = 1e-12', 0, 1, ['DefaultDimensionless'], lambda t: t[1]['dimless'][3].__setitem__(1, [1, -12]))
    add('get_G(units) non-zero', 0, 1, ['DefaultUnits'], lambda t: t[1]['dims'][-1].__setitem__(3, [5, -3]))
    add('to_dict returned None', 0, 2, ['ToDictReturnsDict'], lambda t: t[2].__setitem__('isdict', False))
    add('to_dict raised', 0, 2, ['ToDictRaises'], lambda t: t[2].__setitem__('dictRaised', True))
    add('dictionary holds an ndarray', 1, 2, ['DictJsonTypes'], lambda t: t[2].__setitem__('jsonable', False))
    add('class tag of the base class', 1, 2, ['DictClass'], lambda t: t[2].__setitem__('cls', "<class 'pmutt.empirical.EmpiricalBase'>"))
    add('vib_wavenumbers key missing', 1, 2, ['DictKeys'], lambda t: t[2]['keys'].remove('vib_wavenumbers'))
    add('from_dict raised', 2, 2, ['FromDictRaises'], lambda t: t[2].__setitem__('loadRaised', True))
    add('reload returned a dict', 2, 2, ['FromDictReturnsZacros'], lambda t: t[2].__setitem__('isobj', False))
    add('reloaded A_st, 17th digit', 0, 2, ['RoundTripInputs'], lambda t: (t[2].__setitem__('after', copy.deepcopy(t[2]['after'])), bump2(t[2]['after']['A'])))
    add('reloaded species lost its GasPressureAdj', 1, 2, ['RoundTripInputs'],
        lambda t: (t[2].__setitem__('after', copy.deepcopy(t[2]['after'])), t[2]['after'].__setitem__('misc', ['<none>'])))
    add('reloaded q_rot, 16th digit', 1, 2, ['RoundTripDerived'],
        lambda t: (t[2].__setitem__('after', copy.deepcopy(t[2]['after'])), bump2(t[2]['after']['qrot'], 30)))
    add('reloaded theta list shorter', 2, 2, ['RoundTripDerived'],
        lambda t: (t[2].__setitem__('after', copy.deepcopy(t[2]['after'])), t[2]['after']['theta'].pop()))
    add('reloaded object compares unequal', 2, 2, ['RoundTripEqual'], lambda t: t[2].__setitem__('eq', False))
    add('compare: T not echoed', 4, 0, ['CompareEchoT'], lambda t: bump2(t[0]['Tret'][1]))
    add('compare: model is a scalar', 4, 0, ['CompareLengths'], lambda t: t[0].__setitem__('model', t[0]['model'][:1]))
    add('compare: model value at another T', 4, 1, ['CompareModel'], lambda t: t[1]['model'].__setitem__(2, t[1]['model'][1]))
    add('compare: model/empirical swapped', 4, 2, ['CompareModel', 'CompareEmpirical'],
        lambda t: t[2].update(model=t[2]['emp'], emp=t[2]['model']))
    add('compare: empirical 1e-11 off', 4, 3, ['CompareEmpirical'], lambda t: bump2(t[3]['emp'][0], 2000000))
    add('compare: default T above T_high', 5, 0, ['CompareDefaultRange'],
        lambda t: t[0]['Tret'].__setitem__(-1, [t[0]['Thigh'][0] + 1000000, t[0]['Thigh'][1], t[0]['Thigh'][2]]))
    add('compare: default T not increasing', 5, 1, ['CompareDefaultRange'],
        lambda t: t[1]['Tret'].__setitem__(3, t[1]['Tret'][1]))
    add('compare raised', 5, 2, ['Raises'], lambda t: t[2].__setitem__('raised', True))

    traces = []
    for k, (name, tid, idx, want, fn) in enumerate(C):
        t = copy.deepcopy(base[tid])
        fn(t)
        traces.append((k, t))
    fails, _ = core.validate_traces('Trace_Zacros', 'Trace', traces)
    got = {}
    for tid, idx, clause in fails:
        got.setdefault(tid, set()).add((idx, clause))
    rc = 0
    for k, (name, tid, idx, want, fn) in enumerate(C):
        g = got.get(k, set())
        ok = {c for _, c in g} == want and all(i == idx for i, _ in g)
        print('%-78s %s %s' % (name, 'named' if ok else 'WRONG', sorted(c for _, c in g)))
        if not ok:
            rc = 1
    print('selftest X08 corrupt: %d corruptions, %s' % (len(C), 'all named' if rc == 0 else 'FAILED'))
    return rc


if __name__ == '__main__':
    sys.exit(main())
