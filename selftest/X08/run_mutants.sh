#!/bin/sh
# X08 binding self-test (b): source mutants, re-based on the unchanged HEAD (the four X08 defects are known
# findings there; a mutant must produce a VIOLATION that is NOT one of them, exit 1).
#   m*.patch        apply to a scratch worktree of HEAD (constructor mutants are judged through the driver's
#                   shim_np_product continuation)
#   onfix/m*.patch  mutate to_dict / from_dict, which do not work at all on HEAD: the script first applies the
#                   documentation patch proposed_fixes/X08_zacros_dict_roundtrip.patch (+ np_prod), then the mutant
# usage: sh selftest/X08/run_mutants.sh <scratch worktree of HEAD> [patch ...]      (never /repo)
WT="$1"; [ -d "$WT/pmutt" ] || { echo "usage: $0 <scratch worktree> [patch ...]"; exit 2; }
[ "$WT" = "/repo" ] && { echo "refusing to touch /repo"; exit 2; }
shift
HERE="$(cd "$(dirname "$0")/../.." && pwd)"
[ $# -gt 0 ] || set -- "$HERE"/selftest/X08/m*.patch "$HERE"/selftest/X08/onfix/m*.patch
OUT=$(mktemp -d)
rc=0
for p in "$@"; do
  case "$p" in /*) ;; *) p="$(pwd)/$p";; esac
  pre=""
  case "$p" in */onfix/*) pre="$HERE/proposed_fixes/X08_zacros_np_prod.patch $HERE/proposed_fixes/X08_zacros_dict_roundtrip.patch";; esac
  for q in $pre; do git -C "$WT" apply "$q" || { echo "cannot apply $q"; rc=2; }; done
  git -C "$WT" apply "$p" || { echo "cannot apply $p"; rc=2; git -C "$WT" checkout -q .; continue; }
  VERIF_REPO="$WT" VERIF_OUT="$OUT" VERIF_MAX_REPLAYS=3 "$HERE/check" X08 > "$OUT/log" 2>&1
  code=$?
  clauses=$(grep 'violated clause' "$OUT/log" | sed 's/.*violated clause \([A-Za-z0-9_]*\).*/\1/' | sort -u | tr '\n' ' ')
  echo "$(basename "$p"): exit=$code clauses: $clauses"
  [ $code -eq 1 ] || rc=1
  git -C "$WT" checkout -q .
done
rm -rf "$OUT"
exit $rc
