#!/bin/sh
# X08 binding self-test (b): apply each source mutant to a scratch worktree that already carries
# the four proposed_fixes/X08_*.patch and require ./check X08 to report a
# VIOLATION (exit 1).   usage: sh selftest/X08/run_mutants.sh <scratch worktree>    (never /repo)
WT="$1"; [ -d "$WT/pmutt" ] || { echo "usage: $0 <scratch worktree>"; exit 2; }
[ "$WT" = "/repo" ] && { echo "refusing to touch /repo"; exit 2; }
HERE="$(cd "$(dirname "$0")/../.." && pwd)"
OUT=$(mktemp -d)
rc=0
for p in "$HERE"/selftest/X08/m*.patch; do
  git -C "$WT" apply "$p" || { echo "cannot apply $p"; rc=2; continue; }
  VERIF_REPO="$WT" VERIF_OUT="$OUT" VERIF_MAX_REPLAYS=3 "$HERE/check" X08 > "$OUT/log" 2>&1
  code=$?
  clauses=$(grep 'violated clause' "$OUT/log" | sed 's/.*violated clause \([A-Za-z0-9]*\).*/\1/' | sort -u | tr '\n' ' ')
  echo "$(basename "$p"): exit=$code clauses: $clauses"
  [ $code -eq 1 ] || rc=1
  git -C "$WT" apply -R "$p"
done
rm -rf "$OUT"
exit $rc
