"""C20 binding demo (a): corrupt one recorded field -> the trace spec names the clause.
Run:  cd /verif && PYTHONPATH=/repo:/verif /venv/bin/python selftest/C20/corruptions.py"""
import copy
import sys

from harness import core
from harness.drivers import c20


def bump(d, rel=1e-4):
    return core.to_dec((d[0] * 10.0 ** d[1]) * (1.0 + rel))


def bump2(d, rel=1e-11):
    return core.to_dec2(((d[0] * 10 ** 8 + d[1]) * 10.0 ** d[2]) * (1.0 + rel))


def main():
    vdw3 = {'kind': 'vdw', 'src': 'selftest', 'a': 0.3640, 'b': 4.267e-5, 'T': 260.0, 'P': 30.0, 'n': 2.5, 'gas': True}
    vdwL = dict(vdw3, gas=False)
    low = {'kind': 'vdw', 'src': 'selftest', 'a': 0.3640, 'b': 4.267e-5, 'T': 400.0, 'P': 2.0, 'n': 2.5, 'gas': True}
    ideal = {'kind': 'ideal', 'T': 412.0, 'P': 3.5, 'n': 0.7}
    crit = {'kind': 'crit', 'from_critical': [304.1, 73.8], 'n': 2.0}
    arr = {'kind': 'array', 'eos': 'vdw', 'src': 'selftest', 'a': 0.3640, 'b': 4.267e-5, 'T': [400.0, 650.0],
           'P': [2.0, 40.0], 'n': [2.5, 0.3], 'gas': False, 'sub': [260.0, 30.0]}
    forms = {'kind': 'forms', 'src': 'selftest', 'eos': 'vdw', 'a': 0.3640, 'b': 4.267e-5,
             'A': {'T': 260.0, 'P': 30.0, 'n': 3.0}, 'B': {'T': 412.5, 'P': 3.5, 'n': 0.7}}
    formsI = {'kind': 'forms', 'src': 'selftest', 'eos': 'ideal',
              'A': {'T': 260.0, 'P': 30.0, 'n': 3.0}, 'B': {'T': 412.5, 'P': 3.5, 'n': 0.7}}
    base = {}
    for name, case in (('vdw3', vdw3), ('vdwL', vdwL), ('low', low), ('ideal', ideal), ('crit', crit), ('arr', arr),
                       ('forms', forms), ('formsI', formsI)):
        evs, det = c20.execute(case)
        base[name] = evs
    assert len(base['vdw3'][0]['roots']) == 3, base['vdw3'][0]['roots']
    plans = [   # (label, base trace, event index, mutation, expected clause)
        ('Vm <- middle root', 'vdw3', 0, lambda e: e.update(Vm=e['roots'][1]), 'RootSelected'),
        ('Vm <- liquid root for gas', 'vdw3', 0, lambda e: e.update(Vm=e['roots'][0]), 'RootSelected'),
        ('Vm <- gas root for liquid', 'vdwL', 0, lambda e: e.update(Vm=e['roots'][2]), 'RootSelected'),
        ('Vm * (1+1e-4)', 'vdw3', 0, lambda e: e.update(Vm=bump(e['Vm'])), 'VdwResidual'),
        ('V * (1+1e-4)', 'vdw3', 0, lambda e: e.update(V=bump(e['V'])), 'VLinearInN'),
        ('Pb * (1+1e-4)', 'vdw3', 0, lambda e: e.update(Pb=bump(e['Pb'])), 'VdwRoundTripP'),
        ('Tb * (1+1e-4)', 'vdw3', 0, lambda e: e.update(Tb=bump(e['Tb'])), 'VdwRoundTripT'),
        ('nb * (1+1e-4)', 'vdw3', 0, lambda e: e.update(nb=bump(e['nb'])), 'VdwRoundTripN'),
        ('V, Vm, Vmw * 1.5 at low density', 'low', 0,
         lambda e: e.update(V=bump(e['V'], 0.5), Vm=bump(e['Vm'], 0.5), Vmw=bump(e['Vmw'], 0.5)), 'IdealLimit'),
        ('a bracketed root * (1+1e-4)', 'vdw3', 0,
         lambda e: e.update(roots=[e['roots'][0], bump(e['roots'][1]), e['roots'][2]]), 'WITNESS'),
        ('ideal V * (1+1e-4)', 'ideal', 0, lambda e: e.update(V=bump(e['V'])), 'IdealEquation'),
        ('ideal Pb * (1+1e-4)', 'ideal', 0, lambda e: e.update(Pb=bump(e['Pb'])), 'IdealRoundTripP'),
        ('ideal Tb * (1+1e-4)', 'ideal', 0, lambda e: e.update(Tb=bump(e['Tb'])), 'IdealRoundTripT'),
        ('ideal nb * (1+1e-4)', 'ideal', 0, lambda e: e.update(nb=bump(e['nb'])), 'IdealRoundTripN'),
        ('ideal V1 * (1+1e-4)', 'ideal', 0, lambda e: e.update(V1=bump(e['V1'])), 'IdealLinearInN'),
        ('Tcb * (1+1e-4)', 'crit', 0, lambda e: e.update(Tcb=bump(e['Tcb'])), 'FromCriticalRoundTrip'),
        ('object a * (1+1e-4)', 'crit', 0, lambda e: e.update(a=bump(e['a'])), 'FromCriticalRelations'),
        ('Pc * (1+1e-4)', 'crit', 1, lambda e: e.update(Pc=bump(e['Pc'])), 'CriticalPressure'),
        ('Tc * (1+1e-4)', 'crit', 1, lambda e: e.update(Tc=bump(e['Tc'])), 'CriticalTemperature'),
        ('Vc * (1+1e-4)', 'crit', 1, lambda e: e.update(Vc=bump(e['Vc'])), 'CriticalVolume'),
        ('VmG * 1.01', 'crit', 1, lambda e: e.update(VmG=bump(e['VmG'], 1e-2)), 'CriticalState'),
        ('array argument reported as modified', 'arr', 0, lambda e: e.update(touched=['get_P:V']), 'InputUntouched'),
        ('array Tb[2] * (1+1e-4)', 'arr', 0, lambda e: e.update(Tb=[e['Tb'][0], bump(e['Tb'][1])]), 'ArrayRoundTripT'),
        ('array Vb[1] * (1+1e-4)', 'arr', 0, lambda e: e.update(Vb=[bump(e['Vb'][0]), e['Vb'][1]]), 'ArrayRoundTripV'),
        ('array element differs from scalar in digit 12', 'arr', 0, lambda e: e['pairs'][3].__setitem__(0, bump2(e['pairs'][3][0])),
         'ArrayIsMapOfScalar'),
        ('array result of wrong shape', 'arr', 0, lambda e: e.update(shapes=False), 'ArrayShape'),
        ('int-argument result differs in digit 12', 'forms', 0, lambda e: e['types'][2].__setitem__(0, bump2(e['types'][2][0])),
         'ArgumentTypeIrrelevant'),
        ('positional result differs', 'forms', 0, lambda e: e['posn'][4].__setitem__(0, bump2(e['posn'][4][0])), 'PositionalIsKeyword'),
        ('default result differs', 'forms', 0, lambda e: e['dflt'][0].__setitem__(0, bump2(e['dflt'][0][0])), 'DefaultIsStandardState'),
        ('ideal get_T() = 299.15', 'formsI', 0, lambda e: e['std'].__setitem__(2, [29915, -2]), 'DefaultIsStandardState'),
        ('rebuilt object differs', 'forms', 0, lambda e: e['ctor'][1].__setitem__(0, bump2(e['ctor'][1][0])), 'RebuiltObjectSameAnswers'),
        ('second call differs', 'forms', 0, lambda e: e['again'][-1].__setitem__(0, bump2(e['again'][-1][0])), 'RepeatableCall'),
        ('object a changed', 'forms', 0, lambda e: e.update(untouched=False), 'ObjectUntouched'),
    ]
    traces = [(0, [copy.deepcopy(e) for n in ('vdw3', 'vdwL', 'low', 'ideal', 'crit', 'arr', 'forms', 'formsI') for e in base[n]])]
    for i, (label, b, idx, mut, exp) in enumerate(plans, start=1):
        evs = copy.deepcopy(base[b])
        mut(evs[idx])
        traces.append((i, evs))
    fails, stats = core.validate_traces('Trace_EOS', 'Trace', traces, shards=4)
    by = {}
    for tid, idx, clause in fails:
        by.setdefault(tid, set()).add(clause)
    ok = by.get(0) is None
    print('unmodified traces: %s' % ('clean' if ok else sorted(by[0])))
    for i, (label, b, idx, mut, exp) in enumerate(plans, start=1):
        got = sorted(by.get(i, []))
        hit = exp in got
        ok = ok and hit
        print('%-36s expected %-22s got %s %s' % (label, exp, got, '' if hit else '<-- MISSED'))
    sys.exit(0 if ok else 1)


if __name__ == '__main__':
    main()
