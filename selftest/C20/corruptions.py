"""C20 binding demo (a): corrupt one recorded field -> the trace spec names the clause.
Run:  cd /verif && PYTHONPATH=/repo:/verif /venv/bin/python selftest/C20/corruptions.py"""
import copy
import sys

from harness import core
from harness.drivers import c20


def bump(d, rel=1e-4):
    return core.to_dec((d[0] * 10.0 ** d[1]) * (1.0 + rel))


def main():
    vdw3 = {'kind': 'vdw', 'src': 'selftest', 'a': 0.3640, 'b': 4.267e-5, 'T': 260.0, 'P': 30.0, 'n': 2.5, 'gas': True}
    vdwL = dict(vdw3, gas=False)
    low = {'kind': 'vdw', 'src': 'selftest', 'a': 0.3640, 'b': 4.267e-5, 'T': 400.0, 'P': 2.0, 'n': 2.5, 'gas': True}
    ideal = {'kind': 'ideal', 'T': 412.0, 'P': 3.5, 'n': 0.7}
    crit = {'kind': 'crit', 'from_critical': [304.1, 73.8], 'n': 2.0}
    base = {}
    for name, case in (('vdw3', vdw3), ('vdwL', vdwL), ('low', low), ('ideal', ideal), ('crit', crit)):
        evs, det = c20.execute(case)
        base[name] = evs
    assert len(base['vdw3'][0]['roots']) == 3, base['vdw3'][0]['roots']
    plans = [   # (label, base trace, event index, mutation, expected clause)
        ('Vm <- middle root', 'vdw3', 0, lambda e: e.update(Vm=e['roots'][1]), 'RootSelected'),
        ('Vm <- liquid root for gas', 'vdw3', 0, lambda e: e.update(Vm=e['roots'][0]), 'RootSelected'),
        ('Vm <- gas root for liquid', 'vdwL', 0, lambda e: e.update(Vm=e['roots'][2]), 'RootSelected'),
        ('Vm * (1+1e-4)', 'vdw3', 0, lambda e: e.update(Vm=bump(e['Vm'])), 'VdwResidual'),
        ('V * (1+1e-4)', 'vdw3', 0, lambda e: e.update(V=bump(e['V'])), 'VLinearInN'),
        ('Pb * (1+1e-4)', 'vdw3', 0, lambda e: e.update(Pb=bump(e['Pb'])), 'VdwRoundTripP'),
        ('Tb * (1+1e-4)', 'vdw3', 0, lambda e: e.update(Tb=bump(e['Tb'])), 'VdwRoundTripT'),
        ('nb * (1+1e-4)', 'vdw3', 0, lambda e: e.update(nb=bump(e['nb'])), 'VdwRoundTripN'),
        ('V, Vm, Vmw * 1.5 at low density', 'low', 0,
         lambda e: e.update(V=bump(e['V'], 0.5), Vm=bump(e['Vm'], 0.5), Vmw=bump(e['Vmw'], 0.5)), 'IdealLimit'),
        ('a bracketed root * (1+1e-4)', 'vdw3', 0,
         lambda e: e.update(roots=[e['roots'][0], bump(e['roots'][1]), e['roots'][2]]), 'WITNESS'),
        ('ideal V * (1+1e-4)', 'ideal', 0, lambda e: e.update(V=bump(e['V'])), 'IdealEquation'),
        ('ideal Pb * (1+1e-4)', 'ideal', 0, lambda e: e.update(Pb=bump(e['Pb'])), 'IdealRoundTripP'),
        ('ideal Tb * (1+1e-4)', 'ideal', 0, lambda e: e.update(Tb=bump(e['Tb'])), 'IdealRoundTripT'),
        ('ideal nb * (1+1e-4)', 'ideal', 0, lambda e: e.update(nb=bump(e['nb'])), 'IdealRoundTripN'),
        ('ideal V1 * (1+1e-4)', 'ideal', 0, lambda e: e.update(V1=bump(e['V1'])), 'IdealLinearInN'),
        ('Tcb * (1+1e-4)', 'crit', 0, lambda e: e.update(Tcb=bump(e['Tcb'])), 'FromCriticalRoundTrip'),
        ('object a * (1+1e-4)', 'crit', 0, lambda e: e.update(a=bump(e['a'])), 'FromCriticalRelations'),
        ('Pc * (1+1e-4)', 'crit', 1, lambda e: e.update(Pc=bump(e['Pc'])), 'CriticalPressure'),
        ('Tc * (1+1e-4)', 'crit', 1, lambda e: e.update(Tc=bump(e['Tc'])), 'CriticalTemperature'),
        ('Vc * (1+1e-4)', 'crit', 1, lambda e: e.update(Vc=bump(e['Vc'])), 'CriticalVolume'),
        ('VmG * 1.01', 'crit', 1, lambda e: e.update(VmG=bump(e['VmG'], 1e-2)), 'CriticalState'),
    ]
    traces = [(0, [copy.deepcopy(e) for n in ('vdw3', 'vdwL', 'low', 'ideal', 'crit') for e in base[n]])]
    for i, (label, b, idx, mut, exp) in enumerate(plans, start=1):
        evs = copy.deepcopy(base[b])
        mut(evs[idx])
        traces.append((i, evs))
    fails, stats = core.validate_traces('Trace_EOS', 'Trace', traces, shards=4)
    by = {}
    for tid, idx, clause in fails:
        by.setdefault(tid, set()).add(clause)
    ok = by.get(0) is None
    print('unmodified traces: %s' % ('clean' if ok else sorted(by[0])))
    for i, (label, b, idx, mut, exp) in enumerate(plans, start=1):
        got = sorted(by.get(i, []))
        hit = exp in got
        ok = ok and hit
        print('%-36s expected %-22s got %s %s' % (label, exp, got, '' if hit else '<-- MISSED'))
    sys.exit(0 if ok else 1)


if __name__ == '__main__':
    main()
