"""C12 binding demonstration (a): corrupt ONE recorded field of a real trace and show
that Trace_Units.tla names the clause.  Run from /verif:
    PYTHONPATH=${VERIF_REPO:-/repo}:/verif /venv/bin/python selftest/C12/corrupt.py
Exit 0 when every corruption is reported under an expected clause (and nothing
outside the expected set appears that the uncorrupted trace did not already show)."""
import copy
import sys

from harness import core
from harness.drivers import c12


class _Ctx:
    seed = 0
    quick = True

    @staticmethod
    def pick(q, t):
        return q


def bump(d, rel=1e-4):
    """change a Dec by about `rel` relative (at least one unit of its last digit)"""
    m, e = d
    while abs(m) < 10 ** 7 and m != 0:
        m *= 10
        e -= 1
    return [m + max(1, int(abs(m) * rel)), e]


def find(evs, **kw):
    for i, e in enumerate(evs):
        if all(e.get(k) == v for k, v in kw.items()):
            return i
    raise SystemExit('event not found: %r' % (kw,))


def main():
    gen, _ = core.tlc_cases('MC_UnitsCases', 'MC_UnitsCases')
    cases = c12._build_cases(_Ctx, gen)
    by = {}
    for cs in cases:
        key = cs['kind'] + ':' + str(cs.get('type', cs.get('u', '')))
        by.setdefault(key, cs)
    base = {}
    for key in ('matrix:length', 'matrix:temp', 'row:J', 'tables:', 'spectro:', 'elements:', 'array:length'):
        evs, mism = c12.execute(by[key])
        base[key] = evs
    L, T, X, TB, SP, EL = (base[k] for k in ('matrix:length', 'matrix:temp', 'row:J', 'tables:',
                                             'spectro:', 'elements:'))
    runs = []          # (description, events, expected clause set)

    def add(desc, evs, expected):
        runs.append((desc, evs, set(expected)))

    ev = copy.deepcopy(L); ev[0]['f'][0][1] = bump(ev[0]['f'][0][1])
    add('factor m->cm off by 1e-4', ev, {'Inverse', 'Transitive', 'Proportional'})
    ev = copy.deepcopy(L); ev[0]['v'][2][3][0] = bump(ev[0]['v'][2][3][0])
    add('one converted value off by 1e-4', ev, {'Proportional'})
    ev = copy.deepcopy(L); ev[0]['f'][4][4] = bump(ev[0]['f'][4][4])
    add('diagonal factor not 1', ev, {'Reflexive', 'Inverse', 'Transitive', 'Proportional'})
    kz = [k for k, d in enumerate(L[0]['nums']) if d[0] == 0][0]
    ev = copy.deepcopy(L); ev[0]['v'][0][1][kz] = ev[0]['f'][0][1]
    add('num = 0 answered with the bare factor', ev, {'ZeroMapsToZero', 'Proportional'})
    ev = copy.deepcopy(L); ev[0]['ok'][1][5] = False
    add('one same-type conversion refused', ev, {'EveryTypedUnitAccepted'})
    ev = copy.deepcopy(L); ev[0]['vp'][1][2] = bump(ev[0]['vp'][1][2])
    add('positional call differs from keyword call', ev, {'PositionalIsKeyword'})
    kh = [k for k, d in enumerate(L[0]['nums']) if d[1] > 150][0]
    ev = copy.deepcopy(L); ev[0]['v'][3][1][kh] = bump(ev[0]['v'][3][1][kh])
    add('value at num = 1e200 off by 1e-4', ev, {'Proportional'})
    iC, iF = T[0]['units'].index('C'), T[0]['units'].index('F')
    ev = copy.deepcopy(T); ev[0]['vp'][iC][iF] = bump(ev[0]['vp'][iC][iF])
    add('positional temperature call differs', ev, {'PositionalIsKeyword'})
    ev = copy.deepcopy(T); ev[0]['v'][iC][iF][2] = bump(ev[0]['v'][iC][iF][2], 1e-3)
    add('C->F value off by 1e-3', ev, {'AffineTemperature', 'Transitive'})
    ev = copy.deepcopy(T); ev[0]['rt'][iF][iC][1] = bump(ev[0]['rt'][iF][iC][1], 1e-3)
    add('F->C->F round trip off', ev, {'Inverse'})
    ev = copy.deepcopy(T); ev[0]['via'][iC][iF][1][0] = bump(ev[0]['via'][iC][iF][1][0], 1e-3)
    add('two-step temperature path off', ev, {'Transitive'})
    k_cross = [i for i, t in enumerate(X[0]['vtypes']) if t not in ('', X[0]['utype'])][0]
    k_same = [i for i, t in enumerate(X[0]['vtypes']) if t == X[0]['utype']][0]
    k_unknown = [i for i, t in enumerate(X[0]['vtypes']) if t == ''][0]
    ev = copy.deepcopy(X); ev[0]['refused'][1][k_cross] = False
    add('a cross-type pair accepted when num is omitted', ev, {'CrossTypeRefused', 'RefusedEveryTime'})
    ev = copy.deepcopy(X); ev[0]['refused'][3][k_cross] = False; ev[0]['exc'][3][k_cross] = ''
    add('a cross-type pair accepted when asked again later', ev, {'CrossTypeRefused', 'RefusedEveryTime'})
    ev = copy.deepcopy(X); ev[0]['exc'][4][k_cross] = 'UnboundLocalError'
    add('another exception type after a successful conversion', ev, {'RefusedEveryTime'})
    ev = copy.deepcopy(X); ev[0]['refused'][2][k_same] = True
    add('a same-type pair refused', ev, {'EveryTypedUnitAccepted'})
    ev = copy.deepcopy(X); ev[0]['refused'][0][k_unknown] = False
    add('an unknown unit accepted', ev, {'UnknownUnitRefused', 'RefusedEveryTime'})

    def tb(desc, expected, **sel):
        def deco(fn):
            ev = copy.deepcopy(TB)
            fn(ev[find(ev, **sel)])
            add(desc, ev, expected)
        return deco

    tb('inch2 factor 1550 -> 1560', {'AreaIsLengthSquared'}, ev='unit', name='inch2')(
        lambda e: e.update(g=[1560, 0]))
    tb('ft3 factor off by 1e-4', {'VolumeIsLengthCubed', 'V0isRT0overP0'}, ev='unit', name='ft3')(
        lambda e: e.update(g=bump(e['g'])))
    tb('L factor 1000 -> 100', {'VolumeDefinition', 'CompositeEnergy', 'RTable', 'V0isRT0overP0'}, ev='unit', name='L')(
        lambda e: e.update(g=[100, 0]))
    tb('eV/molecule factor off by 1e-3', {'PerAmountIsEnergyOverAmount'}, ev='unit', name='eV/molecule')(
        lambda e: e.update(g=bump(e['g'], 1e-3)))
    tb('molec factor off by 1e-4', {'AmountIsAvogadro'}, ev='unit', name='molec')(
        lambda e: e.update(g=bump(e['g'])))
    tb('unit typed under another quantity', {'TypeAgreesWithCatalogue', 'NoteDocumentedUnitTyped'}, ev='unit', name='lbs')(
        lambda e: e.update(type='pressure'))
    tb('R(kJ/mol/K) off by 1e-4', {'KeywordIsPositional', 'RTable', 'NoteDocValue'}, ev='R', key='kJ/mol/K')(
        lambda e: e.update(val=bump(e['val'])))
    tb('R(eV/K) off by 1e-4', {'KeywordIsPositional', 'RTable', 'NoteDocValue'}, ev='R', key='eV/K')(
        lambda e: e.update(val=bump(e['val'])))
    tb('kb(J/K) off by 1e-4', {'KeywordIsPositional', 'KbTable', 'RisKbNa', 'NoteDocValue'}, ev='kb', key='J/K')(
        lambda e: e.update(val=bump(e['val'])))
    tb('h(eV s) off by 1e-4', {'KeywordIsPositional', 'HBarFalseIsDefault', 'HTable', 'HBar', 'NoteDocValue'}, ev='h', key='eV s')(
        lambda e: e.update(val=bump(e['val'])))
    tb('hbar(J s) off by 1e-4', {'HBar', 'HBarPositional'}, ev='h', key='J s')(
        lambda e: e.update(bar=bump(e['bar'])))
    tb('c(cm/s) off by 1e-4', {'KeywordIsPositional', 'CTable', 'NoteDocValue'}, ev='c', key='cm/s')(
        lambda e: e.update(val=bump(e['val'])))
    tb('P0(psi) off by 1e-4', {'KeywordIsPositional', 'P0FromSI', 'NoteDocValue'}, ev='acc', fn='P0', key='psi')(
        lambda e: e.update(val=bump(e['val'])))
    tb('T0(F) 77 -> 78', {'KeywordIsPositional', 'T0FromSI'}, ev='acc', fn='T0', key='F')(
        lambda e: e.update(val=[78, 0]))
    tb('V0(L) off by 1e-4', {'KeywordIsPositional', 'V0isRT0overP0', 'NoteDocValue'}, ev='acc', fn='V0', key='L')(
        lambda e: e.update(val=bump(e['val'])))
    tb('m_e(g) off by 1e-3', {'KeywordIsPositional', 'MassFromTable', 'NoteDocValue'}, ev='acc', fn='m_e', key='g')(
        lambda e: e.update(val=bump(e['val'], 1e-3)))
    tb('P0(kPa) raised', {'AccessorAcceptsTypedUnit', 'NoteDocumentedKeyAccepted'}, ev='acc', fn='P0', key='kPa')(
        lambda e: e.update(raised=True))
    tb('R(units=key) differs from R(key)', {'KeywordIsPositional'}, ev='R', key='L bar/mol/K')(
        lambda e: e.update(kwval=bump(e['kwval'])))
    tb('m_p(units=key) raised', {'KeywordIsPositional'}, ev='acc', fn='m_p', key='lbs')(
        lambda e: e.update(kwval=[0, 0]))
    tb('h(key, bar=False) differs from h(key)', {'HBarFalseIsDefault'}, ev='h', key='Ha s')(
        lambda e: e.update(barF=bump(e['barF'])))
    tb('h(key, True) differs from h(key, bar=True)', {'HBarPositional'}, ev='h', key='kJ s')(
        lambda e: e.update(barpos=bump(e['barpos'])))
    tb('elementary charge off by 1e-4', {'ElementaryChargeIsJoulePerEV'}, ev='const', name='e')(
        lambda e: e.update(val=bump(e['val'])))
    ev = copy.deepcopy(TB); del ev[find(ev, ev='const', name='Na')]
    add('the Na observation deleted', ev, {'AmountIsAvogadro', 'RTable', 'RisKbNa'})

    AR = base['array:length']
    ia = find(AR, ev='array', kind='f64')
    ev = copy.deepcopy(AR); ev[ia]['after'][1][2][1] += 1
    add('caller array differs in the 17th digit after call 2', ev, {'InputUntouched'})
    ev = copy.deepcopy(AR); ev[ia]['y1after'][0][0] += 1
    add('first result changed when reused', ev, {'InputUntouched'})
    ev = copy.deepcopy(AR); ev[ia]['y2'][1][0] += 1000
    add('array result differs from scalar result', ev, {'ArrayIsMapOfScalar', 'ArrayTransitive'})
    ev = copy.deepcopy(AR); ev[ia]['y3'][1][0] += 1000
    add('second conversion of the reused result off', ev, {'ArrayTransitive'})
    ev = copy.deepcopy(AR); ev[ia]['y4'][2][0] += 1000
    add('round trip on the reused result off', ev, {'ArrayInverse'})
    ev = copy.deepcopy(AR); ev[ia]['raised'] = True
    add('float64 array refused (allowed: num is documented as float)', ev, set())
    ev = copy.deepcopy(SP); ev[0]['rt'][0][1] = bump(ev[0]['rt'][0][1])
    add('freq_to_energy(energy_to_freq(x)) off', ev, {'SpectroscopicInverse'})
    ev = copy.deepcopy(SP); ev[0]['via'][3][1][2] = bump(ev[0]['via'][3][1][2])
    add('wavenumber->freq->temp off', ev, {'SpectroscopicTransitive'})
    ev = copy.deepcopy(SP); ev[0]['g3'][2][0] = bump(ev[0]['g3'][2][0])
    add('temp_to_energy(3.7 T) off', ev, {'SpectroscopicProportional'})
    ev = copy.deepcopy(SP); ev[0]['h'] = bump(ev[0]['h'])
    add('h disagrees with energy/freq', ev, {'SpectroscopicDefinition'})
    i = find(SP, ev='inertia')
    ev = copy.deepcopy(SP); ev[i]['th'] = bump(ev[i]['th'])
    add('inertia_to_temp off', ev, {'InertiaInverse', 'RotationalTemperatureDefinition'})
    ev = copy.deepcopy(SP); ev[i]['inertia'] = bump(ev[i]['inertia'])
    add('wavenumber_to_inertia off', ev, {'InertiaDefinition', 'RotationalTemperatureDefinition'})
    i = find(SP, ev='debye')
    ev = copy.deepcopy(SP); ev[i]['back'] = bump(ev[i]['back'])
    add('einstein_to_debye(debye_to_einstein(x)) off', ev, {'DebyeEinsteinInverse'})
    ev = copy.deepcopy(SP); ev[i]['e'] = bump(ev[i]['e'])
    add('debye_to_einstein off', ev, {'DebyeEinsteinDefinition'})

    i = find(SP, ev='helper', kind='i64')
    ev = copy.deepcopy(SP); ev[i]['after'][1][1] += 1
    add('helper changed the caller array', ev, {'InputUntouched'})
    ev = copy.deepcopy(SP); ev[i]['y'][2][0] += 1000
    add('helper array result differs from scalar', ev, {'ArrayIsMapOfScalar'})
    i = find(EL, ev='element', z=118)
    ev = copy.deepcopy(EL); ev[i]['awS']['v'][0] += 1
    add('weight of element 118 by symbol differs', ev, {'ElementLookupAgrees'})
    i = find(EL, ev='element', z=26)
    ev = copy.deepcopy(EL); ev[i]['awS']['v'][1] += 1
    add('weight of Fe by symbol differs in the 17th digit', ev, {'ElementLookupAgrees'})
    ev = copy.deepcopy(EL); ev[i]['sS']['has'] = False
    add('entropy of Fe missing by symbol', ev, {'EntropyLookupAgrees'})
    i = find(EL, ev='mw')
    ev = copy.deepcopy(EL); ev[i]['val'] = bump(ev[i]['val'])
    add('one molar mass off by 1e-4', ev, {'MolarMassIsWeightedSum'})

    # validate: trace 0..5 uncorrupted, then the corrupted ones
    keys = list(base)
    traces = [(k, base[key]) for k, key in enumerate(keys)]
    traces += [(len(keys) + k, evs) for k, (_, evs, _) in enumerate(runs)]
    fails, _ = core.validate_traces('Trace_Units', 'Trace', traces)
    def ident(e):
        return '%s:%s:%s' % (e.get('ev'), e.get('name', e.get('key', '')), e.get('fn', ''))

    evs_of = dict(traces)
    got = {}
    for tid, idx, clause in fails:
        got.setdefault(tid, set()).add((ident(evs_of[tid][idx]), clause))
    bad = 0
    for k, (desc, evs, expected) in enumerate(runs):
        tid = len(keys) + k
        b = {'matrix': 0, 'temp': 1, 'cross': 2, 'array': 6}.get(evs[0]['ev'])
        if b is None:
            b = 3 if any(e['ev'] == 'unit' for e in evs) else (5 if any(e['ev'] == 'element' for e in evs) else 4)
        new = {c for (_, c) in got.get(tid, set()) - got.get(b, set())}
        ok = (bool(new & expected) or not expected) and new <= expected
        bad += 0 if ok else 1
        print('%-52s -> %-50s %s' % (desc, ','.join(sorted(new)) or '-', 'ok' if ok else 'UNEXPECTED (wanted %s)' % sorted(expected)))
    print('uncorrupted traces report: %s' % {keys[t]: sorted(c) for t, c in got.items() if t < len(keys)})
    return 1 if bad else 0


if __name__ == '__main__':
    sys.exit(main())
