"""X01 binding self-test (a): corrupt one recorded field of a clean trace and require the trace
specification to name the clause.  Run from /verif:
  PYTHONPATH=${VERIF_REPO:-/repo}:/verif /venv/bin/python selftest/X01/corrupt.py
(exit 0 = the base trace is clean and every corruption was named by exactly the expected clause)."""
import copy
import sys

from harness import core
from harness.drivers import x01


def O(fam, gas, flag, cov, cs, ts):
    return {'fam': fam, 'gas': gas, 'flag': flag, 'cov': cov, 'cs': cs, 'ts': ts}


def base_case():
    # ids: 1 nasa7 gas, 2 nasa7 surface, 3 shomate surface + coverage model, 4 nasa9 gas disabled
    orig = [O('nasa7', True, True, 0, [1249, -125, 0, 7], [20004, 100006, 350000]),
            O('nasa7', False, True, 0, [995, 135, -12], [29825, 99975, 600000]),
            O('shomate', False, True, 1, [-125, 34], [29800, 60000]),
            O('nasa9', True, False, 0, [995, 0], [20004, 100006, 100006, 600000])]
    ops = [{'act': 'thermdat', 'src': [1, 2], 'dst': [5, 6], 'keep': True},      # ids 5, 6 (nine)
           {'act': 'json', 'src': [5], 'dst': [7], 'keep': True},                # id 7 (nine, inherited)
           {'act': 'thermdat', 'src': [5, 7], 'dst': [5, 7], 'keep': False},     # ids 8, 9: second trips
           {'act': 'deepcopy', 'src': [3], 'dst': [3], 'keep': False},           # id 10
           {'act': 'dict', 'src': [4], 'dst': [8], 'keep': True}]                # id 11
    return {'cid': 'selftest', 'kind': 'grid', 'orig': orig, 'ops': ops, 'seed': 11}


def bump(a, d):
    """Move the low limb of a Dec2 by d units of the 17th digit without leaving its range."""
    sg = -1 if (a[0] < 0 or a[1] < 0) else 1
    lo = abs(a[1])
    lo = lo - d if lo > 50000000 else lo + d
    a[1] = sg * lo


def find(ev, pred):
    for i, e in enumerate(ev):
        if pred(e):
            return i
    raise SystemExit('selftest: event not found')


def corruptions(ev):
    obs = lambda oid, nth=0: [i for i, e in enumerate(ev) if e['ev'] == 'obs' and e['id'] == oid][nth]
    op = lambda n: [i for i, e in enumerate(ev) if e['ev'] == 'op'][n]
    C = []

    def add(name, clauses, fn):
        C.append((name, set(clauses), fn))
    add('name', ['Name'], lambda t: t[obs(5)]['c']['name'].__setitem__(0, 88))
    add('phase', ['Phase'], lambda t: t[obs(6)]['c'].__setitem__('phase', [71]))
    add('element count', ['Elements'], lambda t: t[obs(7)]['c']['el'][0].__setitem__(1, 77))
    add('class of the object', ['Family'], lambda t: t[obs(7)]['c'].__setitem__('fam', 'Shomate'))
    add('exact temperature, 17th digit', ['Temps'], lambda t: bump(t[obs(1, 2)]['c']['T'][1], 1))

    def t_nine(t):                      # + 0.06 K on a temperature of ~1000 K (hi unit 1e-5 K)
        T = t[obs(5)]['c']['T'][1]
        T[0] += 6000
    add('nine-class temperature +0.06 K', ['Temps'], t_nine)
    add('temperature missing', ['TempCount'], lambda t: t[obs(11)]['c']['T'].pop())
    add('exact coefficient, 17th digit', ['Coefs'], lambda t: bump(t[obs(10)]['c']['a'][0][1], 1))
    add('nine-class coefficient, 14th digit', ['Coefs'], lambda t: bump(t[obs(6)]['c']['a'][0][1], 2000))
    add('coefficient missing', ['CoefShape'], lambda t: t[obs(11)]['c']['a'][1].pop())
    add('adjustment lost', ['PAdjCount'], lambda t: t[obs(7)]['c'].__setitem__('misc', []))
    add('adjustment doubled', ['PAdjCount'], lambda t: t[obs(5)]['c']['misc'].append('GasPressureAdj'))
    add('adjustment on a disabled species', ['PAdjCount'], lambda t: t[obs(11)]['c']['misc'].append('GasPressureAdj'))
    add('adjustment on a surface species', ['PAdjCount'], lambda t: t[obs(6)]['c']['misc'].append('GasPressureAdj'))
    add('coverage model lost', ['CovKept'], lambda t: t[obs(10)]['c'].__setitem__('misc', []))
    add('model left as a dictionary', ['CovKept', 'AllDecoded'], lambda t: t[obs(10)]['c'].__setitem__('misc', ['dict']))
    add('foreign model', ['OnlyKnownModels'], lambda t: t[obs(10)]['c']['misc'].append('HarmonicVib'))
    add('flag flipped', ['FlagKept'], lambda t: t[obs(11)]['c'].__setitem__('flag', True))
    add('coefficients in a list', ['CoefArray'], lambda t: t[obs(10)]['c'].__setitem__('arr', False))
    add('units', ['Units'], lambda t: t[obs(10)]['c'].__setitem__('units', 'eV/K'))

    def idem(t):                        # inside the 1e-15 band of the nine class, but not identical
        bump(t[obs(8)]['c']['a'][0][0], 20)
    add('second thermdat trip moved a coefficient by 2e-16', ['ThermdatIdempotent'], idem)
    add('round trip raised', ['Raises'], lambda t: t[op(1)].update(raised=True, dst=[], nout=0))
    add('thermdat returned fewer species', ['ResultCount'], lambda t: t[op(0)].update(nout=1))
    add('thermdat of a Shomate species', ['OpAllowed'], lambda t: t[op(0)].__setitem__('src', [1, 3]))
    add('thermdat of a disabled species', ['OpAllowed'], lambda t: t[op(0)].__setitem__('src', [1, 4]))
    add('result ids', ['Ids'], lambda t: t[op(1)].__setitem__('dst', [9]))
    return C


def cut(ev, after_op):
    """Keep the trace up to (and including) the observations of op number after_op, then end."""
    ops = [i for i, e in enumerate(ev) if e['ev'] == 'op']
    stop = ops[after_op + 1] if after_op + 1 < len(ops) else len(ev) - 1
    return ev[:stop] + [{'ev': 'end'}]


def main():
    events, meta, mism, stats = x01.execute(base_case())
    if mism:
        print('base case has replay mismatches', mism)
        return 1
    fails, _ = core.validate_traces('Trace_Session', 'Trace', [(0, events)])
    if fails:
        print('base trace not clean:', sorted({c for _, _, c in fails}))
        return 1
    jobs, names, want = [], [], []
    for k, (name, clauses, fn) in enumerate(corruptions(events)):
        t = copy.deepcopy(events)
        fn(t)
        if clauses & {'Raises', 'ResultCount', 'OpAllowed', 'Ids'}:
            # the real driver stops a trace at a failed call: keep the prefix
            idx = [i for i, (a, b) in enumerate(zip(t, events)) if a != b][0]
            t = t[:idx + 1]
        jobs.append((k, t))
        names.append(name)
        want.append(clauses)
    # a deleted observation
    t = copy.deepcopy(events)
    del t[[i for i, e in enumerate(t) if e['ev'] == 'obs' and e['id'] == 6][0]]
    jobs.append((len(jobs), t)); names.append('observation deleted'); want.append({'ObsMissing'})
    fails, _ = core.validate_traces('Trace_Session', 'Trace', jobs)
    got = {}
    for tid, idx, clause in fails:
        got.setdefault(tid, set()).add(clause)
    rc = 0
    for k, name in enumerate(names):
        # a missing observation stops the specification's workspace: later lines cascade
        ok = got.get(k, set()) == want[k] or (name == 'observation deleted' and 'ObsMissing' in got.get(k, set()))
        print('%-55s -> %-40s %s' % (name, ' '.join(sorted(got.get(k, set()))) or '(nothing)', 'ok' if ok else 'EXPECTED ' + ' '.join(sorted(want[k]))))
        if not ok:
            rc = 1
    return rc


if __name__ == '__main__':
    sys.path.insert(0, core.REPO)
    sys.exit(main())
