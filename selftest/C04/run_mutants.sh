#!/bin/sh
# C04 binding demonstration (b): every source mutant must be reported as a VIOLATION.
# Each mutant is applied to a scratch worktree of /repo HEAD on top of the proposed C04
# fixes (skipped when already merged), checked with VERIF_REPO, and removed.
HERE="$(cd "$(dirname "$0")/../.." && pwd)"
OUT=$(mktemp -d /tmp/c04_selftest.XXXXXX)
rc=0
for p in "$HERE"/selftest/C04/m*.patch; do
  k=$(basename "$p" .patch)
  wt="$OUT/wt_$k"
  git -C /repo worktree add --detach "$wt" HEAD >/dev/null 2>&1 || { echo "$k: worktree failed"; rc=2; continue; }
  for f in C04_modelbase_elements C04_shomate_S_kwargs; do
    git -C "$wt" apply "$HERE/proposed_fixes/$f.patch" 2>/dev/null
  done
  if git -C "$wt" apply "$p"; then
    VERIF_OUT="$OUT/out_$k" VERIF_REPO="$wt" "$HERE/check" C04 > "$OUT/$k.log" 2>&1
    e=$?
    n=$(grep -c '^VIOLATION' "$OUT/$k.log")
    echo "$k: exit=$e violations=$n $(grep 'violated clause' "$OUT/$k.log" | sed -E 's/.*violated clause ([A-Za-z]*) .*/\1/' | sort -u | tr '\n' ' ')"
    [ "$e" = 1 ] || rc=1
  else
    echo "$k: mutant patch does not apply"; rc=2
  fi
  git -C /repo worktree remove --force "$wt"
done
rm -rf "$OUT"
exit $rc
