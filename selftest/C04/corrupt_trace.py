"""C04 binding demonstration (a): corrupt one recorded field, the trace spec names the clause.

Run on a tree where the check is green, e.g.
  PYTHONPATH=/tmp/wt_C04:/verif /venv/bin/python -W ignore selftest/C04/corrupt_trace.py
Prints one line per corruption: expected clause, clauses reported by Trace_UnitsWrap.tla.
"""
import copy
import sys

from harness import core
from harness.drivers import c04


def bump(dec, rel_digit=4):
    m, e = dec
    d = len(str(abs(m)))
    return [m + (1 if m >= 0 else -1) * 10 ** max(0, d - rel_digit), e]


def main():
    ctx = core.Ctx('C04', 'quick', 0, 'model_checking')
    data, _ = core.tlc_cases('MC_UnitsWrap', 'MC_UnitsWrap')
    jobs = c04.make_jobs(ctx, data)

    def find(pred):
        for j in jobs:
            if pred(j['cell']):
                return j
        raise SystemExit('no such cell')
    j_energy = find(lambda c: c['cls'] == 'Nasa' and c['q'] == 'G' and c['opts'] == ['P', 'S_elements', 'x']
                    and c['shape'] == 'scalar')
    j_arr = find(lambda c: c['cls'] == 'Nasa9' and c['q'] == 'H' and c['shape'] == 'array' and c['opts'] == ['x'])
    j_rxn = find(lambda c: c['cls'] == 'Reaction' and c['getter'] == 'get_delta_G' and c['opts'] == ['P', 'act', 'rev'])
    base = {}
    for name, j in (('energy', j_energy), ('array', j_arr), ('rxn', j_rxn)):
        ev, mism, info = c04.execute(j)
        assert not mism, mism
        base[name] = ev
    fails, _ = core.validate_traces('Trace_UnitsWrap', 'Trace', [(i, e) for i, e in enumerate(base.values())])
    print('uncorrupted traces:', fails or 'no clause fails')
    if fails:
        sys.exit(1)

    def idx(ev, kind, pred=lambda e: True):
        return next(i for i, e in enumerate(ev) if e['ev'] == kind and pred(e))
    trials = []

    def trial(expect, name, mutate):
        ev = copy.deepcopy(base[name])
        mutate(ev)
        trials.append((expect, ev))
    molar = lambda e: e['per'] in ('mol', 'molecule')
    mass = lambda e: e['per'] in ('g', 'kg')
    trial('UnitsTimesR', 'energy', lambda ev: ev[idx(ev, 'dim', molar)].__setitem__('X', [bump(ev[idx(ev, 'dim', molar)]['X'][0])]))
    trial('PerMass', 'energy', lambda ev: ev[idx(ev, 'dim', mass)].__setitem__('X', [bump(ev[idx(ev, 'dim', mass)]['X'][0])]))
    trial('UnitsTimesR', 'energy', lambda ev: ev[0].__setitem__('T', [bump(ev[0]['T'][0])]))          # all dim lines fail
    trial('RTable', 'energy', lambda ev: ev[idx(ev, 'dim')].__setitem__('R', bump(ev[idx(ev, 'dim')]['R'], 6)))
    trial('Raises', 'rxn', lambda ev: ev[idx(ev, 'dim')].update({'ok': False, 'exc': 'KeyError', 'X': []}))
    trial('TwoUnitsRatio', 'rxn', lambda ev: ev[2].__setitem__('X', [bump(ev[2]['X'][0])]))
    trial('OptionActsOnBoth', 'rxn', lambda ev: ev[idx(ev, 'focus')].__setitem__('X0', [bump(ev[idx(ev, 'focus')]['X0'][0])]))
    trial('AtomicWeightTable', 'energy', lambda ev: ev[0]['aw'].__setitem__('H', [1018, -3]))
    trial('Shape', 'array', lambda ev: ev[idx(ev, 'dim')].__setitem__('X', ev[idx(ev, 'dim')]['X'][:2]))
    trial('UnitsTimesR', 'array', lambda ev: ev[idx(ev, 'dim', molar)]['X'].__setitem__(2, bump(ev[idx(ev, 'dim', molar)]['X'][2])))
    fails, _ = core.validate_traces('Trace_UnitsWrap', 'Trace', [(i, ev) for i, (_, ev) in enumerate(trials)])
    bad = 0
    for i, (expect, ev) in enumerate(trials):
        got = sorted({c for t, _, c in fails if t == i})
        ok = expect in got
        bad += 0 if ok else 1
        print('%-18s -> %s %s' % (expect, got, '' if ok else '  <-- NOT NAMED'))
    sys.exit(1 if bad else 0)


if __name__ == '__main__':
    main()
