"""C11 binding demonstration (a): record one real lifecycle, corrupt ONE recorded field at a
time and show that Trace_JsonRoundTrip.tla names the clause.

Run:  cd /verif && PYTHONPATH=${VERIF_REPO:-/repo}:/verif /venv/bin/python selftest/C11/corrupt_trace.py
Writes nothing under /verif (no evidence file, no replay)."""
import copy
import json
import os
import sys
import warnings

sys.path.insert(0, os.environ.get('VERIF_REPO', '/repo'))
warnings.simplefilter('ignore')
from harness import core, lib_c11      # noqa: E402

data, _ = core.tlc_cases('Cases_JsonRoundTrip', 'Cases_JsonRoundTrip_required_d0')
schema, attrs = data['schema'], data['attrs']
tree = [c['t'] for c in data['cases'] if c['t']['c'] == 'Nasa'][0]
tree = json.loads(json.dumps(tree))
tree['k']['cat_site'] = [{'c': 'CatSite', 'k': []}]
case = {'tree': tree, 'life': ['Encode', 'DecodeDict', 'DecodeAgain', 'Load'], 'seed': 11}
events, mism, _obs = lib_c11.run_lifecycle(case, schema, attrs)


def find(pred):
    return next(i for i, e in enumerate(events) if pred(e))


def corrupt(label, fn):
    evs = copy.deepcopy(events)
    fn(evs)
    return label, evs


i_node = find(lambda e: e['ev'] == 'node' and e['act'] == 'dict' and e['path'] == [])
i_kid = find(lambda e: e['ev'] == 'node' and e['act'] == 'dict' and e['path'] == ['cat_site', '0'])
i_get = find(lambda e: e['ev'] == 'getters' and e['act'] == 'dict' and e['path'] == [])
i_dict = find(lambda e: e['ev'] == 'dictnode' and e['act'] == 'dict')
i_re = find(lambda e: e['ev'] == 'renode')
i_call = find(lambda e: e['ev'] == 'call' and e['name'] == 'DecodeDict')


def set_attr(evs):
    a = evs[i_node]['attrs'][0]
    a[3] = ['s', 'corrupted']


def set_getter(evs):
    it = evs[i_get]['items'][1]
    v = it[2]['vals'][0]
    v[1] += 100000 if v[0] >= 0 else -100000  # 12th significant digit (tolerance is the 13th)


def drop_encode(evs):
    del evs[find(lambda e: e['ev'] == 'call' and e['name'] == 'Encode')]


variants = [
    ('unchanged', list(events)),
    corrupt('attribute value after decode', set_attr),
    corrupt('getter value after decode (12th digit)', set_getter),
    corrupt('root comes back as an untagged dictionary', lambda evs: evs[i_node].update(kind='dict', tagok=False)),
    corrupt('child left as a registered dictionary', lambda evs: evs[i_kid].update(kind='dict', tagok=True)),
    corrupt('child of another class', lambda evs: evs[i_kid].update(gotcls='BEP')),
    corrupt('one child missing in a slot', lambda evs: evs[i_node]['slots'][0].__setitem__(2, evs[i_node]['slots'][0][2] + 1)),
    corrupt("caller's dictionary changed", lambda evs: evs[i_dict].update(after=evs[i_dict]['after'] + ' ')),
    corrupt('second decode returns a dictionary', lambda evs: evs[i_re].update(kind='dict')),
    corrupt('decode raised', lambda evs: evs[i_call].update(raised=True, err='KeyError', where='Nasa')),
    corrupt('Encode call removed from the record', drop_encode),
]
traces = [(k, evs) for k, (label, evs) in enumerate(variants)]
fails, stats = core.validate_traces('Trace_JsonRoundTrip', 'Trace', traces, shards=4)
by = {}
for tid, idx, clause in fails:
    if not clause.startswith('~'):           # '~judged:N' is the spec's vacuity counter
        by.setdefault(tid, set()).add(clause)
base = by.get(0, set())
print('recorded lifecycle: %d lines; clauses failing on the unchanged record: %s' % (len(events), sorted(base) or 'none'))
for k, (label, evs) in enumerate(variants[1:], start=1):
    print('%-45s -> %s' % (label, sorted(by.get(k, set()) - base) or 'NOT DETECTED'))
