"""Binding demonstration for X03: a recorded run of the real organize_phases is judged by
Trace_OrganizePhases.tla; corrupting one recorded field makes TLC name the clause(s).
run:  PYTHONPATH=${VERIF_REPO:-/repo}:/verif /venv/bin/python -W ignore selftest/X03/corrupt_traces.py
(on a tree without the proposed X03 fixes the recorded trace already fails some clauses; the
script then shows which clauses each corruption ADDS)
"""
import copy
import sys

from harness import core
from harness.drivers import x03

CASE = {'cid': 'demo', 'src': 'demo',
        'ph': [{'name': 'gas', 'kind': 'gas', 'kw': {}},
               {'name': 'bulk', 'kind': 'bulk', 'kw': {'density': 12.4}},
               {'name': 'terrace', 'kind': 'iface',
                'kw': {'site_density': 2.1671e-09, 'phases': ['gas', 'bulk'], 'note': 'Ru(0001)'}}],
        'sp': [{'name': 'H2', 'phase': 'gas'}, {'name': 'RU(B)', 'phase': 'bulk'},
               {'name': 'RU(T)', 'phase': 'terrace'}, {'name': 'H(T)', 'phase': 'terrace'}],
        'rx': [{'id': 'r_0000', 'lhs': ['H2', 'RU(T)'], 'rhs': ['H(T)', 'RU(B)']},
               {'id': 'r_0001', 'lhs': ['H2'], 'rhs': ['H2']}],
        'ia': [{'name': 'i_0000', 'i': 'H(T)', 'j': 'H(T)'}],
        'spgiven': True, 'rxgiven': True, 'iagiven': True, 'ops': ['call']}


def clauses(events):
    fails, _ = core.validate_traces('Trace_OrganizePhases', 'Trace', [(0, events)], shards=1)
    return set(c for _, _, c in fails)


def main():
    _, ev, _ = x03.execute(CASE)
    base = clauses(ev)
    print('%-58s -> %s' % ('as recorded', sorted(base)))
    first = next(k for k, e in enumerate(ev) if e['ev'] == 'organize')
    hsp = next(k for k, e in enumerate(ev) if e['ev'] == 'helper' and e['which'] == 'species')
    ok = True

    def show(label, edit, expect):
        nonlocal ok
        e = copy.deepcopy(ev)
        edit(e)
        added = clauses(e) - base
        good = set(expect) <= added | base and (added or set(expect) <= base)
        ok &= bool(good)
        print('%-58s -> adds %-60s %s' % (label, sorted(added), 'as expected' if good else 'EXPECTED %s' % expect))

    def move_species(e):
        e[first]['res'][2]['species'].remove('H(T)')
        e[first]['res'][0]['species'].append('H(T)')
    show('a species listed by another phase', move_species, ['SpeciesInThePhaseItNames', 'ResultIsRequired'])
    show('a species listed twice', lambda e: e[first]['res'][2]['species'].append('H(T)'),
         ['SpeciesInExactlyOnePhase', 'ResultIsRequired'])
    show('a species dropped', lambda e: e[first]['res'][1]['species'].clear(),
         ['SpeciesInExactlyOnePhase', 'ResultIsRequired'])
    show('the adsorption also listed by the gas phase', lambda e: e[first]['res'][0]['reactions'].append('r_0000'),
         ['ReactionInExactlyOnePhase', 'ReactionInItsHomePhase', 'ResultIsRequired'])
    show('a reaction dropped', lambda e: e[first]['res'][2]['reactions'].clear(),
         ['ReactionInExactlyOnePhase', 'ResultIsRequired'])
    show('the interaction dropped', lambda e: e[first]['res'][2]['inters'].clear(),
         ['InteractionInExactlyOnePhase', 'ResultIsRequired'])
    show('the interaction listed by the gas phase', lambda e: (e[first]['res'][2]['inters'].clear(),
                                                               e[first]['res'][0]['inters'].append('i_0000')),
         ['InteractionInThePhaseOfItsSpecies', 'ResultIsRequired'])
    show('an unknown species listed', lambda e: e[first]['res'][0]['species'].append('O2'),
         ['NothingInvented', 'ResultIsRequired'])
    show('a phase of another class', lambda e: e[first]['res'][1].update(cls='IdealGas'),
         ['PhasesAsDescribed', 'ResultIsRequired'])
    show('phase_type missing from a description afterwards',
         lambda e: e[first].update(keys_after=[[k for k in ks if k != 'phase_type'] for ks in e[first]['keys_before']]),
         ['CallerDescriptionsUntouched'])
    show('the caller\'s species list shortened', lambda e: e[first]['lists_after'][0].pop(),
         ['CallerListsUntouched'])
    show('a keyword not forwarded', lambda e: e[first]['kw_got'][1][0].__setitem__(1, 'None'),
         ['KwargsForwarded'])
    show('the call raised', lambda e: e[first].update(raised=True), ['Raises'])
    show('helper: a key that is an object', lambda e: e[hsp]['res'][0].__setitem__(0, ['obj', 'gas']),
         ['HelperKeysArePhaseNames', 'HelperSpeciesExact'])
    show('helper: a species under another phase', lambda e: e[hsp]['res'][0][1].append('H(T)'),
         ['HelperSpeciesExact'])
    hrx = next(k for k, e in enumerate(ev) if e['ev'] == 'helper' and e['which'] == 'reactions')
    hia = next(k for k, e in enumerate(ev) if e['ev'] == 'helper' and e['which'] == 'interactions')
    show('helper: the adsorption missing under the gas phase',
         lambda e: [x[1].remove('r_0000') for x in e[hrx]['res'] if x[0] == ['str', 'gas']], ['HelperReactionsExact'])
    show('helper: the interaction twice', lambda e: e[hia]['res'][0][1].append('i_0000'),
         ['HelperInteractionsExact'])
    show('helper: raised', lambda e: e[hia].update(raised=True), ['HelperRaises'])
    print('ALL AS EXPECTED' if ok else 'SOME CORRUPTION WAS NOT NAMED')
    sys.exit(0 if ok else 1)


if __name__ == '__main__':
    main()
