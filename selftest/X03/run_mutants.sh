#!/bin/sh
# Applies every X03 mutant (selftest/X03/*.patch, not the *.onfix.patch variants) to a scratch
# worktree of /repo's HEAD - the UNCHANGED tree, on which ./check X03 exits 0 with the three known
# findings X03-F1..F3 - and expects ./check X03 to print VIOLATION lines (violations that are NOT
# known findings).  `ONFIX=1 sh selftest/X03/run_mutants.sh` applies proposed_fixes/X03_*.patch first
# (the repaired tree, no known finding left) and prefers <name>.onfix.patch where one exists.
# usage: sh selftest/X03/run_mutants.sh [mutant-name ...]
HERE="$(cd "$(dirname "$0")/../.." && pwd)"
WT=$(mktemp -d /tmp/wt_X03_mut.XXXXXX)
OUTD=$(mktemp -d /tmp/x03_mut_out.XXXXXX)
rmdir "$WT"
git -C /repo worktree add --detach "$WT" HEAD >/dev/null 2>&1 || exit 2
trap 'git -C /repo worktree remove --force "$WT" >/dev/null 2>&1; rm -rf "$OUTD"' EXIT
if [ "${ONFIX:-0}" = 1 ]; then
  for FIX in "$HERE"/proposed_fixes/X03_*.patch; do
    if git -C "$WT" apply --check "$FIX" 2>/dev/null; then git -C "$WT" apply "$FIX"; echo "applied $(basename "$FIX")"; fi
  done
fi
BASE=$(cd "$HERE" && VERIF_OUT="$OUTD" VERIF_REPO="$WT" ./check X03 --tier quick 2>&1)
echo "UNMUTATED: $(echo "$BASE" | grep -c '^VIOLATION') VIOLATION lines, $(echo "$BASE" | grep -c '^KNOWN-FINDING') KNOWN-FINDING lines :: $(echo "$BASE" | tail -1)"
NAMES="$*"
[ -z "$NAMES" ] && NAMES=$(ls "$HERE"/selftest/X03/*.patch | xargs -n1 basename | sed 's/\.onfix\.patch$//; s/\.patch$//' | sort -u)
RC=0
for n in $NAMES; do
  P="$HERE/selftest/X03/$n.patch"
  [ "${ONFIX:-0}" = 1 ] && [ -f "$HERE/selftest/X03/$n.onfix.patch" ] && P="$HERE/selftest/X03/$n.onfix.patch"
  git -C "$WT" apply "$P" || { echo "MUTANT $n: patch does not apply"; RC=2; continue; }
  OUT=$(cd "$HERE" && VERIF_OUT="$OUTD" VERIF_REPO="$WT" ./check X03 --tier quick 2>&1)
  CL=$(echo "$OUT" | grep 'violated clause' | awk '{print $3}' | sort -u | tr '\n' ' ')
  if echo "$OUT" | grep -q '^VIOLATION'; then echo "MUTANT $n: CAUGHT  $CL"; else echo "MUTANT $n: MISSED"; echo "$OUT" | tail -3; RC=1; fi
  git -C "$WT" apply -R "$P"
done
exit $RC
