"""Binding demonstration (a) for C15: a recorded call of the real read_excel is accepted by
Trace_ExcelReader.tla; corrupting one recorded field makes TLC name the clause.
run:  PYTHONPATH=${VERIF_REPO:-/repo}:/verif /venv/bin/python -W ignore selftest/C15/corrupt_traces.py
"""
import copy
import sys

from harness import core
from harness.drivers import c15
from harness.drivers.c15 import codes


def N(x):
    return {'t': 'n', 'v': core.to_dec(x)}


def S(s):
    return {'t': 's', 'v': codes(s)}


E = {'t': 'e', 'v': []}

HEADERS = [' name ', 'element.O', 'elements.H', 'vib_wavenumber', 'vib_wavenumber', 'rot_temperature',
           'list.sites', 'list.sites', 'dict.misc.a', 'dict.misc.b', 'nasa.a_low.0', 'nasa.a_low.6',
           'statmech_model', 'vib_model', 'potentialenergy']
ROWS = [[S(' CO2 '), N(2), E, N(100.5), N(200), N(3.25), S('top'), S(' fcc'), N(1), S('x'), N(1.5), N(2.5),
         S('IdealGas'), S('QRRHOVib'), N(-1.25)],
        [S('H2'), E, N(4), E, N(4400), E, E, N(7), E, N(8), E, E, S(' harmonic '), E, E],
        [S('O2'), N(2), E, N(1580), E, N(2.08), E, E, E, E, E, N(9), E, S('emptymode'), N(-9.5)]]


def show(label, events, expect):
    fails, _ = core.validate_traces('Trace_ExcelReader', 'Trace', [(0, events)], shards=1)
    got = sorted(set(c for _, _, c in fails))
    ok = got == sorted(expect)
    print('%-58s -> %-44s %s' % (label, got, 'as expected' if ok else 'EXPECTED %s' % sorted(expect)))
    return ok


def key(rec, name):
    for p in rec:
        if c15.text(p[0]) == name:
            return p
    raise KeyError(name)


def main():
    case = {'kind': 'selftest', 'headers': [codes(h) for h in HEADERS], 'rows': ROWS, 'comment': True}
    (evs, mism, info), = c15.execute_book([case])
    ev = evs[0]
    if info['raised']:
        sys.exit('the real reader raised: ' + info['raised'])
    ok = show('as recorded from the real read_excel', [ev], [])

    def corrupt(label, fn, expect):
        e = copy.deepcopy(ev)
        fn(e)
        return show(label, [e], expect)

    R = lambda e, k: e['records'][k]
    ok &= corrupt('one vib_wavenumber changed',
                  lambda e: key(R(e, 0), 'vib_wavenumbers')[1]['v'].__setitem__(1, N(201)), ['VibList'])
    ok &= corrupt('vib_wavenumbers reversed',
                  lambda e: key(R(e, 0), 'vib_wavenumbers')[1]['v'].reverse(), ['VibList'])
    ok &= corrupt('rot_temperature changed',
                  lambda e: key(R(e, 2), 'rot_temperatures')[1]['v'].__setitem__(0, N(2.09)), ['RotList'])
    ok &= corrupt('two records swapped', lambda e: e['records'].reverse(), ['RowOrder'])
    ok &= corrupt('last record dropped', lambda e: e['records'].pop(), ['OneRecordPerRow'])
    ok &= corrupt('a missing value inside a list',
                  lambda e: key(R(e, 1), 'vib_wavenumbers')[1]['v'].append({'t': 'nan', 'v': []}),
                  ['NoEmptyCells', 'VibList'])
    ok &= corrupt('an empty cell stored under its header',
                  lambda e: R(e, 1).append([codes('potentialenergy'), {'t': 'nan', 'v': []}]),
                  ['ExactKeys', 'NoEmptyCells', 'OrdinaryPassThrough'])
    ok &= corrupt("row 1's value appended to row 2's list",
                  lambda e: key(R(e, 1), 'vib_wavenumbers')[1]['v'].append(N(200)), ['NoLeak', 'VibList'])
    ok &= corrupt("row 1's composition kept in row 2",
                  lambda e: key(R(e, 1), 'elements')[1]['v'].append([codes('O'), N(2)]), ['Composition', 'NoLeak'])
    ok &= corrupt('a string cell not trimmed',
                  lambda e: key(R(e, 0), 'name')[1].__setitem__('v', codes(' CO2 ')),
                  ['CellTrimmed', 'OrdinaryPassThrough'])
    ok &= corrupt('a header not trimmed',
                  lambda e: key(R(e, 0), 'name').__setitem__(0, codes('name ')),
                  ['ExactKeys', 'HeaderTrimmed', 'OrdinaryPassThrough'])
    ok &= corrupt('composition count changed',
                  lambda e: key(R(e, 1), 'elements')[1]['v'][0].__setitem__(1, N(3)), ['Composition'])
    ok &= corrupt('preset class replaced (rot_model of idealgas)',
                  lambda e: key(R(e, 0), 'rot_model')[1].__setitem__('v', codes('pmutt.statmech.EmptyMode')),
                  ['Presets'])
    ok &= corrupt('preset overwrote the explicit vib_model',
                  lambda e: key(R(e, 0), 'vib_model')[1].__setitem__('v', codes('pmutt.statmech.vib.HarmonicVib')),
                  ['ModeModel'])
    ok &= corrupt('n_degrees of the idealgas preset lost',
                  lambda e: R(e, 0).remove(key(R(e, 0), 'n_degrees')), ['ExactKeys', 'Presets'])
    ok &= corrupt('model key lost on a row with vib_model only',
                  lambda e: R(e, 2).remove(key(R(e, 2), 'model')), ['ExactKeys', 'ModeModel'])
    ok &= corrupt('a_low coefficient moved to another index',
                  lambda e: key(R(e, 0), 'a_low')[1]['v'].insert(0, key(R(e, 0), 'a_low')[1]['v'].pop()),
                  ['NasaArrays'])
    ok &= corrupt('dictionary key renamed',
                  lambda e: key(R(e, 0), 'misc')[1]['v'][0].__setitem__(0, codes('c')), ['DictField'])
    ok &= corrupt('list field order swapped',
                  lambda e: key(R(e, 0), 'sites')[1]['v'].reverse(), ['ListField'])
    ok &= corrupt('list field cut short',
                  lambda e: key(R(e, 0), 'sites')[1]['v'].pop(), ['ListField'])
    ok &= corrupt('vib_wavenumbers cut short',
                  lambda e: key(R(e, 0), 'vib_wavenumbers')[1]['v'].pop(), ['VibList'])
    ok &= corrupt('an extra key',
                  lambda e: R(e, 2).append([codes('extra'), N(12345)]), ['ExactKeys'])
    ok &= corrupt('the call raised', lambda e: e.update(raised='ValueError', records=[]), ['Raises'])
    ok &= corrupt('unknown event', lambda e: e.update(ev='write'), ['UnknownEvent'])
    ok &= corrupt('a header outside the documented forms',
                  lambda e: e['headers'].__setitem__(14, codes('n_elements_extra')), ['OutsideQuantifier'])
    # a dropped line is caught by the consumed-length check of validate_traces (MachineryError)
    print('ALL AS EXPECTED' if ok else 'SOME CORRUPTIONS WERE NOT NAMED AS EXPECTED')
    sys.exit(0 if ok else 1)


if __name__ == '__main__':
    main()
