"""Binding demonstration (b) for C15: every source mutant under selftest/C15/*.patch is applied
to a scratch worktree of /repo (with the proposed C15 fixes applied first when /repo does not
contain them yet, so that the unmutated tree is green) and `./check C15 --tier quick` must
report VIOLATIONs.

usage:  /venv/bin/python selftest/C15/run_mutants.py [-j N] [mutant-name ...]
"""
import concurrent.futures as cf
import glob
import os
import re
import shutil
import subprocess
import sys
import tempfile

HERE = os.path.dirname(os.path.dirname(os.path.dirname(os.path.abspath(__file__))))
FIXES = sorted(glob.glob(os.path.join(HERE, 'proposed_fixes', 'C15_*.patch')))


def sh(*cmd, **kw):
    return subprocess.run(cmd, stdout=subprocess.PIPE, stderr=subprocess.STDOUT, text=True, **kw)


def run_one(name):
    wt = tempfile.mkdtemp(prefix='wt_C15_mut_')
    os.rmdir(wt)
    out = tempfile.mkdtemp(prefix='c15_mut_out_')
    try:
        if sh('git', '-C', '/repo', 'worktree', 'add', '--detach', wt, 'HEAD').returncode:
            return name, 'ERROR', 'worktree'
        onfix = False
        for fx in FIXES:
            if sh('git', '-C', wt, 'apply', '--check', fx).returncode == 0:
                sh('git', '-C', wt, 'apply', fx)
                onfix = True
            elif sh('git', '-C', wt, 'apply', '-R', '--check', fx).returncode == 0:
                onfix = True                 # /repo already contains this fix
        if name == 'BASE':
            patch = None
        else:
            patch = os.path.join(HERE, 'selftest', 'C15', name + '.patch')
            alt = os.path.join(HERE, 'selftest', 'C15', name + '.onfix.patch')
            if os.path.exists(alt) and (onfix or not os.path.exists(patch)):
                patch = alt
            r = sh('git', '-C', wt, 'apply', patch)
            if r.returncode:
                return name, 'ERROR', 'patch does not apply: ' + r.stdout.strip()
        env = dict(os.environ, VERIF_REPO=wt, VERIF_OUT=out)
        r = sh(os.path.join(HERE, 'check'), 'C15', '--tier', 'quick', env=env)
        clauses = {}
        for m in re.finditer(r'violated clause (\S+) tags=\S.*?: (\d+) observation', r.stdout):
            clauses[m.group(1)] = clauses.get(m.group(1), 0) + int(m.group(2))
        summary = ' '.join('%s:%d' % kv for kv in sorted(clauses.items()))
        if r.returncode == 1 and 'VIOLATION' in r.stdout:
            return name, 'CAUGHT', summary
        if r.returncode == 0:
            return name, 'MISSED' if name != 'BASE' else 'GREEN', r.stdout.strip().splitlines()[-1]
        return name, 'ERROR', r.stdout[-600:]
    finally:
        sh('git', '-C', '/repo', 'worktree', 'remove', '--force', wt)
        shutil.rmtree(wt, ignore_errors=True)
        shutil.rmtree(out, ignore_errors=True)


def main():
    args = sys.argv[1:]
    jobs = 1
    if args[:1] == ['-j']:
        jobs = int(args[1])
        args = args[2:]
    names = args or (['BASE'] + sorted({re.sub(r'(\.onfix)?\.patch$', '', os.path.basename(p))
                                        for p in glob.glob(os.path.join(HERE, 'selftest', 'C15', '*.patch'))}))
    rc = 0
    with cf.ThreadPoolExecutor(max_workers=jobs) as ex:
        for name, verdict, info in ex.map(run_one, names):
            print('MUTANT %-26s %-7s %s' % (name, verdict, info), flush=True)
            if verdict in ('MISSED', 'ERROR') or (name == 'BASE' and verdict != 'GREEN'):
                rc = 1
    sys.exit(rc)


if __name__ == '__main__':
    main()
