#!/bin/sh
# X05 binding self-test (b): source mutants and recorder defects.
#   sh selftest/X05/run_mutants.sh          (creates and removes its own scratch worktrees; never touches /repo)
# 1. every selftest/X05/m*.patch is applied to a scratch worktree; ./check X05 must exit 1 with a VIOLATION,
#    and the repository's own suite is run on the same worktree to show whether its pinned numbers notice.
# 2. the recorder itself is run with one design decision switched off (X05_RECORDER_DEFECT); the replay of
#    TLC's behaviours (clause ReplayProtocol) and / or Trace_SuiteTraces must notice.
HERE="$(cd "$(dirname "$0")/../.." && pwd)"
cd "$HERE" || exit 2
rc=0
/venv/bin/python tools/selftest.py X05 || rc=1
for p in selftest/X05/m*.patch; do
  WT=$(mktemp -d /tmp/wt_x05s.XXXXXX); rmdir "$WT"
  git -C /repo worktree add -q --detach "$WT" HEAD
  git -C "$WT" apply "$HERE/$p"
  n=$(cd "$WT" && env -u PMUTT_VERIF PYTHONDONTWRITEBYTECODE=1 /venv/bin/python -W ignore -m pytest -q -p no:cacheprovider \
        --ignore=pmutt/tests/input_output/test_pmutt_io_gaussian.py pmutt/tests 2>&1 | tail -1)
  echo "$(basename "$p"): repository suite alone: $n"
  git -C /repo worktree remove --force "$WT"
done
OUT=$(mktemp -d)
for d in noclear byobject nested noguard; do
  X05_RECORDER_DEFECT=$d VERIF_OUT="$OUT" VERIF_MAX_REPLAYS=2 ./check X05 > "$OUT/log" 2>&1
  code=$?
  clauses=$(grep 'violated clause' "$OUT/log" | sed 's/.*violated clause \([A-Za-z0-9_]*\).*/\1/' | sort | uniq -c | tr '\n' ' ')
  echo "recorder defect $d: exit=$code clauses: $clauses"
  [ $code -eq 1 ] || rc=1
done
rm -rf "$OUT"
exit $rc
