"""X05 binding self-test (a): record four real tests under the suite recorder, check that the base
traces are clean (apart from nothing: these tests involve no known finding), then corrupt ONE
recorded field at a time and require the trace specification to name the expected clause.
Run from /verif:
  PYTHONPATH=${VERIF_REPO:-/repo}:/verif /venv/bin/python selftest/X05/corrupt.py
(exit 0 = the base traces are clean and every corruption was named)."""
import copy
import shutil
import sys
import tempfile

from harness import core
from harness.drivers import x05

NODES = ['pmutt/tests/statmech/test_pmutt_statmech.py::TestStatMech::test_get_GoRT',
         'pmutt/tests/empirical/test_pmutt_empirical_Nasa.py::TestNasa::test_get_GoRT',
         'pmutt/tests/reaction/test_pmutt_reaction.py::TestReaction::test_get_delta_GoRT',
         'pmutt/tests/statmech/test_pmutt_statmech_vib.py::TestHarmonicVib::test_get_SoR']


def bump(d, rel=1e-3):
    """change a Dec <<m, e>> by ~rel"""
    d[0] = d[0] + max(1, int(abs(d[0]) * rel))


def main():
    work = tempfile.mkdtemp(prefix='x05_corrupt_')
    try:
        records, outcomes, tail, wall = x05.run_suite(work, NODES)
    finally:
        shutil.rmtree(work, ignore_errors=True)
    by_spec = {}
    proto = {}
    order = []
    for r in records:
        if r['k'] == 'ev':
            by_spec.setdefault(r['spec'], []).append(r['e'])
            proto[r['test']].append({'ev': 'emit', 'test': r['test'], 'oid': r['oid'], 'cid': r['cid']})
        elif r['k'] == 'proto':
            if r['ev'] == 'start':
                order.append(r['test'])
                proto[r['test']] = []
            e = {'ev': r['ev'], 'test': r['test']}
            e.update({k: r[k] for k in ('oid', 'cid', 'n', 'raised', 'finite') if k in r})
            proto[r['test']].append(e)
    print('recorded: %s; protocol lines %d' % ({k: len(v) for k, v in by_spec.items()},
                                               sum(len(v) for v in proto.values())))
    ok = True

    def judge(spec, events):
        fails, _ = core.validate_traces(spec, x05.SPEC_CFG[spec], [(0, events)], shards=1)
        return sorted({c for _, _, c in fails})

    base = {s: judge(s, evs) for s, evs in by_spec.items()}
    ptrace = [e for t in order for e in proto[t]]
    base['Trace_SuiteTraces'] = judge('Trace_SuiteTraces', ptrace)
    print('base verdicts:', base)
    if any(base.values()):
        ok = False

    def first(spec, pred):
        for i, e in enumerate(by_spec[spec]):
            if pred(e):
                return i
        raise SystemExit('selftest: no such event in %s' % spec)

    C = []
    i_tot = first('Trace_StatMech', lambda e: e['ev'] == 'thermo' and e['kind'] == 'total')
    C.append(('StatMech G +0.1%', 'Trace_StatMech', {'GHS'}, lambda t: bump(t[i_tot]['v'][6])))
    C.append(('StatMech F +0.1%', 'Trace_StatMech', {'FUS'}, lambda t: bump(t[i_tot]['v'][5])))
    C.append(('StatMech Cp +1%', 'Trace_StatMech', {'CpIsdHdT', 'dSdT'}, lambda t: bump(t[i_tot]['v'][1], 1e-2)))
    C.append(('StatMech S(P2) +0.1%', 'Trace_StatMech', {'EntropyPressure'}, lambda t: bump(t[i_tot]['sP2'])))
    i_vb = first('Trace_StatMech', lambda e: e['ev'] == 'verbose' and e['g'] == 'H')
    C.append(('verbose H vib part +0.1%', 'Trace_StatMech', {'SumOfVerbose', 'VerboseMatchesMode'},
              lambda t: bump(t[i_vb]['parts'][1])))
    i_h = first('Trace_StatMech', lambda e: e['ev'] == 'harmonic')
    C.append(('HarmonicVib S +0.1%', 'Trace_StatMech', {'HarmonicTextbookS'}, lambda t: bump(t[i_h]['S'])))
    i_g = first('Trace_Poly', lambda e: e['ev'] == 'ghs')
    C.append(('Nasa G +0.1%', 'Trace_Poly', {'GHS'}, lambda t: bump(t[i_g]['G'])))
    i_d = first('Trace_Poly', lambda e: e['ev'] == 'deriv')
    C.append(('Nasa Cp +1%', 'Trace_Poly', {'CpIsdHdT', 'dSdT'}, lambda t: bump(t[i_d]['Cp'], 1e-2)))
    i_q = first('Trace_Reaction', lambda e: e['ev'] == 'quant' and e['q'] == 'G' and e['hasSp'])
    C.append(('reaction delta G reversed +0.1%', 'Trace_Reaction', {'Antisymmetry', 'DeltaOfStates', 'Hess'},
              lambda t: bump(t[i_q]['dl'][2])))
    C.append(('reaction G state of products +0.1%', 'Trace_Reaction', {'StateIsWeightedSum', 'DeltaOfStates'},
              lambda t: bump(t[i_q]['st']['p'])))
    C.append(('reaction species value +0.1%', 'Trace_Reaction', {'StateIsWeightedSum', 'Hess'},
              lambda t: bump(t[i_q]['sp']['r'][0]['v'][0])))
    for name, spec, want, fn in C:
        t = copy.deepcopy(by_spec[spec])
        fn(t)
        got = set(judge(spec, t))
        good = bool(got) and got <= want | set(base[spec]) and bool(got & want)
        print('%-40s -> %s %s' % (name, sorted(got), 'ok' if good else 'UNEXPECTED (wanted %s)' % sorted(want)))
        ok = ok and good
    # protocol log
    re_idx = [i for i, e in enumerate(ptrace) if e['ev'] == 'reeval']
    em_idx = [i for i, e in enumerate(ptrace) if e['ev'] == 'emit']
    ob_idx = [i for i, e in enumerate(ptrace) if e['ev'] == 'observe']
    two = [t for t in order if sum(1 for e in proto[t] if e['ev'] == 'reeval') >= 2]
    P = []
    P.append(('an event line attributed to another test', {'WrongTest'},
              lambda t: t[em_idx[0]].__setitem__('test', 'some/other_test.py::test')))
    P.append(('an event line attributed to another object', {'EmitAttribution'},
              lambda t: t[em_idx[0]].__setitem__('oid', 999)))
    P.append(('a re-evaluation dropped', {'MissingReeval', 'EmitAttribution', 'ReevalOrder', 'EmitCount'},
              lambda t: t.__delitem__(re_idx[0])))
    P.append(('a re-evaluation repeated', {'ReevalOrder', 'MissingReeval', 'EmitCount'},
              lambda t: t.insert(re_idx[0] + 1, dict(t[re_idx[0]]))))
    P.append(('an observation after the test ended', {'ObserveOutsideRun', 'MissingReeval'},
              lambda t: t.insert(re_idx[0], dict(t[ob_idx[0]], cid=77))))
    P.append(('one event line lost', {'EmitCount'}, lambda t: t.__delitem__(em_idx[0])))
    P.append(('the library raised during re-evaluation', {'Raises'},
              lambda t: t[re_idx[0]].__setitem__('raised', True)))
    P.append(('a non-finite value', {'Finite'}, lambda t: t[re_idx[0]].__setitem__('finite', False)))
    P.append(('finish line of the first test lost', {'PreviousTestNotFinished', 'RegisterTwice', 'WrongTest',
                                                     'ObserveDuplicate'},
              lambda t: t.__delitem__([i for i, e in enumerate(t) if e['ev'] == 'finish'][0])))
    if two:
        def swap(t):
            idx = [i for i, e in enumerate(t) if e['ev'] == 'reeval' and e['test'] == two[0]]
            # swap the (oid, cid) of two re-evaluations: out of the order of observation
            a, b = t[idx[0]], t[idx[1]]
            a['oid'], b['oid'] = b['oid'], a['oid']
            a['cid'], b['cid'] = b['cid'], a['cid']
        P.append(('two re-evaluations out of order', {'ReevalOrder', 'EmitAttribution'}, swap))
    for name, want, fn in P:
        t = copy.deepcopy(ptrace)
        fn(t)
        got = set(judge('Trace_SuiteTraces', t))
        good = bool(got) and got <= want and bool(got & want)
        print('%-40s -> %s %s' % (name, sorted(got), 'ok' if good else 'UNEXPECTED (wanted %s)' % sorted(want)))
        ok = ok and good
    print('SELFTEST', 'PASSED' if ok else 'FAILED')
    return 0 if ok else 1


if __name__ == '__main__':
    sys.exit(main())
