"""X09 binding self-test (a): corrupt one recorded field of a clean trace and require the trace
specification to name exactly the expected clause(s).
  PYTHONPATH=/repo:/verif /venv/bin/python selftest/X09/corrupt.py
(exit 0 = the base traces are clean and every corruption was named by exactly the expected clauses).
The base histories use classes without a known finding (Shomate, Nasa9, StatMech, PhaseDiagram, References)."""
import copy
import sys

from harness import core
from harness.drivers import x09


def bump2(a, d=3):
    sg = -1 if (a[0] < 0 or a[1] < 0) else 1
    lo = abs(a[1])
    a[1] = sg * (lo - d if lo > 50000000 else lo + d)


def scale2(a, ppb):
    """multiply a Dec2 [hi, lo, e] by (1 + ppb * 1e-9): changes the 9th..10th digit"""
    a[1] = a[1] + (abs(a[0]) * ppb // 10) * (1 if a[0] >= 0 else -1)
    if abs(a[1]) >= 10 ** 8:
        a[0] += a[1] // 10 ** 8 if a[1] > 0 else -((-a[1]) // 10 ** 8)
        a[1] = a[1] % 10 ** 8 if a[1] > 0 else -((-a[1]) % 10 ** 8)


def find(trace, pred, name=''):
    for i, e in enumerate(trace):
        if pred(e):
            return i
    raise SystemExit('selftest: no event with the wanted shape in the base traces (%s)' % name)


def main():
    cases = [{'kind': 'random', 'cls': c, 'seed': 1000 + k, 'steps': 40}
             for k, c in enumerate(['Shomate', 'Nasa9', 'StatMech', 'PhaseDiagram', 'References', 'Shomate'])]
    base, infos = [], []
    for cs in cases:
        ev, mism, info = x09.execute(cs)
        if ev is None:
            print('selftest: driver failure', mism)
            return 2
        base.append(ev)
        infos.append(info)
    fails, _ = core.validate_traces('Trace_Observers', 'Trace', list(enumerate(base)), shards=1)
    if fails:
        print('selftest: the base traces are not clean:', fails[:10])
        return 1
    C = []

    def add(name, tid, pred, clauses, fn):
        for t in [tid] + [k for k in range(len(base)) if k != tid]:      # preferred trace first
            try:
                C.append((name, t, find(base[t], pred, name), set(clauses), fn))
                return
            except SystemExit:
                continue
        raise SystemExit('selftest: no event with the wanted shape in any base trace (%s)' % name)
    is_eval = lambda e: e['ev'] == 'eval' and e['st'] == 'ok'
    ok0 = lambda e: is_eval(e) and e['epoch'] == 0 and e['res']
    okn = lambda e: is_eval(e) and e['epoch'] > 0 and e['res']
    fresh_name = lambda e: 'NoHiddenState' if e['epoch'] == 0 else 'FreshAfterMutation'

    def seen_before(tid):
        keys, epoch = set(), None
        for i, e in enumerate(base[tid]):
            if e['ev'] in ('construct', 'mutate'):
                keys = set()
            elif is_eval(e):
                if e['key'] in keys and any(abs(v[0]) > 0 for v in e['res']):
                    return i
                keys.add(e['key'])
        raise SystemExit('selftest: no repeated key in trace %d' % tid)
    add('argument digest after the call differs', 0, is_eval, ['ArgsUntouched'],
        lambda e: e.__setitem__('aa', 'deadbeefdeadbeef'))
    add('state digest after the call differs', 2, is_eval, ['StateUntouched'],
        lambda e: e.__setitem__('sa', 'deadbeefdeadbeef'))
    add('fresh result, 17th digit (before any mutator)', 0, ok0, ['NoHiddenState'], lambda e: bump2(e['fresh'][0]))
    add('fresh result, 17th digit (after a mutator)', 1, okn, ['FreshAfterMutation'], lambda e: bump2(e['fresh'][0]))
    add('fresh object raises', 2, okn, ['FreshAfterMutation'], lambda e: e.__setitem__('fst', 'raise'))
    add('fresh result one value short', 3, okn, ['FreshAfterMutation'], lambda e: e['fresh'].pop())
    for tid in (0, 2, 3):
        try:
            i = seen_before(tid)
        except SystemExit:
            continue
        e0 = base[tid][i]
        C.append(('repeated call returns a 17th-digit different value (trace %d)' % tid, tid, i,
                  {'Repeatable', fresh_name(e0)}, lambda e: bump2(e['res'][0])))
    arr = lambda e: is_eval(e) and e['arr'] and e['n'] >= 2 and abs(e['scal'][0][0]) > 0
    add('element-wise scalar value off by 1e-9', 0, arr, ['ArrayIsMapOfScalar'], lambda e: scale2(e['scal'][0], 1))
    add('element-wise scalar value off by 2e-12 relative', 1, arr, ['ArrayIsMapOfScalar'],
        lambda e: bump2(e['scal'][0], 200000))
    add('array result one element short', 1, lambda e: arr(e) and not e['isint'],
        ['ArrayIsMapOfScalar', 'FreshAfterMutation', 'NoHiddenState'],
        lambda e: e['res'].pop())
    add('scalar call raises', 3, arr, ['ArrayIsMapOfScalar'], lambda e: e.__setitem__('sst', 'raise'))
    isint = lambda e: is_eval(e) and e['isint'] and e['flt'] and abs(e['flt'][0][0]) > 0
    add('float-typed result off by 1e-9', 0, isint, ['IntEqualsFloat'], lambda e: scale2(e['flt'][0], 1))
    add('float-typed call raises', 1, isint, ['IntEqualsFloat'], lambda e: e.__setitem__('flst', 'raise'))
    add('integer-typed call raises, float-typed call does not', 3, isint, ['IntEqualsFloat'],
        lambda e: e.__setitem__('st', 'raise'))
    notint = lambda e: is_eval(e) and not e['isint']
    add('evaluation raises', 2, notint, ['Raises'], lambda e: e.__setitem__('st', 'raise'))
    add('mutator raises', 4, lambda e: e['ev'] == 'mutate', ['MutatorRaises'], lambda e: e.__setitem__('st', 'raise'))
    add('unknown event', 4, lambda e: e['ev'] == 'write' or e['ev'] == 'mutate', ['UnknownEvent'],
        lambda e: e.__setitem__('ev', 'reset'))
    traces, expect = [], {}
    for k, (name, tid, idx, clauses, fn) in enumerate(C):
        t = copy.deepcopy(base[tid])
        fn(t[idx])
        traces.append((k, t))
        expect[k] = (name, idx, clauses)
    fails, _ = core.validate_traces('Trace_Observers', 'Trace', traces, shards=4)
    got = {}
    for tid, idx, clause in fails:
        got.setdefault(tid, set()).add((idx, clause))
    rc = 0
    for k, (name, idx, clauses) in sorted(expect.items()):
        g = got.get(k, set())
        names = {c for i, c in g if i == idx}
        elsewhere = {(i, c) for i, c in g if i != idx}
        # a changed result also changes what later repeats of the same key are compared with
        allowed_elsewhere = {c for i, c in elsewhere} <= {'Repeatable'}
        okk = names and names <= clauses and allowed_elsewhere and \
            (names == clauses or clauses >= {'NoHiddenState', 'FreshAfterMutation'})
        print('%-70s %s %s' % (name, 'named' if okk else 'NOT NAMED', sorted(names) + sorted(elsewhere)))
        if not okk:
            rc = 1
    print('selftest X09 (a): %d corruptions, %s' % (len(C), 'all named' if rc == 0 else 'FAILED'))
    return rc


if __name__ == '__main__':
    sys.exit(main())
