#!/bin/sh
# X09 binding self-test (b): source mutants on the unchanged HEAD (the four X09 defects are known findings
# there; a mutant must produce a VIOLATION that is NOT one of them, exit 1).  Prints every violated clause.
# usage: sh selftest/X09/run_mutants.sh <scratch worktree of HEAD> [patch ...]      (never /repo)
# (tools/selftest.py X09 does the same with one scratch worktree per mutant and the first VIOLATION lines only)
WT="$1"; [ -d "$WT/pmutt" ] || { echo "usage: $0 <scratch worktree> [patch ...]"; exit 2; }
[ "$WT" = "/repo" ] && { echo "refusing to touch /repo"; exit 2; }
shift
HERE="$(cd "$(dirname "$0")/../.." && pwd)"
[ $# -gt 0 ] || set -- "$HERE"/selftest/X09/m*.patch
OUT=$(mktemp -d)
rc=0
for p in "$@"; do
  case "$p" in /*) ;; *) p="$(pwd)/$p";; esac
  git -C "$WT" apply "$p" || { echo "cannot apply $p"; rc=2; git -C "$WT" checkout -q .; continue; }
  VERIF_REPO="$WT" VERIF_OUT="$OUT" VERIF_MAX_REPLAYS=3 "$HERE/check" X09 > "$OUT/log" 2>&1
  code=$?
  clauses=$(grep 'violated clause' "$OUT/log" | sed 's/.*violated clause \([A-Za-z0-9_]*\).*/\1/' | sort -u | tr '\n' ' ')
  classes=$(grep 'violated clause' "$OUT/log" | sed 's/.*"cls": "\([A-Za-z0-9_]*\)".*/\1/' | sort -u | tr '\n' ' ')
  echo "$(basename "$p"): exit=$code clauses: $clauses classes: $classes"
  [ $code -eq 1 ] || rc=1
  git -C "$WT" checkout -q .
done
rm -rf "$OUT"
exit $rc
