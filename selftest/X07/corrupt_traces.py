"""Binding demonstration for X07: recorded lives of a real LSR and a real ExtendedLSR are judged by
Trace_Lsr.tla; corrupting one recorded field makes TLC name the clause(s).
run:  PYTHONPATH=${VERIF_REPO:-/repo}:/verif /venv/bin/python -W ignore selftest/X07/corrupt_traces.py
(on a tree without the proposed X07 fixes the recorded traces already fail some clauses; the script then
shows which clauses each corruption ADDS)
"""
import copy
import sys

from harness import core
from harness.drivers import x07

SP = lambda e: {'k': 'const', 'E': e}                                   # noqa
RX = {'form': 'reaction', 'r': [[1.0, SP(-3.25)], [1.0, SP(0.0)]], 'p': [[1.0, SP(-24.5)]]}
LSR = {'kind': 'lsr', 'b': 10.0, 'T': 298.15, 'units': 'kJ/mol', 'notes': 'demo', 'src': 'demo',
       'terms': [{'a': 0.5, 'rx': RX, 'surf': {'form': 'float', 'v': -2.0}, 'gas': {'form': 'species', 'sp': SP(-3.0)}}],
       'ops': [['eval', 700.0], ['slope', 0.75], ['intercept', 4.0], ['roundtrip', 'json']]}
EXT = {'kind': 'ext', 'b': 1.5, 'T': 500.0, 'units': 'kcal/mol', 'src': 'demo',
       'terms': [{'a': 0.5, 'rx': RX, 'surf': {'form': 'float', 'v': -2.0}, 'gas': {'form': 'species', 'sp': SP(-3.0)}},
                 {'a': -1.25, 'rx': {'form': 'float', 'v': -20.0}, 'surf': {'form': 'species', 'sp': SP(4.0)},
                  'gas': {'form': 'float', 'v': 0.5}}],
       'ops': [['slope_at', 2, 2.0]]}


def clauses(events):
    fails, _ = core.validate_traces('Trace_Lsr', 'Trace', [(0, events)], shards=1)
    return set(c for _, _, c in fails)


def scale(dec, f):
    return core.to_dec(dec[0] * 10.0 ** dec[1] * f)


def main():
    ok = True
    for name, case in (('LSR', LSR), ('ExtendedLSR', EXT)):
        ev, mism, _ = x07.execute(case)
        base = clauses(ev)
        print('%s: %d events %s' % (name, len(ev), [e['ev'] for e in ev]))
        print('  %-62s -> %s' % ('as recorded', sorted(base)))

        def idx(kind, nth=1):
            return [k for k, e in enumerate(ev) if e['ev'] == kind][nth - 1]

        def show(label, edit, expect):
            nonlocal ok
            e = copy.deepcopy(ev)
            edit(e)
            added = clauses(e) - base
            good = set(expect) <= (added | base) and (added or set(expect) <= base)
            ok &= bool(good)
            print('  %-62s -> adds %-44s %s' % (label, sorted(added), 'as expected' if good else 'EXPECTED %s' % expect))

        def all_four(e, k, f):
            e[k]['oRT'] = [scale(x, f) for x in e[k]['oRT']]
            e[k]['val'] = [scale(x, f) for x in e[k]['val']]
        show('first evaluation: U/RT 0.1 % larger', lambda e: e[idx('eval')]['oRT'].__setitem__(0, scale(e[idx('eval')]['oRT'][0], 1.001)),
             ['Relation', 'FourEqual', 'Units'])
        show('first evaluation: G/RT differs from U/RT', lambda e: e[idx('eval')]['oRT'].__setitem__(3, scale(e[idx('eval')]['oRT'][3], 1.0001)),
             ['FourEqual', 'Units'])
        show('first evaluation: S/R = 1e-3', lambda e: e[idx('eval')]['zero'].__setitem__(0, [1, -3]), ['NoEntropy'])
        show('first evaluation: Cp in units = 2', lambda e: e[idx('eval')]['zero'].__setitem__(5, [2, 0]), ['NoEntropy'])
        show('first evaluation: H in units 0.01 % off', lambda e: e[idx('eval')]['val'].__setitem__(1, scale(e[idx('eval')]['val'][1], 1.0001)),
             ['Units'])
        show('first evaluation: non-finite value', lambda e: e[idx('eval')].__setitem__('fin', False), ['Finite'])
        show('a number reported 0.008 % off by its helper species',
             lambda e: e[idx('float')].__setitem__('rep', scale(e[idx('float')]['val'], 1.00008)), ['FloatMeansEnergy'])
        if name == 'LSR':
            show('second evaluation (700 K): every value 0.1 % larger', lambda e: all_four(e, idx('eval', 2), 1.001),
                 ['Relation', 'TIndependent'])
            show('evaluation after the slope change ignores the change',
                 lambda e: (e[idx('eval', 3)].__setitem__('oRT', e[idx('eval', 2)]['oRT']),
                            e[idx('eval', 3)].__setitem__('val', e[idx('eval', 2)]['val'])), ['Relation', 'LinearSlope'])
            show('evaluation after the intercept change ignores the change',
                 lambda e: (e[idx('eval', 4)].__setitem__('oRT', e[idx('eval', 3)]['oRT']),
                            e[idx('eval', 4)].__setitem__('val', e[idx('eval', 3)]['val'])), ['Relation', 'LinearIcpt'])
            show('round trip raises', lambda e: e[idx('roundtrip')].__setitem__('ok', False), ['RoundTripRaises'])
            show('round trip returns another class', lambda e: e[idx('roundtrip')].__setitem__('cls', False), ['RoundTripClass'])
            show('round trip: slope differs in the 17th digit',
                 lambda e: e[idx('roundtrip')]['as2'][0].__setitem__(1, e[idx('roundtrip')]['as2'][0][1] + 1), ['RoundTripAttrs'])
            show('round trip loses the notes', lambda e: e[idx('roundtrip')].__setitem__('notes', False), ['RoundTripAttrs'])
            show('evaluation after the round trip 0.001 % off', lambda e: all_four(e, idx('eval', 5), 1.00001),
                 ['RoundTripValue'])
        else:
            show('the LSR of term 2 reports 0.1 % more', lambda e: e[idx('sum')]['terms'].__setitem__(1, scale(e[idx('sum')]['terms'][1], 1.001)),
                 ['ExtIsSumOfLsr'])
            show('evaluation after slopes[1] changed ignores the change',
                 lambda e: (e[idx('eval', 2)].__setitem__('oRT', e[idx('eval', 1)]['oRT']),
                            e[idx('eval', 2)].__setitem__('val', e[idx('eval', 1)]['val'])), ['Relation', 'LinearSlope'])
            show('construction raises', lambda e: e[idx('construct')].__setitem__('ok', False), ['ConstructRaises'])
    print('binding demonstration:', 'OK' if ok else 'FAILED')
    return 0 if ok else 1


if __name__ == '__main__':
    sys.exit(main())
