#!/bin/sh
# Applies every X07 mutant (selftest/X07/m*.patch) to a scratch worktree of /repo's HEAD on which the proposed
# fixes proposed_fixes/X07_*.patch have been applied where they still apply (on the tree as found the check
# already reports violations; once the fixes are commits of /repo they no longer apply and are skipped), and
# expects ./check X07 to print VIOLATION lines for each mutant and none for the unmutated tree.
# usage: sh selftest/X07/run_mutants.sh [mutant-name ...]
HERE="$(cd "$(dirname "$0")/../.." && pwd)"
WT=$(mktemp -d /tmp/wt_X07_mut.XXXXXX)
OUTD=$(mktemp -d /tmp/x07_mut_out.XXXXXX)
rmdir "$WT"
git -C /repo worktree add --detach "$WT" HEAD >/dev/null 2>&1 || exit 2
trap 'git -C /repo worktree remove --force "$WT" >/dev/null 2>&1; rm -rf "$OUTD"' EXIT
for FIX in "$HERE"/proposed_fixes/X07_*.patch; do
  if git -C "$WT" apply --check "$FIX" 2>/dev/null; then git -C "$WT" apply "$FIX"; echo "applied $(basename "$FIX")"; fi
done
RC=0
BASE=$(cd "$HERE" && VERIF_OUT="$OUTD" VERIF_REPO="$WT" ./check X07 --tier quick 2>&1)
echo "UNMUTATED: $(echo "$BASE" | grep -c '^VIOLATION') VIOLATION lines :: $(echo "$BASE" | tail -1)"
echo "$BASE" | grep -q '^VIOLATION' && RC=1
NAMES="$*"
[ -z "$NAMES" ] && NAMES=$(ls "$HERE"/selftest/X07/m*.patch | xargs -n1 basename | sed 's/\.patch$//' | sort -u)
for n in $NAMES; do
  P="$HERE/selftest/X07/$n.patch"
  git -C "$WT" apply "$P" || { echo "MUTANT $n: patch does not apply"; RC=2; continue; }
  OUT=$(cd "$HERE" && VERIF_OUT="$OUTD" VERIF_REPO="$WT" ./check X07 --tier quick 2>&1)
  CL=$(echo "$OUT" | grep 'violated clause' | awk '{print $3}' | sort -u | tr '\n' ' ')
  if echo "$OUT" | grep -q '^VIOLATION'; then echo "MUTANT $n: CAUGHT  $CL"; else echo "MUTANT $n: MISSED"; echo "$OUT" | tail -3; RC=1; fi
  git -C "$WT" apply -R "$P"
done
exit $RC
