#!/bin/sh
# Applies every X07 mutant to a scratch worktree of /repo's HEAD - the UNCHANGED tree, on which ./check X07 exits 0
# with the known findings X07-F1..F3 - and expects VIOLATION lines (violations that are NOT known findings).
# selftest/X07/m*.patch apply to HEAD.  `ONFIX=1 sh selftest/X07/run_mutants.sh` first applies
# proposed_fixes/X07_*.patch (the repaired tree, no known finding left), prefers selftest/X07/onfix/<name>.patch
# where one exists and adds the mutants that only make sense there (ExtendedLSR round trip: m9).
# usage: sh selftest/X07/run_mutants.sh [mutant-name ...]
HERE="$(cd "$(dirname "$0")/../.." && pwd)"
WT=$(mktemp -d /tmp/wt_X07_mut.XXXXXX)
OUTD=$(mktemp -d /tmp/x07_mut_out.XXXXXX)
rmdir "$WT"
git -C /repo worktree add --detach "$WT" HEAD >/dev/null 2>&1 || exit 2
trap 'git -C /repo worktree remove --force "$WT" >/dev/null 2>&1; rm -rf "$OUTD"' EXIT
if [ "${ONFIX:-0}" = 1 ]; then
  for FIX in "$HERE"/proposed_fixes/X07_*.patch; do
    if git -C "$WT" apply --check "$FIX" 2>/dev/null; then git -C "$WT" apply "$FIX"; echo "applied $(basename "$FIX")"; fi
  done
fi
RC=0
BASE=$(cd "$HERE" && VERIF_OUT="$OUTD" VERIF_REPO="$WT" ./check X07 --tier quick 2>&1)
echo "UNMUTATED: $(echo "$BASE" | grep -c '^VIOLATION') VIOLATION lines, $(echo "$BASE" | grep -c '^KNOWN-FINDING') KNOWN-FINDING lines :: $(echo "$BASE" | tail -1)"
echo "$BASE" | grep -q '^VIOLATION' && RC=1
NAMES="$*"
if [ -z "$NAMES" ]; then
  LIST=$(ls "$HERE"/selftest/X07/m*.patch)
  [ "${ONFIX:-0}" = 1 ] && LIST="$LIST $(ls "$HERE"/selftest/X07/onfix/m*.patch)"
  NAMES=$(echo $LIST | xargs -n1 basename | sed 's/\.patch$//' | sort -u)
fi
for n in $NAMES; do
  P="$HERE/selftest/X07/$n.patch"
  [ "${ONFIX:-0}" = 1 ] && [ -f "$HERE/selftest/X07/onfix/$n.patch" ] && P="$HERE/selftest/X07/onfix/$n.patch"
  git -C "$WT" apply "$P" || { echo "MUTANT $n: patch does not apply"; RC=2; continue; }
  OUT=$(cd "$HERE" && VERIF_OUT="$OUTD" VERIF_REPO="$WT" ./check X07 --tier quick 2>&1)
  CL=$(echo "$OUT" | grep 'violated clause' | awk '{print $3}' | sort -u | tr '\n' ' ')
  if echo "$OUT" | grep -q '^VIOLATION'; then echo "MUTANT $n: CAUGHT  $CL"; else echo "MUTANT $n: MISSED"; echo "$OUT" | tail -3; RC=1; fi
  git -C "$WT" apply -R "$P"
done
exit $RC
