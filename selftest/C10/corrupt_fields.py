"""C10 binding self-test (a): corrupt one recorded field per clause and require the trace
specification to name that clause.  Run:  cd /verif && PYTHONPATH=/repo:/verif /venv/bin/python -W ignore selftest/C10/corrupt_fields.py
"""
import copy
import random
import sys

from harness import core
from harness.drivers import c10


def bump(dec, rel=1e-3):
    m, e = dec
    return [int(m * (1 + rel)) + 1, e]


def bump2(d2):
    hi, lo, e = d2
    return [hi, lo + 1 if lo >= 0 else lo - 1, e]


def find(events, pred):
    for i, ev in enumerate(events):
        if pred(ev):
            return i
    return None


def main():
    rnd = random.Random(7)
    cases = []
    while len(cases) < 90:
        c = c10._random_case(rnd, 'r%d' % len(cases))
        cases.append(c)
    results = [c10._safe_execute(c) for c in cases]
    base = [(ev, mm) for ev, mm in results]
    assert not any(mm for _, mm in base), 'unexpected mismatch on the unchanged tree'

    def over(ev):       # a fit with more references than descriptors (non-zero residual expected)
        return ev['ev'] in ('construct', 'fit') and len(ev['A']) > len(ev['desc'])

    def square1(ev):    # single reference, single descriptor: rows independent for sure
        return ev['ev'] in ('construct', 'fit') and len(ev['A']) == 1

    def upd(rec, **kw):
        rec.update(kw)

    corruptions = [
        ('KeysAreDescriptors', lambda e: e['ev'] in ('construct', 'fit'),
         lambda e: upd(e, keys=e['keys'][:-1] + [e['keys'][-1] + 'x'])),
        ('NormalEquations', over, lambda e: upd(e, fitv=[bump(e['fitv'][0], 1e-3)] + e['fitv'][1:])),
        ('FittedValuesMatchOffsets', over, lambda e: upd(e, off=[bump(e['off'][0], 1e-3)] + e['off'][1:])),
        ('FittedBounded', lambda e: e['ev'] in ('construct', 'fit'),
         lambda e: upd(e, fitv=[[v[0], v[1] + 1] for v in e['fitv']])),
        ('OffsetsBounded', lambda e: e['ev'] in ('construct', 'fit'),
         lambda e: upd(e, off=[[v[0], v[1] + 12] for v in e['off']])),
        ('Reproduces', square1, lambda e: upd(e, exp=[bump(e['dft'][0], 1e-3)])),
        ('TrefIsMean', lambda e: e['ev'] in ('construct', 'fit'), lambda e: upd(e, Tref=bump(e['Tref'], 1e-5))),
        ('FittedValuesMatchOffsets', lambda e: e['ev'] == 'append' and e['keys'] == e['desc'],  # an edit that changes the offsets without fitting
         lambda e: upd(e, off=[bump(e['off'][0], 1e-2)] + e['off'][1:])),
        ('AppliesFittedOffsets', lambda e: e['ev'] == 'eval' and e['keys'],
         lambda e: upd(e, x=[[v[0] + 1, v[1]] for v in e['x']])),
        ('ClearEmpties', lambda e: e['ev'] == 'clear', lambda e: upd(e, keys=['X'], off=[[1, 0]])),
        ('ReloadKeepsOffsets', lambda e: e['ev'] == 'reload', lambda e: upd(e, Tref=bump(e['Tref'], 1e-5))),
        ('GivenOffsetsKept', lambda e: e['ev'] == 'given', lambda e: upd(e, goff=[bump(v, 1e-6) for v in e['goff']])),
        ('DefaultIsOn', lambda e: e['ev'] == 'eval', lambda e: upd(e, Hdef=[bump2(e['Hdef'][0]), e['Hdef'][1]])),
        ('Repeatable', lambda e: e['ev'] == 'eval', lambda e: upd(e, Hrep=[e['Hrep'][0], bump2(e['Hrep'][1])])),
        ('SpeciesKwargsRouting', lambda e: e['ev'] == 'eval',
         lambda e: upd(e, Hks=[[e['Hks'][0][0], bump2(e['Hks'][0][1])], e['Hks'][1]])),
        ('VerboseSlot', lambda e: e['ev'] == 'eval', lambda e: upd(e, ver=[bump2(e['ver'][0]), e['ver'][1]])),
        ('DirectCalls', lambda e: e['ev'] == 'eval' and e['HnoT'][0] != 0,
         lambda e: upd(e, HnoT=bump(e['HnoT'], 1e-3))),
        ('DirectCalls', lambda e: e['ev'] == 'eval',
         lambda e: upd(e, zeros=[bump2(e['zeros'][0])] + e['zeros'][1:])),
        ('GAlsoShiftedInUnits', lambda e: e['ev'] == 'eval',
         lambda e: upd(e, GkJon=[bump(e['GkJon'][0], 1e-3), e['GkJon'][1]])),
        ('EmpiricalCarriesShift', lambda e: e['ev'] == 'eval' and e['emp']['has'],
         lambda e: upd(e, emp=dict(e['emp'], H=bump(e['emp']['H'], 1e-2)))),
        ('EnergyIndependentOfT', lambda e: e['ev'] == 'eval' and any(v[0] for v in e['x']),
         lambda e: upd(e, Hon=[e['Hon'][0], bump(e['Hon'][1], 1e-3)],
                       HkJon=[e['HkJon'][0], bump(e['HkJon'][1], 1e-3)])),
        ('EnergyInUnits', lambda e: e['ev'] == 'eval' and any(v[0] for v in e['x']),
         lambda e: upd(e, R=bump(e['R'], 1e-2))),
        ('GAlsoShifted', lambda e: e['ev'] == 'eval', lambda e: upd(e, Gon=[bump(e['Gon'][0], 1e-4), e['Gon'][1]])),
        ('NoEntropyNoCp', lambda e: e['ev'] == 'eval' and e['S'][0][0][0] != 0,
         lambda e: upd(e, S=[[bump2(e['S'][0][0]), e['S'][0][1], e['S'][0][2]], e['S'][1]])),
        ('SwitchOff', lambda e: e['ev'] == 'eval',
         lambda e: upd(e, H2=[[e['H2'][0][0], e['H2'][0][1], bump2(e['H2'][0][2])], e['H2'][1]])),
        ('LinearInComposition', lambda e: e['ev'] == 'linear', lambda e: upd(e, a=e['a'] + 1)),
        ('ReproducesExperimental', lambda e: e['ev'] == 'repro', lambda e: upd(e, Hon=bump(e['Hon'], 1e-3))),
        ('UnknownEvent', lambda e: e['ev'] == 'linear', lambda e: upd(e, ev='mystery')),
    ]
    traces = []
    want = {}
    tid = 0
    for name, pred, mutate in corruptions:
        for ev, _ in base:
            if name == 'ReproducesExperimental':
                # needs a judged repro: the first fit of the trace must have one reference
                if not (ev[0]['ev'] == 'construct' and len(ev[0]['A']) == 1):
                    continue
            i = find(ev, pred)
            if i is None:
                continue
            evs = copy.deepcopy(ev)
            mutate(evs[i])
            traces.append((tid, evs))
            want[tid] = (name, i)
            tid += 1
            break
        else:
            print('NO CARRIER for', name)
            return 1
    fails, _ = core.validate_traces('Trace_References', 'Trace', traces, shards=4)
    got = {}
    for t, i, cl in fails:
        got.setdefault(t, set()).add((cl, i))
    ok = True
    for t, (name, i) in sorted(want.items()):
        hit = (name, i) in got.get(t, set())
        print('%-24s line %3d -> %s   (all: %s)' % (name, i, 'NAMED' if hit else 'MISSED',
                                                     sorted({c for c, _ in got.get(t, set())})))
        ok = ok and hit
    print('OK' if ok else 'FAILED')
    return 0 if ok else 1


if __name__ == '__main__':
    sys.exit(main())
