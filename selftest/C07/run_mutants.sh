#!/bin/sh
# Binding demonstration (b): realistic source mutants must be reported as VIOLATIONs.
# Base tree = /repo HEAD + the proposed C07 fixes that still apply (so that the base is green);
# every selftest/C07/m*.patch is applied on top, the relevant part of the check is run, the
# patch is reverted.  Usage: sh selftest/C07/run_mutants.sh [pattern]
HERE="$(cd "$(dirname "$0")/../.." && pwd)"
WT=$(mktemp -d /tmp/mut_C07.XXXXXX)
OUT=$(mktemp -d /tmp/mut_C07_out.XXXXXX)
rmdir "$WT"
git -C /repo worktree add --detach "$WT" HEAD >/dev/null 2>&1 || exit 2
for f in "$HERE"/proposed_fixes/C07_*.patch; do
  git -C "$WT" apply "$f" 2>/dev/null || echo "note: $(basename "$f") does not apply (already upstream?)"
done
git -C "$WT" add -A >/dev/null 2>&1
git -C "$WT" -c user.email=x@x -c user.name=x commit -q -m base >/dev/null 2>&1
caught=0; missed=0
for m in "$HERE"/selftest/C07/m${1:-}*.patch; do
  name=$(basename "$m" .patch)
  case "$name" in
    m01*|m02*|m03*) part=phases ;;
    m04*|m05*|m06*) part=reactor ;;
    *) part=doc ;;
  esac
  if ! git -C "$WT" apply --3way "$m" >/dev/null 2>&1; then echo "$name: PATCH DOES NOT APPLY"; missed=$((missed+1)); continue; fi
  res=$(cd "$HERE" && VERIF_C07_PARTS=$part VERIF_OUT="$OUT" VERIF_REPO="$WT" ./check C07 2>&1)
  rc=$?
  clauses=$(echo "$res" | grep '^VIOLATION' | sed 's/.*clause=//' | sort -u | tr '\n' ' ')
  if [ $rc -eq 1 ]; then echo "$name: CAUGHT ($clauses)"; caught=$((caught+1)); else echo "$name: MISSED rc=$rc"; missed=$((missed+1)); fi
  git -C "$WT" reset -q --hard HEAD
done
git -C /repo worktree remove --force "$WT"
rm -rf "$OUT"
echo "mutants caught: $caught, missed: $missed"
[ $missed -eq 0 ]
