"""Binding demonstration (a) for C07: corrupt ONE recorded field of a clean trace and require
the trace specification to name the clause; delete one line and require the consumption /
once-ness accounting to notice.

Run with a tree on which the chosen cases are clean (the proposed C07 fixes applied):
    VERIF_REPO=/tmp/wt_C07 PYTHONPATH=/tmp/wt_C07:/verif /venv/bin/python selftest/C07/corrupt_traces.py
"""
import copy
import os
import sys

sys.path.insert(0, os.path.dirname(os.path.dirname(os.path.dirname(os.path.abspath(__file__)))))
sys.path.insert(0, os.environ.get('VERIF_REPO', '/repo'))

from harness import core                                  # noqa: E402
from harness import lib_c07_phases as LP                  # noqa: E402
from harness import lib_c07_reactor as LR                 # noqa: E402
from harness import lib_c07_doc as LD                     # noqa: E402

results = []


def judge(module, events, shards=1):
    fails, _ = core.validate_traces(module, 'Trace', [(0, events)], shards=shards)
    return sorted({c for _, _, c in fails})


def expect(label, module, events, clause):
    got = judge(module, events)
    ok = clause in got
    results.append(ok)
    print('%-58s -> %-40s %s' % (label, ','.join(got) or '(none)', 'ok' if ok else 'MISSING ' + clause))


# ---------------------------------------------------------------- phases
ops = [{'act': 'new', 'p': 'p2', 's': '-', 'L': ['default'], 'i': 0},
       {'act': 'append', 'p': 'p2', 's': 's1', 'L': [], 'i': 0},
       {'act': 'new', 'p': 'p3', 's': '-', 'L': ['s2', 's3'], 'i': 0},
       {'act': 'extend', 'p': 'p3', 's': '-', 'L': ['s1'], 'i': 0},
       {'act': 'copy', 'p': 'p3', 's': '-', 'L': [], 'i': 0},
       {'act': 'observe', 'p': 'p3', 's': '-', 'L': [], 'i': 0},
       {'act': 'remove', 'p': 'p3', 's': 's3', 'L': [], 'i': 0},
       {'act': 'pop', 'p': 'p2', 's': '-', 'L': [], 'i': 0}]
case = {'part': 'phases', 'cid': 'x', 'src': 'random', 'objs': {'p2': 'iface', 'p3': 'gas'}, 'ops': ops, 'flavour': 0}
_, ev, mism = LP.execute(case)
assert not mism and judge('Trace_Phases', ev) == [], 'phases base trace is not clean'


def mut(events, f):
    e = copy.deepcopy(events)
    f(e)
    return e


def setnames(e, k, pid, val):
    e[k]['names'] = [[p, (val if p == pid else n)] for p, n in e[k]['names']]


expect('phases: p2 changes while p3 is extended', 'Trace_Phases', mut(ev, lambda e: setnames(e, 4, 'p2', ['s1', 's1'])), 'Frame')
expect('phases: append result lacks the species', 'Trace_Phases', mut(ev, lambda e: setnames(e, 2, 'p2', [])), 'Effect')
expect('phases: new object lists something else', 'Trace_Phases', mut(ev, lambda e: setnames(e, 3, 'p3', ['s2'])), 'NewIsWhatWasGiven')
expect('phases: inserted species owned by another phase', 'Trace_Phases', mut(ev, lambda e: e[4].__setitem__('own', [['s1', 'p2']])), 'OwnerAfterInsert')
expect('phases: copy returns other names', 'Trace_Phases', mut(ev, lambda e: e[5].__setitem__('ret', ['s2'])), 'CopySnapshot')
expect('phases: editing the copy edits the phase', 'Trace_Phases', mut(ev, lambda e: e[5].__setitem__('after', ['s2', 's3', 's1', 'zz'])), 'CopyDetached')
expect('phases: a live object disappears', 'Trace_Phases', mut(ev, lambda e: e[7].__setitem__('names', e[7]['names'][1:])), 'LiveSet')
expect('phases: elements keep the removed species\' element', 'Trace_Phases',
       mut(ev, lambda e: e[7].__setitem__('elems', e[6]['elems'])), 'PhaseElementsAreUnionOfSpecies')
expect('phases: written elements lack one', 'Trace_Phases', mut(ev, lambda e: e[6].__setitem__('wel', e[6]['wel'][1:])), 'PhaseElementsAreUnionOfSpecies')
expect('phases: written species differ from the members', 'Trace_Phases', mut(ev, lambda e: e[6].__setitem__('wsp', e[6]['wsp'][1:])), 'WrittenSpeciesAreMembers')
expect('phases: one recorded call deleted (p2 then differs at the next call)', 'Trace_Phases', ev[:2] + ev[3:], 'Frame')

# ---------------------------------------------------------------- reactor
data, _ = core.tlc_cases('MC_ReactorYaml', 'MC_ReactorYaml_cases')
allc = data[0]


def find(pred):
    for c in allc:
        if pred({a['o']: a['form'] for a in c['args']}, c):
            c['part'] = 'reactor'
            return c
    raise SystemExit('no such reactor case')


rc = find(lambda sup, c: sup == {'V': 'py_float', 'phases': 'ph_gas'} and c['units'] == 'obj')
_, rev, _ = LR.execute(rc)
assert judge('Trace_ReactorYaml', rev) == [], 'reactor base trace is not clean: %r' % (rev,)


def leaf(e, path):
    return next(x for x in e[0]['obs']['leaves'] if x['path'] == path)


def chg_unit(e):
    x = leaf(e, ['reactor', 'volume'])
    x['codes'] = x['codes'][:-1] + [50]                    # cm3 -> cm2
    x['s'] = x['s'][:-1] + '2'


def chg_num(e):
    x = leaf(e, ['reactor', 'volume'])
    x['codes'] = [57] + x['codes'][1:]
    x['s'] = '9' + x['s'][1:]


expect('reactor: unit text of the volume changed', 'Trace_ReactorYaml', mut(rev, chg_unit), 'UnitAttached')
expect('reactor: number of the volume changed', 'Trace_ReactorYaml', mut(rev, chg_num), 'ValueEqual')
expect('reactor: supplied value missing from the file', 'Trace_ReactorYaml',
       mut(rev, lambda e: e[0]['obs'].__setitem__('leaves', [x for x in e[0]['obs']['leaves'] if x['path'] != ['reactor', 'volume']])), 'EverySupplied')
expect('reactor: an entry nobody supplied', 'Trace_ReactorYaml',
       mut(rev, lambda e: e[0]['obs']['leaves'].append({'path': ['reactor', 'area'], 'k': 'num', 'num': [1, 0], 's': '', 'codes': [], 'b': False})), 'NothingElse')
expect('reactor: file does not load', 'Trace_ReactorYaml', mut(rev, lambda e: e[0]['obs'].__setitem__('loaded', False)), 'Loads')
expect('reactor: the call raised', 'Trace_ReactorYaml', mut(rev, lambda e: e[0]['obs'].__setitem__('raised', 'TypeError')), 'Raises')

# ---------------------------------------------------------------- documents
dev = None
for seed in range(1, 400):
    dc = {'part': 'doc', 'cid': 'x', 'seed': seed, 'size': 'big', 'gas_first': True, 'units_form': 'obj', 'via': 'organize'}
    M = LD.abstract_model(dc)
    if not (len(M['reactions']) >= 4 and M['interactions'] and any((r['ts'] or {}).get('kind') == 'bep' for r in M['reactions'])
            and any(r['ads'] for r in M['reactions'])):
        continue
    _, cand, _ = LD.execute(dc)
    if judge('Trace_OmkmDoc', cand) == []:
        dev = cand
        break
assert dev is not None, 'no clean document trace found (run against the tree with the proposed fixes)'
ncti = next(i for i, e in enumerate(dev) if e['ev'] == 'begin' and e['fmt'] == 'cti')


def first(e, kind, start=0, pred=lambda x: True):
    return next(i for i in range(start, len(e)) if e[i]['ev'] == kind and pred(e[i]))


def bump(dec):
    return [dec[0] + (7 if abs(dec[0]) < 10 ** 8 else 70), dec[1]]


def c_coef(e):
    i = first(e, 'species')
    e[i]['obs']['segs'][0]['a'][2] = bump(e[i]['obs']['segs'][0]['a'][2])


def c_comp(e):
    i = first(e, 'species')
    e[i]['obs']['comp'][0][1] = [9, 0]


def c_dup_species(e):
    i = first(e, 'species')
    e.insert(i, copy.deepcopy(e[i]))


def c_eq(e):
    i = first(e, 'reaction')
    e[i]['obs']['l'][0][0] += 1


def c_Ea_unit(e):
    i = first(e, 'reaction')
    e[i]['obs']['Ea']['codes'] = e[i]['obs']['Ea']['codes'][:-1]


def c_Ea_num(e):
    i = first(e, 'reaction', ncti)
    e[i]['obs']['A']['num'] = bump(bump(bump(e[i]['obs']['A']['num'])))
    e[i]['obs']['A']['num'][0] += 100000


def c_dup_id(e):
    i = first(e, 'reaction')
    j = first(e, 'reaction', i + 1)
    e[j]['obs']['id'], e[j]['obs']['idc'] = e[i]['obs']['id'], e[i]['obs']['idc']
    e[j]['exp']['id'] = ''


def c_user_id(e):
    i = first(e, 'reaction', 0, lambda x: x['exp']['id'] != '')
    e[i]['obs']['id'] = 'zz_0001'


def c_phase_species(e):
    i = first(e, 'phase', 0, lambda x: x['exp']['kind'] == 'iface')
    e[i]['obs']['species'] = e[i]['obs']['species'][1:]


def c_phase_range(e):
    i = first(e, 'phase', ncti, lambda x: x['exp']['kind'] == 'iface' and x['obs']['rx_entries'])
    e[i]['obs']['rx_entries'] = e[i]['obs']['rx_entries'][1:] + [[ord(ch) for ch in 'r_0099']]


def c_phase_kw(e):
    i = first(e, 'phase', 0, lambda x: x['exp']['kind'] == 'iface')
    e[i]['obs']['rx_kw'] = 'none'


def c_sd(e):
    i = first(e, 'phase', ncti, lambda x: x['exp']['kind'] == 'iface')
    e[i]['obs']['sd']['num'] = bump(bump(e[i]['obs']['sd']['num']))
    e[i]['obs']['sd']['num'][0] += 5000


def c_bep(e):
    i = first(e, 'bep')
    e[i]['obs']['cleavage'], e[i]['obs']['synthesis'] = e[i]['obs']['synthesis'] + [[ord(ch) for ch in 'r_0042']], e[i]['obs']['cleavage']


def c_inter(e):
    i = first(e, 'interaction')
    e[i]['obs']['strengths'][0]['codes'] = [57] + e[i]['obs']['strengths'][0]['codes']


def c_sections(e):
    e[0]['sections'] = e[0]['sections'] + ['species']


def c_units(e):
    e[0]['units']['length'] = [109, 109]


def c_cti_dir(e):
    e[ncti]['sections'] = e[ncti]['sections'] + ['specie']


def c_cti_motz(e):
    e[ncti]['motz'] = 'true' if e[ncti]['motz'] == 'false' else 'false'


def c_drop_species(e):
    del e[first(e, 'species')]


def c_drop_reaction(e):
    i = first(e, 'reaction')
    while e[i + 1]['ev'] == 'reaction':
        i += 1
    del e[i]


for label, f, clause in [
        ('doc: one polynomial coefficient differs (9th digit)', c_coef, 'NumberMatches'),
        ('doc: composition differs', c_comp, 'SpeciesFields'),
        ('doc: a species entry appears twice', c_dup_species, 'EachSpeciesOnce'),
        ('doc: a species entry is missing', c_drop_species, 'EachSpeciesOnce'),
        ('doc: stoichiometric coefficient in the equation', c_eq, 'EquationMatches'),
        ('doc: unit text of Ea truncated', c_Ea_unit, 'UnitAttached'),
        ('doc: CTI pre-exponential differs in the 4th digit', c_Ea_num, 'NumberMatches'),
        ('doc: two reactions carry the same id', c_dup_id, 'UniqueIds'),
        ('doc: a user id is replaced', c_user_id, 'UserIdKept'),
        ('doc: last reaction entry missing', c_drop_reaction, 'EachReactionOnce'),
        ('doc: interface lists one species less', c_phase_species, 'PhaseLists'),
        ('doc: CTI reactions range denotes another id', c_phase_range, 'RangeDenotesMembers'),
        ('doc: YAML reactions keyword says none', c_phase_kw, 'PhaseKeywords'),
        ('doc: CTI site density differs in the 5th digit', c_sd, 'NumberMatches'),
        ('doc: BEP member lists swapped / extended', c_bep, 'BepMembers'),
        ('doc: interaction strength gets another digit', c_inter, 'NumberMatches'),
        ('doc: YAML section twice', c_sections, 'Sections'),
        ('doc: units section says mm', c_units, 'UnitsSection'),
        ('doc: unknown CTI directive', c_cti_dir, 'WellFormed'),
        ('doc: Motz-Wise directive flipped', c_cti_motz, 'MotzWise')]:
    expect(label, 'Trace_OmkmDoc', mut(dev, f), clause)

print('%d/%d corruptions named by the expected clause' % (sum(results), len(results)))
sys.exit(0 if all(results) else 1)
