#!/bin/sh
# Binding demonstration (b) for C16: every mutant patch, applied to a scratch worktree that
# already carries the proposed C16 fixes, must make ./check C16 exit 1 (VIOLATION lines).
# usage: sh selftest/C16/run_mutants.sh [patch ...]
HERE="$(cd "$(dirname "$0")/../.." && pwd)"
WT=$(mktemp -d /tmp/wt_C16_mut.XXXXXX)
OUTD=$(mktemp -d)
rmdir "$WT"
git -C /repo worktree add --detach "$WT" HEAD >/dev/null 2>&1 || exit 2
for f in "$HERE"/proposed_fixes/C16_*.patch; do git -C "$WT" apply "$f" 2>/dev/null; done   # no-op once the fixes are committed
[ $# -gt 0 ] || set -- "$HERE"/selftest/C16/m*.patch
rc_all=0
for p in "$@"; do
  case "$p" in /*) ;; *) p="$PWD/$p";; esac
  git -C "$WT" apply "$p" || { echo "CANNOT APPLY $p"; rc_all=2; continue; }
  (cd "$HERE" && VERIF_OUT="$OUTD" VERIF_REPO="$WT" ./check C16 --tier quick > "$OUTD/log" 2>&1); rc=$?
  clauses=$(grep -o 'violated clause [A-Za-z_]*' "$OUTD/log" | sort | uniq -c | awk '{printf "%s(%s) ", $4, $1}')
  [ $rc -eq 1 ] && verdict=CAUGHT || { verdict="MISSED(rc=$rc)"; rc_all=1; }
  echo "$(basename "$p" .patch): $verdict $clauses"
  [ $rc -eq 2 ] && tail -5 "$OUTD/log"
  git -C "$WT" apply -R "$p"
done
git -C /repo worktree remove --force "$WT"
rm -rf "$OUTD"
exit $rc_all
