"""Binding demonstration (a) for C16: corrupt one recorded field (or replace the recorded
composition by a consistently re-projected wrong one) and require Trace_Equilibrium.tla to
name the clause.  Run on a tree that carries the proposed C16 fixes:
    VERIF_REPO=<tree> PYTHONPATH=$VERIF_REPO:/verif /venv/bin/python selftest/C16/corrupt_fields.py
"""
import copy
import math
import random
import sys

from harness import core
from harness import lib_c16 as L
from harness.drivers import c16


def D(x):
    return x[0] * 10.0 ** x[1]


def bump(dec, rel=1e-3):
    return core.to_dec(D(dec) * (1 + rel))


def main():
    rnd = random.Random(5)
    # a well-conditioned 4-species network with two independent reactions
    T = 1000.0
    forms = [('H2', {'H': 2, 'O': 0}), ('O2', {'H': 0, 'O': 2}), ('H2O', {'H': 2, 'O': 1}),
             ('H2O2', {'H': 2, 'O': 2})]
    spec = [{'name': n, 'formula': f, 'a': L.nasa_coeffs(rnd, g, T)}
            for (n, f), g in zip(forms, [-20.0, -20.0, -31.0, -40.5])]
    case = {'cid': 'c0', 'kind': 'wellcond', 'elements': ['H', 'O'], 'species': spec,
            'feed': [1.0, 1.0, 0.5, 0.5], 'points': [[T, 2.0]], 'perm': [2, 0, 3, 1]}
    events, mism, infos = c16.execute(case)
    fails, _ = core.validate_traces('Trace_Equilibrium', 'Trace', [(0, events)])
    if fails or mism:
        raise SystemExit('recorded trace is not clean on this tree: %r %r' % (fails[:5], mism[:2]))
    if not all(i.get('wellcond') for i in infos if i.get('out') == 'converged'):
        raise SystemExit('the probe network is not well conditioned')
    names, els, E, feed, factory, gfun = c16._build(case)
    fed = [x > 0 for x in feed]
    solve_idx = [k for k, e in enumerate(events) if e['ev'] == 'solve']
    s0 = solve_idx[0]
    sa = [k for k in solve_idx if events[k]['again']][0]                  # the first call once more
    s1 = [k for k in solve_idx if not events[k]['again'] and not events[k]['first']][0]   # another form
    base = events[s0]
    n = [D(x) for x in base['n']]
    frac = [D(x) for x in base['frac']]
    g = [D(x) for x in base['g']]
    P = D(base['P'])
    probes = []

    def variant(idx, expect, **changes):
        evs = copy.deepcopy(events)
        for k, v in changes.items():
            evs[idx][k] = v(evs[idx][k]) if callable(v) else v
        probes.append((expect, evs))

    def recomposed(idx, expect, n2, frac2=None, g2=None):
        evs = copy.deepcopy(events)
        nt = math.fsum(n2)
        evs[idx].update(L.numeric_fields(E, fed, n2, frac2 or [x / nt for x in n2], g2 or g, T, P))
        probes.append((expect, evs))

    nu = base['B'][0]
    mx = max(abs(v) for v in nu)
    shift = 0.05 * sum(n) / mx
    moved = [n[i] + nu[i] * shift for i in range(len(n))]
    if min(moved) <= 0:
        moved = [n[i] - nu[i] * shift for i in range(len(n))]
    recomposed(s0, {'AtomsConserved', 'Stationary'}, [n[0] * 1.001] + n[1:])
    recomposed(s0, {'Stationary', 'NearMinimum', 'OrderIndependent', 'HistoryIndependent'}, moved)   # the later runs disagree with it
    recomposed(s1, {'Stationary', 'NearMinimum', 'OrderIndependent'}, moved)
    recomposed(s0, {'FractionsSumToOne', 'FractionsAreRatios'}, n, frac2=[x * 1.001 for x in frac])
    recomposed(s0, {'Stationary'}, n, g2=[g[0] + 0.01] + g[1:])
    variant(s0, {'Stationary', 'WITNESS'}, lnn=lambda v: [core.to_dec(D(v[0]) + 0.01)] + v[1:])   # the proposed direction no longer matches
    variant(s0, {'WITNESS'}, Pbar=lambda v: base['P'])
    variant(s0, {'WITNESS'}, B=lambda b: [[b[0][0] + 1] + b[0][1:]] + b[1:])
    variant(s0, {'WITNESS'}, rows=lambda r: r[:-1], cols=lambda c: c[:-1])
    variant(s0, {'NonNegative', 'AtomsConserved'}, pos=False, n=lambda v: [[-v[0][0], v[0][1]]] + v[1:])
    variant(s0, {'Finite'}, finite=False)
    recomposed(sa, {'Stationary', 'NearMinimum', 'HistoryIndependent'}, moved)
    variant(s0, {'ConditionsEchoed'}, echoP=lambda v: bump(v))
    variant(s0, {'ConditionsEchoed'}, echoT=lambda v: bump(v))
    variant(s0, {'SpeciesListed'}, listed=False)
    variant(s0, {'NoSilentFailure'}, out='failed', sig=False)
    variant(s0, set(), out='failed', sig=True)
    variant(s0, set(), out='failed', how='raise', sig=False)
    variant(s0, {'Raises'}, out='converged', how='raise')
    variant(s0, {'Raises'}, out='nosolve', how='raise')
    variant(0, {'ElementMatrix'}, libE=lambda m: [[m[0][0] + 1] + m[0][1:]] + m[1:])
    variant(0, {'FeedTotals'}, libtot=lambda t: [bump(t[0])] + t[1:])
    variant(0, {'Raises'}, raised=True)
    # a trace element (Ar, 2e-9 mol beside ~3 mol): its loss must be seen, a residual at the
    # solver's absolute tolerance must not
    spec2 = spec[:3] + [{'name': 'Ar', 'formula': {'H': 0, 'O': 0, 'Ar': 1}, 'a': L.nasa_coeffs(rnd, -18.0, T)}]
    for s_ in spec2:
        s_['formula'].setdefault('Ar', 0)
    case2 = {'cid': 'c1', 'kind': 'rand', 'elements': ['H', 'O', 'Ar'], 'species': spec2,
             'feed': [1.0, 1.0, 0.5, 2e-9], 'points': [[T, 2.0]]}
    ev2, mism2, _ = c16.execute(case2)
    f2, _ = core.validate_traces('Trace_Equilibrium', 'Trace', [(0, ev2)])
    if f2 or mism2:
        raise SystemExit('trace-element trace is not clean on this tree: %r %r' % (f2[:5], mism2[:2]))
    names2, els2, E2, feed2, _, _ = c16._build(case2)
    t0 = [k for k, e in enumerate(ev2) if e['ev'] == 'solve'][0]
    n2 = [D(x) for x in ev2[t0]['n']]
    g2 = [D(x) for x in ev2[t0]['g']]
    for expect, ar in (({'AtomsConserved'}, 1e-20), ({'AtomsConserved'}, 1e-9), (set(), 2e-9 + 2e-14)):
        evs = copy.deepcopy(ev2)
        m = n2[:3] + [ar]
        evs[t0].update(L.numeric_fields(E2, [x > 0 for x in feed2], m, [x / math.fsum(m) for x in m], g2, T, 2.0))
        probes.append((expect, evs))
    traces = [(k, evs) for k, (_, evs) in enumerate(probes)]
    fails, _ = core.validate_traces('Trace_Equilibrium', 'Trace', traces)
    got = {}
    for tid, idx, clause in fails:
        got.setdefault(tid, set()).add(clause)
    bad = 0
    for k, (expect, _) in enumerate(probes):
        g_ = got.get(k, set())
        ok = g_ == expect
        bad += not ok
        print('%-2d expected %-55s got %-55s %s' % (k, sorted(expect), sorted(g_), 'ok' if ok else 'MISMATCH'))
    sys.exit(1 if bad else 0)


if __name__ == '__main__':
    main()
