"""Binding demonstration for C18: a recorded call of the real functions is accepted by the
trace specifications; corrupting one recorded field makes TLC name the clause.
run:  PYTHONPATH=/repo:/verif /venv/bin/python -W ignore selftest/C18/corrupt_traces.py
"""
import copy
import sys

from harness import core
from harness.drivers import c18


def show(module, label, events, expect):
    fails, _ = core.validate_traces(module, 'Trace', [(0, events)], shards=1)
    got = sorted(set(c for _, _, c in fails))
    ok = got == sorted(expect)
    print('%-52s -> %-34s %s' % (label, got, 'as expected' if ok else 'EXPECTED %s' % expect))
    return ok


def main():
    ok = True
    ids = ['r_0001', 'r_0002', 'r_0003', 'r_0007', 'a_b_0010']
    case = {'kind': 'range', 'ids': ids, 'delim': '_', 'must': True,
            'calls': [{'form': 'str', 'as': 'str'}, {'form': 'list', 'as': 'id'}]}
    ev, _ = c18.execute_range(case)
    ok &= show('Trace_OmkmRange', 'range: as recorded', ev, [])
    e = copy.deepcopy(ev)
    k = e[0]['out'].index(ord('3'))
    e[0]['out'][k] = ord('4')                       # "r_0001 to r_0003" -> "r_0001 to r_0004"
    ok &= show('Trace_OmkmRange', 'range: one digit of the returned text', e, ['NoneAdded'])
    e = copy.deepcopy(ev)
    k = e[0]['out'].index(ord('7'))
    e[0]['out'][k] = ord('8')                       # "r_0007" -> "r_0008": renamed
    ok &= show('Trace_OmkmRange', 'range: an identifier renamed in the text', e, ['NoneAdded', 'NoneLost'])
    e = copy.deepcopy(ev)
    e[0]['out'] = e[0]['out'][:-1]                  # closing bracket lost
    ok &= show('Trace_OmkmRange', 'range: closing bracket dropped', e, ['WellFormed'])
    e = copy.deepcopy(ev)
    e[1]['out'][0] = e[1]['out'][0][1:]             # list element without its opening quote
    ok &= show('Trace_OmkmRange', 'range: list element loses a quote', e, ['WellFormed'])
    e = copy.deepcopy(ev)
    e[1]['out'] = e[1]['out'][:-1]                  # last list element dropped
    ok &= show('Trace_OmkmRange', 'range: last list element dropped', e, ['NoneLost'])
    e = copy.deepcopy(ev)
    e[1]['kind'], e[1]['out'] = 'text', e[0]['out']  # format='list' answered with the str layout
    ok &= show('Trace_OmkmRange', 'range: list form returned as a str', e, ['OutputFormIsList'])
    e = copy.deepcopy(ev)
    e[0]['kind'], e[0]['out'] = 'elems', e[1]['out']  # format='str' answered with a list
    ok &= show('Trace_OmkmRange', 'range: str form returned as a list', e, ['OutputFormIsString'])
    e = copy.deepcopy(ev)
    e[0]['ids'] = [c18.codes('abc')]
    e[0]['after'] = [c18.codes('abc')]
    e[0]['out'] = c18.codes('["abc"]')              # an id without integer suffix passed through
    ok &= show('Trace_OmkmRange', 'range: non-integer id not rejected', e, ['MustReject'])
    e = copy.deepcopy(ev)
    e[0]['after'] = e[0]['after'][1:]
    ok &= show('Trace_OmkmRange', 'range: collection changed by the call', e, ['InputUntouched'])
    e = copy.deepcopy(ev)
    e[0]['raised'] = 'ValueError'
    ok &= show('Trace_OmkmRange', 'range: raised on acceptable identifiers', e, ['Raises'])
    e = copy.deepcopy(ev)
    e[0]['raised'] = 'KeyError'
    e[0]['ids'][0] = c18.codes('r_x')
    e[0]['after'][0] = c18.codes('r_x')
    ok &= show('Trace_OmkmRange', 'range: rejected with the wrong exception', e, ['RejectKind'])

    # an identifier spelt with digits of another script, written back in ASCII
    ucase = {'kind': 'range', 'ids': ['r_0001', 'r_000\u0662'], 'delim': '_', 'must': False,
             'calls': [{'form': 'str', 'as': 'str'}]}
    uev, _ = c18.execute_range(ucase)
    ok &= show('Trace_OmkmRange', 'range: non-ASCII digit footer rejected (as recorded)', uev, [])
    e = copy.deepcopy(uev)
    e[0]['raised'] = ''
    e[0]['out'] = c18.codes('["r_0001 to r_0002"]')
    ok &= show('Trace_OmkmRange', 'range: ... renamed to ASCII and merged instead', e, ['NoneAdded', 'NoneLost'])

    toks = ['alpha', 'beta', 'gamma', 'delta' * 5, 'epsilon', 'zeta' * 6, 'eta', 'theta']
    wcase = {'kind': 'wrap', 'toks': toks, 'll': 40, 'ml': 60, 'obj': 'list',
             'widths': [[40, 60], [60, 95]]}      # the same list object wrapped twice
    wev, _, _ = c18.execute_wrap(wcase)
    ok &= show('Trace_CtiWrap', 'wrap: as recorded', wev, [])
    e = copy.deepcopy(wev)
    for fld in ('toks', 'before', 'after'):
        e[0][fld][0], e[0][fld][1] = e[0][fld][1], e[0][fld][0]
    ok &= show('Trace_CtiWrap', 'wrap: two tokens swapped', e, ['TokensPreserved'])
    e = copy.deepcopy(wev)
    k = e[0]['out'].index(ord('g'))
    del e[0]['out'][k]                              # one character of a token lost
    ok &= show('Trace_CtiWrap', 'wrap: one character of the text lost', e, ['TokensPreserved'])
    e = copy.deepcopy(wev)
    e[0]['ll'] = 15                                 # first line (3 words, 19 characters) now over its limit
    ok &= show('Trace_CtiWrap', 'wrap: recorded line_len lowered', e, ['WidthRespected'])
    e = copy.deepcopy(wev)
    e[0]['out'] = e[0]['out'][:-1]
    ok &= show('Trace_CtiWrap', 'wrap: closing delimiter truncated', e, ['Delimited'])
    e = copy.deepcopy(wev)
    e[0]['raised'] = 'TypeError'
    ok &= show('Trace_CtiWrap', 'wrap: call raised', e, ['Raises'])
    e = copy.deepcopy(wev)
    e[0]['after'].append(c18.codes('"""'))          # the call left its closing marker in the caller's list
    ok &= show('Trace_CtiWrap', 'wrap: value object grew during the call', e, ['InputUntouched'])
    e = copy.deepcopy(wev)
    e[1]['before'].append(c18.codes('"""'))         # second call of the history starts from an altered object
    e[1]['after'].append(c18.codes('"""'))
    ok &= show('Trace_CtiWrap', 'wrap: 2nd call finds the object altered', e, ['InputUntouched'])
    e = copy.deepcopy(wev)
    k = len(e[1]['out']) - 3
    e[1]['out'][k:k] = c18.codes('""" ')            # ... and writes the stale marker as a token
    ok &= show('Trace_CtiWrap', 'wrap: 2nd call carries a stale marker token', e,
               ['Delimited', 'TokensPreserved'])

    # a deleted line is caught by the consumed-length check of validate_traces itself;
    # here: an event the spec does not know
    e = copy.deepcopy(wev)
    e[0]['ev'] = 'other'
    ok &= show('Trace_CtiWrap', 'wrap: unknown event', e, ['UnknownEvent'])
    print('ALL AS EXPECTED' if ok else 'MISMATCH')
    return 0 if ok else 1


if __name__ == '__main__':
    sys.exit(main())
