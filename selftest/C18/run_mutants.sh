#!/bin/sh
# Applies every C18 mutant (selftest/C18/*.patch) to a scratch worktree of /repo and expects
# ./check C18 to report VIOLATIONs.  Same as:  /venv/bin/python tools/selftest.py C18
cd "$(dirname "$0")/../.." && exec /venv/bin/python tools/selftest.py C18 "$@"
