#!/bin/sh
# Applies every C18 mutant to a scratch worktree of /repo (with the proposed C18 fix applied
# first when /repo does not contain it yet) and expects ./check C18 to report VIOLATIONs.
# usage: sh selftest/C18/run_mutants.sh [mutant-name ...]
HERE="$(cd "$(dirname "$0")/../.." && pwd)"
WT=$(mktemp -d /tmp/wt_C18_mut.XXXXXX)
rmdir "$WT"
git -C /repo worktree add --detach "$WT" HEAD >/dev/null 2>&1 || exit 2
trap 'git -C /repo worktree remove --force "$WT" >/dev/null 2>&1' EXIT
FIX="$HERE/proposed_fixes/C18_range_keeps_id_text.patch"
ONFIX=0
if git -C "$WT" apply --check "$FIX" 2>/dev/null; then git -C "$WT" apply "$FIX"; ONFIX=1; fi
if grep -q "footer_int" "$WT/pmutt/cantera/__init__.py"; then ONFIX=1; fi
git -C "$WT" diff > "$WT.base.diff"
NAMES="$*"
[ -z "$NAMES" ] && NAMES=$(ls "$HERE"/selftest/C18/*.patch | xargs -n1 basename | sed 's/\.onfix\.patch$//; s/\.patch$//' | sort -u)
RC=0
for n in $NAMES; do
  P="$HERE/selftest/C18/$n.patch"
  [ $ONFIX = 1 ] && [ -f "$HERE/selftest/C18/$n.onfix.patch" ] && P="$HERE/selftest/C18/$n.onfix.patch"
  git -C "$WT" apply "$P" || { echo "MUTANT $n: patch does not apply"; RC=2; continue; }
  OUT=$(cd "$HERE" && VERIF_REPO="$WT" ./check C18 --tier quick 2>&1)
  CL=$(echo "$OUT" | grep '^VIOLATION' | sed 's/.*clause=//' | sort | uniq -c | tr '\n' ' ')
  if echo "$OUT" | grep -q '^VIOLATION'; then echo "MUTANT $n: CAUGHT  $CL"; else echo "MUTANT $n: MISSED"; echo "$OUT" | tail -3; RC=1; fi
  git -C "$WT" apply -R "$P"
done
rm -f "$WT.base.diff"
exit $RC
