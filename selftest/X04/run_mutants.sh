#!/bin/sh
# Applies every X04 mutant (selftest/X04/*.patch) to its own scratch worktree of /repo's HEAD and expects
# ./check X04 to print VIOLATION lines (violations that are NOT the known findings X04-F1/F2).
# ONFIX=1 applies proposed_fixes/X04_*.patch first (skipped when /repo already contains them).
# usage: sh selftest/X04/run_mutants.sh [mutant-name ...]      (JOBS=4 mutants in parallel by default)
HERE="$(cd "$(dirname "$0")/../.." && pwd)"
NAMES="$*"
[ -z "$NAMES" ] && NAMES=$(ls "$HERE"/selftest/X04/*.patch | xargs -n1 basename | sed 's/\.patch$//' | sort -u)
one() {
  n="$1"
  WT=$(mktemp -d /tmp/wt_X04_mut.XXXXXX); OUTD=$(mktemp -d /tmp/x04_mut_out.XXXXXX); rmdir "$WT"
  git -C /repo worktree add --detach "$WT" HEAD >/dev/null 2>&1 || { echo "MUTANT $n: no worktree"; return 2; }
  if [ "${ONFIX:-0}" = 1 ]; then
    for FIX in "$HERE"/proposed_fixes/X04_*.patch; do
      git -C "$WT" apply --check "$FIX" 2>/dev/null && git -C "$WT" apply "$FIX"
    done
  fi
  if git -C "$WT" apply "$HERE/selftest/X04/$n.patch" 2>/dev/null; then
    OUT=$(cd "$HERE" && VERIF_OUT="$OUTD" VERIF_REPO="$WT" ./check X04 --tier quick 2>&1); RC=$?
    CL=$(echo "$OUT" | grep 'violated clause' | awk '{print $3}' | sort -u | tr '\n' ' ')
    if [ $RC -eq 1 ] && echo "$OUT" | grep -q '^VIOLATION'; then echo "MUTANT $n: CAUGHT  $CL"
    else echo "MUTANT $n: MISSED (exit $RC)"; echo "$OUT" | tail -3; fi
  else echo "MUTANT $n: patch does not apply"; fi
  git -C /repo worktree remove --force "$WT" >/dev/null 2>&1; rm -rf "$OUTD" "$WT"
}
if [ "$1" = "--one" ]; then one "$2"; exit 0; fi
echo $NAMES | tr ' ' '\n' | xargs -P "${JOBS:-4}" -I{} sh "$0" --one {}
