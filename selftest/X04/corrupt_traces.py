"""Binding demonstration for X04: recorded runs of the real helpers are judged by
Trace_Helpers.tla; corrupting one recorded field makes TLC name the clause(s).
run:  PYTHONPATH=${VERIF_REPO:-/repo}:/verif /venv/bin/python -W ignore selftest/X04/corrupt_traces.py
"""
import copy
import sys

from harness import core
from harness.drivers import x04

c = core.text_codes
SHAPE = {'kind': 'class', 'pos': [{'n': 'T', 'd': False}, {'n': 'P', 'd': True}], 'kwonly': [],
         'varargs': False, 'varkw': True}
CASES = [
    {'kind': 'route', 'cid': 'demo-route', 'src': 'demo', 'sh': SHAPE,
     'rows': [{'fn': 'check_obj', 'sup': [['P', 2], ['T', 300], ['junk', 5]]},
              {'fn': 'pass', 'sup': [['P', 2], ['T', 300], ['junk', 5]]}], 'passthrough': True},
    {'kind': 'mode_missing', 'cid': 'demo-mm', 'src': 'demo', 'raise_error': False, 'raise_warning': True,
     'default': 2.5, 'sup': [['T', 300]]},
    {'kind': 'specie', 'cid': 'demo-specie', 'src': 'demo', 'doc': True, 'name': c('H2'),
     'kw': [{'k': c('T'), 'b': False, 'v': 298, 'blk': []}, {'k': c('P'), 'b': False, 'v': 1, 'blk': []},
            {'k': c('H2_kwargs'), 'b': True, 'v': 0, 'blk': [[c('P'), 5]]},
            {'k': c('H2O_kwargs'), 'b': True, 'v': 0, 'blk': [[c('P'), 7], [c('V'), 9]]}]},
    {'kind': 'format', 'cid': 'demo-format', 'src': 'demo', 'doc': True, 'names': ['T', 'P'],
     'lists': [[300, 400, 500], [1, 2, 3]]},
    {'kind': 'listdict', 'cid': 'demo-dict', 'src': 'demo',
     'objs': [{'has': True, 'key': 'H2'}, {'has': True, 'key': 'O2'}, {'has': True, 'key': 'H2'}], 'attr': None},
    {'kind': 'npop', 'cid': 'demo-np', 'src': 'demo', 'q': [2, 2, 4], 'op': 'prod', 'carrier': 'int_array'},
    {'kind': 'iter', 'cid': 'demo-iter', 'src': 'demo', 'kind_of_value': 'str', 'iterable': False, 'doc': True,
     'attrdoc': True, 'attr': 'wrapped'},
]


def clauses_of(traces):
    """one TLC batch: every corrupted copy is its own trace id"""
    fails, _ = core.validate_traces('Trace_Helpers', 'Trace', list(enumerate(traces)), shards=4)
    out = [set() for _ in traces]
    for tid, _, cl in fails:
        out[tid].add(cl)
    return out


def main():
    ev = []
    for case in CASES:
        ev += x04.execute(case)[0]
    jobs = []

    def idx(pred):
        return next(k for k, e in enumerate(ev) if pred(e))

    def show(label, edit, expect):
        e = copy.deepcopy(ev)
        edit(e)
        jobs.append((label, e, expect))

    r_force = idx(lambda e: e['ev'] == 'route' and e['fn'] == 'check_obj')
    r_pass = idx(lambda e: e['ev'] == 'route' and e['fn'] == 'pass')
    show('class did not receive the supplied P', lambda e: e[r_force]['got'].pop(0), ['NothingDropped'])
    show('junk did not reach **kwargs under _check_obj', lambda e: e[r_force]['extra'].clear(), ['NothingDropped'])
    show('junk reached **kwargs under _pass_expected_arguments',
         lambda e: e[r_pass]['extra'].append(['junk', 5]), ['NothingUnexpected'])
    show('a keyword arrived with another value', lambda e: e[r_pass]['got'].__setitem__(0, ['P', 3]),
         ['NothingUnexpected', 'NothingDropped'])
    show('a positional argument was passed', lambda e: e[r_pass].__setitem__('nargs', 1), ['NoPositional'])
    show('the call raised TypeError', lambda e: e[r_pass].update(raised='TypeError', got=[], extra=[], calls=0),
         ['RouteRaises', 'CalledOnce'])
    show('the body ran twice', lambda e: e[r_pass].__setitem__('calls', 2), ['CalledOnce'])
    show("the helper did not hand back the callable's result", lambda e: e[r_pass].__setitem__('ret', False),
         ['ReturnsCalleeResult'])
    show("the caller's dictionary lost a key", lambda e: e[r_pass]['after'].pop(), ['CallerDictUntouched'])
    x = idx(lambda e: e['ev'] == 'expected')
    show('_get_expected_arguments forgot P', lambda e: e[x]['names'].remove('P'), ['ExpectedNames'])
    a = idx(lambda e: e['ev'] == 'allowed')
    show('_kwargs_allowed said False for a **kwargs class', lambda e: e[a].__setitem__('res', False), ['KwargsAllowed'])
    p = idx(lambda e: e['ev'] == 'passthrough')
    show('_check_obj did not hand the object back', lambda e: e[p].__setitem__('same', False), ['ObjectPassedThrough'])
    m = idx(lambda e: e['ev'] == 'mode_missing')
    show('missing method: no warning', lambda e: e[m].__setitem__('warned', 0), ['MissingMethodWarning'])
    show('missing method: default not returned', lambda e: e[m].__setitem__('isdefault', False), ['MissingMethodDefault'])
    s = idx(lambda e: e['ev'] == 'specie')
    show("species block not applied (P stays 1)", lambda e: [o.__setitem__('v', 1) for o in e[s]['out'] if o['k'] == c('P')],
         ['SpecieNothingLost', 'SpecieNothingAdded'])
    show("H2O's V leaked into H2's keywords",
         lambda e: e[s]['out'].append({'k': c('V'), 'b': False, 'v': 9, 'blk': []}), ['SpecieNothingAdded'])
    show('T lost', lambda e: e[s]['out'].pop(0), ['SpecieNothingLost'])
    show('a block key left in the result',
         lambda e: e[s]['out'].append({'k': c('H2O_kwargs'), 'b': True, 'v': 0, 'blk': [[c('P'), 7]]}),
         ['BlockKeysRemoved', 'SpecieNothingAdded'])
    show("the caller's H2 block changed", lambda e: e[s]['after'][2]['blk'].append([c('T'), 298]), ['SpecieInputUntouched'])
    show('second identical call differs', lambda e: e[s + 1]['out'].pop(), ['Repeatable'])
    f = idx(lambda e: e['ev'] == 'format')
    show('one run missing', lambda e: e[f]['out'].pop(), ['FormatCount'])
    show('runs in another order', lambda e: e[f]['out'].reverse(), ['FormatRunExact'])
    show('a run lost its P', lambda e: e[f]['out'][1].pop(), ['FormatRunExact'])
    d = idx(lambda e: e['ev'] == 'listdict')
    show('dictionary keys in another order', lambda e: e[d]['out'].reverse(), ['DictOrder'])
    show('a key maps to an object with another name', lambda e: e[d]['out'][0].__setitem__(1, 2), ['DictValueCarriesKey'])
    show('a key missing', lambda e: e[d]['out'].pop(), ['DictKeys'])
    show('value is not an object of the list', lambda e: e[d]['out'][0].__setitem__(1, 0), ['DictValueCarriesKey'])
    n = idx(lambda e: e['ev'] == 'npop' and not e['verbose'])
    show('prod off by one', lambda e: e[n].__setitem__('out', [17]), ['NpResult'])
    nv = idx(lambda e: e['ev'] == 'npop' and e['verbose'])
    show('verbose returned something else', lambda e: e[nv].__setitem__('same', False), ['NpVerbosePassThrough'])
    i = idx(lambda e: e['ev'] == 'iter' and e['f'] == 'is_iterable')
    show('a string reported iterable', lambda e: e[i].__setitem__('res', 'true'), ['IsIterable'])
    j = idx(lambda e: e['ev'] == 'iter' and e['f'] == 'check_attr')
    show('a string handed back unwrapped', lambda e: e[j].__setitem__('res', 'same'), ['CheckIterableAttr'])
    show('an unknown event', lambda e: e.append({'ev': 'bogus'}), ['UnknownEvent'])
    res = clauses_of([ev] + [j[1] for j in jobs])
    base = res[0]
    print('%-62s -> %s' % ('as recorded (%d lines)' % len(ev), sorted(base)))
    ok = True
    for (label, _, expect), got in zip(jobs, res[1:]):
        added = got - base
        good = set(expect) <= added
        ok &= good
        print('%-62s -> adds %-50s %s' % (label, sorted(added), 'as expected' if good else 'EXPECTED %s' % expect))
    print('ALL AS EXPECTED' if ok else 'SOME CORRUPTIONS NOT NAMED')
    return 0 if ok else 1


if __name__ == '__main__':
    sys.exit(main())
