"""Corrupt one recorded field of a genuine C02 trace line and show that Trace_Poly.tla names the clause.
Run:  PYTHONPATH=/repo:/verif /venv/bin/python selftest/C02/corrupt_traces.py   (exit 0 = every corruption named)"""
import copy
import sys

from harness import core
from harness.drivers import c02

SEL = {'kind': 'select', 'f': 'nasa7', 'segs': [[1, 2], [2, 3]], 'ord': [1, 2], 'ps': [6, 8, 9, 10], 'acc': [[1], [2], [2], [2]],
       'bset': 1, 'cseed': 4711, 'emp': True, 'twod': False}
GHS = {'kind': 'ghs', 'f': 'nasa9', 'segs': [[1, 2], [2, 3]], 'ord': [2, 1], 'bset': 0, 'cseed': 99, 'nT': 3,
       'forms': {'gunits': 'kcal/mol/K', 'tcont': 'tuple'}}
EDIT = {'kind': 'edit', 'f': 'shomate', 'segs': [[1, 2]], 'ord': [1], 'bset': 0, 'cseed': 5, 'what': 1, 'forms': {'units': 'eV/K'}}
DER = {'kind': 'deriv', 'f': 'nasa7', 'segs': [[1, 2], [2, 3]], 'ord': [1, 2], 'bset': 0, 'cseed': 8, 'dim': True,
       'forms': {'gunits': 'L atm/mol/K'}}


def bump(d2):                       # a Dec2 value moved in its 5th digit
    return [d2[0] + 10000, d2[1], d2[2]]


def corruptions():
    sel = c02.execute(SEL)[0][0]
    ghs = [e for e in c02.execute(GHS)[0] if e['ev'] == 'ghsopt'][0]
    edit = c02.execute(EDIT)[0][0]
    der = c02.execute(DER)[0][0]
    out = [('genuine select', sel, set()), ('genuine ghsopt', ghs, set()), ('genuine edit', edit, set()),
           ('genuine dimensional deriv', der, set())]
    e = copy.deepcopy(sel); e['sc2'][1]['v'][2] = bump(e['sc2'][1]['v'][2]); out.append(('second call differs', e, {'Repeatable'}))
    e = copy.deepcopy(sel); e['emp'] = 'error'; out.append(('empty array raises', e, {'EmptyArrayIsEmpty'}))
    e = copy.deepcopy(sel); e['emp'] = 'nonempty'; out.append(('empty array -> values', e, {'EmptyArrayIsEmpty'}))
    e = copy.deepcopy(sel)
    e['twod'] = {'st': 'ok', 'v': [[list(x) for x in col] for col in e['arr']['v']]}
    out.append(('2-D mapped correctly', e, set()))
    e = copy.deepcopy(e); e['twod']['v'][0][3] = bump(e['twod']['v'][0][3]); out.append(('2-D mapped wrongly', e, {'TwoDIsMapOfScalar'}))
    e = copy.deepcopy(sel); e['arr']['v'][1][0] = bump(e['arr']['v'][1][0]); out.append(('array element differs', e, {'ArrayIsMapOfScalar'}))
    e = copy.deepcopy(ghs); e['darr']['v'][3][2] = bump(e['darr']['v'][3][2]); out.append(('dimensional array differs', e, {'DimArrayIsMapOfScalar'}))
    e = copy.deepcopy(ghs); e['darr'] = {'st': 'error', 'v': []}; out.append(('dimensional array raises', e, {'DimArrayIsMapOfScalar'}))
    e = copy.deepcopy(ghs); e['rows'][1]['Gd'] = [e['rows'][1]['Gd'][0] + 100000, e['rows'][1]['Gd'][1]]
    out.append(('G in kcal/mol is not H - T S', e, {'DimGHS', 'SelementsActsOnSG'}))
    e = copy.deepcopy(edit); e['rows'][0]['a'] = bump(e['rows'][0]['a']); out.append(('edited species differs from fresh', e, {'EditFollows'}))
    e = copy.deepcopy(der); e['Cp'] = [e['Cp'][0] + 1000000, e['Cp'][1]]; out.append(('get_Cp 1e-2 off', e, {'CpIsdHdT', 'dSdT'}))
    return out


def main():
    cases = corruptions()
    fails, _ = core.validate_traces('Trace_Poly', 'Trace_Poly', [(i, [ev]) for i, (_, ev, _) in enumerate(cases)], shards=2)
    got = {}
    for tid, _, clause in fails:
        got.setdefault(tid, set()).add(clause)
    bad = 0
    for i, (name, _, want) in enumerate(cases):
        g = got.get(i, set())
        ok = (g == want) if not want or name.startswith('genuine') else bool(g) and g <= want | {'SelementsActsOnSG'} and bool(g & want)
        print('%-40s -> %-45s %s' % (name, ','.join(sorted(g)) or '(accepted)', 'ok' if ok else 'UNEXPECTED (wanted %s)' % sorted(want)))
        bad += not ok
    return 1 if bad else 0


if __name__ == '__main__':
    sys.exit(main())
