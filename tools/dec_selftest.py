"""Cross-check spec/lib/Dec.tla against exact rational arithmetic (setup_cmd)."""
import json, os, random, sys, tempfile
from fractions import Fraction
sys.path.insert(0, os.path.dirname(os.path.dirname(os.path.abspath(__file__))))
from harness import core

def frac(d):
    return Fraction(d[0]) * Fraction(10) ** d[1]

def to9(fr):
    if fr == 0:
        return [0, 0]
    s = -1 if fr < 0 else 1
    fr = abs(fr)
    e = 0
    while fr >= 10 ** 9:
        fr /= 10; e += 1
    while fr < 10 ** 8:
        fr *= 10; e -= 1
    return [s * int(fr), e]

def main():
    rnd = random.Random(12345)
    recs = []
    for i in range(4000):
        def rd():
            k = rnd.choice([1, 2, 5, 9, 9, 9])
            m = rnd.randrange(10 ** (k - 1), 10 ** k) * rnd.choice([-1, 1])
            if rnd.random() < 0.03:
                m = 0
            return [m, rnd.randrange(-30, 30)]
        a, b = rd(), rd()
        if rnd.random() < 0.3:
            b = [b[0], a[1] + rnd.randrange(-3, 4)]
        if rnd.random() < 0.1:
            b = [-a[0] + rnd.randrange(-5, 6), a[1]]
        recs.append({'a': a, 'b': b, 'sum': to9(frac(a) + frac(b)),
                     'dif': to9(frac(a) - frac(b)), 'prod': to9(frac(a) * frac(b))})
    d = tempfile.mkdtemp(prefix='dectest_')
    p = os.path.join(d, 'c.ndjson')
    with open(p, 'w') as f:
        for r in recs:
            f.write(json.dumps(r) + '\n')
    r = core.run_tlc('DecTest', 'DecTest', env={'TRACE_FILE': p})
    import shutil; shutil.rmtree(d)
    ok = r.rc == 0 and '<<"CONSUMED", %d>>' % len(recs) in r.out
    print('Dec self-test:', 'ok' if ok else 'FAILED', '(%d records, %.1fs)' % (len(recs), r.wall))
    if not ok:
        print(r.out[-3000:])
    return 0 if ok else 1

if __name__ == '__main__':
    sys.exit(main())
