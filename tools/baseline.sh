#!/bin/sh
# Runs the repository's pinned test suite with the verification guard OFF and
# compares with /root/.vp/BASELINE.json (253 stable tests must pass).
OUT=$(mktemp /tmp/baseline.XXXXXX.xml)
cd "${VERIF_REPO:-/repo}" && env -u PMUTT_VERIF /venv/bin/python -m pytest -ra -q -p no:cacheprovider --timeout=900 --continue-on-collection-errors --junitxml="$OUT" >/dev/null 2>&1
/venv/bin/python - "$OUT" <<'PY'
import json, sys, xml.etree.ElementTree as ET
base = json.load(open('/root/.vp/BASELINE.json'))
want = set(base['stable_pass'])
ok = set()
for tc in ET.parse(sys.argv[1]).getroot().iter('testcase'):
    if not any(ch.tag in ('failure', 'error', 'skipped') for ch in tc):
        ok.add('%s::%s' % (tc.get('classname'), tc.get('name')))
missing = sorted(want - ok)
print('baseline: %d/%d stable tests pass' % (len(want & ok), len(want)))
for m in missing:
    print('  NOT PASSING:', m)
sys.exit(1 if missing else 0)
PY
RC=$?
rm -f "$OUT"
exit $RC
