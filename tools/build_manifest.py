"""Assemble /verif/MANIFEST.json from manifest.d/*.json fragments (one per claimed
property) and manifest.d/_not_applicable.json; validates against the schema."""
import glob, json, os, sys
V = os.path.dirname(os.path.dirname(os.path.abspath(__file__)))
checks = []
for p in sorted(glob.glob(os.path.join(V, 'manifest.d', 'C*.json'))):
    checks.append(json.load(open(p)))
na_path = os.path.join(V, 'manifest.d', '_not_applicable.json')
na = json.load(open(na_path)) if os.path.exists(na_path) else []
claimed = {c['property_id'] for c in checks}
props = [json.loads(l)['id'] for l in open(os.path.join(V, 'properties.jsonl'))]
na_ids = {e['property_id'] for e in na}
for pid in props:
    if pid not in claimed and pid not in na_ids:
        na.append({'property_id': pid, 'reason': 'check not built yet (work in progress); the TLA+ technique applies, see DESIGN.md section 4'})
na = [e for e in na if e['property_id'] not in claimed]
hooks_path = os.path.join(V, 'manifest.d', '_hooks.json')
hooks = json.load(open(hooks_path))
m = {
 'version': 1,
 'setup_cmd': 'sh tools/setup.sh',
 'hooks': hooks,
 'engines': [{'name': 'tlc', 'path': '/opt/veriftools/tla/tla2tools.jar',
              'serves_properties': sorted(claimed),
              'kind_free_text': 'TLC 1.8 model checker: exhaustive design models, case/behaviour generation, and trace validation of executions recorded from the real library (spec/*.tla)'}],
 'checks': checks,
 'notes': 'One explicit TLA+ specification per subsystem under spec/; ./check <id> runs the design model, replays TLC-generated behaviours/cases into /repo and validates recorded traces with TLC. See DESIGN.md.',
 'not_applicable': na,
}
json.dump(m, open(os.path.join(V, 'MANIFEST.json'), 'w'), indent=1)
# merged view of the per-property known-findings files
merged = {'comment': "Merged view of findings.d/*.json (the per-property files are what the checks read). 'findings' are recorded-but-not-repaired genuine defects, matched by clause + case tags; a check prints KNOWN-FINDING for them and still reports any other violation. 'fixed' entries document repaired defects and suppress nothing.", 'findings': [], 'fixed': []}
for p in sorted(glob.glob(os.path.join(V, 'findings.d', 'C*.json'))):
    d = json.load(open(p))
    merged['findings'] += d.get('findings', [])
    merged['fixed'] += d.get('fixed', [])
json.dump(merged, open(os.path.join(V, 'known_findings.json'), 'w'), indent=1)
try:
    import jsonschema
    jsonschema.validate(m, json.load(open('/root/.vp/MANIFEST.schema.json')))
    print('MANIFEST.json valid:', len(checks), 'checks,', len(na), 'not_applicable')
except ImportError:
    print('MANIFEST.json written (jsonschema not available to validate)')
