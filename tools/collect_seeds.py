"""collects the output of a seeding agent (/tmp/seed_<pid>_<tag>/patch{k}.diff, demo{k}.py, meta{k}.json) into
/verif/seeded/<pid>-<n>/ (next free n), then removes the scratch worktree.
usage: collect_seeds.py <pid> <tag>"""
import glob, json, os, re, shutil, subprocess, sys
pid, tag = sys.argv[1], sys.argv[2]
wt = '/tmp/seed_%s_%s' % (pid, tag)
used = [int(re.search(r'-(\d+)$', d).group(1)) for d in glob.glob('/verif/seeded/%s-*' % pid) + glob.glob('/verif/seeded/rejected/%s-*' % pid)]
n = max(used + [0])
for k in (1, 2):
    p = '%s/patch%d.diff' % (wt, k)
    if not os.path.exists(p) or os.path.getsize(p) == 0:
        print('missing', p)
        continue
    n += 1
    dst = '/verif/seeded/%s-%d' % (pid, n)
    os.makedirs(dst)
    shutil.copy(p, dst + '/patch.diff')
    shutil.copy('%s/demo%d.py' % (wt, k), dst + '/demo.py')
    m = '%s/meta%d.json' % (wt, k)
    if os.path.exists(m):
        shutil.copy(m, dst + '/meta_agent.json')
    print('collected', dst)
subprocess.call(['git', '-C', '/repo', 'worktree', 'remove', '--force', wt])
shutil.rmtree(wt, ignore_errors=True)
