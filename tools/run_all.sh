#!/bin/sh
# tools/run_all.sh [quick|thorough] [ids...] - runs the registered checks one after the other against /repo and
# prints one summary line per check (exit code, last line). Evidence files are rewritten by each run.
cd "$(dirname "$0")/.." || exit 2
TIER="${1:-quick}"; shift 2>/dev/null
IDS="$*"
[ -z "$IDS" ] && IDS="C01 C02 C03 C04 C05 C06 C07 C08 C09 C10 C11 C12 C13 C14 C15 C16 C17 C18 C19 C20"
RC=0
for p in $IDS; do
  ./check "$p" --tier "$TIER" > /tmp/run_all_$p.log 2>&1; rc=$?
  k=$(grep -c '^KNOWN-FINDING' /tmp/run_all_$p.log)
  v=$(grep -c '^VIOLATION' /tmp/run_all_$p.log)
  echo "$p exit=$rc violations=$v known_finding_lines=$k :: $(tail -1 /tmp/run_all_$p.log | cut -c1-160)"
  [ $rc -ne 0 ] && RC=1
done
exit $RC
