"""tools/mkmutant.py CXX name path 'old text' 'new text'
Creates selftest/CXX/<name>.patch: a source mutant of /repo made by one textual
replacement (must match exactly once) in a scratch worktree."""
import os, subprocess, sys, tempfile, shutil
prop, name, path, old, new = sys.argv[1:6]
V = os.path.dirname(os.path.dirname(os.path.abspath(__file__)))
wt = tempfile.mkdtemp(prefix='wt_mut_')
os.rmdir(wt)
subprocess.check_call(['git', '-C', '/repo', 'worktree', 'add', '-q', '--detach', wt, 'HEAD'])
try:
    f = os.path.join(wt, path)
    s = open(f).read()
    if s.count(old) != 1:
        sys.exit('pattern occurs %d times in %s' % (s.count(old), path))
    open(f, 'w').write(s.replace(old, new))
    d = subprocess.check_output(['git', '-C', wt, 'diff']).decode()
    os.makedirs(os.path.join(V, 'selftest', prop), exist_ok=True)
    open(os.path.join(V, 'selftest', prop, name + '.patch'), 'w').write(d)
    print('wrote selftest/%s/%s.patch' % (prop, name))
finally:
    subprocess.call(['git', '-C', '/repo', 'worktree', 'remove', '--force', wt])
    shutil.rmtree(wt, ignore_errors=True)
