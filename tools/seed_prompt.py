"""prints the prompt for an independent seeding agent for one property"""
import json, sys
pid, tag = sys.argv[1], sys.argv[2]
for l in open('/verif/properties.jsonl'):
    d = json.loads(l)
    if d['id'] == pid:
        break
wt = '/tmp/seed_%s_%s' % (pid, tag)
print(f"""You are stress-testing a verification harness that you cannot see and must not look for. Do NOT read, list or write anything under /verif. Do NOT modify /repo itself.

Setup: create your own scratch git worktree of the Python library pMuTT and work only there:
    git -C /repo worktree add --detach {wt} HEAD
(The library is pure Python; run things with `PYTHONPATH={wt} /venv/bin/python ...`.)

The property under test ({pid}: {d['title']}):
    {d['statement']}
It is quantified over: {d['quantifier']['text']}
Relevant source files: {', '.join(d['anchors']['files'])}

Your task: produce TWO independent changes to the library SOURCE (not its tests) each of which breaks this property, while
  (1) the library still imports and runs,
  (2) the existing test suite still passes exactly as before: run
        cd {wt} && /venv/bin/python -m pytest -q -p no:cacheprovider pmutt/tests
      (6 tests in test_pmutt_io_gaussian.py fail on the unmodified tree already; everything else - 253 tests - must still pass),
  (3) the breakage needs something specific to manifest - a particular multi-step sequence of operations, an unusual but valid input, a boundary value, a particular option combination, or two cooperating sites that each look fine alone - rather than breaking ordinary use at once. It should look like a plausible refactoring slip, optimisation or "clean-up", not random noise, and should be subtle (e.g. wrong only in one branch / one regime / one of several classes).
For each change k = 1, 2:
  - start from a clean tree (git -C {wt} checkout -- .), make the change, save it with
        git -C {wt} diff > {wt}/patch{{k}}.diff
  - write a standalone demonstration {wt}/demo{{k}}.py that checks the property directly on a concrete input/sequence and exits 0 on the UNMODIFIED library and non-zero on the modified one; verify both outcomes yourself (run it with the patch applied and with it reverted);
  - write {wt}/meta{{k}}.json: {{"property": "{pid}", "summary": "...", "needs_to_manifest": "...", "files_changed": [...], "commands_run": [...]}}.
Leave the worktree in a clean state (git checkout -- .) with patch*.diff, demo*.py, meta*.json as untracked files; do not remove the worktree. Final report (<= 25 lines): for each change the idea, what it needs to manifest, and the exact outputs of the demo with/without the patch and of the test suite with the patch.""")
