#!/bin/sh
# MANIFEST.setup_cmd: offline; parses every TLA+ module and self-tests the Dec library.
cd "$(dirname "$0")/.." || exit 2
FAIL=0
for f in spec/*.tla; do
  if ! (cd spec && java -cp /opt/veriftools/tla/tla2tools.jar:/opt/veriftools/tla/CommunityModules-deps.jar tla2sany.SANY "$(basename "$f")" >/tmp/sany.$$ 2>&1); then
    echo "SANY failed: $f"; tail -5 /tmp/sany.$$; FAIL=1
  fi
done
rm -f /tmp/sany.$$
/venv/bin/python tools/dec_selftest.py || FAIL=1
/venv/bin/python -c "import sys; sys.path.insert(0, '/repo'); import pmutt, hypothesis, yaml, openpyxl" || FAIL=1
exit $FAIL
