"""prints the size figures quoted in DESIGN.md 10.1 / 10.3 from the current tree and evidence files"""
import glob, json, os, subprocess
V = os.path.dirname(os.path.dirname(os.path.abspath(__file__)))
tla = glob.glob(V + '/spec/*.tla'); cfg = glob.glob(V + '/spec/*.cfg')
lines = lambda fs: sum(len(open(f, errors='ignore').read().splitlines()) for f in fs)
py = glob.glob(V + '/harness/*.py') + glob.glob(V + '/harness/drivers/*.py')
print('TLA+ modules %d, lines %d, cfgs %d' % (len(tla), lines(tla), len(cfg)))
print('python harness files %d, lines %d' % (len(py), lines(py)))
print('mutant patches %d' % len(glob.glob(V + '/selftest/*/*.patch')))
print('seeded kept %d' % len(glob.glob(V + '/seeded/C*-*/patch.diff')))
print('fix commits %s' % subprocess.check_output("git -C /repo log --oneline | grep -c ' fix:'", shell=True, text=True).strip())
for f in sorted(glob.glob(V + '/evidence/C*.json')):
    d = json.load(open(f))
    def find(o, k, acc):
        if isinstance(o, dict):
            for a, b in o.items():
                if a == k and isinstance(b, (int, float)):
                    acc.append(b)
                find(b, k, acc)
        elif isinstance(o, list):
            for x in o:
                find(x, k, acc)
        return acc
    st = find(d, 'states', []); ev = find(d, 'evaluations', []) or find(d, 'cases', [])
    print(os.path.basename(f)[:-5], 'level', d.get('level'), 'states', max(st) if st else '-', 'evaluations', max(ev) if ev else '-',
          'clauses', len(d.get('clauses', d.get('properties_checked', [])) or []))
