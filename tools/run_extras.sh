#!/bin/sh
# tools/run_extras.sh [quick|thorough] - runs the extra specification modules (X01.., not registered in MANIFEST.json).
cd "$(dirname "$0")/.." || exit 2
TIER="${1:-quick}"
RC=0
for f in harness/drivers/x[0-9][0-9].py; do
  [ -f "$f" ] || continue
  id=$(basename "$f" .py | tr 'a-z' 'A-Z')
  ./check "$id" --tier "$TIER" > /tmp/run_extra_$id.log 2>&1; rc=$?
  echo "$id exit=$rc :: $(tail -1 /tmp/run_extra_$id.log | cut -c1-160)"
  [ $rc -ne 0 ] && RC=1
done
exit $RC
