"""tools/confirm_seed.py seeded/<id> [--no-check]
Independent confirmation of a seeded change: in a scratch worktree of /repo HEAD
 (1) demo.py passes on the unchanged tree, (2) patch.diff applies, (3) demo.py fails with it,
 (4) the pinned test suite still passes with it, (5) ./check <prop> reports a VIOLATION.
Writes seeded/<id>/meta.json."""
import json, os, shutil, subprocess, sys, tempfile, time
V = os.path.dirname(os.path.dirname(os.path.abspath(__file__)))
d = os.path.abspath(sys.argv[1])
sid = os.path.basename(d)
prop = sid.split('-')[0]
agent = json.load(open(os.path.join(d, 'meta_agent.json'))) if os.path.exists(os.path.join(d, 'meta_agent.json')) else {}
wt = tempfile.mkdtemp(prefix='wt_seed_'); os.rmdir(wt)
out = tempfile.mkdtemp(prefix='seed_out_')
subprocess.check_call(['git', '-C', '/repo', 'worktree', 'add', '-q', '--detach', wt, 'HEAD'])
head = subprocess.check_output(['git', '-C', '/repo', 'rev-parse', '--short', 'HEAD']).decode().strip()
meta = {'id': sid, 'property': prop, 'repo_head': head, 'summary': agent.get('summary'),
        'needs_to_manifest': agent.get('needs_to_manifest'), 'files_changed': agent.get('files_changed')}
def demo():
    env = dict(os.environ, PYTHONPATH=wt, PYTHONDONTWRITEBYTECODE='1')
    r = subprocess.run(['/venv/bin/python', '-W', 'ignore', os.path.join(d, 'demo.py')], env=env, cwd=wt,
                       capture_output=True, text=True, timeout=1800)
    return r.returncode, (r.stdout + r.stderr)[-400:]
try:
    rc0, o0 = demo()
    a = subprocess.run(['git', '-C', wt, 'apply', os.path.join(d, 'patch.diff')], capture_output=True, text=True)
    meta['patch_applies'] = a.returncode == 0
    rc1, o1 = demo()
    b = subprocess.run(['sh', os.path.join(V, 'tools', 'baseline.sh')], env=dict(os.environ, VERIF_REPO=wt),
                       capture_output=True, text=True)
    meta.update({'demo_unpatched_rc': rc0, 'demo_patched_rc': rc1, 'demo_patched_tail': o1,
                 'baseline_with_patch': b.stdout.strip().splitlines()[0] if b.stdout.strip() else b.stderr[-200:],
                 'baseline_ok': b.returncode == 0})
    meta['confirmed'] = bool(meta['patch_applies'] and rc0 == 0 and rc1 != 0 and b.returncode == 0)
    if '--no-check' not in sys.argv:
        t0 = time.time()
        r = subprocess.run([os.path.join(V, 'check'), prop, '--tier', 'quick'], cwd=V, capture_output=True, text=True,
                           env=dict(os.environ, VERIF_REPO=wt, VERIF_OUT=out))
        viol = sorted({l.split('clause=')[-1] for l in r.stdout.splitlines() if l.startswith('VIOLATION')})
        meta['check'] = {'cmd': 'VERIF_REPO=<worktree with patch> ./check %s --tier quick' % prop, 'exit': r.returncode,
                         'clauses': viol, 'caught': r.returncode == 1 and bool(viol), 'wall_s': round(time.time() - t0)}
    meta['ran'] = ['demo.py on HEAD (rc %d)' % rc0, 'git apply patch.diff', 'demo.py with patch (rc %d)' % rc1,
                   'tools/baseline.sh on the patched worktree', './check %s on the patched worktree' % prop]
finally:
    subprocess.call(['git', '-C', '/repo', 'worktree', 'remove', '--force', wt])
    shutil.rmtree(wt, ignore_errors=True); shutil.rmtree(out, ignore_errors=True)
json.dump(meta, open(os.path.join(d, 'meta.json'), 'w'), indent=1)
print(sid, 'confirmed' if meta.get('confirmed') else 'NOT CONFIRMED', meta.get('check', {}).get('caught'), meta.get('check', {}).get('clauses'))
