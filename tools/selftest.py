"""tools/selftest.py CXX [patch ...]  - applies each mutant patch of selftest/CXX/ (or the
given patch files, e.g. seeded/<id>/patch.diff) to a scratch worktree of /repo and runs
./check CXX against it; a mutant is 'caught' when the check exits 1 with a VIOLATION line.
Evidence/replays of these runs go to a scratch directory, never to /verif/evidence."""
import glob, os, shutil, subprocess, sys, tempfile, time
prop = sys.argv[1]
V = os.path.dirname(os.path.dirname(os.path.abspath(__file__)))
patches = sys.argv[2:] or sorted(glob.glob(os.path.join(V, 'selftest', prop, '*.patch')))
tier = os.environ.get('VERIF_TIER', 'quick')
rc_all = 0
for p in patches:
    wt = tempfile.mkdtemp(prefix='wt_self_')
    os.rmdir(wt)
    out = tempfile.mkdtemp(prefix='self_out_')
    subprocess.check_call(['git', '-C', '/repo', 'worktree', 'add', '-q', '--detach', wt, 'HEAD'])
    try:
        a = subprocess.run(['git', '-C', wt, 'apply', os.path.abspath(p)], capture_output=True, text=True)
        if a.returncode != 0:
            print('%-60s PATCH DOES NOT APPLY: %s' % (os.path.basename(p), a.stderr.strip()[:200]))
            rc_all = 2
            continue
        env = dict(os.environ, VERIF_REPO=wt, VERIF_OUT=out)
        t0 = time.time()
        r = subprocess.run([os.path.join(V, 'check'), prop, '--tier', tier], env=env, capture_output=True, text=True, cwd=V)
        viol = [l for l in r.stdout.splitlines() if l.startswith('VIOLATION')]
        clauses = sorted({l.split('clause=')[-1] for l in viol})
        status = 'caught' if (r.returncode == 1 and viol) else ('MISSED' if r.returncode == 0 else 'rc=%d' % r.returncode)
        if status != 'caught':
            rc_all = max(rc_all, 1)
        print('%-60s %s %s (%.0fs)' % (os.path.basename(p), status, ','.join(clauses)[:120], time.time() - t0))
        if r.returncode == 2:
            print(r.stdout[-1500:])
    finally:
        subprocess.call(['git', '-C', '/repo', 'worktree', 'remove', '--force', wt])
        shutil.rmtree(wt, ignore_errors=True)
        shutil.rmtree(out, ignore_errors=True)
sys.exit(rc_all)
