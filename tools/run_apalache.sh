#!/bin/sh
# tools/run_apalache.sh [quick|thorough] - unbounded (inductive) face of two integer-only modules, discharged by
# Apalache 0.58 (spec/apalache/*.tla, typed restatements of CovEffect.tla / OmkmIds.tla).  Not registered in
# MANIFEST.json: it strengthens the design-level claim of C17 and C07 (no bound on breakpoint / slope / id values,
# only on list length) and does not touch /repo; the binding of those modules to the code is the C17 / C07 replay.
#   expected OK    : base case (Init => IndInv) and inductive step (IndInv /\ Next => IndInv') of the required variant
#   expected ERROR : the inductive step of the pinned-source variant ("argmax", "counter")
# quick leaves out the CovEffect step with intercepts (non-linear arithmetic, ~6 min); thorough runs it.
cd "$(dirname "$0")/../spec/apalache" || exit 2
TIER="${1:-quick}"
OUT=$(mktemp -d /tmp/apa_out.XXXXXX)
RC=0
run() {  # name expect module init length
  timeout 1800 apalache-mc check --init="$4" --inv=IndInv --length="$5" --out-dir="$OUT" "$3" > "$OUT/log" 2>&1
  if grep -q 'EXITCODE: OK' "$OUT/log"; then got=OK; elif grep -q 'EXITCODE: ERROR (12)' "$OUT/log"; then got=ERROR; else got=FAILED; fi
  echo "$1 expected=$2 got=$got"
  [ "$got" = "$2" ] || RC=1
}
run OmkmIds.skip_used.base OK MC_OmkmIdsInd_skip_used.tla Init 0
run OmkmIds.skip_used.step OK MC_OmkmIdsInd_skip_used.tla IndInit 1
run OmkmIds.counter.step ERROR MC_OmkmIdsInd_counter.tla IndInit 1
run CovEffect.bisect.base OK MC_CovEffectInd_bisect.tla Init 0
run CovEffect.argmax.step ERROR MC_CovEffectInd_argmax.tla IndInit 1
[ "$TIER" = thorough ] && run CovEffect.bisect.step OK MC_CovEffectInd_bisect.tla IndInit 1
rm -rf "$OUT"
exit $RC
