"""C07, part 2: the reactor YAML file (pmutt.io.omkm.write_yaml).

Cases come from TLC (spec/MC_ReactorYaml_cases.cfg): an assignment of forms to options, how
`units` is passed, the unit system and a generic-dictionary flavour, together with the concrete
value of every supplied option (chosen by ReactorYaml.tla, exactly representable).  `execute`
builds the keyword arguments, calls write_yaml, loads the text with yaml.safe_load and projects
the loaded document to its leaves; spec/Trace_ReactorYaml.tla judges (ReactorYaml!Verdict).
"""
import json

from harness import core
from harness.core import to_dec, to_dec_exact

SHARDS = 5
UNIT_KEYS = ('length', 'time', 'quantity', 'energy', 'act_energy', 'pressure', 'mass')


def _txt(codes):
    return ''.join(chr(c) for c in codes)


def _num(d):
    m, e = d
    return m * (10 ** e) if e >= 0 else m / (10 ** (-e))


def _species(name):
    import numpy as np
    from pmutt.empirical.nasa import Nasa
    return Nasa(name=name, elements={'H': 2}, phase='gas', T_low=300., T_mid=600., T_high=1000.,
                a_low=np.arange(7.), a_high=np.arange(7.))


def _value(arg):
    import numpy as np
    form = arg['form']
    if form == 'py_int':
        return int(_num(arg['num']))
    if form == 'py_float':
        return float(_num(arg['num']))
    if form == 'np_int':
        return np.int64(int(_num(arg['num'])))
    if form == 'np_float':
        return np.float64(_num(arg['num']))
    if form in ('zero',):
        return 0
    if form == 'zero_float':
        return 0.0
    if form == 'np_i32':
        return np.int32(int(_num(arg['num'])))
    if form == 'np_f32':
        return np.float32(_num(arg['num']))
    if form in ('str', 'str_with_unit', 'lab1', 'lab2', 'lab3', 'lab4'):
        return arg['str']
    if form in ('true', 'false'):
        return form == 'true'
    if form == 'np_true':
        return np.bool_(True)
    if form == 'tuple_py':
        return tuple(float(_num(x)) for x in arg['nums'])
    if form == 'list_int':
        return [int(_num(x)) for x in arg['nums']]
    if form == 'names_str':
        return list(arg['strs'])
    if form == 'names_obj':
        if arg['o'] == 'reactions_SA':
            from pmutt.omkm.reaction import SurfaceReaction
            sp = _species('H2')
            return [SurfaceReaction(id=n, reactants=[sp], reactants_stoich=[1.], products=[sp],
                                    products_stoich=[1.]) for n in arg['strs']]
        return [_species(n) for n in arg['strs']]
    if form == 'list_py':
        return [float(_num(x)) for x in arg['nums']]
    if form == 'np_array':
        return np.array([float(_num(x)) for x in arg['nums']])
    if form == 'list_str':
        return list(arg['strs'])
    if form == 'list_mixed':
        return [float(_num(arg['nums'][0])), arg['strs'][1]]
    if form in ('ph_empty', 'ph_gas', 'ph_all'):
        from pmutt.omkm.phase import IdealGas, StoichSolid, InteractingInterface
        if form == 'ph_empty':
            return []
        if form == 'ph_gas':
            return [IdealGas(name='gas', species=[])]
        return [IdealGas(name='gas', species=[], initial_state={'H2': 0.5, 'N2': 0.5}),
                StoichSolid(name='bulk', species=[]),
                InteractingInterface(name='terrace', species=[], initial_state={'RU(T)': 1.0}),
                InteractingInterface(name='step', species=[])]
    raise core.MachineryError('unknown form %r' % (form,))


KW = {'reactor_type': 'reactor_type'}


def _kwargs(case):
    kw = {}
    for arg in case['args']:
        kw[arg['o']] = _value(arg)
    texts = {k: _txt(v) for k, v in case['unit_texts'].items()}
    if case['units'] == 'obj':
        from pmutt.omkm.units import Units
        kw['units'] = Units(**{k: texts[k] for k in UNIT_KEYS})
    elif case['units'] == 'dict':
        kw['units'] = {k: texts[k] for k in UNIT_KEYS}
    gen = case['gen']
    if gen == 'reactor_temperature':
        kw['reactor'] = {'temperature': 700}
    elif gen == 'misc_foo':
        kw['misc'] = {'foo': 1}
    elif gen == 'solver_atol':
        kw['solver'] = {'atol': 1e-9}
    elif gen == 'inlet_flow':
        kw['inlet_gas'] = {'flow_rate': '9 cm3/s'}
    elif gen == 'simulation_end':
        kw['simulation'] = {'end_time': '5 s'}
    elif gen == 'multi_input_T':
        kw['multi_input'] = {'temperature': [650]}
    return kw


def _leaf(path, v):
    base = {'path': path, 'k': 'other', 'num': [0, 0], 's': '', 'codes': [], 'b': False}
    if isinstance(v, bool):
        base.update(k='bool', b=v)
    elif isinstance(v, (int, float)):
        if not core.finite(v):
            base.update(k='nonfinite')
        else:
            try:
                d = to_dec_exact(v)
            except ValueError:
                d = to_dec(v)
            base.update(k='num', num=d)
    elif isinstance(v, str):
        base.update(k='str', s=v, codes=core.text_codes(v) if len(v) <= 60 and v.isascii() else [])
    elif v is None:
        base.update(k='null')
    return base


def flatten(doc, path=()):
    out = []
    if isinstance(doc, dict):
        if not doc and path:
            out.append(_leaf(list(path), None) | {'k': 'empty'})
        for k, v in doc.items():
            out.extend(flatten(v, path + (str(k),)))
    elif isinstance(doc, (list, tuple)):
        if not doc and path:
            out.append(_leaf(list(path), None) | {'k': 'empty'})
        for i, v in enumerate(doc):
            out.extend(flatten(v, path + ('#%d' % (i + 1),)))
    else:
        out.append(_leaf(list(path), doc))
    return out


def execute(case):
    import yaml
    from pmutt.io.omkm import write_yaml
    obs = {'raised': '', 'loaded': False, 'leaves': []}
    text = None
    try:
        kw = _kwargs(case)
    except core.MachineryError:
        raise
    try:
        if case.get('to_file'):                           # the file on disk instead of the returned text
            import os
            import tempfile
            d = tempfile.mkdtemp(prefix='c07r_')
            try:
                path = os.path.join(d, 'reactor.yaml')
                ret = write_yaml(filename=path, **kw)
                with open(path) as fh:
                    text = fh.read()
                if ret is not None:
                    text = None
                    raise core.MachineryError('write_yaml(filename=...) returned something')
            finally:
                import shutil
                shutil.rmtree(d, ignore_errors=True)
        else:
            text = write_yaml(**kw)
    except core.MachineryError:
        raise
    except Exception as ex:                               # the library raised on a valid call
        obs['raised'] = type(ex).__name__
        obs['msg'] = str(ex)[:200]
    if text is not None:
        try:
            doc = yaml.safe_load(text)
            obs['loaded'] = True
        except yaml.YAMLError as ex:
            doc = None
            obs['msg'] = ('%s: %s' % (type(ex).__name__, ex))[:200]
        if obs['loaded']:
            obs['leaves'] = flatten(doc if doc is not None else {})
    c = {'assign': case['assign'], 'units': case['units'], 'usys': case['usys'], 'gen': case['gen']}
    return case, [{'ev': 'case', 'c': c, 'obs': obs}], []


def supplied(case):
    return {a['o']: a['form'] for a in case['args']}


def tags(case):
    sup = supplied(case)
    t = {'part': 'reactor', 'units': case['units'], 'phases': sup.get('phases', 'omitted')}
    if case.get('to_file'):
        t['to_file'] = True
    if case['gen'] != 'none':
        t['gen'] = case['gen']
    others = sorted(set(f for o, f in sup.items() if o != 'phases'))
    t['forms'] = '+'.join(others) if len(others) <= 2 else 'many'
    return t


def event_tags(case, events, idxs, clause):
    obs = events[idxs[0]]['obs']
    t = {}
    if obs.get('raised'):
        t['exc'] = obs['raised']
    return t


def signature(case):
    return json.dumps([case['assign'], case['units'], case['usys'], case['gen']])


def nontrivial(case):
    return len(case['args']) >= 1


def sample(case):
    return {'part': 'reactor', 'supplied': supplied(case), 'units': case['units'], 'gen': case['gen']}


def models(ctx):
    def good():
        ctx.model('MC_ReactorYaml', 'MC_ReactorYaml', workers=2)

    def pinned():
        bad = ctx.model('MC_ReactorYaml', 'MC_ReactorYaml_pinned', workers=1, expect_ok=False)
        if bad.ok or bad.violated is None:
            raise core.MachineryError('the pinned _assign_yaml_val variant should be rejected')
        ctx.notes.append('ReactorYaml.tla rejects the pinned _assign_yaml_val algorithm: %s violated'
                         % bad.violated)
    return [good, pinned]


def generate(ctx, rnd):
    data, r = core.tlc_cases('MC_ReactorYaml', 'MC_ReactorYaml_cases')
    allc = data[0]
    for k, c in enumerate(allc):
        c['part'] = 'reactor'
        if k % 9 == 4:
            c['to_file'] = True
    ctx.coverage['reactor_tlc_cases'] = len(allc)
    small = [c for c in allc if len(c['args']) != 2]
    pairs = [c for c in allc if len(c['args']) == 2]
    pairs.sort(key=lambda c: json.dumps(c['assign']) + c['units'])
    if ctx.quick:
        rnd.shuffle(pairs)
        pairs = pairs[:1200]
    return small + pairs
