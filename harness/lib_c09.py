"""Helpers of the C09 check: species / reaction builders with controlled thermodynamics.

Everything here only *constructs inputs* for the real library (species with chosen
H/RT and S/R, catalyst sites, OpenMKM phases, reactions of the three classes).
No judgement is made here.
"""
import math

# independent constants (CODATA 2014 as used by the unit tables of the period; only used
# for sensors / conversion factors whose 7th digit does not matter)
KCAL_TO = {'kcal/mol': 1.0, 'cal/mol': 1000.0, 'J/mol': 4184.0, 'kJ/mol': 4.184,
           'eV/molecule': 4184.0 / (1.6021766208e-19 * 6.022140857e23)}
# every energy-per-amount unit convert_unit accepts from kcal/mol (BEP.get_E_act `units`)
ENERGY_UNITS = ['J/mol', 'kJ/mol', 'cal/mol', 'kcal/mol', 'eV/molecule', 'eV/particle',
                'Ha/molecule', 'Ha/particle', 'Eh/molecule', 'Eh/particle']
# every unit of constants.R (without '/K'): accepted by every getter "with units" of a reaction
R_UNITS = ['J/mol', 'kJ/mol', 'L kPa/mol', 'cm3 kPa/mol', 'm3 Pa/mol', 'cm3 MPa/mol', 'm3 bar/mol',
           'L bar/mol', 'L torr/mol', 'cal/mol', 'kcal/mol', 'L atm/mol', 'cm3 atm/mol', 'eV', 'Eh', 'Ha']
# units accepted both by constants.R and by convert_unit (act_energy_unit of the OpenMKM writers)
ACT_UNITS = ['J/mol', 'kJ/mol', 'cal/mol', 'kcal/mol']
AVOGADRO = 6.022140857e23
QUANTITY_UNITS = ['mol', 'molec', 'molecule', 'particle']
LENGTH_UNITS = ['cm', 'm', 'km', 'A', 'ft', 'inch']
# every '<quantity>/<length>2' string SurfaceReaction.get_A(units=...) accepts
A_UNITS = ['%s/%s2' % (q, l) for q in QUANTITY_UNITS for l in LENGTH_UNITS]
_CM2_TO = {'cm2': 1.0, 'm2': 1.0e-4, 'km2': 1.0e-10, 'A2': 1.0e16, 'ft2': 1.0 / 30.48 ** 2,
           'inch2': 1.0 / 2.54 ** 2}
DESCRIPTORS = ['delta_H', 'rev_delta_H', 'reactants_H', 'products_H',
               'delta_E', 'rev_delta_E', 'reactants_E', 'products_E']
SDEN_OPS = ['sum', 'min', 'max', 'mean']


def a_unit_factor(units):
    """site density [mol/cm2] -> [units] (own table, not the library's)."""
    q, a = units.split('/')
    f = 1.0 if q == 'mol' else AVOGADRO
    return f / _CM2_TO[a]


# ---------------------------------------------------------------------------
# species
# ---------------------------------------------------------------------------
def nasa(name, h, s, cp=0.0, T_ref=256.0, phase='G', cat_site=None, n_sites=None):
    """NASA-7 species with  H/RT(T) = cp + (h - cp) * T_ref / T  and
    S/R(T) = cp ln(T / T_ref) + s, i.e. H/RT = h and S/R = s at T_ref.
    With cp = 0, integer h, s and T = T_ref = 256 every value is exact."""
    import numpy as np
    from pmutt.empirical.nasa import Nasa
    a5 = (h - cp) * T_ref
    a6 = s - cp * math.log(T_ref) if cp != 0.0 else s
    a = np.array([cp, 0., 0., 0., 0., a5, a6])
    kw = {}
    if cat_site is not None:
        kw['cat_site'] = cat_site
        kw['n_sites'] = n_sites or 1
    return Nasa(name=name, T_low=50., T_mid=1000., T_high=3000., a_low=a, a_high=a.copy(),
                phase=phase, elements={'H': 1}, **kw)


def from_string(cls, r, r_st, p, p_st, ts=None, ts_st=None, **kw):
    """The same reaction through the alternative constructor <class>.from_string."""
    if cls == 'Reaction':
        from pmutt.reaction import Reaction as K
    elif cls == 'ChemkinReaction':
        from pmutt.reaction import ChemkinReaction as K
    else:
        from pmutt.omkm.reaction import SurfaceReaction as K

    def side(sps, st):
        return ' + '.join('%s%s' % (('%g' % n) if n != 1 else '', sp.name) for sp, n in zip(sps, st))
    txt = side(r, r_st) + ' = ' + ((side(ts, ts_st) + ' = ') if ts is not None else '') + side(p, p_st)
    species = {sp.name: sp for sp in list(r) + list(p) + (list(ts) if ts is not None else [])}
    return K.from_string(txt, species, **kw)


def shomate(name, h, s, cp=0.0, T_ref=256.0, phase='G'):
    """Shomate species (J/mol/K) with H/RT = h, S/R = s at T_ref and constant Cp/R = cp."""
    import numpy as np
    from pmutt import constants as c
    from pmutt.empirical.shomate import Shomate
    R = c.R('J/mol/K')
    A = cp * R
    t = T_ref / 1000.
    # H [kJ/mol] = A t + F ;  S [J/mol/K] = A ln t + G
    F = h * R * T_ref / 1000. - A * t
    G = s * R - (A * math.log(t) if cp != 0.0 else 0.0)
    a = np.array([A, 0., 0., 0., 0., F, G, 0.])
    return Shomate(name=name, T_low=50., T_high=3000., a=a, units='J/mol/K', phase=phase,
                   elements={'H': 1})


def statmech(name, e_eV, wavenumbers, phase=None):
    """Harmonic adsorbate-like StatMech species (has q, U, H, S, G, E).  StatMech has no `phase`
    attribute of its own; ChemkinReaction reads one, so it is attached when asked for."""
    from pmutt.statmech import StatMech, presets
    sp = StatMech(name=name, potentialenergy=e_eV, vib_wavenumbers=list(wavenumbers), spin=0.,
                  elements={'H': 1}, **presets['harmonic'])
    if phase is not None:
        sp.phase = phase
    return sp


def cat_site(name, site_density, bulk='BULK'):
    from pmutt.chemkin import CatSite
    return CatSite(name=name, site_density=site_density, density=21.45, bulk_specie=bulk)


def omkm_phases(gas_species, surf_species_by_site, site_density_by_site, bulk_species=()):
    """Assign OpenMKM phase objects to the species (Phase.__init__ sets species.phase)."""
    from pmutt.cantera.phase import IdealGas
    from pmutt.omkm.phase import InteractingInterface, StoichSolid
    phases = {}
    if gas_species:
        phases['gas'] = IdealGas(name='gas', species=list(gas_species))
    for b in bulk_species:
        phases['bulk_' + b.name] = StoichSolid(name='bulk_' + b.name, species=[b], density=21.45)
    for site, sps in surf_species_by_site.items():
        phases[site] = InteractingInterface(name=site, species=list(sps),
                                            site_density=site_density_by_site[site])
    return phases


def bep(cls, name, slope, intercept, descriptor):
    if cls == 'omkm':
        from pmutt.omkm.reaction import BEP
        return BEP(name=name, slope=slope, intercept=intercept, descriptor=descriptor,
                   synthesis_reactions=[], cleavage_reactions=[])
    from pmutt.reaction.bep import BEP
    return BEP(name=name, slope=slope, intercept=intercept, descriptor=descriptor)


def reaction(cls, reactants, r_st, products, p_st, ts=None, ts_st=None, **kw):
    if cls == 'Reaction':
        from pmutt.reaction import Reaction as K
    elif cls == 'ChemkinReaction':
        from pmutt.reaction import ChemkinReaction as K
    elif cls == 'SurfaceReaction':
        from pmutt.omkm.reaction import SurfaceReaction as K
    else:
        raise ValueError(cls)
    return K(reactants=list(reactants), reactants_stoich=list(r_st), products=list(products),
             products_stoich=list(p_st), transition_state=(list(ts) if ts is not None else None),
             transition_state_stoich=(list(ts_st) if ts is not None else None), **kw)
