"""C07, part 1: edit histories of coexisting phase objects.

A case is {'part': 'phases', 'src': 'tlc'|'sim'|'random', 'objs': {pid: kind}, 'ops': [...]}.
Every op is {'act', 'p', 's', 'L', 'i'} and, for TLC behaviours, the state TLC computed after
the call ('alive', 'mem').  `execute` steps REAL phase objects through the ops (in a forked
child: one pristine interpreter state per case, so that a class-level leak cannot travel from
one case to the next and every replay file reproduces on its own), compares species_names of
EVERY live phase with TLC's state, and records one event per call for Trace_Phases.tla.
"""
import json
import os
import random

from harness import core

SPECIES = ['s1', 's2', 's3', 's4', 's5', 's6']
# elements of the species (s1..s3 as ElemOf in MC_Phases.tla); 'zz' is only ever put into a COPY
ELEMS = {'s1': ['H'], 's2': ['H', 'N'], 's3': ['O'], 's4': ['C'], 's5': ['N', 'O'], 's6': ['C', 'H'],
         'zz': ['Zz']}


def isolated(fn, case):
    """Run fn(case) in a forked child and return its JSON-able result."""
    r, w = os.pipe()
    pid = os.fork()
    if pid == 0:
        code = 0
        try:
            os.close(r)
            try:
                out = {'ok': fn(case)}
            except core.MachineryError as ex:
                out = {'machinery': str(ex)}
            except BaseException as ex:                  # noqa
                out = {'machinery': 'driver exception %s: %s' % (type(ex).__name__, ex)}
            with os.fdopen(w, 'w') as f:
                json.dump(out, f)
        except BaseException:                            # noqa
            code = 3
        finally:
            os._exit(code)
    os.close(w)
    with os.fdopen(r) as f:
        data = f.read()
    os.waitpid(pid, 0)
    if not data:
        raise core.MachineryError('isolated child produced nothing for case %r' % (case.get('cid'),))
    out = json.loads(data)
    if 'machinery' in out:
        raise core.MachineryError(out['machinery'])
    return out['ok']


def _mk_species(name):
    import numpy as np
    from pmutt.empirical.nasa import Nasa
    return Nasa(name=name, elements={el: 1 for el in ELEMS[name]}, phase=None, T_low=300., T_mid=600., T_high=1000.,
                a_low=np.arange(7.), a_high=np.arange(7.))


def _phase_class(kind, flavour):
    import pmutt.cantera.phase as cph
    import pmutt.omkm.phase as oph
    if kind == 'gas':
        return (cph.IdealGas, oph.IdealGas)[flavour % 2]
    if kind == 'solid':
        return (cph.StoichSolid, oph.StoichSolid)[flavour % 2]
    if kind == 'iface':
        return oph.InteractingInterface
    if kind == 'base':
        return cph.Phase
    raise core.MachineryError('unknown phase kind %r' % (kind,))


def _ctor_kw(kind):
    if kind == 'iface':
        return {'site_density': 1.5e-9, 'phases': ['gas']}
    if kind == 'solid':
        return {'density': 12.4}
    return {}


def _written(obj, api):
    """(elements, species names) as the phase states them through one of its writers"""
    import ast
    if api == 'elements':
        return sorted(obj.elements), list(obj.species_names)
    if api == 'yaml':
        d = obj.to_omkm_yaml()
        return sorted(d['elements']), list(d['species'])
    tree = ast.parse(obj.to_cti())
    kw = {k.arg: k.value.value for k in tree.body[0].value.keywords if isinstance(k.value, ast.Constant)}
    return sorted(kw['elements'].split()), kw['species'].split()


def _run(case):
    objs = {}                       # pid -> real phase object
    sp = {}                         # name -> real species object (one object per name)

    def S(name):
        if name not in sp:
            sp[name] = _mk_species(name)
        return sp[name]

    def names():
        return [[pid, list(objs[pid].species_names)] for pid in sorted(objs)]

    def refs():
        """which live phase object every species object made so far refers to (species.phase)"""
        out = []
        for n in sorted(sp):
            ph = getattr(sp[n], 'phase', None)
            who = 'none' if ph is None else 'other'
            for pid, o in objs.items():
                if o is ph:
                    who = pid
            out.append([n, who])
        return out

    def elems():
        return [[pid, sorted(objs[pid].elements)] for pid in sorted(objs)]
    watch = case.get('watch', True)       # read .elements of every live phase after every call

    def owners(nms):
        out = []
        for n in nms:
            ph = getattr(S(n), 'phase', None)
            who = 'none' if ph is None else 'other'
            for pid, o in objs.items():
                if o is ph:
                    who = pid
            out.append([n, who])
        return out

    events = [{'ev': 'begin', 'elem_of': [[n, ELEMS[n]] for n in sorted(ELEMS)]}]
    mism = []
    flavour = case.get('flavour', 0)
    for k, op in enumerate(case['ops']):
        act, p = op['act'], op['p']
        ev = {'ev': act, 'p': p, 'raised': False, 'own': [], 'names': [], 'elems': [], 'refs': []}
        try:
            if act == 'new':
                cls = _phase_class(case['objs'][p], flavour + k)
                L = op['L']
                if L == ['default']:
                    ev['given'], ev['L'] = 'default', []
                    objs[p] = cls(name=p, **_ctor_kw(case['objs'][p]))
                elif L is None:
                    ev['given'], ev['L'] = 'none', []
                    objs[p] = cls(name=p, species=None, **_ctor_kw(case['objs'][p]))
                else:
                    ev['given'], ev['L'] = 'list', list(L)
                    objs[p] = cls(name=p, species=[S(n) for n in L], **_ctor_kw(case['objs'][p]))
                    ev['own'] = owners(L)
            elif act == 'append':
                ev['s'] = op['s']
                objs[p].append_species(S(op['s']))
                ev['own'] = owners([op['s']])
            elif act == 'extend':
                ev['L'] = list(op['L'])
                objs[p].extend_species([S(n) for n in op['L']])
                ev['own'] = owners(op['L'])
            elif act == 'remove':
                ev['s'] = op['s']
                objs[p].remove_species(op['s'])
            elif act == 'pop':
                ev['i'] = int(op['i'])
                objs[p].pop_species(int(op['i']))
            elif act == 'clear':
                objs[p].clear_species()
            elif act == 'copy':
                ret = objs[p].copy_species()
                ev['ret'] = [x.name for x in ret]
                ret.append(S('zz'))                       # edit the RETURNED list only
                ev['after'] = list(objs[p].species_names)
            elif act == 'observe':
                apis = ['elements', 'cti'] + (['yaml'] if hasattr(objs[p], 'to_omkm_yaml') else [])
                api = apis[(flavour + k) % len(apis)]
                ev['api'] = api
                ev['wel'], ev['wsp'] = _written(objs[p], api)
            elif act == 'assign':
                ev['L'] = list(op['L'])
                objs[p].species = [S(n) for n in op['L']]
                ev['own'] = owners(op['L'])
            else:
                raise core.MachineryError('unknown op %r' % (op,))
        except core.MachineryError:
            raise
        except Exception as ex:                           # the library raised on a valid call
            ev['raised'] = True
            events.append(ev)
            mism.append({'step': k, 'op': _brief(op), 'raised': '%s: %s' % (type(ex).__name__, ex)})
            break
        ev['names'] = names()
        ev['refs'] = refs()
        ev['elems'] = elems() if (watch or k == len(case['ops']) - 1) else []
        events.append(ev)
        if 'mem' in op:                                   # S->C: the state TLC computed
            exp = [[pid, list(op['mem'][pid])] for pid in sorted(op['alive'])]
            if ev['names'] != exp:
                mism.append({'step': k, 'op': _brief(op), 'expected': exp, 'got': ev['names']})
            if 'el' in op and ev['elems']:
                expel = [[pid, sorted(op['el'][pid])] for pid in sorted(op['alive'])]
                if ev['elems'] != expel:
                    mism.append({'step': k, 'op': _brief(op), 'expected_elements': expel, 'got': ev['elems']})
            if act == 'observe' and (ev['wsp'] != list(op['ret']) or ev['wel'] != sorted(op['el'][p])):
                mism.append({'step': k, 'op': _brief(op), 'api': ev['api'],
                             'expected_written': [sorted(op['el'][p]), list(op['ret'])],
                             'got': [ev['wel'], ev['wsp']]})
            if act == 'copy' and ev['ret'] != list(op['ret']):
                mism.append({'step': k, 'op': _brief(op), 'expected_ret': op['ret'], 'got': ev['ret']})
    return {'events': events, 'mism': mism}


def _brief(op):
    return {k: op[k] for k in ('act', 'p', 's', 'L', 'i') if k in op}


def _preload():
    """Import the library in the (long-lived) worker so that forked children inherit it."""
    import numpy                                          # noqa
    import pmutt.cantera.phase                            # noqa
    import pmutt.omkm.phase                               # noqa
    import pmutt.empirical.nasa                           # noqa


def execute(case):
    _preload()
    if 'raw' in case:                                     # a printed TLC behaviour, parsed here
        case = from_behaviour(core.parse_tla(case['raw'])[1], case['cid'], case['src'])
    out = isolated(_run, case)
    return case, out['events'], out['mism']


def from_behaviour(h, cid, src):
    objs = {}
    ops = []
    for r in h:
        objs[r['p']] = r['kind']
        ops.append({'act': r['act'], 'p': r['p'], 's': r['s'], 'L': r['L'], 'i': r['i'],
                    'ret': r['ret'], 'alive': sorted(r['alive']), 'mem': r['mem'],
                    'el': {k: sorted(v) for k, v in r['el'].items()}})
    fl = sum(len(o['L']) + o['i'] for o in ops) + len(ops)
    return {'part': 'phases', 'cid': cid, 'src': src, 'objs': objs, 'ops': ops,
            'flavour': fl, 'watch': fl % 4 != 3}


def random_case(rnd, cid):
    """A random history on 2-5 coexisting objects; duplicates in a list are allowed here."""
    n = rnd.randint(2, 5)
    pids = ['p%d' % (i + 1) for i in range(n)]
    kinds = {}
    for pid in pids:
        kinds[pid] = rnd.choice(['iface', 'iface', 'iface', 'gas', 'solid'])
    if sum(1 for k in kinds.values() if k == 'iface') < 2 and rnd.random() < 0.8:
        kinds[pids[0]] = kinds[pids[-1]] = 'iface'
    names = SPECIES[:rnd.randint(3, 6)]
    cur = {}
    ops = []

    def some_list(maxn=3):
        return [rnd.choice(names) for _ in range(rnd.randint(0, maxn))]

    for _ in range(rnd.randint(4, 24)):
        dead = [p for p in pids if p not in cur]
        r = rnd.random()
        if dead and (not cur or r < 0.25):
            p = rnd.choice(dead)
            g = rnd.random()
            L = ['default'] if g < 0.6 else (None if g < 0.7 else some_list())
            cur[p] = [] if L in (['default'], None) else list(L)
            ops.append({'act': 'new', 'p': p, 's': '-', 'L': L, 'i': 0})
            continue
        if not cur:
            continue
        p = rnd.choice(sorted(cur))
        r = rnd.random()
        movable = [(q, x) for q in sorted(cur) for x in cur[q] if q != p and x not in cur[p]]
        if movable and rnd.random() < 0.2:
            # MOVE species x from q to p: add-then-remove or remove-then-add, by remove / pop (+/-) / clear
            q, x = rnd.choice(movable)
            add = {'act': 'append', 'p': p, 's': x, 'L': [], 'i': 0}
            how = rnd.choice(['remove', 'pop', 'popneg', 'clear'])
            i = cur[q].index(x)
            if how == 'remove':
                rem = [{'act': 'remove', 'p': q, 's': x, 'L': [], 'i': 0}]
            elif how in ('pop', 'popneg'):
                rem = [{'act': 'pop', 'p': q, 's': '-', 'L': [], 'i': i if how == 'pop' else i - len(cur[q])}]
            else:
                rest = [y for k, y in enumerate(cur[q]) if k != i]
                rem = [{'act': 'clear', 'p': q, 's': '-', 'L': [], 'i': 0}] + \
                    ([{'act': 'extend', 'p': q, 's': '-', 'L': rest, 'i': 0}] if rest else [])
            first = rnd.random() < 0.6
            ops.extend(([add] + rem) if first else (rem + [add]))
            ops[-1]['move'] = ops[-2]['move'] = how + ('_add_first' if first else '_remove_first')
            if how == 'clear':
                cur[q] = [y for k, y in enumerate(cur[q]) if k != i]
            else:
                cur[q].pop(i)
            cur[p].append(x)
            ops.append({'act': 'observe', 'p': p, 's': '-', 'L': [], 'i': 0})
            continue
        if r < 0.35:
            s = rnd.choice(names)
            cur[p].append(s)
            ops.append({'act': 'append', 'p': p, 's': s, 'L': [], 'i': 0})
        elif r < 0.5:
            L = some_list()
            cur[p].extend(L)
            ops.append({'act': 'extend', 'p': p, 's': '-', 'L': L, 'i': 0})
        elif r < 0.62 and cur[p]:
            s = rnd.choice(cur[p])
            cur[p].remove(s)
            ops.append({'act': 'remove', 'p': p, 's': s, 'L': [], 'i': 0})
        elif r < 0.74 and cur[p]:
            i = rnd.randrange(len(cur[p]))
            if rnd.random() < 0.3:
                i -= len(cur[p])                            # the same position as a negative index
            cur[p].pop(i)
            ops.append({'act': 'pop', 'p': p, 's': '-', 'L': [], 'i': i})
        elif r < 0.8:
            cur[p] = []
            ops.append({'act': 'clear', 'p': p, 's': '-', 'L': [], 'i': 0})
        elif r < 0.84:
            ops.append({'act': 'copy', 'p': p, 's': '-', 'L': [], 'i': 0})
        elif r < 0.93:
            ops.append({'act': 'observe', 'p': p, 's': '-', 'L': [], 'i': 0})
        else:
            L = some_list()
            cur[p] = list(L)
            ops.append({'act': 'assign', 'p': p, 's': '-', 'L': L, 'i': 0})
    return {'part': 'phases', 'cid': cid, 'src': 'random', 'objs': kinds, 'ops': ops,
            'flavour': rnd.randrange(4), 'watch': rnd.random() < 0.7}


def tags(case):
    """Small facts about a history used by known-finding matchers."""
    dflt = [o['p'] for o in case['ops'] if o['act'] == 'new' and o['L'] == ['default']
            and case['objs'].get(o['p']) == 'iface']
    return {'part': 'phases', 'src': case['src'],
            'default_constructed_interfaces': min(len(dflt), 2)}


def signature(case):
    return json.dumps([[o['act'], o['p'], o['s'], o['L'], o['i']] for o in case['ops']]
                      + [sorted(case['objs'].items())])


def nontrivial(case):
    return len(case['ops']) >= 2 and len({o['p'] for o in case['ops']}) >= 2


def generate(ctx, rnd):
    """TLC behaviours (raw printed values, parsed in the workers) + random histories."""
    r = core.run_tlc('MC_Phases', 'MC_Phases_beh', workers=1, timeout=900)
    if not r.ok:
        raise core.MachineryError('MC_Phases_beh failed:\n' + r.out[-2000:])
    raws = [p for p in r.prints() if core.tagged(p, 'BEH')]
    ctx.coverage['phases_tlc_edge_behaviours'] = len(raws)
    ctx.count('states', r.distinct)
    ctx.count('transitions', r.states)
    if ctx.quick:
        rnd.shuffle(raws)
        raws = raws[:1200]
    cases = [{'raw': p, 'cid': 'pe%d' % k, 'src': 'tlc'} for k, p in enumerate(raws)]
    nsim = ctx.pick(200, 4000)
    rs = core.run_tlc('MC_Phases', 'MC_Phases_sim', workers=1, timeout=1500,
                      extra=['-simulate', 'num=%d' % nsim, '-depth', '13', '-seed', str(ctx.seed + 7)])
    sims = [p for p in rs.prints() if core.tagged(p, 'BEH')]
    if not sims:
        raise core.MachineryError('MC_Phases_sim produced no behaviours:\n' + rs.out[-2000:])
    ctx.coverage['phases_tlc_simulated_behaviours'] = len(sims)
    cases += [{'raw': p, 'cid': 'ps%d' % k, 'src': 'sim'} for k, p in enumerate(sims)]
    cases += [random_case(rnd, 'pr%d' % k) for k in range(ctx.pick(400, 8000))]
    return cases


SHARDS = 6


def event_tags(case, events, idxs, clause):
    return {}


def sample(case):
    return {'part': 'phases', 'src': case['src'], 'objs': case['objs'],
            'ops': [_brief(o) for o in case['ops'][:8]]}


def models(ctx):
    def good():
        ctx.model('MC_Phases', 'MC_Phases', workers=8)

    def stale():
        bad = ctx.model('MC_Phases', 'MC_Phases_stalecache', workers=2, expect_ok=False)
        if bad.ok or bad.violated is None:
            raise core.MachineryError('the stale-cache variant of Phases.tla should be rejected')
        ctx.notes.append('Phases.tla rejects elements cached across pop/remove: %s violated' % bad.violated)

    def shared():
        bad = ctx.model('MC_Phases', 'MC_Phases_shared', workers=2, expect_ok=False)
        if bad.ok or bad.violated is None:
            raise core.MachineryError('the shared-default variant of Phases.tla should be rejected')
        ctx.notes.append('Phases.tla rejects the shared default list variant: %s violated' % bad.violated)
    def detach():
        bad = ctx.model('MC_Phases', 'MC_Phases_detach', workers=2, expect_ok=False)
        if bad.ok or bad.violated is None:
            raise core.MachineryError('the detach-always variant of Phases.tla should be rejected')
        ctx.notes.append('Phases.tla rejects a removal that wipes species.phase unconditionally: %s violated'
                         % bad.violated)

    def detach_self():
        ctx.model('MC_Phases', 'MC_Phases_detachself', workers=8)
    return [good, shared, stale, detach] + ([] if ctx.quick else [detach_self])
