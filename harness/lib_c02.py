"""Helpers of the C02 driver: the enumerations of the input space (every unit of pmutt.constants.R, the
container / number forms a caller may use) and the construction of species from a case record.

Nothing here judges anything: it only builds inputs and converts them between equivalent Python forms.
"""
import ast
import math
import os
import random

from harness import core

# ---------------------------------------------------------------- units
_UNITS = None


def r_units():
    """Every unit key accepted by pmutt.constants.R, read from the dict literal in its source (the dict is
    local to the function, so it cannot be imported).  All of them are 'energy/K' units, i.e. fitting units
    a Shomate species supports."""
    global _UNITS
    if _UNITS is not None:
        return _UNITS
    path = os.path.join(core.REPO, 'pmutt', 'constants.py')
    with open(path) as f:
        src = f.read()
    keys = None
    for n in ast.parse(src).body:
        if isinstance(n, ast.FunctionDef) and n.name == 'R':
            for m in ast.walk(n):
                if isinstance(m, ast.Dict) and m.keys and all(isinstance(k, ast.Constant) for k in m.keys):
                    keys = [k.value for k in m.keys]
                    break
    if not keys or len(keys) < 10 or not all(isinstance(k, str) and k.endswith('/K') for k in keys):
        raise core.MachineryError('could not enumerate the units of pmutt.constants.R: %r' % (keys,))
    from pmutt import constants as c
    for k in keys:
        c.R(k)                              # KeyError here = the enumeration is wrong
    _UNITS = keys
    return keys


def energy_unit(u):
    """'J/mol/K' -> 'J/mol' (the form get_H / get_G document: the R unit without '/K')"""
    assert u.endswith('/K')
    return u[:-2]


# ---------------------------------------------------------------- boundaries
FIXED_BOUNDS = [
    [200.0, 1000.0, 2500.0, 4000.0, 5000.0, 6000.0],          # integral: usable as int / numpy int
    [298.15, 873.4, 1499.9, 3100.5, 4321.0625, 5000.25],
]
NB = 6


def bounds_of(bset, bseed):
    """boundary id (1..6) -> temperature.  bset 0/1: the fixed sets; 2: a random set whose ends are the ends of
    the property's range (50 K and 6000 K); 3: a random set with one very narrow segment (2^-10 K)."""
    if bset in (0, 1):
        vals = FIXED_BOUNDS[bset]
    else:
        r = random.Random(bseed * 2 + bset)
        while True:
            inner = sorted(r.uniform(60.0, 5900.0) for _ in range(NB - 2))
            if all(b - a > 2.0 for a, b in zip(inner, inner[1:])):
                break
        if bset == 2:
            vals = [50.0] + inner + [6000.0]
        else:
            vals = [r.uniform(50.0, 58.0)] + inner + [r.uniform(5902.0, 6000.0)]
            k = r.randrange(1, NB - 1)               # segment (k-1, k) becomes 2^-10 K wide
            vals[k] = vals[k - 1] + 2.0 ** -10
    return {i + 1: float(v) for i, v in enumerate(vals)}


def pos_to_T(p, bounds, last_b):
    b, r = divmod(p, 4)
    if b == 0:                       # below the first boundary
        return bounds[1] * 0.5 if r == 2 else math.nextafter(bounds[1], -math.inf)
    if r == 0:
        return bounds[b]
    if r == 1:
        return math.nextafter(bounds[b], math.inf)
    if b == last_b:                  # above the last boundary (r == 2)
        return bounds[b] * 1.2
    if r == 2:
        return 0.5 * (bounds[b] + bounds[b + 1])
    return math.nextafter(bounds[b + 1], -math.inf)


# ---------------------------------------------------------------- forms
TCONT = ['ndarray', 'list', 'tuple']
TSCALAR = ['float', 'np.float64', '0d']
ACONT = ['ndarray', 'list', 'tuple']
AKIND = ['dense', 'zero', 'sparse', 'int', 'scaled']
SCALES = [1e-12, 1e-6, 1e6, 1e12]
BFORM = ['float', 'int', 'np.float64', 'np.int64']
TMID = ['same', 'list']              # 'list': T_mid given as a one-element list (Nasa.get_a unwraps it)
CTOR = ['direct', 'from_dict']
PHASE = ['S', 'G', None]

DEFAULT_FORMS = {'units': 'J/mol/K', 'tcont': 'ndarray', 'tscalar': 'float', 'acont': 'ndarray', 'akind': 'dense',
                 'scale': 1.0, 'bform': 'float', 'tmid': 'same', 'ctor': 'direct', 'phase': 'S', 'gunits': 'J/mol/K'}


def forms_of(case):
    f = dict(DEFAULT_FORMS)
    f.update(case.get('forms') or {})
    return f


def container(vals, kind):
    import numpy as np
    if kind == 'ndarray':
        return np.array(vals)
    if kind == 'list':
        return list(vals)
    return tuple(vals)


def scalar_form(T, kind):
    import numpy as np
    if kind == 'np.float64':
        return np.float64(T)
    if kind == '0d':
        return np.array(T)
    return float(T)


def number_form(x, kind):
    import numpy as np
    if kind in ('int', 'np.int64') and not float(x).is_integer():
        kind = 'float'
    if kind == 'int':
        return int(x)
    if kind == 'np.int64':
        return np.int64(int(x))
    if kind == 'np.float64':
        return np.float64(x)
    return float(x)


# ---------------------------------------------------------------- coefficients
NCOEF = {'nasa7': 7, 'nasa9': 9, 'shomate': 8}


def dense(rnd, family):
    # every term contributes O(1) around 1000 K (t = 1 for Shomate)
    if family == 'nasa7':
        return [rnd.uniform(-2, 2) * 1000.0 ** -x for x in (0, 1, 2, 3, 4)] + [rnd.uniform(-3e3, 3e3), rnd.uniform(-5, 5)]
    if family == 'nasa9':
        return [rnd.uniform(-2, 2) * 1000.0 ** -x for x in (-2, -1, 0, 1, 2, 3, 4)] + [rnd.uniform(-3e3, 3e3), rnd.uniform(-5, 5)]
    return [rnd.uniform(-30, 30) for _ in range(5)] + [rnd.uniform(-50, 50), rnd.uniform(-50, 50), rnd.uniform(-5, 5)]


def integers(rnd, family):
    """coefficient vectors whose entries are Python ints (np.array of them has an integer dtype)"""
    ri = rnd.randint
    if family == 'nasa7':
        return [ri(-5, 5), ri(-3, 3), ri(-1, 1), 0, 0, ri(-3000, 3000), ri(-5, 5)]
    if family == 'nasa9':
        return [ri(-100000, 100000), ri(-1000, 1000), ri(-5, 5), ri(-3, 3), ri(-1, 1), 0, 0, ri(-3000, 3000), ri(-5, 5)]
    return [ri(-30, 30) for _ in range(5)] + [ri(-50, 50), ri(-50, 50), ri(-5, 5)]


def coefficient_sets(rnd, family, nseg, akind, scale):
    """one coefficient vector per segment (as plain Python lists), distinct between segments"""
    out = []
    zero_at = rnd.randrange(nseg)
    for j in range(nseg):
        a = dense(rnd, family)
        if akind == 'zero':
            if j == zero_at:
                a = [0.0] * len(a)
        elif akind == 'sparse':
            k = rnd.randrange(len(a))
            a = [x if i == k else 0.0 for i, x in enumerate(a)]
        elif akind == 'int':
            a = integers(rnd, family)
        elif akind == 'scaled':
            a = [x * scale for x in a]
        out.append(a)
    return out


# ---------------------------------------------------------------- species
ELEMENTS = {'H': 2, 'O': 1}


def build(family, segs, order, bounds, coefs, forms, single=False):
    """The species of a case.  segs: [[lo_id, hi_id]...] in canonical (ascending) numbering; order: stored
    order of the NASA-9 segments (1-based canonical indices); coefs: one list per canonical segment."""
    from pmutt.empirical.nasa import Nasa, Nasa9, SingleNasa9
    from pmutt.empirical.shomate import Shomate
    bf = forms['bform']
    ac = forms['acont']
    nb = lambda b: number_form(bounds[b], bf)                     # noqa
    if family == 'nasa7':
        T_mid = nb(segs[0][1])
        if forms['tmid'] == 'list':
            T_mid = [T_mid]
        obj = Nasa(name='sp', T_low=nb(segs[0][0]), T_mid=T_mid, T_high=nb(segs[1][1]),
                   a_low=container(coefs[0], ac), a_high=container(coefs[1], ac),
                   phase=forms['phase'], elements=dict(ELEMENTS))
        cls = Nasa
    elif family == 'nasa9':
        singles = [SingleNasa9(T_low=nb(lo), T_high=nb(hi), a=container(cf, ac)) for (lo, hi), cf in zip(segs, coefs)]
        if single:
            return singles[0]
        stored = [singles[j - 1] for j in order]
        obj = Nasa9(name='sp', nasas=container(stored, 'list' if ac == 'ndarray' else ac),
                    phase=forms['phase'], elements=dict(ELEMENTS))
        cls = Nasa9
    else:
        obj = Shomate(name='sp', T_low=nb(segs[0][0]), T_high=nb(segs[0][1]), a=container(coefs[0], ac),
                      units=forms['units'], phase=forms['phase'], elements=dict(ELEMENTS))
        cls = Shomate
    if forms['ctor'] == 'from_dict':
        obj = cls.from_dict(obj.to_dict())
    return obj


def evaluators(family):
    """the module-level evaluators of one polynomial: (a, T, units) -> float, for Cp/R, H/RT, S/R"""
    import numpy as np
    from pmutt.empirical import nasa as N
    from pmutt.empirical import shomate as S
    if family == 'nasa7':
        return (lambda a, T, u: float(N.get_nasa_CpoR(a=np.array(a), T=T)),
                lambda a, T, u: float(N.get_nasa_HoRT(a=np.array(a), T=T)),
                lambda a, T, u: float(N.get_nasa_SoR(a=np.array(a), T=T)))
    if family == 'nasa9':
        return (lambda a, T, u: float(np.squeeze(N.get_nasa9_CpoR(a=np.array(a), T=np.array([T])))),
                lambda a, T, u: float(np.squeeze(N.get_nasa9_HoRT(a=np.array(a), T=np.array([T])))),
                lambda a, T, u: float(np.squeeze(N.get_nasa9_SoR(a=np.array(a), T=np.array([T])))))
    return (lambda a, T, u: float(S.get_shomate_CpoR(a=np.array(a), T=np.array([T]), units=u)[0]),
            lambda a, T, u: float(S.get_shomate_HoRT(a=np.array(a), T=np.array([T]), units=u)[0]),
            lambda a, T, u: float(S.get_shomate_SoR(a=np.array(a), T=np.array([T]), units=u)[0]))


def largest_terms(ev, coefs, T, units):
    """per quantity: the largest single term |a_j * basis_j(T)| of any segment - the scale against which
    "exactly" is read (a polynomial value can be a cancelled sum of much larger terms)"""
    nco = len(coefs[0])
    out = []
    for e in ev:
        big = 0.0
        for j in range(nco):
            unit = [0.0] * nco
            unit[j] = 1.0
            b = abs(e(unit, T, units))
            for cf in coefs:
                big = max(big, abs(cf[j]) * b)
        out.append(big)
    return out
