"""C05 - enumerated input classes of the quantifier (audit round).

`grid_cases(rnd)` builds the deterministic part of the case set that EVERY run
contains: the full product of the documented options, the name classes, the
composition grid, boundary temperatures / coefficients / list sizes, every phase
character, every accepted argument type.  `classify(cases)` counts, from the
INPUTS alone, how often each class of the quantifier occurs; a zero in a
required class is a machinery error (vacuity).

A species is a JSON-able dict
  {name, notes, elements [[symbol, n]...], phase, T [low, high, mid],
   a_high [7], a_low [7], types {count, T, coef}}
`types` says which Python / NumPy type the driver casts the values to before
they reach the library (see c05._inputs).
"""
import itertools

KEYWORDS = ('END', 'THERMO')

PERIODIC = ('H He Li Be B C N O F Ne Na Mg Al Si P S Cl Ar K Ca Sc Ti V Cr Mn Fe Co Ni Cu Zn Ga Ge As Se '
            'Br Kr Rb Sr Y Zr Nb Mo Tc Ru Rh Pd Ag Cd In Sn Sb Te I Xe Cs Ba La Ce Pr Nd Pm Sm Eu Gd Tb Dy '
            'Ho Er Tm Yb Lu Hf Ta W Re Os Ir Pt Au Hg Tl Pb Bi Po At Rn Fr Ra Ac Th Pa U Np Pu Am Cm Bk Cf '
            'Es Fm Md No Lr Rf Db Sg Bh Hs Mt Ds Rg Cn Nh Fl Mc Lv Ts Og').split()
ONE = [s for s in PERIODIC if len(s) == 1]
TWO = [s for s in PERIODIC if len(s) == 2]

CAPS = ('Xx', 'XX', 'xx', 'X', 'x')


def recase(sym, cap):
    return {'Xx': sym.capitalize(), 'XX': sym.upper(), 'xx': sym.lower(), 'X': sym.upper(), 'x': sym.lower()}[cap]


def caps_of(sym):
    if len(sym) == 1:
        return 'X' if sym.isupper() else 'x'
    return 'Xx' if sym == sym.capitalize() else 'XX' if sym.isupper() else 'xx' if sym.islower() else 'other'


COUNT_TYPES = ('int', 'int64', 'int32', 'float', 'float64')
T_TYPES = ('float', 'int', 'float64', 'int64', 'float32')
COEF_TYPES = ('ndarray', 'list', 'tuple', 'float32', 'intlist')
INPUTS = ('list', 'tuple', 'dict', 'dict_key')
SUPP_MODES = (None, 'entries', 'entries_nonl', 'whole', 'interleaved', 'manual')
TXT_MODES = (None, 'nl', 'nonl')
COUNT_EDGES = (1, 2, 9, 10, 11, 99, 100, 101, 998, 999)

# (class, name): every way a name can meet the reader's keyword / column / number tests
NAME_CLASSES = [
    ('kw_exact', 'END'), ('kw_exact', 'THERMO'),
    ('kw_prefix', 'ENDO-C5H8'), ('kw_prefix', 'THERMOLYSIN(S)'), ('kw_prefix', 'END1'), ('kw_prefix', 'THERMOALL'),
    ('kw_suffix', 'LEGEND'), ('kw_suffix', 'ISOTHERMO'), ('kw_suffix', '1END'), ('kw_suffix', 'C2H4-BLEND'),
    ('kw_interior', 'XENDY'), ('kw_interior', 'BENDER(S)'), ('kw_interior', 'ATHERMOS'),
    ('kw_both', 'THERMOEND'),
    ('kw_15', 'ENDABCDEFGHIJKL'), ('kw_15', 'ABCDEFGHIJKLEND'), ('kw_15', 'THERMO(S)-1,2,3'), ('kw_15', 'C6H5-ISOTHERMO2'),
    ('kw_lower', 'end'), ('kw_lower', 'thermo'), ('kw_lower', 'End'), ('kw_lower', 'legend(s)'),
    ('other_kw', 'ALL'), ('other_kw', 'REACTIONS'), ('other_kw', 'ELEMENTS'), ('other_kw', 'SPECIES'), ('other_kw', 'THERM'),
    ('len1', 'X'), ('len1', '+'), ('len1', '4'),
    ('len2', 'H2'), ('len2', 'e-'),
    ('len14', 'CH3CH2CH2OH(S)'), ('len14', 'ABCDEFGHIJKLM1'),
    ('len15', 'CH3CH2CH2CH2(S)'), ('len15', '123456789012345'),
    ('digit_start', '1A'), ('digit_start', '2-C4H8'), ('digit_start', '100'), ('digit_start', '1.5'),
    ('digit_start', '1E5'), ('digit_start', '1200.0'), ('number_like', 'inf'), ('number_like', 'nan'),
    ('number_like', '-2'), ('number_like', '.5'),
    ('paren', 'C2H4(S)'), ('paren', 'HCOOH(g)'), ('paren', 'Pt(111)'), ('paren', '(CH3)2CO'),
    ('hyphen', 'CH3-CH2'), ('hyphen', 'n-C4H10'), ('hyphen', 'c-C3H6'), ('hyphen', 'OH-'),
    ('comma', 'C6H5,1'), ('comma', '1,3-C4H6'),
    ('lower', 'ethanol'), ('lower', 'pt'), ('lower', 'cH3oH'),
    ('punct', "O'"), ('punct', 'CH3*'), ('punct', 'N2+'), ('punct', 'A!B'), ('punct', 'C#C'), ('punct', 'H2O_ads'),
    ('punct', 'A=B'), ('punct', 'X/Y'), ('punct', '"Q"'), ('punct', 'a%b$c&d'),
    ('latin1', 'µ-OH'), ('latin1', 'Å(S)'), ('latin1', 'café'),
]


def _coefs(rnd, k):
    """fourteen distinct exactly representable-in-9-digits values (an interleaving slip shows)"""
    hi = [float('%d.%04de%d' % (1 + (k + j) % 9, (37 * k + 11 * j) % 10000, [0, -3, -7, -11, -15, 4, 1][j])) *
          (-1 if (k + j) % 3 == 0 else 1) for j in range(7)]
    lo = [float('%d.%04de%d' % (1 + (k + 2 * j) % 9, (91 * k + 7 * j) % 10000, [0, -3, -6, -9, -13, 4, 1][j])) *
          (-1 if (k + j) % 4 == 1 else 1) for j in range(7)]
    return hi, lo


class _Maker:
    def __init__(self, rnd):
        self.rnd = rnd
        self.k = 0

    def sp(self, name=None, els=None, ph='G', T=None, ah=None, al=None, notes=None, types=None):
        self.k += 1
        hi, lo = _coefs(self.rnd, self.k)
        return {'name': name or 'Z%dq' % self.k, 'notes': notes,
                'elements': els or [['H', 1 + self.k % 9]], 'phase': ph,
                'T': list(T or [200.0 + self.k % 50, 3000.0 + self.k % 500, 1000.0 + self.k % 100]),
                'a_high': list(ah or hi), 'a_low': list(al or lo),
                'types': dict({'count': 'int', 'T': 'float', 'coef': 'ndarray'}, **(types or {}))}


def _case(cid, species, **kw):
    c = {'cid': cid, 'kind': 'grid', 'species': species, 'supp': None, 'supp_mode': None, 'supp_txt': None,
         'write_date': False, 'input': 'list', 'newline': None, 'formats': ['list', 'tuple', 'dict'],
         'rewrite': False}
    c.update(kw)
    names = [s['name'] for s in (c['supp'] or []) + c['species']]
    if len(set(names)) != len(names):
        c['formats'] = ['list', 'tuple']
    return c


COMMENTS = ['! generated by pMuTT', '!END of header', '! THERMO data below; LEGEND: see SI',
            '!       100       500      1500', '!' + 'x' * 78 + '3', '!']


def species_pool(mk):
    """Special species, each exercising one boundary or class (names are fresh)."""
    pool = []
    # --- composition: n positive elements x position of a (two-letter, three-digit) entry x zero pattern
    for n in (1, 2, 3, 4):
        for p in range(n):
            for zp in ('none', 'first', 'after', 'last', 'first+last', 'beyond4'):
                els = [[ONE[(3 * n + j) % len(ONE)], 1 + (n + j) % 9] for j in range(n)]
                els[p] = [TWO[(7 * n + 5 * p + len(zp)) % len(TWO)], 100 + (37 * n + 211 * p) % 900]
                used = {e[0] for e in els}
                z = [s for s in TWO if s not in used]
                if zp == 'first':
                    els.insert(0, [z[0], 0])
                elif zp == 'after':
                    els.insert(p + 1, [z[1], 0])
                elif zp == 'last':
                    els.append([z[2], 0])
                elif zp == 'first+last':
                    els = [[z[3], 0]] + els + [[z[4], 0]]
                elif zp == 'beyond4':                # zeros first so that real entries sit after the 4th
                    els = [[z[k], 0] for k in range(5 - n)] + els if n < 4 else [[z[0], 0]] + els[:2] + [[z[1], 0]] + els[2:]
                pool.append(mk.sp(els=els))
    # --- every capitalisation of a symbol (Xx, XX, xx, X, x) in every position of 1-4 elements,
    #     with one-, two- and three-digit counts (upper case is the usual Chemkin spelling)
    for n in (1, 2, 3, 4):
        for p in range(n):
            for ci, cap in enumerate(CAPS):
                for d, cnt in enumerate((1 + (n + p + ci) % 9, 10 + (7 * n + 13 * p + ci) % 90, 100 + (31 * n + 57 * p + ci) % 900)):
                    els = [[ONE[(5 * n + j + 1) % len(ONE)], 1 + (n + j + d) % 9] for j in range(n)]
                    base = TWO[(11 * n + 3 * p + ci + d) % len(TWO)] if len(cap) == 2 else \
                        [q for q in ONE if q not in {e[0] for e in els}][(n + p + d) % 5]
                    els[p] = [recase(base, cap), cnt]
                    pool.append(mk.sp(els=els))
    pool.append(mk.sp(els=[['PT', 1], ['cu', 12], ['x', 3], ['RU', 128]]))
    # --- counts at and next to every boundary, one- and two-letter symbols, every slot
    for k, c in enumerate(COUNT_EDGES):
        pool.append(mk.sp(els=[['H', c]]))
        pool.append(mk.sp(els=[[TWO[k], c]]))
        pool.append(mk.sp(els=[['C', 1], ['H', 2], ['O', 3], [TWO[k + 10], c]]))
    # --- every accepted count type (zero of that type included)
    for ty in COUNT_TYPES:
        pool.append(mk.sp(els=[['C', 2], ['Pt', 0], ['H', 12], ['Cl', 128]], types={'count': ty}))
        pool.append(mk.sp(els=[['O', 7]], types={'count': ty}))
    # --- every symbol of the periodic table (four per species)
    for k in range(0, len(PERIODIC), 4):
        pool.append(mk.sp(els=[[s, 1 + (k + j) % 999] for j, s in enumerate(PERIODIC[k:k + 4])]))
    # --- temperatures: both ends, next to them, 0-2 decimals, every accepted type
    for T, ty in [((1.0, 9999.9, 500.0), 'float'), ((1, 9999, 500), 'int'), ((1.1, 9999.8, 1.2), 'float'),
                  ((1.04, 9999.94, 5000.05), 'float'), ((1.25, 9999.75, 298.15), 'float'),
                  ((2.0, 3.0, 2.5), 'float'), ((1.0, 9999.9, 9999.8), 'float64'), ((1, 9999, 2), 'int64'),
                  ((1.5, 9999.5, 500.5), 'float32'), ((9998.0, 9999.9, 9999.0), 'float'),
                  ((1.0, 2.0, 1.5), 'float'), ((300.0, 3000.0, 1000.0), 'int'),
                  ((1.001, 9999.899, 298.155), 'float'), ((273.15, 1234.5678, 500.049), 'float64')]:
        pool.append(mk.sp(T=T, types={'T': ty}))
    # --- coefficients: zero of both signs, both ends of the magnitude range and their neighbours,
    #     values that round up into the next exponent, exponent-width boundaries, every container
    edge = [0.0, -0.0, 1e-30, -1e-30, 1e30, -1e30, 1.00000001e-30, 9.99999999e29, 9.999999995e29,
            9.999999996e9, 9.99999999e-10, 1e-10, 1e10, 1.0, -1.0, 9.99999999, 1.000000005, 1.0000000049999,
            123456789.5, 1.001953125, 5e-1, 2.5e-7, 1e-29, 1e29]
    for k in range(0, len(edge), 6):
        v = (edge + edge)[k:k + 14]
        pool.append(mk.sp(ah=v[:7], al=v[7:14]))
        pool.append(mk.sp(ah=[-x for x in v[7:14]], al=[-x for x in v[:7]]))
    pool.append(mk.sp(ah=[0.0] * 7, al=[0.0] * 7))
    pool.append(mk.sp(ah=[-0.0] * 7, al=[0.0, -0.0] * 3 + [0.0]))
    for ty in COEF_TYPES:
        if ty == 'intlist':
            pool.append(mk.sp(ah=[3, -2, 0, 1, 25000, -7, 4], al=[1, 0, 0, -12, 5, 6, -30000], types={'coef': ty}))
        elif ty == 'float32':
            pool.append(mk.sp(ah=[1e-30, -1e30, 0.1, 2.5, -3.3e-7, 1e10, 7.0], al=[0.0, 1.5, -2.25, 1e30, -1e-30, 6.1, 1e-10],
                              types={'coef': ty}))
        else:
            pool.append(mk.sp(types={'coef': ty}))
    # --- notes of every length class (written when write_date is False)
    for nt in (None, '', 'x', 'DFT', 'PBE-D3', 'sevench', 'eight ch', 'nine char', 'bulk species', ' lead', 'see END',
               'THERMO x', 'a b c d', '12345678', '20180707'):
        pool.append(mk.sp(notes=nt))
    return pool


def grid_cases(rnd):
    mk = _Maker(rnd)
    cases = []
    n = [0]

    def add(species, **kw):
        n[0] += 1
        cases.append(_case('g%d' % n[0], species, **kw))

    # 1. the full product of the documented options on small lists
    k = 0
    for supp_mode, txt, wd, inp, nlc in itertools.product(SUPP_MODES, TXT_MODES, (False, True), INPUTS, (None, '\r\n')):
        k += 1
        names = [NAME_CLASSES[(k + j * 17) % len(NAME_CLASSES)][1] for j in range(4)]
        names = list(dict.fromkeys(names))
        while len(names) < 4:
            names.append('Q%d_%d' % (k, len(names)))
        main = [mk.sp(name=names[0], els=[['C', 1], ['Pt', 128]], notes=['sevench', None, 'see END', 'bulk species'][k % 4]),
                mk.sp(name=names[1], els=[['Ar', 0], ['H', 2], ['O', 1]], ph='S')]
        supp = [mk.sp(name=names[2], notes='supp'), mk.sp(name=names[3], els=[['N', 2]], ph='L')] if supp_mode else None
        t = None
        if txt:
            t = '\n'.join(COMMENTS[(k + j) % len(COMMENTS)] for j in range(1 + k % 3)) + ('\n' if txt == 'nl' else '')
        add(main, supp=supp, supp_mode=supp_mode, supp_txt=t, write_date=wd, input=inp, newline=nlc,
            rewrite=(k % 4 == 0))
    # 2. names: every class, first in the file and not first; and all together
    for j, (_cls, nm) in enumerate(NAME_CLASSES):
        add([mk.sp(name=nm, els=[['C', 1 + j % 9], ['H', 4]]), mk.sp(name='ZZ', ph='S')], input=INPUTS[j % 4])
        add([mk.sp(name='ZZ'), mk.sp(name=nm, els=[['Pt', 1]], ph='S'), mk.sp(name='YY')], write_date=(j % 2 == 0),
            rewrite=(j % 5 == 0))
    order = list(range(len(NAME_CLASSES)))
    rnd.shuffle(order)
    add([mk.sp(name=NAME_CLASSES[j][1]) for j in order], input='dict', rewrite=True)
    add([mk.sp(name=NAME_CLASSES[j][1]) for j in reversed(order)], input='tuple')
    # 3. special species, eight to a file, options cycling
    pool = species_pool(mk)
    floats = [s for s in pool if s['types']['count'] in ('float', 'float64')]
    pool = [s for s in pool if s['types']['count'] not in ('float', 'float64')]
    for s in floats:                                 # float-valued counts in files of their own
        add([s], rewrite=True)
    for c in range(0, len(pool), 8):
        q = c // 8
        add(pool[c:c + 8], input=INPUTS[q % 4], write_date=False, rewrite=(q % 3 == 0),
            supp_txt=(COMMENTS[q % len(COMMENTS)] + '\n') if q % 5 == 0 else None)
    # 4. every printable phase character (ASCII 33..126) in one file, and the documented letters alone
    add([mk.sp(ph=chr(c)) for c in range(33, 127)])
    for ph in 'GSLBgs':
        add([mk.sp(ph=ph)])
    # 5. list sizes at both ends of the range and next to them
    for size in (1, 2, 199, 200):
        sps = []
        for j in range(size):
            sps.append(mk.sp(name='S%d.%d' % (size, j), els=[[PERIODIC[(j * 7) % 118], 1 + j],
                                                             [PERIODIC[(j * 7 + 1) % 118], (j * 13) % 1000 or 1]],
                             ph='GSLB'[j % 4]))
        add(sps, input='dict' if size % 2 else 'list')
    # 6. a repeated name through every input that can carry one
    for inp in ('list', 'tuple', 'dict_key'):
        a = mk.sp(name='CO(S)', ph='S')
        b = mk.sp(name='H2O')
        c2 = mk.sp(name='CO(S)', ph='G')
        add([a, b, c2], input=inp)
    return cases


# --------------------------------------------------------------------------
# class counters computed from the inputs
# --------------------------------------------------------------------------
def classify(cases):
    n = {}

    def hit(k, by=1):
        n[k] = n.get(k, 0) + by

    for c in cases:
        sps = (c.get('supp') or []) + c['species']
        size = len(c['species'])
        hit('size_%s' % (size if size in (1, 2, 3, 199, 200) else ('4_12' if size <= 12 else '13_198')))
        inp = c.get('input') or ('dict' if c.get('dict_input') else 'list')
        hit('input_' + inp)
        for f in c.get('formats') or []:
            hit('format_' + f)
        hit('write_date_%s' % bool(c.get('write_date')))
        sm = c.get('supp_mode') or ('entries' if c.get('supp') and c.get('supp_nl', True) else
                                    ('entries_nonl' if c.get('supp') else None))
        hit('supp_%s' % sm)
        t = c.get('supp_txt')
        tm = None if not t else ('nl' if t.endswith('\n') else 'nonl')
        hit('supp_txt_%s' % tm)
        if sm and tm:
            hit('supp_%s+txt_%s' % (sm, tm))
        hit('newline_%s' % ('crlf' if c.get('newline') == '\r\n' else 'default'))
        if c.get('rewrite'):
            hit('rewrite')
        names = [s['name'] for s in sps]
        if len(set(names)) != len(names):
            hit('repeated_name_' + inp)
        for pos, s in enumerate(sps):
            nm = s['name']
            ln = len(nm)
            if ln in (1, 2, 14, 15):
                hit('name_len_%d' % ln)
            else:
                hit('name_len_3_13')
            for kw in KEYWORDS:
                if nm == kw:
                    hit('name_is_' + kw)
                elif nm.startswith(kw):
                    hit('name_starts_' + kw)
                elif nm.endswith(kw):
                    hit('name_ends_' + kw)
                elif kw in nm:
                    hit('name_contains_' + kw)
                if kw in nm:
                    hit('keyword_name_first' if pos == 0 else 'keyword_name_later')
            if nm[0].isdigit():
                hit('name_digit_start')
            for ch, k in (('(', 'paren'), ('-', 'hyphen'), (',', 'comma'), ('!', 'bang_inside')):
                if ch in nm:
                    hit('name_' + k)
            if any(ch.islower() for ch in nm):
                hit('name_lower')
            if any(ord(ch) > 127 for ch in nm):
                hit('name_latin1')
            try:
                float(nm)
                hit('name_is_number')
            except ValueError:
                pass
            els = s['elements']
            pos_idx = [i for i, e in enumerate(els) if e[1] > 0]
            hit('elements_positive_%d' % len(pos_idx))
            hit('elements_entries_%s' % (len(els) if len(els) <= 4 else '5plus'))
            zeros = [i for i, e in enumerate(els) if e[1] == 0]
            if zeros:
                if zeros[0] == 0:
                    hit('zero_first')
                if zeros[-1] == len(els) - 1:
                    hit('zero_last')
                if any(0 < i < len(els) - 1 for i in zeros):
                    hit('zero_middle')
                if any(i >= 4 for i in pos_idx):
                    hit('positive_after_4th_entry')
            written = [els[i] for i in pos_idx]
            for slot, e in enumerate(written):
                hit('symbol_len_%d' % len(e[0]))
                cp = caps_of(e[0])
                hit('symbol_caps_' + cp)
                if cp != 'Xx' and cp != 'X':
                    hit('symbol_caps_%s_slot%d_of_%d' % (cp, slot + 1, len(written)))
                    hit('symbol_caps_%s_digits%d' % (cp, len(str(int(e[1])))))
                if len(e[0]) == 2 and cp != 'Xx':
                    hit('two_letter_symbol_not_capitalised_Xx')
                if e[1] in COUNT_EDGES:
                    hit('count_%d' % e[1])
                hit('count_digits_%d' % len(str(int(e[1]))))
                if len(e[0]) == 2 and e[1] >= 100:
                    if slot == len(written) - 1 and len(written) < 4:
                        hit('sym2cnt3_last_of_fewer_than_4')
                    elif slot == 3:
                        hit('sym2cnt3_slot4')
                    else:
                        hit('sym2cnt3_followed')
            ty = s.get('types') or {}
            hit('count_type_' + ty.get('count', 'int'))
            hit('T_type_' + ty.get('T', 'float'))
            hit('coef_type_' + ty.get('coef', 'ndarray'))
            ph = s['phase']
            hit('phase_' + (ph if ph in 'GSLBgs' else 'digit' if ph.isdigit() else 'other'))
            lo, hi_, mid = s['T']
            if lo == 1:
                hit('T_low_1')
            if 1 < lo <= 1.25:
                hit('T_low_next_to_1')
            if hi_ == 9999.9:
                hit('T_high_9999.9')
            if 9999 <= hi_ < 9999.9:
                hit('T_high_next_to_9999.9')
            for v in s['T']:
                r = repr(float(v))
                d = len(r.split('.')[1]) if '.' in r and 'e' not in r else 0
                hit('T_decimals_%s' % (0 if float(v) == int(v) else d if d <= 2 else '3plus'))
            for v in list(s['a_high']) + list(s['a_low']):
                a = abs(v)
                if v == 0:
                    hit('coef_negative_zero' if str(float(v)).startswith('-') else 'coef_zero')
                elif a == 1e-30:
                    hit('coef_1e-30')
                elif a == 1e30:
                    hit('coef_1e30')
                elif a < 1.1e-30 or a > 9e29:
                    hit('coef_next_to_range_end')
                if v < 0:
                    hit('coef_negative')
                if a != 0 and ('%.8e' % a)[:10] == '1.00000000' and ('%.17e' % a)[:4] == '9.99':
                    hit('coef_rounds_into_next_exponent')
            nt = s.get('notes')
            hit('notes_%s' % ('none' if nt is None else 'empty' if nt == '' else
                              '1_6' if len(nt) <= 6 else str(len(nt)) if len(nt) <= 8 else 'over_8'))
            if nt and any(kw in nt[:8] for kw in KEYWORDS):
                hit('notes_keyword')
    return dict(sorted(n.items()))


REQUIRED = (
    ['size_1', 'size_2', 'size_3', 'size_199', 'size_200', 'size_4_12', 'size_13_198']
    + ['input_' + i for i in INPUTS] + ['format_list', 'format_tuple', 'format_dict']
    + ['write_date_True', 'write_date_False', 'newline_crlf', 'newline_default', 'rewrite']
    + ['supp_%s' % m for m in SUPP_MODES] + ['supp_txt_%s' % m for m in TXT_MODES]
    + ['supp_%s+txt_%s' % (m, t) for m in SUPP_MODES if m for t in TXT_MODES if t]
    + ['repeated_name_list', 'repeated_name_tuple', 'repeated_name_dict_key']
    + ['name_len_1', 'name_len_2', 'name_len_14', 'name_len_15', 'name_len_3_13']
    + ['name_%s_%s' % (p, kw) for p in ('is', 'starts', 'ends', 'contains') for kw in KEYWORDS]
    + ['keyword_name_first', 'keyword_name_later', 'name_digit_start', 'name_paren', 'name_hyphen', 'name_comma',
       'name_bang_inside', 'name_lower', 'name_latin1', 'name_is_number']
    + ['elements_positive_%d' % k for k in (1, 2, 3, 4)] + ['elements_entries_%s' % k for k in (1, 2, 3, 4, '5plus')]
    + ['zero_first', 'zero_middle', 'zero_last', 'positive_after_4th_entry', 'symbol_len_1', 'symbol_len_2']
    + ['symbol_caps_' + c for c in CAPS] + ['two_letter_symbol_not_capitalised_Xx']
    + ['symbol_caps_%s_slot%d_of_%d' % (c, k, n) for c in ('XX', 'xx', 'x') for n in (1, 2, 3, 4) for k in range(1, n + 1)]
    + ['symbol_caps_%s_digits%d' % (c, d) for c in ('XX', 'xx', 'x') for d in (1, 2, 3)]
    + ['count_%d' % c for c in COUNT_EDGES] + ['count_digits_1', 'count_digits_2', 'count_digits_3']
    + ['sym2cnt3_last_of_fewer_than_4', 'sym2cnt3_slot4', 'sym2cnt3_followed']
    + ['count_type_' + t for t in COUNT_TYPES] + ['T_type_' + t for t in T_TYPES] + ['coef_type_' + t for t in COEF_TYPES]
    + ['phase_' + p for p in 'GSLBgs'] + ['phase_digit', 'phase_other']
    + ['T_low_1', 'T_low_next_to_1', 'T_high_9999.9', 'T_high_next_to_9999.9',
       'T_decimals_0', 'T_decimals_1', 'T_decimals_2', 'T_decimals_3plus']
    + ['coef_zero', 'coef_negative_zero', 'coef_1e-30', 'coef_1e30', 'coef_next_to_range_end', 'coef_negative',
       'coef_rounds_into_next_exponent']
    + ['notes_none', 'notes_empty', 'notes_1_6', 'notes_7', 'notes_8', 'notes_over_8', 'notes_keyword'])
