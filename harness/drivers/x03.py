"""X03 - pmutt.io.omkm.organize_phases (and get_species_phases / get_reactions_phases /
get_interactions_phases) put every species, reaction and lateral interaction into exactly the
phase its species name, and can be called again.

(D)    spec/OrganizePhases.tla (+ OrganizeRule.tla) checked exhaustively by TLC: every universe of
       <= 3 phases x 3 species x <= 2 reactions x <= 1 interaction (thorough: 4 species), the
       implementation-shaped grouping algorithm against the partition statements and the explicit
       rule, two calls on the same objects.  The source-as-found variant ("pinned"), the variants
       without the duplicate test / without _filter_reactions and the wide scope are rejected.
(S->C) every behaviour of a small instance (MC_OrganizePhases_beh) and random behaviours of the
       large one (tlc -simulate, <= 4 species, <= 3 reactions, <= 2 interactions) are built as real
       pmutt objects and stepped through the calls TLC chose; after every call the projection
       phase -> sorted member names must EQUAL what TLC computed.
(C->S) the same runs plus larger random models (<= 5 phases, <= 12 species of three classes,
       transition-state species outside the species list, BEPs, extra phase keywords) are recorded
       as NDJSON and judged line by line by spec/Trace_OrganizePhases.tla.
"""
import concurrent.futures as cf
import json
import os
import random
import time

from harness import core

CLS = {'gas': 'IdealGas', 'bulk': 'StoichSolid', 'iface': 'InteractingInterface'}


# --------------------------------------------------------------------------
# one pristine interpreter state per case
# --------------------------------------------------------------------------
def isolated(fn, case):
    r, w = os.pipe()
    pid = os.fork()
    if pid == 0:
        code = 0
        try:
            os.close(r)
            try:
                out = {'ok': fn(case)}
            except core.MachineryError as ex:
                out = {'machinery': str(ex)}
            except BaseException as ex:                  # noqa
                out = {'machinery': 'driver exception %s: %s' % (type(ex).__name__, ex)}
            with os.fdopen(w, 'w') as f:
                json.dump(out, f)
        except BaseException:                            # noqa
            code = 3
        finally:
            os._exit(code)
    os.close(w)
    with os.fdopen(r) as f:
        data = f.read()
    os.waitpid(pid, 0)
    if not data:
        raise core.MachineryError('isolated child produced nothing for case %r' % (case.get('cid'),))
    out = json.loads(data)
    if 'machinery' in out:
        raise core.MachineryError(out['machinery'])
    return out['ok']


def _preload():
    import numpy                                          # noqa
    import pmutt.io.omkm                                  # noqa
    import pmutt.omkm.reaction                            # noqa
    import pmutt.mixture.cov                              # noqa
    import pmutt.empirical.nasa                           # noqa
    import pmutt.empirical.shomate                        # noqa


# --------------------------------------------------------------------------
# real objects for an abstract case
# --------------------------------------------------------------------------
def _mk_species(sp):
    import numpy as np
    from pmutt.empirical.nasa import Nasa, Nasa9, SingleNasa9
    from pmutt.empirical.shomate import Shomate
    phase = None if sp['phase'] == 'none' else sp['phase']
    kw = dict(name=sp['name'], elements={'H': 1}, phase=phase, n_sites=1)
    fam = sp.get('family', 'nasa')
    if fam == 'shomate':
        return Shomate(T_low=300., T_high=1000., a=np.arange(8.), **kw)
    if fam == 'nasa9':
        return Nasa9(nasas=[SingleNasa9(T_low=300., T_high=1000., a=np.arange(9.))], **kw)
    return Nasa(T_low=300., T_mid=600., T_high=1000., a_low=np.arange(7.), a_high=np.arange(7.), **kw)


def _mk_dicts(case):
    out = []
    for p in case['ph']:
        d = {'name': p['name'], 'phase_type': CLS[p['kind']]}
        for k, v in p.get('kw', {}).items():
            d[k] = list(v) if isinstance(v, list) else (dict(v) if isinstance(v, dict) else v)
        out.append(d)
    return out


def _mk_objects(case):
    from pmutt.mixture.cov import PiecewiseCovEffect
    from pmutt.omkm.reaction import BEP, SurfaceReaction
    species = [_mk_species(sp) for sp in case['sp']]
    by_name = {s.name: s for s in species}
    for sp in case.get('extra_sp', []):
        by_name[sp['name']] = _mk_species(sp)
    beps = {}
    reactions = []
    for rx in case['rx']:
        kw = dict(reactants=[by_name[n] for n in rx['lhs']], reactants_stoich=[1.] * len(rx['lhs']),
                  products=[by_name[n] for n in rx['rhs']], products_stoich=[1.] * len(rx['rhs']),
                  id=None if rx.get('noid') else rx['id'], A=rx.get('A'), Ea=rx.get('Ea'))
        if rx.get('ts'):
            kw.update(transition_state=[by_name[rx['ts']]], transition_state_stoich=[1.])
        elif rx.get('bep'):
            if rx['bep'] not in beps:
                beps[rx['bep']] = BEP(name=rx['bep'], slope=0.5, intercept=20., direction='cleavage',
                                      descriptor='delta_H')
            kw.update(transition_state=[beps[rx['bep']]], transition_state_stoich=[1.], direction='cleavage')
        reactions.append(SurfaceReaction(**kw))
    inter = [PiecewiseCovEffect(name_i=i['i'], name_j=i['j'], intervals=[0., 0.5], slopes=[1., 2.],
                                name=None if i.get('noname') else i['name']) for i in case['ia']]
    # reactions / interactions are recognised by IDENTITY (their id / name may not be assigned yet)
    LABELS.clear()
    for rx, obj in zip(case['rx'], reactions):
        LABELS[id(obj)] = rx['id']
    for i, obj in zip(case['ia'], inter):
        LABELS[id(obj)] = i['name']
    KEEP.append((species, reactions, inter))           # keep every object alive: id() stays unique
    return species, reactions, inter


LABELS = {}
KEEP = []


def _label(obj):
    return LABELS.get(id(obj), '?%s' % (getattr(obj, 'id', None) or getattr(obj, 'name', None),))


def _rx_species(rx):
    """names of the unique species of a reaction in Reaction.get_species order (BEPs carry no phase)"""
    names = []
    for n in list(rx['lhs']) + list(rx['rhs']) + ([rx['ts']] if rx.get('ts') else []):
        if n not in names:
            names.append(n)
    return names


def universe(case):
    """The universe the driver BUILT, in the vocabulary of OrganizeRule.tla."""
    phase_of = {sp['name']: sp['phase'] for sp in case['sp'] + case.get('extra_sp', [])}
    return {'ph': [{'name': p['name'], 'kind': p['kind']} for p in case['ph']],
            'sp': [{'name': sp['name'], 'phase': sp['phase']} for sp in case['sp']],
            'rx': [{'id': rx['id'], 'ph': [phase_of[n] for n in _rx_species(rx)]} for rx in case['rx']],
            'ia': [{'name': i['name'], 'i': i['i'], 'j': i['j']} for i in case['ia']],
            'spgiven': bool(case['spgiven']), 'rxgiven': bool(case['rxgiven']),
            'iagiven': bool(case['iagiven'])}


# --------------------------------------------------------------------------
# projections
# --------------------------------------------------------------------------
def _project(phases):
    out = []
    for p in phases:
        out.append({'name': p.name, 'cls': type(p).__name__,
                    'species': [s.name for s in p.species],
                    'reactions': [_label(r) for r in (p.reactions or [])],
                    'inters': [_label(i) for i in (getattr(p, 'interactions', None) or [])]})
    return out


def _key(k):
    if isinstance(k, str):
        return ['str', k]
    if k is None:
        return ['none']
    return ['obj', str(getattr(k, 'name', '?'))]


def _project_helper(d, species=False):
    return [[_key(k), [str(x.name) if species else _label(x) for x in v]] for k, v in d.items()]


OWN_KEYS = ('name', 'phase_type')


def _kw_given(dicts):
    return [[[k, repr(v)] for k, v in sorted(d.items()) if k not in OWN_KEYS] for d in dicts]


def _kw_got(dicts_before, phases):
    out = []
    for d, p in zip(dicts_before, phases):
        out.append([[k, repr(getattr(p, k, '<missing>'))] for k in sorted(d) if k not in OWN_KEYS])
    return out


def _snapshot(dicts):
    return [{k: (list(v) if isinstance(v, list) else (dict(v) if isinstance(v, dict) else v))
             for k, v in d.items()} for d in dicts]


def _lists(species, reactions, inter):
    return [[s.name for s in species or []], [_label(r) for r in reactions or []],
            [_label(i) for i in inter or []]]


# --------------------------------------------------------------------------
# running one case
# --------------------------------------------------------------------------
def _run(case):
    from pmutt import pmutt_list_to_dict
    from pmutt.io.omkm import (organize_phases, get_species_phases, get_reactions_phases,
                               get_interactions_phases)
    events = [dict(universe(case), ev='begin')]
    mism = []
    req = case.get('req')
    if req is not None:
        req = [{'name': q['name'], 'cls': q['cls'], 'species': sorted(q['species']),
                'reactions': sorted(q['reactions']), 'inters': sorted(q['inters'])} for q in req]

    def helpers(species, reactions, inter, when):
        calls = []
        if case['spgiven']:
            calls.append(('species', lambda: _project_helper(get_species_phases(species), species=True)))
        if case['rxgiven']:
            calls.append(('reactions', lambda: _project_helper(get_reactions_phases(reactions))))
        if case['iagiven'] and case['spgiven']:
            calls.append(('interactions', lambda: _project_helper(
                get_interactions_phases(inter, pmutt_list_to_dict(species)))))
        for which, fn in calls:
            ev = {'ev': 'helper', 'which': which, 'when': when, 'raised': False, 'res': []}
            try:
                ev['res'] = fn()
            except Exception as ex:                        # the library raised on a valid call
                ev['raised'] = True
                ev['exc'] = '%s: %s' % (type(ex).__name__, ex)
            events.append(ev)

    def organize(dicts, species, reactions, inter, mode):
        kwargs = {}
        if case['spgiven']:
            kwargs['species'] = species
        if case['rxgiven']:
            kwargs['reactions'] = reactions
        if case['iagiven']:
            kwargs['interactions'] = inter
        before = _snapshot(dicts)
        ev = {'ev': 'organize', 'mode': mode, 'raised': False, 'res': [],
              'keys_before': [sorted(d) for d in dicts], 'keys_after': [],
              'lists_before': _lists(kwargs.get('species'), kwargs.get('reactions'), kwargs.get('interactions')),
              'lists_after': [], 'kw_given': _kw_given(before), 'kw_got': []}
        try:
            phases = organize_phases(dicts, **kwargs)
            ev['res'] = _project(phases)
            ev['kw_got'] = _kw_got(before, phases)
        except Exception as ex:                            # the library raised on a valid call
            ev['raised'] = True
            ev['exc'] = '%s: %s' % (type(ex).__name__, ex)
        ev['keys_after'] = [sorted(d) for d in dicts]
        ev['lists_after'] = _lists(kwargs.get('species'), kwargs.get('reactions'), kwargs.get('interactions'))
        events.append(ev)
        if req is not None and not ev['raised']:
            got = [{'name': q['name'], 'cls': q['cls'], 'species': sorted(q['species']),
                    'reactions': sorted(q['reactions']), 'inters': sorted(q['inters'])} for q in ev['res']]
            if got != req:
                mism.append({'mode': mode, 'expected': req, 'got': got})

    species, reactions, inter = _mk_objects(case)
    dicts = _mk_dicts(case)
    helpers(species, reactions, inter, 'before')
    n_calls = 0
    fresh = False
    for op in case['ops']:
        if op == 'fresh':
            dicts = _mk_dicts(case)
            fresh = True
        elif op == 'call':
            mode = 'first' if n_calls == 0 else ('fresh_dicts' if fresh else 'same')
            organize(dicts, species, reactions, inter, mode)
            if n_calls == 0:
                helpers(species, reactions, inter, 'after')
            n_calls += 1
            fresh = False
        else:
            raise core.MachineryError('unknown op %r' % (op,))
    # the same values built anew: equal inputs, equal result
    species, reactions, inter = _mk_objects(case)
    organize(_mk_dicts(case), species, reactions, inter, 'fresh_all')
    return {'events': events, 'mism': mism}


def execute(case):
    _preload()
    if 'raw' in case:
        case = from_behaviour(core.parse_tla(case['raw'])[1], case['cid'], case['src'])
    out = isolated(_run, case)
    return case, out['events'], out['mism']


# --------------------------------------------------------------------------
# cases
# --------------------------------------------------------------------------
def _default_kw(kind, ph):
    if kind == 'bulk':
        return {'density': 12.4}
    if kind == 'iface':
        return {'site_density': 2.1671e-09, 'phases': [p['name'] for p in ph if p['kind'] != 'iface']}
    return {}


def from_behaviour(h, cid, src):
    u = h['u']
    names = [s['name'] for s in u['sp']]
    rx = []
    for k, r in enumerate(u['rx']):
        sp = [names[i - 1] for i in r['spx']]
        flav = (k + len(sp) + len(u['ph'])) % 2
        if len(sp) == 1:
            d = {'lhs': sp, 'rhs': sp}
        elif len(sp) == 2:
            d = {'lhs': sp[:1], 'rhs': sp[1:]}
        elif len(sp) == 3:
            d = {'lhs': sp[:2], 'rhs': sp[2:]} if flav else {'lhs': sp[:1], 'rhs': sp[1:2], 'ts': sp[2]}
        else:
            d = ({'lhs': sp[:2], 'rhs': sp[2:]} if flav
                 else {'lhs': sp[:2], 'rhs': sp[2:-1], 'ts': sp[-1]})
        d['id'] = r['id']
        rx.append(d)
    ph = [{'name': p['name'], 'kind': p['kind']} for p in u['ph']]
    for p in ph:
        p['kw'] = _default_kw(p['kind'], ph)
    return {'cid': cid, 'src': src, 'ph': ph,
            'sp': [{'name': s['name'], 'phase': s['phase'], 'family': 'nasa'} for s in u['sp']],
            'rx': rx, 'ia': [{'name': i['name'], 'i': i['i'], 'j': i['j']} for i in u['ia']],
            'spgiven': u['spgiven'], 'rxgiven': u['rxgiven'], 'iagiven': u['iagiven'],
            'ops': list(h['ops']), 'req': h['req']}


PHASE_NAMES = {'gas': ['gas', 'gas2'], 'bulk': ['bulk', 'bulk2'],
               'iface': ['terrace', 'step', 'facet', 'edge']}
NOTES = ['Ru(0001)', 'Ru metal', 'with "quotes"']


def random_case(rnd, cid):
    """A larger model drawn from the quantifier of OrganizeRule.tla."""
    r = rnd.random()
    if r < 0.6:
        kinds = ['gas'] + (['bulk'] if rnd.random() < 0.6 else []) + ['iface'] * rnd.randint(1, 3)
    elif r < 0.8:
        kinds = [rnd.choice(['gas', 'bulk', 'iface']) for _ in range(rnd.randint(1, 5))]
        kinds = [k for i, k in enumerate(kinds) if kinds[:i].count(k) < len(PHASE_NAMES[k])]
    else:
        kinds = ['iface'] * rnd.randint(1, 2) + ['gas'] * rnd.randint(0, 2) + ['bulk'] * rnd.randint(0, 1)
    rnd.shuffle(kinds)
    ph = []
    for k in kinds:
        ph.append({'name': PHASE_NAMES[k][sum(1 for p in ph if p['kind'] == k)], 'kind': k})
    for p in ph:
        kw = _default_kw(p['kind'], ph)
        if rnd.random() < 0.4:
            kw['note'] = rnd.choice(NOTES)
        if rnd.random() < 0.2:
            kw['initial_state'] = {'X': 1.0}
        p['kw'] = kw
    pnames = [p['name'] for p in ph]
    ifaces = [p['name'] for p in ph if p['kind'] == 'iface']
    others = [p['name'] for p in ph if p['kind'] != 'iface']
    sp = []
    for k in range(rnd.randint(0, 12)):
        phase = 'none' if rnd.random() < 0.1 else rnd.choice(pnames)
        sp.append({'name': 'X%d(%s)' % (k, phase[:1].upper()), 'phase': phase,
                   'family': rnd.choice(['nasa', 'nasa', 'shomate', 'nasa9'])})
    members = {p: [s['name'] for s in sp if s['phase'] == p] for p in pnames + ['none']}
    extra = []
    rx, seen = [], set()
    noid = rnd.random() < 0.3                              # ids not assigned yet (write_cti does it later)
    for k in range(rnd.randint(0, 10)):
        r = rnd.random()
        d = None
        if r < 0.3:                                        # all species in one phase
            cands = [p for p in pnames if members[p]]
            if cands:
                p = rnd.choice(cands)
                pool = members[p] + (members['none'] if rnd.random() < 0.2 else [])
                pick = [rnd.choice(pool) for _ in range(rnd.randint(1, 3))]
                if not any(n in members[p] for n in pick):
                    pick[0] = rnd.choice(members[p])
                cut = rnd.randint(1, len(pick))
                d = {'lhs': pick[:cut], 'rhs': pick[cut:] or pick[:1]}
                home = p
        elif r < 0.97:                                     # exactly one interface among several phases
            cands = [p for p in ifaces if members[p]]
            if cands:
                p = rnd.choice(cands)
                surf = [rnd.choice(members[p]) for _ in range(rnd.randint(1, 3))]
                side = [n for q in others for n in members[q]] + members['none']
                add = [rnd.choice(side) for _ in range(rnd.randint(0, 2))] if side else []
                if rnd.random() < 0.5:                     # gas first (adsorption) ...
                    lhs, rhs = add + surf[:1], surf[1:] or surf[:1]
                else:                                      # ... or last (desorption)
                    lhs, rhs = surf[:1], (surf[1:] or surf[:1]) + add
                d = {'lhs': lhs, 'rhs': rhs}
                home = p
        else:                                              # only species without a phase
            if members['none']:
                d = {'lhs': [rnd.choice(members['none'])], 'rhs': [rnd.choice(members['none'])]}
                home = None
        if d is None:
            continue
        if home in ifaces:
            t = rnd.random()
            if t < 0.25:
                tsn = 'TS%d(%s)' % (len(extra), home[:1].upper())
                extra.append({'name': tsn, 'phase': home, 'family': 'nasa'})
                d['ts'] = tsn
            elif t < 0.35:
                d['ts'] = rnd.choice(members[home])        # a listed species standing as TS
            elif t < 0.55:
                d['bep'] = rnd.choice(['NH-H', 'N-H'])
        sig = (tuple(d['lhs']), tuple(d['rhs']), d.get('ts'), d.get('bep'))
        if sig in seen:                                    # equal reactions are one reaction to pmutt
            continue
        seen.add(sig)
        d['id'] = 'r_%04d' % k if rnd.random() < 0.8 else 'u%d' % k
        d['noid'] = noid or rnd.random() < 0.05
        d['A'] = rnd.choice([None, 1.0e13])
        rx.append(d)
    ia = []
    for k in range(rnd.randint(0, 6)):
        cands = [p for p in ifaces if members[p]]
        if not cands:
            break
        p = rnd.choice(cands)
        ia.append({'name': 'i_%04d' % k, 'i': rnd.choice(members[p]), 'j': rnd.choice(members[p]),
                   'noname': noid})
    g = rnd.random()
    spgiven = not (g < 0.12 and not ia)
    rxgiven = bool(rx) or rnd.random() < 0.5
    iagiven = bool(ia) or (spgiven and rnd.random() < 0.5)
    ops = ['call']
    for _ in range(rnd.randint(0, 3)):
        if rnd.random() < 0.5:
            ops.append('fresh')
        ops.append('call')
    return {'cid': cid, 'src': 'random', 'ph': ph, 'sp': sp, 'extra_sp': extra, 'rx': rx, 'ia': ia,
            'spgiven': spgiven, 'rxgiven': rxgiven, 'iagiven': iagiven, 'ops': ops}


def _tags(case, where, ev):
    """small facts about a failing observation, for the known-finding matchers"""
    t = {'src': case['src'], 'mode': where, 'spgiven': bool(case['spgiven'])}
    if ev.get('raised'):
        t['exc'] = ev.get('exc', '?')
    elif ev.get('ev') == 'organize':
        # no returned phase lists any species (although the call was given species)
        t['no_species_listed'] = bool(case['spgiven']) and not any(q['species'] for q in ev.get('res', []))
    elif ev.get('ev') == 'helper':
        t['object_keys'] = any(k[0] == 'obj' for k, _ in ev.get('res', []))
    return t


def exercised(case, events):
    """what a case puts in front of the clauses (vacuity accounting)"""
    u = universe(case)
    ifaces = {p['name'] for p in u['ph'] if p['kind'] == 'iface'}
    multi = sum(1 for r in u['rx'] if len(set(r['ph']) - {'none'}) >= 2)
    modes = [e['mode'] for e in events if e['ev'] == 'organize']
    return {'reactions': len(u['rx']), 'reactions_naming_several_phases': multi,
            'reactions_of_a_gas_or_bulk_phase': sum(1 for r in u['rx'] if len(set(r['ph']) - {'none'}) == 1
                                                    and not (set(r['ph']) & ifaces)),
            'reactions_with_species_without_phase': sum(1 for r in u['rx'] if 'none' in r['ph']),
            'reactions_with_ts_species': sum(1 for r in case['rx'] if r.get('ts')),
            'reactions_with_bep': sum(1 for r in case['rx'] if r.get('bep')),
            'interactions': len(u['ia']), 'species': len(u['sp']),
            'species_without_phase': sum(1 for s_ in u['sp'] if s_['phase'] == 'none'),
            'cases_species_omitted': 0 if case['spgiven'] else 1,
            'cases_two_interfaces': 1 if len(ifaces) >= 2 else 0,
            'calls_first': modes.count('first'), 'calls_same_objects_same_descriptions': modes.count('same'),
            'calls_same_objects_rebuilt_descriptions': modes.count('fresh_dicts'),
            'calls_equal_objects_built_anew': modes.count('fresh_all'),
            'helper_calls': sum(1 for e in events if e['ev'] == 'helper')}


def signature(case):
    return json.dumps([[p['kind'] for p in case['ph']], [s['phase'] for s in case['sp']],
                       [[r['lhs'], r['rhs'], r.get('ts'), r.get('bep')] for r in case['rx']],
                       [[i['i'], i['j']] for i in case['ia']], case['spgiven'], case['ops']])


def nontrivial(case):
    return (len(case['ph']) >= 2 and any(s['phase'] != 'none' for s in case['sp'])
            and bool(case['rx'] or case['ia']))


NCPU_MODEL = 12

REJECTED = [
    ('MC_OrganizePhases_pinned_dicts', "the source as found (phase_type popped from the caller's descriptions)"),
    ('MC_OrganizePhases_pinned_raises', 'the source as found (species omitted / second call on the same descriptions raises)'),
    ('MC_OrganizePhases_pinned_again', 'the source as found (second call on organized species returns empty phases)'),
    ('MC_OrganizePhases_nodedup', 'grouping without the duplicate test'),
    ('MC_OrganizePhases_nofilter', 'grouping without _filter_reactions'),
    ('MC_OrganizePhases_wide', 'reactions outside the quantifier (two interfaces / gas+bulk only)'),
]


def _register(ctx, job, r):
    """the bookkeeping of Ctx.model for a TLC run made in a thread"""
    ctx.count('states', r.distinct)
    ctx.count('transitions', r.states)
    ctx.coverage.setdefault('models', []).append(
        {'module': job[0], 'cfg': job[1], 'distinct_states': r.distinct, 'states_generated': r.states,
         'depth': r.depth, 'ok': r.ok, 'violated': r.violated, 'wall_s': round(r.wall, 1)})


def run(ctx):
    ctx.coverage['rule'] = (
        'a case is one model (phase descriptions of kinds gas/bulk/interface, species naming a phase or '
        'none, reactions given by the phases their species name, lateral interactions between species '
        'of one interface, species argument passed or omitted) plus a sequence of organize_phases calls '
        'on the SAME objects with the same or rebuilt descriptions, closed by a call on equal objects '
        'built anew; the helpers are called before and after the first call.  TLC cases: every behaviour '
        'of MC_OrganizePhases_beh and simulated behaviours of MC_OrganizePhases_sim (state equality with '
        'what TLC computed after each call); random cases: <= 5 phases, <= 12 species (Nasa / Shomate / '
        'Nasa9), <= 10 reactions incl. TS species outside the list and BEPs, <= 6 interactions.  '
        'Non-trivial = >= 2 phases, a species naming a phase and a reaction or interaction; distinct by '
        'model and call sequence')
    t0 = time.time()
    timing = ctx.coverage.setdefault('timing_s', {})
    if ctx.replay_case is not None:
        cases = [ctx.replay_case['case']]
    else:
        rnd = random.Random(ctx.seed)
        jobs = {'design': ('MC_OrganizePhases', ctx.pick('MC_OrganizePhases', 'MC_OrganizePhases_big'),
                           ctx.pick(NCPU_MODEL, 8), ()),
                'beh': ('MC_OrganizePhases', 'MC_OrganizePhases_beh', 1, ()),
                'sim': ('MC_OrganizePhases', 'MC_OrganizePhases_sim', 1,
                        ('-simulate', 'num=%d' % ctx.pick(1000, 8000), '-depth', '20',
                         '-seed', str(ctx.seed + 11)))}
        if not ctx.quick:
            jobs['design4'] = ('MC_OrganizePhases', 'MC_OrganizePhases_big4', 8, ())
        for cfg, _ in REJECTED:
            jobs[cfg] = ('MC_OrganizePhases', cfg, 2, ())
        with cf.ThreadPoolExecutor(max_workers=len(jobs)) as ex:
            futs = {k: ex.submit(core.run_tlc, m, c, None, w, None, 3000, list(x)) for k, (m, c, w, x) in jobs.items()}
            res = {k: f.result() for k, f in futs.items()}
        # (D) design model
        for k in ('design', 'design4'):
            if k in jobs:
                _register(ctx, jobs[k], res[k])
                if not res[k].ok:
                    raise core.MachineryError('design model %s failed:\n%s' % (jobs[k][1], res[k].out[-4000:]))
        for cfg, what in REJECTED:
            bad = res[cfg]
            _register(ctx, jobs[cfg], bad)
            if bad.ok or bad.violated is None:
                raise core.MachineryError('%s should be rejected by the design model:\n%s' % (cfg, bad.out[-2000:]))
            ctx.notes.append('design model rejects %s: %s violated' % (what, bad.violated))
        # (S->C) behaviours
        if not res['beh'].ok:
            raise core.MachineryError('MC_OrganizePhases_beh failed:\n' + res['beh'].out[-2000:])
        raws = [p for p in res['beh'].prints() if core.tagged(p, 'BEH')]
        ctx.coverage['tlc_behaviours'] = len(raws)
        if ctx.quick:
            rnd.shuffle(raws)
            raws = raws[:1200]
        cases = [{'raw': p, 'cid': 'b%d' % k, 'src': 'tlc'} for k, p in enumerate(raws)]
        sims = [p for p in res['sim'].prints() if core.tagged(p, 'BEH')]
        if not sims:
            raise core.MachineryError('MC_OrganizePhases_sim produced no behaviours:\n' + res['sim'].out[-2000:])
        ctx.coverage['tlc_simulated_behaviours'] = len(sims)
        cases += [{'raw': p, 'cid': 's%d' % k, 'src': 'sim'} for k, p in enumerate(sims)]
        cases += [random_case(rnd, 'r%d' % k) for k in range(ctx.pick(1000, 10000))]
    timing['tlc_models_and_cases'] = round(time.time() - t0, 1)
    t1 = time.time()
    results = core.pmap(execute, cases)
    timing['real_code'] = round(time.time() - t1, 1)
    traces = []
    seen = set()
    found = []                                             # (clause, case, tags, detail)
    for tid, (case, events, mism) in enumerate(results):
        cases[tid] = case                                  # raw behaviours were parsed in the workers
        ctx.evaluated()
        if nontrivial(case):
            ctx.nontrivial(signature(case))
        for m in mism:
            key = (tid, 'ReplayState', m['mode'])
            if key not in seen:
                seen.add(key)
                found.append(('ReplayState', case,
                              _tags(case, m['mode'], {'ev': 'organize', 'res': m['got'], 'raised': False}), m))
        traces.append((tid, events))
        for key, n in exercised(case, events).items():
            ctx.count('exercised_' + key, n)
        if tid % 487 == 0:
            ctx.sample({k: case[k] for k in ('src', 'ph', 'sp', 'rx', 'ia', 'spgiven', 'ops')}, cap=6)
    t2 = time.time()
    fails, stats = core.validate_traces('Trace_OrganizePhases', 'Trace', traces)
    timing['trace_validation'] = round(time.time() - t2, 1)
    ctx.count('traces_validated_against_impl', len(traces))
    ctx.coverage['trace_lines'] = stats['lines']
    by_case = {}
    for tid, idx, clause in fails:
        ev = traces[tid][1][idx]
        if clause == 'OutOfQuantifier':
            raise core.MachineryError('the driver built a model outside the quantifier: %r'
                                      % (cases[tid].get('cid'),))
        where = ev.get('mode') or ev.get('when') or '-'
        by_case.setdefault((tid, clause, where), []).append(idx)
    for (tid, clause, where), idxs in sorted(by_case.items()):
        ev = traces[tid][1][idxs[0]]
        found.append((clause, cases[tid], _tags(cases[tid], where, ev),
                      {'event_indices': idxs[:10], 'event': ev}))
    # report clause by clause in turn, so that the first replay files printed cover every failing clause
    queues = {}
    for f in found:
        queues.setdefault((f[0], f[2]['mode']), []).append(f)
    while queues:
        for k in sorted(queues):
            ctx.violation(*queues[k].pop(0))
            if not queues[k]:
                del queues[k]
    ctx.assume('reactions are pairwise unequal under pmutt\'s own equality (to_dict without the id); '
               'BEPs are named and only used by reactions with an interface species')
    ctx.assume('every phase a species names is described; a reaction names at most one interface, or only '
               'one phase; interactions are between two species of one interface')
    ctx.assume('species.phase being rebound to the Phase object that lists the species is documented '
               'library behaviour, not a mutation of the caller\'s input')


if __name__ == '__main__':
    core.main('X03', 'model_checking', run)
