"""C18 - identifier ranges and CTI line wrapping preserve their contents.

(D)   spec/OmkmRange.tla (the "%04d" algorithm of the code on identifiers already
      printed that way; the same algorithm on every printed width, EXPECTED TO BE
      REJECTED; the width-preserving repair) and spec/CtiWrap.tla (greedy filling;
      a wrong variant EXPECTED TO BE REJECTED) are checked exhaustively by TLC.
(S->C) TLC writes the finite case sets (MC_OmkmRange_cases: ~25k identifier
      collections, MC_CtiWrap_cases: ~5.9k token-length/width cases); each is fed to
      the real `_get_omkm_range` / `obj_to_cti`.  TLC's `must` (the collection has to
      be accepted) is compared with what the code did; TLC's greedy reference layout is
      compared with the real layout as evidence only (layout is not demanded).
(C->S) every call - the TLC cases, random collections/token lists drawn from the
      property's quantifier, and the reactions=/interactions= fields of real written
      phases and BEPs - is recorded as one NDJSON line carrying the text as character
      codes and judged by spec/Trace_OmkmRange.tla / spec/Trace_CtiWrap.tla: parsing,
      Denote(range) and the set/sequence comparisons are all evaluated by TLC.
Python only builds inputs, calls the library and turns str into character codes.
"""
import random
import re
import sys

from harness import core

DELIM = '_'
TOKEN_ALPHABET = ('abcdefghijklmnopqrstuvwxyzABCDEFGHIJKLMNOPQRSTUVWXYZ0123456789'
                  "()_-+.,:*[]{}#/'=<>|")


def codes(s):
    return core.text_codes(s)


def uncodes(c):
    return ''.join(chr(v) for v in c)


# --------------------------------------------------------------------------
# ranges
# --------------------------------------------------------------------------
def _wrap_ids(ids, how):
    from collections import namedtuple
    if how == 'str':
        return list(ids), (lambda objs: list(objs))
    if how == 'id':
        T = namedtuple('ObjWithId', 'id')
        return [T(i) for i in ids], (lambda objs: [o.id for o in objs])
    if how == 'name':
        T = namedtuple('ObjWithName', 'name')
        return [T(i) for i in ids], (lambda objs: [o.name for o in objs])
    if how == 'both':                    # objects with an id AND a (different, encodable) name: the id is the identifier
        TB = namedtuple('ObjWithIdAndName', 'id name')          # (seed C18-14: a falsy id must not fall back to the name)
        return [TB(i, 'zqdecoy_31') for i in ids], (lambda objs: [o.id for o in objs])
    if how == 'mixed':                   # one list mixing str, objects with .id, objects with .name
        TI, TN = namedtuple('ObjWithId', 'id'), namedtuple('ObjWithName', 'name')
        objs = [(i, TI(i), TN(i))[k % 3] for k, i in enumerate(ids)]

        def read(objs):
            return [o if isinstance(o, str) else (o.id if isinstance(o, TI) else o.name) for o in objs]
        return objs, read
    raise core.MachineryError('unknown id carrier %r' % (how,))


def _range_event(ids, after, delim, raised, out, src, form):
    if isinstance(out, str):
        kind, payload = 'text', codes(out)
    elif isinstance(out, (list, tuple)) and all(isinstance(x, str) for x in out):
        kind, payload = 'elems', [codes(x) for x in out]
    else:                                    # not a range output at all
        kind, payload = 'text', codes(repr(out))
    return {'ev': 'range', 'ids': [codes(i) for i in ids], 'after': [codes(i) for i in after],
            'delim': ord(delim), 'raised': raised, 'form': form, 'kind': kind, 'out': payload, 'src': src}


def _species():
    import numpy as np
    from pmutt.empirical.nasa import Nasa
    a = np.zeros(7)
    return {n: Nasa(name=n, T_low=300., T_mid=500., T_high=900., a_low=a, a_high=a,
                    elements={'H': 2}, phase=ph)
            for n, ph in (('H2', 'gas'), ('H2(S)', 'surf'), ('HH(S)', 'surf'))}


_FIELD = re.compile(r'^\s*([A-Za-z_]+)=(\[.*\])[,)]\s*$')


def _cti_fields(text):
    """projection: the `name=[...]` lines of a CTI object"""
    out = {}
    for line in text.split('\n'):
        m = _FIELD.match(line)
        if m:
            out[m.group(1)] = m.group(2)
    return out


def _field_calls(case):
    """Write real phases / BEPs whose reactions or interactions carry the ids and cut the
    range fields out of the text.  Yields (src, getter) where getter() -> range output."""
    from pmutt.omkm.reaction import SurfaceReaction, BEP
    from pmutt.omkm.phase import InteractingInterface, IdealGas
    from pmutt.cantera.phase import IdealGas as CtIdealGas
    from pmutt.mixture.cov import PiecewiseCovEffect
    from pmutt.omkm.units import Units
    ids, delim, host = case['ids'], case['delim'], case['host']
    sp = _species()

    def surf_rxns():
        return [SurfaceReaction.from_string('H2(S) = HH(S)', species=sp, id=i) for i in ids]

    def gas_rxns():
        return [SurfaceReaction.from_string('H2 = H2', species=sp, id=i) for i in ids]

    def field(text, name):
        f = _cti_fields(text)
        if name not in f:
            raise core.MachineryError('field %s not found in written object:\n%s' % (name, text))
        return f[name]

    if host == 'interface.reactions':
        r = surf_rxns()
        ph = InteractingInterface(name='surf', species=[sp['H2(S)'], sp['HH(S)']],
                                  phases=['gas'], site_density=1e-9, interactions=None, reactions=r)
        return (r, (lambda o: [x.id for x in o]), (lambda: field(ph.to_cti(delimiter=delim), 'reactions')),
                (lambda: ph.to_omkm_yaml()))
    if host == 'interface.interactions':
        it = [PiecewiseCovEffect(name_i='H2(S)', name_j='HH(S)', intervals=[0., 0.5],
                                 slopes=[1., 2.], name=i) for i in ids]
        ph = InteractingInterface(name='surf', species=[sp['H2(S)'], sp['HH(S)']],
                                  phases=['gas'], site_density=1e-9, interactions=it, reactions=None)
        return (it, (lambda o: [x.name for x in o]),
                (lambda: field(ph.to_cti(delimiter=delim), 'interactions')), (lambda: ph.to_omkm_yaml()))
    if host in ('idealgas.reactions', 'ct_idealgas.reactions'):
        r = gas_rxns()
        cls = IdealGas if host == 'idealgas.reactions' else CtIdealGas
        g = cls(name='gas', species=[sp['H2']], reactions=r)
        return (g.reactions, (lambda o: [x.id for x in o]),
                (lambda: field(g.to_cti(delimiter=delim), 'reactions')), (lambda: g.to_omkm_yaml()))
    if host in ('bep.cti.synthesis', 'bep.cti.cleavage', 'bep.yaml.synthesis', 'bep.yaml.cleavage',
                'bep.reactions_cti'):
        r = surf_rxns()
        syn = host.endswith('synthesis') or host == 'bep.reactions_cti'
        b = BEP(slope=0.5, intercept=10., name='bep1', direction='cleavage',
                synthesis_reactions=r if syn else [], cleavage_reactions=[] if syn else r)
        held = b.synthesis_reactions if syn else b.cleavage_reactions
        u = Units()
        if host.startswith('bep.cti'):
            name = 'synthesis_reactions' if syn else 'cleavage_reactions'
            get = lambda: field(b.to_cti(units=u, delimiter=delim), name)
            between = lambda: b.to_omkm_yaml(units=u)
        elif host == 'bep.reactions_cti':
            get = lambda: b._get_reactions_CTI(direction='synthesis', delimiter=delim)
            between = lambda: b.to_omkm_yaml(units=u)
        else:
            key = 'synthesis-reactions' if syn else 'cleavage-reactions'
            get = lambda: b.to_omkm_yaml(units=u).get(key, '[]')
            between = lambda: b.to_cti(units=u)
        return held, (lambda o: [x.id for x in o]), get, between
    raise core.MachineryError('unknown host %r' % (host,))


def execute_range(case):
    from pmutt.cantera import _get_omkm_range
    ids, delim = case['ids'], case.get('delim', DELIM)
    events, mism = [], []
    if case['kind'] == 'field':
        # the same host object is written twice (another writer is called in between)
        objs, read, get, between = _field_calls(case)
        for rep in range(case.get('repeat', 2)):
            raised, out = '', ''
            try:
                out = get()
            except core.MachineryError:
                raise
            except Exception as ex:
                raised = type(ex).__name__
            events.append(_range_event(ids, read(objs), delim, raised, out,
                                       '%s#%d' % (case['host'], rep + 1),
                                       'list' if case['host'].startswith('bep.yaml') else 'str'))
            try:
                between()
            except Exception:
                pass                      # not a C18 call; its failures belong to C07
        return events, mism
    held = {}                             # one collection object per carrier, reused by every call
    for call in case['calls']:
        if call['as'] not in held:
            held[call['as']] = _wrap_ids(ids, call['as'])
        objs, read = held[call['as']]
        raised, out = '', ''
        try:
            if case.get('parent'):
                out = _get_omkm_range(objs=objs, parent_obj=objs, delimiter=delim, format=call['form'])
            elif case.get('defaults'):       # delimiter (and the str format) left at their defaults
                out = (_get_omkm_range(objs) if call['form'] == 'str'
                       else _get_omkm_range(objs, format=call['form']))
            else:
                out = _get_omkm_range(objs=objs, delimiter=delim, format=call['form'])
        except Exception as ex:
            raised = type(ex).__name__
        events.append(_range_event(ids, read(objs), delim, raised, out,
                                   '%s/%s' % (call['form'], call['as']), call['form']))
        if case.get('tlc') and case['must'] and raised:
            mism.append({'call': call, 'tlc_must_accept': True, 'raised': raised})
    return events, mism


# --------------------------------------------------------------------------
# wrapping
# --------------------------------------------------------------------------
def _wrap_obj(toks, how):
    """the value object of a wrap case and the tokens it carries (as the caller built it)"""
    if how == 'list':
        return list(toks), list(toks)
    if how == 'tuple':
        return tuple(toks), list(toks)
    if how == 'str':
        return ' '.join(toks), list(toks)
    if how == 'set':
        s = set(toks)
        return s, list(s)
    if how in ('dict', 'dictnum'):
        d = {}
        for t in toks:
            k, v = t.split(':', 1)
            if how == 'dictnum':              # numeric values, as in Nasa.to_cti's atoms
                v = float(v) if ('.' in v or 'e' in v) else int(v)
            d[k] = v
        return d, ['%s:%s' % kv for kv in d.items()]
    if how == 'none':                         # documented: None -> empty value
        return None, []
    if how == 'int':
        v = int(toks[0])
        return v, [str(v)]
    if how == 'float':
        v = float(toks[0])
        return v, [str(v)]
    if how == 'bool':
        v = toks[0] == 'True'
        return v, [str(v)]
    raise core.MachineryError('unknown value carrier %r' % (how,))


def _project(obj, how):
    """the tokens a value object carries right now (projection)"""
    if how == 'str':
        return obj.split(' ') if obj else []
    if how in ('dict', 'dictnum'):
        return ['%s:%s' % kv for kv in obj.items()]
    if how == 'none':
        return [] if obj is None else [repr(obj)]
    if how in ('int', 'float', 'bool'):
        return [str(obj)]
    return [x if isinstance(x, str) else repr(x) for x in obj]


def _wrap_event(toks, before, after, ll, ml, raised, out, src):
    if not isinstance(out, str):
        out = repr(out)
    return {'ev': 'wrap', 'toks': [codes(t) for t in toks], 'before': [codes(t) for t in before],
            'after': [codes(t) for t in after], 'll': ll, 'ml': ml, 'raised': raised,
            'out': codes(out), 'obj': src}


def _wrap_info(events, widths, listlike):
    multi = over = 0
    for e, (ll, ml) in zip(events, widths):
        rows = uncodes(e['out']).split('\n')
        multi += 1 if len(rows) > 1 else 0
        over += sum(1 for i, r in enumerate(rows)
                    if len(r) > (ll if i == 0 else ml) and len(r.split()) == 1)
    return {'wrap_calls': len(events), 'wrap_multiline_outputs': multi,
            'wrap_overlong_one_word_lines': over,
            'same_list_wrapped_twice_multiline': 1 if (listlike and multi >= 2) else 0}


def execute_wrap(case):
    """One value object, wrapped once per entry of case['widths'] (a history of calls on the
    same object); the object is read before and after every call."""
    from pmutt.io.cantera import obj_to_cti
    obj, toks = _wrap_obj(case['toks'], case['obj'])
    asked = case.get('widths') or [(case['ll'], case['ml'])]
    # an entry None = both widths left at their documented default (80)
    widths = [(80, 80) if w is None else tuple(w) for w in asked]
    events, info = [], {}
    for n, (ll, ml) in enumerate(widths):
        before = _project(obj, case['obj'])
        raised, out = '', ''
        try:
            if asked[n] is None:
                out = obj_to_cti(obj)
            else:
                out = obj_to_cti(obj, line_len=ll, max_line_len=ml)
        except Exception as ex:
            raised = type(ex).__name__
        events.append(_wrap_event(toks, before, _project(obj, case['obj']), ll, ml, raised, out,
                                  case['obj']))
        if n == 0 and 'ref' in case and not raised and isinstance(out, str):
            real = [[len(line), len(line.split())] for line in out.split('\n')]
            if out == '""':
                real = [[2, 0]]              # the model counts the words between the quotes
            info['layout_equals_model'] = (real == [list(r) for r in case['ref']])
    info.update(_wrap_info(events, widths, case['obj'] == 'list'))
    return events, [], info


def _cti_value(text, field):
    """projection: (number of characters before the value on its line, the value text) of
    `field="..."` / `field=\"\"\"...\"\"\"` in a written CTI object"""
    m = re.search(r'(?m)^(?P<prefix>[^\n]*?\b%s=)"' % re.escape(field), text)
    if not m:
        raise core.MachineryError('field %s not found in written object:\n%s' % (field, text))
    start = m.end() - 1
    if text.startswith('"""', start):
        end = text.index('"""', start + 3) + 3
    else:
        end = text.index('"', start + 1) + 1
    return len(m.group('prefix')), text[start:end]


ELEMENT_SYMBOLS = ('H He Li Be B C N O F Ne Na Mg Al Si P S Cl Ar K Ca Sc Ti V Cr Mn Fe Co Ni Cu Zn '
                   'Ga Ge As Se Br Kr Rb Sr Y Zr Nb Mo Ru Rh Pd Ag Cd In Sn Sb Te I Xe Pt Au').split()


def _wrap_host(case):
    """Build the real object of a wrapfield case.  Returns (write, between, fields) where
    write(ml) -> CTI text (ml None = the writer's default), between() is another writer of the
    same object (called, not judged) and fields maps a CTI field name to
    (tokens as built, reader of the tokens the object holds now, fixed line_len or None)."""
    import numpy as np
    from pmutt.empirical.nasa import Nasa, Nasa9, SingleNasa9
    from pmutt.empirical.shomate import Shomate
    from pmutt.omkm.phase import InteractingInterface, IdealGas, StoichSolid
    from pmutt.cantera.phase import IdealGas as CtIdealGas, StoichSolid as CtStoichSolid
    host, toks = case['host'], case['toks']
    a = np.zeros(7)
    if host.endswith('.atoms'):
        # species writers: atoms=<dict of element counts> goes through obj_to_cti with the
        # default widths (80, 80); the tokens are "El:n"
        elements = {}
        for t in toks:
            k, v = t.split(':', 1)
            elements[k] = int(v)
        built = ['%s:%s' % kv for kv in elements.items()]
        if host == 'nasa.atoms':
            sp = Nasa(name='X', T_low=300., T_mid=500., T_high=900., a_low=a, a_high=a,
                      elements=elements, phase='gas')
        elif host == 'shomate.atoms':
            sp = Shomate(name='X', T_low=300., T_high=900., a=np.zeros(8), elements=elements,
                         phase='gas')
        else:
            sp = Nasa9(name='X', nasas=[SingleNasa9(T_low=300., T_high=900., a=np.zeros(9))],
                       elements=elements, phase='gas')
        reader = lambda: ['%s:%s' % (k, int(v)) for k, v in sp.elements.items()]
        return (lambda ml: sp.to_cti()), (lambda: sp.to_cti()), {'atoms': (built, reader, 80)}
    species = [Nasa(name=t, T_low=300., T_mid=500., T_high=900., a_low=a, a_high=a,
                    elements={'H': 2}, phase='gas') for t in toks]
    name = case.get('name', 'phase1')
    note = ' '.join(toks)
    if host == 'interface':
        ph = InteractingInterface(name=name, species=species, phases=list(toks), site_density=1e-9,
                                  interactions=None, reactions=None, options=list(toks), note=note)
        names = ('name', 'species', 'phases', 'options', 'note')
    elif host in ('idealgas', 'ct_idealgas'):
        cls = IdealGas if host == 'idealgas' else CtIdealGas
        ph = cls(name=name, species=species, reactions=None, options=list(toks), note=note)
        names = ('name', 'species', 'options', 'note')
    else:
        cls = StoichSolid if host == 'stoichsolid' else CtStoichSolid
        init = {'k%d' % i: t for i, t in enumerate(toks)}
        ph = cls(name=name, species=species, reactions=None, options=list(toks), note=note,
                 density=2.5, initial_state=init, transport=tuple(toks))
        names = ('name', 'species', 'options', 'note', 'initial_state', 'transport')
    all_fields = {
        'name': (name.split(' '), lambda: _project(ph.name, 'str'), None),
        'species': (list(toks), lambda: [sp.name for sp in ph.species], None),
        'phases': (list(toks), lambda: _project(getattr(ph, 'phases', []), 'list'), None),
        'options': (list(toks), lambda: _project(ph.options, 'list'), None),
        'note': (list(toks), lambda: _project(ph.note, 'str'), None),
        'transport': (list(toks), lambda: _project(ph.transport, 'list'), None),
        'initial_state': (['k%d:%s' % (i, t) for i, t in enumerate(toks)],
                          lambda: _project(ph.initial_state, 'dict'), None)}
    write = lambda ml: ph.to_cti() if ml is None else ph.to_cti(max_line_len=ml)
    return write, (lambda: ph.to_omkm_yaml()), {f: all_fields[f] for f in names}


def execute_wrapfield(case):
    """A real phase (or species) whose fields carry the tokens is written once per entry of
    case['mls'] with to_cti (another writer in between); each written field is one wrap event.
    line_len of an event is max_line_len minus the characters in front of the value on its line
    (read off the written text), or the width the writer asks obj_to_cti for (species atoms)."""
    write, between, fields = _wrap_host(case)
    events, widths = [], []
    for ml_asked in case['mls']:
        ml = 80 if ml_asked is None else ml_asked
        before = {f: fields[f][1]() for f in fields}
        raised, text = '', ''
        try:
            text = write(ml_asked)
        except Exception as ex:
            raised = type(ex).__name__
        for f, (built, reader, fixed) in fields.items():
            plen, val = (0, '') if raised else _cti_value(text, f)
            ll = fixed if fixed is not None else ml - plen
            events.append(_wrap_event(built, before[f], reader(), ll, ml, raised, val,
                                      '%s.%s' % (case['host'], f)))
            widths.append((ll, ml))
        try:
            between()
        except Exception:
            pass                          # not a C18 call
    info = _wrap_info(events, widths, False)
    opt = [e for e in events if e['obj'].endswith('.options') and 10 in e['out']]
    info['same_list_wrapped_twice_multiline'] = 1 if len(opt) >= 2 else 0
    return events, [], info


def execute(case):
    if case['kind'] == 'wrap':
        return execute_wrapfield(case) if case.get('host') else execute_wrap(case)
    ev, mism = execute_range(case)
    # exercise counters (vacuity evidence only; no judgement is taken from them)
    info = {'range_calls': len(ev),
            'range_calls_rejected': sum(1 for e in ev if e['raised']),
            'range_outputs_with_to_entries': sum(
                1 for e in ev if not e['raised'] and ' to ' in (
                    uncodes(e['out']) if e['kind'] == 'text' else ' | '.join(uncodes(x) for x in e['out'])))}
    return ev, mism, info


def _safe_execute(case):
    try:
        return execute(case)
    except core.MachineryError:
        raise
    except Exception as ex:                  # driver-side failure around the library call
        raise core.MachineryError('driver failed on case %r: %s: %s' % (case, type(ex).__name__, ex))


# --------------------------------------------------------------------------
# case construction
# --------------------------------------------------------------------------
# the calls of one case are made on the SAME collection object (one per carrier)
CALL_SETS = ([{'form': 'str', 'as': 'str'}, {'form': 'list', 'as': 'str'}],
             [{'form': 'list', 'as': 'id'}, {'form': 'str', 'as': 'id'}],
             [{'form': 'str', 'as': 'name'}, {'form': 'list', 'as': 'name'}],
             [{'form': 'list', 'as': 'mixed'}, {'form': 'str', 'as': 'mixed'}])
CALL_SETS3 = tuple(cs + [dict(cs[0])] for cs in CALL_SETS) + (
    [{'form': 'str', 'as': 'str'}, {'form': 'str', 'as': 'id'}, {'form': 'list', 'as': 'str'}],)


def _tlc_range_cases(raw):
    cases = []
    for k, c in enumerate(raw):
        ids = [uncodes(x) for x in c['ids']]
        cases.append({'kind': 'range', 'cid': 'tr%d' % k, 'tlc': True, 'ids': ids, 'delim': DELIM,
                      'must': bool(c['must']), 'n': c['n'], 'calls': CALL_SETS[(k // 5) % 4]})
    return cases


HEAD_POOL = (None, '', 'r', 'rxn', 'a_b', 'surf_r_2', '_', 'R-1', 'r2', 'bep1_syn', 'x__y')


def _suffixes(rnd, n):
    """n integer suffixes in 0..99999: runs, gaps, duplicates, the 9999/10000 boundary"""
    out = []
    while len(out) < n:
        mode = rnd.random()
        if mode < 0.45:
            start = rnd.choice([0, 1, rnd.randint(0, 200), rnd.randint(9990, 10005),
                                rnd.randint(0, 99990), 99995])
            run = rnd.randint(1, 8)
            out.extend(min(99999, start + j) for j in range(run))
        elif mode < 0.6 and out:
            out.append(rnd.choice(out))                         # duplicate
        elif mode < 0.7:
            out.append(rnd.choice([0, 9, 10, 99, 100, 999, 1000, 9999, 10000, 99999]))
        else:
            out.append(rnd.randint(0, 99999))
    out = out[:n]
    rnd.shuffle(out)
    return out


def _print_suffix(rnd, n, style):
    if style == 'canon':
        return '%04d' % n
    if style == 'natural':
        return '%d' % n
    if style == 'wide':
        return '%0*d' % (rnd.choice([5, 6, 7]), n)
    if style == 'narrow':
        return '%0*d' % (rnd.choice([2, 3]), n)
    raise core.MachineryError(style)


# decimal digits of other scripts (str.isdigit() and int() accept them), as code-point offsets
DIGIT_ZEROS = {'arabic-indic': 0x0660, 'ext-arabic-indic': 0x06F0, 'devanagari': 0x0966,
               'bengali': 0x09E6, 'thai': 0x0E50, 'fullwidth': 0xFF10}
# isdigit() is true but int() fails: superscripts, subscripts, circled digits
PSEUDO_DIGITS = '\u00b2\u00b3\u00b9\u2075\u2082\u2460'


def _respell(txt, rnd, script=None, partial=False):
    z = DIGIT_ZEROS[script or rnd.choice(sorted(DIGIT_ZEROS))]
    out = []
    for ch in txt:
        if ch.isascii() and ch.isdigit() and not (partial and rnd.random() < 0.5):
            out.append(chr(z + ord(ch) - 48))
        else:
            out.append(ch)
    return ''.join(out)


def _odd_id(rnd, ids, delim):
    """an identifier with a footer that cannot be written back as an ASCII integer of the same
    spelling; built next to an existing identifier when there is one"""
    head, num, width = 'r' + delim, rnd.randint(0, 99999), rnd.choice([1, 4, 4, 5])
    base = [i for i in ids if i and i[-1].isascii() and i[-1].isdigit()]
    if base and rnd.random() < 0.8:
        b = rnd.choice(base)
        k = len(b)
        while k and b[k - 1].isascii() and b[k - 1].isdigit():
            k -= 1
        head, foot = b[:k], b[k:]
        num = max(0, min(99999, int(foot) + rnd.choice([-1, 0, 1, 1, 2])))
        width = len(foot)
    txt = '%0*d' % (width, num)
    mode = rnd.random()
    if mode < 0.45:
        foot = _respell(txt, rnd)                               # whole footer in another script
    elif mode < 0.6:
        foot = _respell(txt, rnd, partial=True)                 # ASCII and non-ASCII digits mixed
        if foot == txt:
            foot = _respell(txt, rnd)
    elif mode < 0.7:
        foot = rnd.choice(PSEUDO_DIGITS) if rnd.random() < 0.5 else txt + rnd.choice(PSEUDO_DIGITS)
    else:
        foot = rnd.choice(['+' + txt, ' ' + txt, txt + ' ', '-' + txt, '%de1' % (num % 10), ''])
    return head + foot


def _random_range_case(rnd, cid, canonical_only=False, delim=None):
    if delim is None:
        delim = DELIM if rnd.random() < 0.85 else rnd.choice(['-', '.'])
    pool = [h if h is None else h.replace('_', delim) for h in HEAD_POOL]
    heads = rnd.sample(pool, rnd.randint(1, 3))
    n = rnd.choice([0, 1, 2, 3, 5, 8, 13, 21, 34, 60, rnd.randint(0, 60)])
    allcanon = canonical_only or rnd.random() < 0.6
    ids, must, cls = [], True, set()
    for s in _suffixes(rnd, n):
        h = rnd.choice(heads)
        style = 'canon' if allcanon else rnd.choice(['canon', 'canon', 'natural', 'wide', 'narrow'])
        if allcanon and h == '':
            h = None                        # the empty prefix is outside the must-accept form
        txt = _print_suffix(rnd, s, style)
        if style != 'canon' and txt != '%04d' % s:
            must = False
        if h == '':
            must = False
        ids.append(txt if h is None else '%s%s%s' % (h, delim, txt))
    if not allcanon and n and rnd.random() < 0.08:
        ids.insert(rnd.randrange(len(ids) + 1), rnd.choice(['r%sabc' % delim, 'r%s' % delim, 'abc']))
        must = False
    if not canonical_only and rnd.random() < 0.15:
        # identifiers whose footer cannot be encoded (they may only be rejected or kept as they
        # are): ASCII oddities and digits of other scripts, alone (n = 0) or next to encodable
        # identifiers they would merge with if read as numbers
        for _ in range(rnd.randint(1, 3)):
            odd = _odd_id(rnd, ids, delim)
            ids.insert(rnd.randrange(len(ids) + 1), odd)
            cls.add('odd:ascii' if odd.isascii() else 'odd:non_ascii_digits')
        must = False
    calls = rnd.choice(CALL_SETS3)
    if rnd.random() < 0.2:                     # one list mixing str / .id / .name elements
        calls = [dict(c, **{'as': 'mixed'}) for c in calls]
        cls.add('carrier:mixed')
    elif rnd.random() < 0.2:                   # objects carrying both an id and a decoy name, sometimes with an empty id
        calls = [dict(c, **{'as': 'both'}) for c in calls]
        cls.add('carrier:both')
        if not canonical_only and rnd.random() < 0.5:
            ids.insert(rnd.randrange(len(ids) + 1), '')
            must = False
            cls.add('carrier:both_empty_id')
    return {'kind': 'range', 'cid': cid, 'ids': ids, 'delim': delim, 'must': must,
            'calls': calls, 'cls': sorted(cls)}


FIELD_HOSTS = ('interface.reactions', 'interface.interactions', 'idealgas.reactions',
               'ct_idealgas.reactions', 'bep.cti.synthesis', 'bep.cti.cleavage',
               'bep.yaml.synthesis', 'bep.yaml.cleavage', 'bep.reactions_cti')


def _field_case(rnd, cid, host):
    # BEP.to_omkm_yaml has no delimiter argument: those fields are written with '_'
    c = _random_range_case(rnd, cid, canonical_only=rnd.random() < 0.7,
                           delim=DELIM if host.startswith('bep.yaml') else None)
    c.update({'kind': 'field', 'host': host})
    c['cls'] = sorted(set(c.get('cls', [])) - {'carrier:mixed'} | {'field:' + host})
    c.pop('calls', None)
    return c


def _mk_token(rnd, n, with_colon=False):
    t = ''.join(rnd.choice(TOKEN_ALPHABET) for _ in range(n))
    if with_colon:
        t = t.replace(':', 'c')
    return t


# realistic species-like tokens (hyphens between letters, quotes, commas, brackets, colons)
NAME_TOKENS = ('CH3CH2OH(S)', 'trans-butene(S)', 'tert-butanol(S)', 'cis-2-butene', 'H2O(S)', 'Pt(111)',
               'O-H', 'n-C4H10', 'iso-octane(S)', 'HCOO**(S)', "C'", "H2O'(S)", 'a,b', 'x:y', '[Pt]',
               'CO2(S)', '12', '1e-5', 'well-known-intermediate', 'semi-hydrogenated-state(S)', '-', 'A-b')
# tokens with characters outside ASCII (lengths are counted in code points, as python does):
# Greek, accents (precomposed and combining), CJK, micro sign, circled digit, and a token holding a
# NO-BREAK SPACE (one element of the caller's list: still one token)
UNICODE_TOKENS = ('\u03b1-pinene', '\u00c5', 'caf\u00e9(S)', '\u6c22(S)', '\u00b5-oxo', 'e\u0301thane',
                  '\u2460', 'na\u00efve-Bayes', 'x\u00a0y', '\u0394H\u2021', '\u03b2-H-elimination(S)')


def _class_token(rnd, cls):
    if cls == 'names':
        return rnd.choice(NAME_TOKENS)
    if cls == 'unicode':
        return rnd.choice(UNICODE_TOKENS)
    if cls == 'long':                         # longer than a width of the quantifier
        return _mk_token(rnd, rnd.choice([31, 33, 60, 101, 120]))
    raise core.MachineryError(cls)


def _tlc_wrap_cases(raw):
    cases = []
    for k, c in enumerate(raw):
        lens = c['lens']
        toks = [chr(97 + i) * n for i, n in enumerate(lens)]
        how = ('list', 'tuple', 'str', 'set')[k % 4]
        case = {'kind': 'wrap', 'cid': 'tw%d' % k, 'tlc': True, 'toks': toks, 'll': c['ll'],
                'ml': c['ml'], 'obj': how,
                'widths': [[c['ll'], c['ml']], [c['ll'], c['ml']] if k % 2 else [c['ml'], c['ll']]]}
        if how != 'set':                      # a set fixes its own order: no reference layout
            case['ref'] = c['ref']
        cases.append(case)
    return cases


def _random_wrap_case(rnd, cid):
    n = rnd.choice([0, 1, 2, 3, 5, 8, 13, 20, 40, 80, rnd.randint(0, 80)])
    how = rnd.choice(['list', 'list', 'tuple', 'str', 'set', 'dict'])
    toks, seen = [], set()
    while len(toks) < n:
        ln = rnd.choice([1, 2, 3, 10, 26, 27, 28, 29, 30, rnd.randint(1, 30), rnd.randint(1, 30)])
        if how == 'dict':
            ln = max(ln, 3)
            key = 'k%d' % len(toks)
            if len(key) + 2 > ln:
                ln = len(key) + 2
            t = '%s:%s' % (key, _mk_token(rnd, ln - len(key) - 1, with_colon=True))
        else:
            t = _mk_token(rnd, ln)
        if how in ('set', 'dict') and t in seen:
            continue
        seen.add(t)
        toks.append(t)
    tokcls = []
    if how in ('list', 'tuple', 'str', 'set') and toks and rnd.random() < 0.35:
        for cls in rnd.sample(['names', 'unicode', 'long'], rnd.randint(1, 2)):
            for _ in range(rnd.randint(1, 4)):
                t = _class_token(rnd, cls)
                if t not in seen:
                    seen.add(t)
                    toks[rnd.randrange(len(toks))] = t
            tokcls.append(cls)
        toks = list(dict.fromkeys(toks)) if how == 'set' else toks
    r = rnd.random()
    if r < 0.5:                                # as the phase writers call it: ll = ml - indent
        ml = rnd.randint(46, 100)
        ll = max(30, ml - rnd.choice([11, 15, 16, 18, 19, 23, 27, 30, 31]))
    elif r < 0.6:
        ml = rnd.randint(30, 99)
        ll = ml + 1                            # as for the `name` field
    elif r < 0.8:
        ll = ml = rnd.randint(30, 100)
    else:
        ll, ml = rnd.randint(30, 100), rnd.randint(30, 100)
    widths = [[ll, ml], [ll, ml]]
    if rnd.random() < 0.6:
        ml2 = rnd.randint(46, 100)
        widths.insert(rnd.choice([1, 2]), [max(30, ml2 - rnd.choice([0, 11, 18, 23, 30])), ml2])
    if rnd.random() < 0.1:
        widths.append(None)                    # once more with the documented defaults (80, 80)
    return {'kind': 'wrap', 'cid': cid, 'toks': toks, 'll': ll, 'ml': ml, 'obj': how, 'widths': widths,
            'cls': ['tok:' + c for c in tokcls] + (['width:default'] if widths[-1] is None else [])}


WRAP_HOSTS = ('interface', 'idealgas', 'ct_idealgas', 'stoichsolid', 'ct_stoichsolid',
              'nasa.atoms', 'shomate.atoms', 'nasa9.atoms')


def _wrapfield_case(rnd, cid, host):
    if host.endswith('.atoms'):
        n = rnd.choice([1, 2, 5, 12, 20, 30, 50])
        toks = ['%s:%d' % (e, rnd.choice([1, 2, 10, 100])) for e in rnd.sample(ELEMENT_SYMBOLS, n)]
        return {'kind': 'wrap', 'cid': cid, 'host': host, 'toks': toks, 'obj': 'host:' + host,
                'll': 80, 'ml': 80, 'mls': [None, None], 'cls': ['host:' + host]}
    n = rnd.choice([1, 2, 3, 5, 8, 13, 20, 30])
    toks, seen = [], set()
    while len(toks) < n:
        r = rnd.random()
        if r < 0.25:
            t = _class_token(rnd, rnd.choice(['names', 'unicode']))
        else:
            t = _mk_token(rnd, rnd.choice([1, 3, 8, 12, 20, 28, 30, rnd.randint(1, 30)]))
        t = t.replace(':', 'c')                # initial_state keys/values are cut at the first colon
        if t not in seen:
            seen.add(t)
            toks.append(t)
    ml = rnd.randint(70, 100)
    mls = [[ml, ml], [ml, rnd.randint(70, 100)], [None, ml], [ml, None]][rnd.randrange(4)]
    name = rnd.choice(['gas', 'surf', 'a-long-phase-name-' + _mk_token(rnd, 30).replace(':', 'c'),
                       'two words', _mk_token(rnd, rnd.randint(1, 30)).replace(':', 'c')])
    return {'kind': 'wrap', 'cid': cid, 'host': host, 'toks': toks, 'obj': 'host:' + host, 'name': name,
            'll': ml, 'ml': ml, 'mls': mls,
            'cls': ['host:' + host] + (['width:default'] if None in mls else [])}


# --------------------------------------------------------------------------
# audit classes: the phrases of the quantifier, each exercised in EVERY run
# --------------------------------------------------------------------------
CARRIERS = ('str', 'id', 'name', 'mixed')


def _ids(head, nums, width=4, delim=DELIM):
    return [('%0*d' % (width, n)) if head is None else '%s%s%0*d' % (head, delim, width, n) for n in nums]


def _audit_range_cases(rnd):
    """(class label, ids, must, delimiter) for every phrase of the range quantifier; each is then
    run in several orders, with every carrier and in both output forms."""
    B = []                                                   # (cls, ids, must, delim)
    two = lambda n: _ids('r', range(1, n // 2 + 1)) + _ids('surf_r', range(100, 100 + n - n // 2))
    for n in (0, 1, 2, 59, 60):                              # size of the collection: both ends
        B.append(('size:%d' % n, two(n), True, DELIM))
    B.append(('size:60_one_run', _ids('r', range(41, 101)), True, DELIM))
    # prefixes
    B.append(('prefix:none', _ids(None, [1, 2, 3, 7]), True, DELIM))
    B.append(('prefix:empty', _ids('', [1, 2, 3, 7]), False, DELIM))
    B.append(('prefix:empty_vs_none', _ids('', [4, 5]) + _ids(None, [4, 5, 6]), False, DELIM))
    B.append(('prefix:has_delimiter', _ids('a_b', [1, 2, 4]) + _ids('a', [1, 2]), True, DELIM))
    B.append(('prefix:double_delimiter', _ids('a__b', [1, 2]) + _ids('a_', [5, 6]), True, DELIM))
    B.append(('prefix:is_delimiter', _ids('_', [1, 2, 3]), True, DELIM))
    B.append(('prefix:prefix_of_other', _ids('r', [1, 2, 3]) + _ids('rxn', [2, 3, 4]) + _ids('rx', [3]), True, DELIM))
    B.append(('prefix:ends_in_digit', _ids('r2', [1, 2]) + _ids('r', [21, 22]) + _ids('s10', [9, 10]), True, DELIM))
    B.append(('prefix:digits_only', _ids('12', [3, 4]) + _ids(None, [123, 124]), True, DELIM))
    B.append(('prefix:three', _ids('a', [1, 2]) + _ids('b', [2, 3]) + _ids('c_d', [3, 5]), True, DELIM))
    B.append(('prefix:one', _ids('only', [5, 6, 7, 9]), True, DELIM))
    # suffix values: ends of 0..99999 and their neighbours
    for name, nums in (('0', [0]), ('0_1', [0, 1]), ('9_10', [9, 10]), ('99999', [99999]),
                       ('99998_99999', [99998, 99999]), ('0_99999', [0, 99999]),
                       ('9999_10000', [9999, 10000, 10001])):
        B.append(('suffix:' + name, _ids('r', nums), True, DELIM))
    # printed widths within one collection, and width changes inside a run
    B.append(('width:3_03_0003', ['r_3', 'r_03', 'r_0003'], False, DELIM))
    B.append(('width:same_value_runs', ['r_3', 'r_03', 'r_0003', 'r_4', 'r_04', 'r_0004', 'r_5'], False, DELIM))
    B.append(('width:bare_12_012', ['12', '012', '0012', '13'], False, DELIM))
    B.append(('width:0099_0100', _ids('r', [98, 99, 100, 101]), True, DELIM))
    B.append(('width:99_100', ['r_98', 'r_99', 'r_100', 'r_101'], False, DELIM))
    B.append(('width:9_10', ['r_8', 'r_9', 'r_10', 'r_11'], False, DELIM))
    B.append(('width:09999_10000', ['r_09999', 'r_10000', 'r_9999'], False, DELIM))
    B.append(('width:natural_0', ['r_0', 'r_1', 'r_00', 'r_01'], False, DELIM))
    # gaps
    B.append(('gap:1', _ids('r', [1, 2, 4, 5]), True, DELIM))
    B.append(('gap:2', _ids('r', [1, 2, 5, 6]), True, DELIM))
    B.append(('gap:all_single', _ids('r', [1, 3, 5, 7, 9]), True, DELIM))
    # duplicates
    B.append(('dup:adjacent', _ids('r', [1, 1, 2, 3]), True, DELIM))
    B.append(('dup:apart', _ids('r', [1, 2, 3, 1]), True, DELIM))
    B.append(('dup:all_same', _ids('r', [5, 5, 5]), True, DELIM))
    B.append(('dup:run_twice', _ids('r', [1, 2, 3, 1, 2, 3]), True, DELIM))
    B.append(('dup:across_prefixes', _ids('a', [1, 2]) + _ids('b', [1, 2]) + _ids('a', [2]), True, DELIM))
    # other delimiters (documented parameter)
    B.append(('delim:-', _ids('a-b', [1, 2, 4], delim='-') + _ids('r_x', [7, 8], delim='-'), True, '-'))
    B.append(('delim:.', _ids('a.b', [1, 2, 4], delim='.') + _ids(None, [7, 8]), True, '.'))
    out = []
    for k, (cls, ids, must, delim) in enumerate(B):
        orders = [('given', list(ids)), ('ascending', sorted(ids)), ('descending', sorted(ids, reverse=True))]
        sh = list(ids)
        rnd.shuffle(sh)
        orders.append(('shuffled', sh))
        seen = set()
        for oname, seq in orders:
            if tuple(seq) in seen:
                continue
            seen.add(tuple(seq))
            for c, carrier in enumerate(CARRIERS):
                forms = ('str', 'list') if (k + c) % 2 == 0 else ('list', 'str')
                out.append({'kind': 'range', 'cid': 'ar%d' % len(out), 'ids': seq, 'delim': delim,
                            'must': must, 'calls': [{'form': f, 'as': carrier} for f in forms],
                            'parent': (k + c) % 3 == 0, 'defaults': delim == DELIM and (k + c) % 3 == 1,
                            'cls': [cls, 'order:' + oname, 'carrier:' + carrier]
                                   + (['arg:parent_obj'] if (k + c) % 3 == 0 else [])
                                   + (['arg:defaults'] if delim == DELIM and (k + c) % 3 == 1 else [])})
    return out


def _fit_tokens(total, n):
    """n tokens whose ' '.join has exactly `total` characters"""
    body = total - (n - 1)
    base, extra = divmod(body, n)
    return [chr(97 + i % 26) * (base + (1 if i < extra else 0)) for i in range(n)]


def _audit_wrap_cases(rnd):
    B = []                                                   # (cls, toks, kind, widths)
    W = {'30_30': [30, 30], '100_100': [100, 100], '30_100': [30, 100], '100_30': [100, 30],
         '31_30': [31, 30], '99_100': [99, 100], '80_80': [80, 80]}
    for n in (0, 1, 2, 79, 80):                              # number of tokens: both ends
        for ln, lname in ((1, '1'), (30, '30'), (None, 'mixed')):
            if ln == 1:
                toks = [TOKEN_ALPHABET[i % len(TOKEN_ALPHABET)] for i in range(n)]
            elif ln == 30:
                toks = ['T' + str(i).zfill(29) for i in range(n)]
            else:
                toks = [(str(i) + 'x' * 30)[:1 + (7 * i) % 30] for i in range(n)]
            for wname in ('30_30', '100_100', '30_100'):
                B.append(('ntok:%d' % n, toks, 'list' if n != 2 else 'tuple', [W[wname], W[wname]]))
                B.append(('len:' + lname, toks, 'str', [W[wname]]))
    for wname, w in W.items():                               # the ends of 30..100 and both orders
        toks = _fit_tokens(150, 12)
        B.append(('width:' + wname, toks, 'list', [w, w]))
        B.append(('width:' + wname, _fit_tokens(3 * w[0], 9), 'tuple', [w]))
    B.append(('width:default', _fit_tokens(200, 20), 'list', [None, None]))
    B.append(('width:default', _fit_tokens(77, 6), 'list', [None]))
    B.append(('width:default', _fit_tokens(78, 6), 'tuple', [None]))
    # the one-line / multi-line threshold and a last line that ends next to its limit
    for ll in (30, 80, 100):
        for d in (-4, -3, -2, -1, 0, 1):
            B.append(('fit:one_line_threshold', _fit_tokens(ll + d, 4), 'list', [[ll, ll], [ll, 100]]))
    for ml in (40, 60, 100):
        for k in (3, 2, 1, 0):
            per = (ml - k + 1) // 5 - 1
            B.append(('fit:last_line_near_limit', [chr(97 + i) * per for i in range(10)], 'list', [[ml, ml]]))
    # tokens longer than the width
    B.append(('tok:long', ['x' * 31, 'ab', 'y' * 120, 'cd', 'z' * 101], 'list', [[30, 30], [100, 100], [30, 100]]))
    B.append(('tok:long', ['q' * 200], 'str', [[30, 30], None]))
    # alphabets
    B.append(('tok:names', list(NAME_TOKENS), 'list', [[30, 30], [40, 60], None]))
    B.append(('tok:names', list(NAME_TOKENS), 'str', [[35, 35], [31, 80]]))
    B.append(('tok:names', list(reversed(NAME_TOKENS)), 'tuple', [[33, 33], [36, 36], [39, 39], [42, 42]]))
    B.append(('tok:unicode', list(UNICODE_TOKENS), 'list', [[30, 30], [40, 60], None]))
    B.append(('tok:unicode', list(UNICODE_TOKENS), 'str', [[30, 45]]))
    B.append(('tok:unicode', list(UNICODE_TOKENS), 'set', [[30, 30], [30, 30]]))
    # every accepted kind of value
    base = ['k%d:%s' % (i, 'v' * (3 + i % 20)) for i in range(14)]
    B.append(('kind:dict', base, 'dict', [[30, 30], [50, 80], None]))
    B.append(('kind:dictnum', ['El%d:%d' % (i, i * 7 % 13) for i in range(30)], 'dictnum', [[30, 30], None]))
    B.append(('kind:dictnum', ['x:1.5', 'y:2e-05', 'z:3'], 'dictnum', [[30, 30]]))
    B.append(('kind:set', [chr(97 + i) * (1 + i % 30) for i in range(26)], 'set', [[30, 30], [60, 80], None]))
    B.append(('kind:tuple', _fit_tokens(120, 10), 'tuple', [[30, 30], [100, 100]]))
    B.append(('kind:str', _fit_tokens(120, 10), 'str', [[30, 30], [100, 100]]))
    B.append(('kind:str_one_word', ['w' * 29], 'str', [[30, 30], [31, 31], [32, 32]]))
    B.append(('kind:none', [], 'none', [[30, 30], [100, 100], None]))
    for v in ('0', '7', '-12', '123456789012345678901234567890123456'):
        B.append(('kind:int', [v], 'int', [[30, 30], None]))
    for v in ('0.0', '1e-09', '-273.15', '6.02214086e+23', 'inf'):
        B.append(('kind:float', [v], 'float', [[30, 30], None]))
    B.append(('kind:bool', ['True'], 'bool', [[30, 30]]))
    B.append(('kind:bool', ['False'], 'bool', [None]))
    return [{'kind': 'wrap', 'cid': 'aw%d' % k, 'toks': toks, 'obj': how, 'widths': widths,
             'll': (widths[0] or [80, 80])[0], 'ml': (widths[0] or [80, 80])[1], 'cls': [cls]}
            for k, (cls, toks, how, widths) in enumerate(B)]


# every label listed here must have been exercised at least once in every run (else exit 2)
def _required_classes():
    rnd = random.Random(0)
    req = set()
    for c in _audit_range_cases(rnd) + _audit_wrap_cases(rnd):
        req.update(c['cls'])
    req.update('host:' + h for h in WRAP_HOSTS)
    req.update('field:' + h for h in FIELD_HOSTS)
    req.update(['odd:non_ascii_digits', 'odd:ascii', 'tok:names', 'tok:unicode', 'tok:long',
                'width:default'])
    return req


def _tags(case):
    if case['kind'] == 'wrap':
        return {'kind': 'wrap', 'obj': case['obj']}
    return {'kind': case['kind'], 'must': bool(case.get('must')), 'host': case.get('host', 'direct')}


def _signature(case):
    if case['kind'] == 'wrap':
        return ['w', case['toks'], case['ll'], case['ml'], case['obj'], case.get('widths'), case.get('mls')]
    return ['r', case['ids'], case.get('delim'), case.get('host'), case.get('calls')]


def _nontrivial(case):
    if case['kind'] == 'wrap':
        return len(case['toks']) >= 2
    return len(case['ids']) >= 2


# --------------------------------------------------------------------------
def run(ctx):
    ctx.coverage['rule'] = (
        'a range case is one identifier collection (sequence, duplicates kept) handed to '
        '_get_omkm_range in the str and the list form, as strings or as objects with id/name, or '
        'carried by the reactions/interactions of a real written phase or BEP; a wrap case is one '
        'token list handed to obj_to_cti as list/tuple/set/dict/str - the SAME object 2-3 times, at other '
        'widths too, read before and after each call - or carried by the species/options/note/phases of '
        'a real phase written twice with to_cti. '
        'Cases are the complete TLC case sets of MC_OmkmRange_cases / MC_CtiWrap_cases plus random '
        'draws from the quantifier (0-60 ids, 1-3 prefixes, suffixes 0-99999; 0-80 tokens of length '
        '1-30, widths 30-100); non-trivial = at least two identifiers / tokens; distinct by input')
    if ctx.replay_case is not None:
        cases = [ctx.replay_case['case']]
    else:
        # (D) design models and (S->C) case sets: independent TLC runs, made side by side
        import concurrent.futures as cf
        good = [('MC_OmkmRange', ctx.pick('MC_OmkmRange_keepwidth', 'MC_OmkmRange_keepwidth_big')),
                ('MC_CtiWrap', ctx.pick('MC_CtiWrap', 'MC_CtiWrap_big'))]
        if not ctx.quick:      # the "%04d" algorithm the code had before c18692e, kept for the record
            good.append(('MC_OmkmRange', 'MC_OmkmRange_big'))
        bad = [('MC_OmkmRange', 'MC_OmkmRange_isdigit',
                'accepting footers spelt with digits of other scripts (isdigit()+int())'),
               ('MC_OmkmRange', 'MC_OmkmRange_fastpath',
                'a one-identifier shortcut that ignores format=\'list\' and never raises'),
               ('MC_OmkmRange', 'MC_OmkmRange_pad4',
                'the "%04d" re-printing on identifiers of other widths and on the empty prefix'),
               ('MC_CtiWrap', 'MC_CtiWrap_onelimit', 'filling the first line to max_line_len'),
               ('MC_CtiWrap', 'MC_CtiWrap_alias', 'changing the caller\'s list during a call'),
               ('MC_CtiWrap', 'MC_CtiWrap_alias_tokens',
                'the marker left in the caller\'s list showing up as a token of a later call')]
        with cf.ThreadPoolExecutor(max_workers=4) as ex:
            f_good = [ex.submit(ctx.model, m, c, workers=ctx.pick(4, 8)) for m, c in good]
            f_cases = [ex.submit(core.tlc_cases, m, m) for m in ('MC_OmkmRange_cases', 'MC_CtiWrap_cases')]
            f_bad = [(ex.submit(ctx.model, m, c, workers=2, expect_ok=False), c, what) for m, c, what in bad]
            for f in f_good:
                f.result()
            for f, c, what in f_bad:
                r = f.result()
                if r.ok or r.violated is None:
                    raise core.MachineryError('%s should be rejected by the design model:\n%s'
                                              % (c, r.out[-2000:]))
                ctx.notes.append('design model rejects %s: %s violated' % (what, r.violated))
            raw_r, raw_w = f_cases[0].result()[0], f_cases[1].result()[0]
        ctx.coverage['tlc_range_cases'] = len(raw_r)
        ctx.coverage['tlc_wrap_cases'] = len(raw_w)
        # quick: a rotating part of the TLC case sets (all of them over consecutive seeds);
        # thorough: the complete sets.  The JSON order is TLC's and does not depend on the seed.
        rr, rw = ctx.pick(5, 1), ctx.pick(3, 1)
        tr, tw = _tlc_range_cases(raw_r), _tlc_wrap_cases(raw_w)
        cases = [c for k, c in enumerate(tr) if k % rr == ctx.seed % rr]
        cases += [c for k, c in enumerate(tw) if k % rw == ctx.seed % rw]
        ctx.coverage['tlc_range_cases_replayed'] = sum(1 for c in cases if c['kind'] == 'range')
        ctx.coverage['tlc_wrap_cases_replayed'] = sum(1 for c in cases if c['kind'] == 'wrap')
        rnd = random.Random(ctx.seed)
        # the phrases of the quantifier, every run
        cases += _audit_range_cases(rnd) + _audit_wrap_cases(rnd)
        # random draws from the quantifier
        for k in range(ctx.pick(1200, 20000)):
            cases.append(_random_range_case(rnd, 'rr%d' % k))
        for k in range(ctx.pick(360, 4500)):
            cases.append(_field_case(rnd, 'rf%d' % k, FIELD_HOSTS[k % len(FIELD_HOSTS)]))
        for k in range(ctx.pick(1200, 20000)):
            cases.append(_random_wrap_case(rnd, 'rw%d' % k))
        for k in range(ctx.pick(240, 2400)):
            cases.append(_wrapfield_case(rnd, 'wf%d' % k, WRAP_HOSTS[k % len(WRAP_HOSTS)]))
    results = core.pmap(_safe_execute, cases)
    rtraces, wtraces = [], []
    layout_same = layout_cmp = 0
    classes = {}
    for tid, (case, (events, mism, info)) in enumerate(zip(cases, results)):
        ctx.evaluated()
        if _nontrivial(case):
            ctx.nontrivial(_signature(case))
        for m in mism:
            ctx.violation('ReplayMustAccept', case, tags=_tags(case), detail=m)
        if 'layout_equals_model' in info:
            layout_cmp += 1
            layout_same += 1 if info['layout_equals_model'] else 0
        for key, val in info.items():
            if key != 'layout_equals_model':
                ctx.count('exercised_' + key, val)
        for label in case.get('cls', ()):
            classes[label] = classes.get(label, 0) + 1
        (wtraces if case['kind'] == 'wrap' else rtraces).append((tid, events))
        if tid % 7919 == 0 or (not case.get('tlc') and tid % 397 == 0):
            ctx.sample({k: v for k, v in case.items() if k in
                        ('kind', 'ids', 'delim', 'host', 'toks', 'll', 'ml', 'obj', 'must')}, cap=8)
    ctx.coverage['exercised_classes'] = dict(sorted(classes.items()))
    if ctx.replay_case is None:
        missing = sorted(_required_classes() - set(k for k, v in classes.items() if v > 0))
        for key in ('range_calls_rejected', 'range_outputs_with_to_entries', 'wrap_multiline_outputs',
                    'wrap_overlong_one_word_lines', 'same_list_wrapped_twice_multiline'):
            if not ctx.coverage.get('exercised_' + key):
                missing.append(key)
        if missing:
            raise core.MachineryError('vacuous run: input classes never exercised: %s' % ', '.join(missing))
    ctx.coverage['wrap_layouts_compared_with_model'] = layout_cmp
    ctx.coverage['wrap_layouts_equal_to_model'] = layout_same
    if layout_cmp and layout_same != layout_cmp:
        ctx.notes.append('%d of %d real layouts differ from the greedy model of CtiWrap.tla (not a '
                         'violation: layout is not demanded; the design model no longer describes '
                         'the code exactly)' % (layout_cmp - layout_same, layout_cmp))
    lines = 0
    for module, traces in (('Trace_OmkmRange', rtraces), ('Trace_CtiWrap', wtraces)):
        fails, stats = core.validate_traces(module, 'Trace', traces)
        ctx.count('traces_validated_against_impl', len(traces))
        lines += stats['lines']
        by_case = {}
        for tid, idx, clause in fails:
            by_case.setdefault((tid, clause), []).append(idx)
        for (tid, clause), idxs in sorted(by_case.items()):
            ctx.violation(clause, cases[tid], tags=_tags(cases[tid]), detail={'event_indices': idxs[:10]})
    ctx.coverage['trace_lines'] = lines
    ctx.assume('range notation is read numerically: "p_a to p_b" denotes p_n for n in a..b printed at the '
               'width of a (a consumer comparing identifiers lexically agrees only while the width is constant)')
    ctx.assume('tokens are non-empty texts without blanks or double quotes; identifiers contain no '
               'double quote, bracket, ", " or " to "; identifiers are compared as sequences of code points '
               '(a footer spelt with digits of another script is a different identifier from its ASCII spelling)')
    ctx.assume('an over-long line is excused when it holds exactly one word (token, or token glued to the '
               'opening delimiter, or the closing delimiter); line 1 is limited by line_len, later lines '
               'by max_line_len')


if __name__ == '__main__':
    core.main('C18', 'model_checking', run)
