"""C18 - identifier ranges and CTI line wrapping preserve their contents.

(D)   spec/OmkmRange.tla (the "%04d" algorithm of the code on identifiers already
      printed that way; the same algorithm on every printed width, EXPECTED TO BE
      REJECTED; the width-preserving repair) and spec/CtiWrap.tla (greedy filling;
      a wrong variant EXPECTED TO BE REJECTED) are checked exhaustively by TLC.
(S->C) TLC writes the finite case sets (MC_OmkmRange_cases: ~25k identifier
      collections, MC_CtiWrap_cases: ~5.9k token-length/width cases); each is fed to
      the real `_get_omkm_range` / `obj_to_cti`.  TLC's `must` (the collection has to
      be accepted) is compared with what the code did; TLC's greedy reference layout is
      compared with the real layout as evidence only (layout is not demanded).
(C->S) every call - the TLC cases, random collections/token lists drawn from the
      property's quantifier, and the reactions=/interactions= fields of real written
      phases and BEPs - is recorded as one NDJSON line carrying the text as character
      codes and judged by spec/Trace_OmkmRange.tla / spec/Trace_CtiWrap.tla: parsing,
      Denote(range) and the set/sequence comparisons are all evaluated by TLC.
Python only builds inputs, calls the library and turns str into character codes.
"""
import random
import re
import sys

from harness import core

DELIM = '_'
TOKEN_ALPHABET = ('abcdefghijklmnopqrstuvwxyzABCDEFGHIJKLMNOPQRSTUVWXYZ0123456789'
                  "()_-+.,:*[]{}#/'=<>|")


def codes(s):
    return core.text_codes(s)


def uncodes(c):
    return ''.join(chr(v) for v in c)


# --------------------------------------------------------------------------
# ranges
# --------------------------------------------------------------------------
def _wrap_ids(ids, how):
    from collections import namedtuple
    if how == 'str':
        return list(ids), (lambda objs: list(objs))
    if how == 'id':
        T = namedtuple('ObjWithId', 'id')
        return [T(i) for i in ids], (lambda objs: [o.id for o in objs])
    if how == 'name':
        T = namedtuple('ObjWithName', 'name')
        return [T(i) for i in ids], (lambda objs: [o.name for o in objs])
    raise core.MachineryError('unknown id carrier %r' % (how,))


def _range_event(ids, after, delim, raised, out, src):
    if isinstance(out, str):
        kind, payload = 'text', codes(out)
    elif isinstance(out, (list, tuple)) and all(isinstance(x, str) for x in out):
        kind, payload = 'elems', [codes(x) for x in out]
    else:                                    # not a range output at all
        kind, payload = 'text', codes(repr(out))
    return {'ev': 'range', 'ids': [codes(i) for i in ids], 'after': [codes(i) for i in after],
            'delim': ord(delim), 'raised': raised, 'kind': kind, 'out': payload, 'src': src}


def _species():
    import numpy as np
    from pmutt.empirical.nasa import Nasa
    a = np.zeros(7)
    return {n: Nasa(name=n, T_low=300., T_mid=500., T_high=900., a_low=a, a_high=a,
                    elements={'H': 2}, phase=ph)
            for n, ph in (('H2', 'gas'), ('H2(S)', 'surf'), ('HH(S)', 'surf'))}


_FIELD = re.compile(r'^\s*([A-Za-z_]+)=(\[.*\])[,)]\s*$')


def _cti_fields(text):
    """projection: the `name=[...]` lines of a CTI object"""
    out = {}
    for line in text.split('\n'):
        m = _FIELD.match(line)
        if m:
            out[m.group(1)] = m.group(2)
    return out


def _field_calls(case):
    """Write real phases / BEPs whose reactions or interactions carry the ids and cut the
    range fields out of the text.  Yields (src, getter) where getter() -> range output."""
    from pmutt.omkm.reaction import SurfaceReaction, BEP
    from pmutt.omkm.phase import InteractingInterface, IdealGas
    from pmutt.cantera.phase import IdealGas as CtIdealGas
    from pmutt.mixture.cov import PiecewiseCovEffect
    from pmutt.omkm.units import Units
    ids, delim, host = case['ids'], case['delim'], case['host']
    sp = _species()

    def surf_rxns():
        return [SurfaceReaction.from_string('H2(S) = HH(S)', species=sp, id=i) for i in ids]

    def gas_rxns():
        return [SurfaceReaction.from_string('H2 = H2', species=sp, id=i) for i in ids]

    def field(text, name):
        f = _cti_fields(text)
        if name not in f:
            raise core.MachineryError('field %s not found in written object:\n%s' % (name, text))
        return f[name]

    if host == 'interface.reactions':
        r = surf_rxns()
        ph = InteractingInterface(name='surf', species=[sp['H2(S)'], sp['HH(S)']],
                                  phases=['gas'], site_density=1e-9, interactions=None, reactions=r)
        return (r, (lambda o: [x.id for x in o]), (lambda: field(ph.to_cti(delimiter=delim), 'reactions')),
                (lambda: ph.to_omkm_yaml()))
    if host == 'interface.interactions':
        it = [PiecewiseCovEffect(name_i='H2(S)', name_j='HH(S)', intervals=[0., 0.5],
                                 slopes=[1., 2.], name=i) for i in ids]
        ph = InteractingInterface(name='surf', species=[sp['H2(S)'], sp['HH(S)']],
                                  phases=['gas'], site_density=1e-9, interactions=it, reactions=None)
        return (it, (lambda o: [x.name for x in o]),
                (lambda: field(ph.to_cti(delimiter=delim), 'interactions')), (lambda: ph.to_omkm_yaml()))
    if host in ('idealgas.reactions', 'ct_idealgas.reactions'):
        r = gas_rxns()
        cls = IdealGas if host == 'idealgas.reactions' else CtIdealGas
        g = cls(name='gas', species=[sp['H2']], reactions=r)
        return (g.reactions, (lambda o: [x.id for x in o]),
                (lambda: field(g.to_cti(delimiter=delim), 'reactions')), (lambda: g.to_omkm_yaml()))
    if host in ('bep.cti.synthesis', 'bep.cti.cleavage', 'bep.yaml.synthesis', 'bep.yaml.cleavage',
                'bep.reactions_cti'):
        r = surf_rxns()
        syn = host.endswith('synthesis') or host == 'bep.reactions_cti'
        b = BEP(slope=0.5, intercept=10., name='bep1', direction='cleavage',
                synthesis_reactions=r if syn else [], cleavage_reactions=[] if syn else r)
        held = b.synthesis_reactions if syn else b.cleavage_reactions
        u = Units()
        if host.startswith('bep.cti'):
            name = 'synthesis_reactions' if syn else 'cleavage_reactions'
            get = lambda: field(b.to_cti(units=u, delimiter=delim), name)
            between = lambda: b.to_omkm_yaml(units=u)
        elif host == 'bep.reactions_cti':
            get = lambda: b._get_reactions_CTI(direction='synthesis', delimiter=delim)
            between = lambda: b.to_omkm_yaml(units=u)
        else:
            key = 'synthesis-reactions' if syn else 'cleavage-reactions'
            get = lambda: b.to_omkm_yaml(units=u).get(key, '[]')
            between = lambda: b.to_cti(units=u)
        return held, (lambda o: [x.id for x in o]), get, between
    raise core.MachineryError('unknown host %r' % (host,))


def execute_range(case):
    from pmutt.cantera import _get_omkm_range
    ids, delim = case['ids'], case.get('delim', DELIM)
    events, mism = [], []
    if case['kind'] == 'field':
        # the same host object is written twice (another writer is called in between)
        objs, read, get, between = _field_calls(case)
        for rep in range(case.get('repeat', 2)):
            raised, out = '', ''
            try:
                out = get()
            except core.MachineryError:
                raise
            except Exception as ex:
                raised = type(ex).__name__
            events.append(_range_event(ids, read(objs), delim, raised, out,
                                       '%s#%d' % (case['host'], rep + 1)))
            try:
                between()
            except Exception:
                pass                      # not a C18 call; its failures belong to C07
        return events, mism
    held = {}                             # one collection object per carrier, reused by every call
    for call in case['calls']:
        if call['as'] not in held:
            held[call['as']] = _wrap_ids(ids, call['as'])
        objs, read = held[call['as']]
        raised, out = '', ''
        try:
            out = _get_omkm_range(objs=objs, delimiter=delim, format=call['form'])
        except Exception as ex:
            raised = type(ex).__name__
        events.append(_range_event(ids, read(objs), delim, raised, out,
                                   '%s/%s' % (call['form'], call['as'])))
        if case.get('tlc') and case['must'] and raised:
            mism.append({'call': call, 'tlc_must_accept': True, 'raised': raised})
    return events, mism


# --------------------------------------------------------------------------
# wrapping
# --------------------------------------------------------------------------
def _wrap_obj(toks, how):
    if how == 'list':
        return list(toks), list(toks)
    if how == 'tuple':
        return tuple(toks), list(toks)
    if how == 'str':
        return ' '.join(toks), list(toks)
    if how == 'set':
        s = set(toks)
        return s, list(s)
    if how == 'dict':
        d = {}
        for t in toks:
            k, v = t.split(':', 1)
            d[k] = v
        return d, ['%s:%s' % kv for kv in d.items()]
    raise core.MachineryError('unknown value carrier %r' % (how,))


def _project(obj, how):
    """the tokens a value object carries right now (projection)"""
    if how == 'str':
        return obj.split()
    if how == 'dict':
        return ['%s:%s' % kv for kv in obj.items()]
    return [x if isinstance(x, str) else repr(x) for x in obj]


def _wrap_event(toks, before, after, ll, ml, raised, out, src):
    if not isinstance(out, str):
        out = repr(out)
    return {'ev': 'wrap', 'toks': [codes(t) for t in toks], 'before': [codes(t) for t in before],
            'after': [codes(t) for t in after], 'll': ll, 'ml': ml, 'raised': raised,
            'out': codes(out), 'obj': src}


def _wrap_info(events, widths, listlike):
    multi = over = 0
    for e, (ll, ml) in zip(events, widths):
        rows = uncodes(e['out']).split('\n')
        multi += 1 if len(rows) > 1 else 0
        over += sum(1 for i, r in enumerate(rows)
                    if len(r) > (ll if i == 0 else ml) and len(r.split()) == 1)
    return {'wrap_calls': len(events), 'wrap_multiline_outputs': multi,
            'wrap_overlong_one_word_lines': over,
            'same_list_wrapped_twice_multiline': 1 if (listlike and multi >= 2) else 0}


def execute_wrap(case):
    """One value object, wrapped once per entry of case['widths'] (a history of calls on the
    same object); the object is read before and after every call."""
    from pmutt.io.cantera import obj_to_cti
    obj, toks = _wrap_obj(case['toks'], case['obj'])
    widths = [tuple(w) for w in case.get('widths') or [(case['ll'], case['ml'])]]
    events, info = [], {}
    for n, (ll, ml) in enumerate(widths):
        before = _project(obj, case['obj'])
        raised, out = '', ''
        try:
            out = obj_to_cti(obj, line_len=ll, max_line_len=ml)
        except Exception as ex:
            raised = type(ex).__name__
        events.append(_wrap_event(toks, before, _project(obj, case['obj']), ll, ml, raised, out,
                                  case['obj']))
        if n == 0 and 'ref' in case and not raised and isinstance(out, str):
            real = [[len(line), len(line.split())] for line in out.split('\n')]
            if out == '""':
                real = [[2, 0]]              # the model counts the words between the quotes
            info['layout_equals_model'] = (real == [list(r) for r in case['ref']])
    info.update(_wrap_info(events, widths, case['obj'] == 'list'))
    return events, [], info


def _cti_value(text, field):
    """projection: (number of characters before the value on its line, the value text) of
    `field="..."` / `field=\"\"\"...\"\"\"` in a written CTI object"""
    m = re.search(r'(?m)^(?P<prefix>[^\n]*?\b%s=)"' % re.escape(field), text)
    if not m:
        raise core.MachineryError('field %s not found in written object:\n%s' % (field, text))
    start = m.end() - 1
    if text.startswith('"""', start):
        end = text.index('"""', start + 3) + 3
    else:
        end = text.index('"', start + 1) + 1
    return len(m.group('prefix')), text[start:end]


def execute_wrapfield(case):
    """A real phase whose species / options / note / phases carry the tokens is written twice
    with to_cti (to_omkm_yaml in between); each written field is one wrap event."""
    from pmutt.empirical.nasa import Nasa
    import numpy as np
    from pmutt.omkm.phase import InteractingInterface, IdealGas
    from pmutt.cantera.phase import IdealGas as CtIdealGas
    a = np.zeros(7)
    toks = case['toks']
    species = [Nasa(name=t, T_low=300., T_mid=500., T_high=900., a_low=a, a_high=a,
                    elements={'H': 2}, phase='gas') for t in toks]
    host = case['host']
    if host == 'interface':
        ph = InteractingInterface(name='surf', species=species, phases=list(toks), site_density=1e-9,
                                  interactions=None, reactions=None, options=list(toks),
                                  note=' '.join(toks))
        fields = ('species', 'phases', 'options', 'note')
    else:
        cls = IdealGas if host == 'idealgas' else CtIdealGas
        ph = cls(name='gas', species=species, reactions=None, options=list(toks), note=' '.join(toks))
        fields = ('species', 'options', 'note')
    readers = {'species': lambda: [sp.name for sp in ph.species],
               'phases': lambda: _project(ph.phases, 'list'),
               'options': lambda: _project(ph.options, 'list'),
               'note': lambda: _project(ph.note, 'str')}
    events, widths = [], []
    for ml in case['mls']:
        before = {f: readers[f]() for f in fields}
        raised, text = '', ''
        try:
            text = ph.to_cti(max_line_len=ml)
        except Exception as ex:
            raised = type(ex).__name__
        for f in fields:
            plen, val = (0, '') if raised else _cti_value(text, f)
            events.append(_wrap_event(toks, before[f], readers[f](), ml - plen, ml, raised, val,
                                      '%s.%s' % (host, f)))
            widths.append((ml - plen, ml))
        try:
            ph.to_omkm_yaml()
        except Exception:
            pass                          # not a C18 call
    info = _wrap_info(events, widths, False)
    opt = [e for e in events if e['obj'].endswith('.options') and 10 in e['out']]
    info['same_list_wrapped_twice_multiline'] = 1 if len(opt) >= 2 else 0
    return events, [], info


def execute(case):
    if case['kind'] == 'wrap':
        return execute_wrapfield(case) if case.get('host') else execute_wrap(case)
    ev, mism = execute_range(case)
    # exercise counters (vacuity evidence only; no judgement is taken from them)
    info = {'range_calls': len(ev),
            'range_calls_rejected': sum(1 for e in ev if e['raised']),
            'range_outputs_with_to_entries': sum(
                1 for e in ev if not e['raised'] and ' to ' in (
                    uncodes(e['out']) if e['kind'] == 'text' else ' | '.join(uncodes(x) for x in e['out'])))}
    return ev, mism, info


def _safe_execute(case):
    try:
        return execute(case)
    except core.MachineryError:
        raise
    except Exception as ex:                  # driver-side failure around the library call
        raise core.MachineryError('driver failed on case %r: %s: %s' % (case, type(ex).__name__, ex))


# --------------------------------------------------------------------------
# case construction
# --------------------------------------------------------------------------
# the calls of one case are made on the SAME collection object (one per carrier)
CALL_SETS = ([{'form': 'str', 'as': 'str'}, {'form': 'list', 'as': 'str'}],
             [{'form': 'list', 'as': 'id'}, {'form': 'str', 'as': 'id'}],
             [{'form': 'str', 'as': 'name'}, {'form': 'list', 'as': 'name'}])
CALL_SETS3 = tuple(cs + [dict(cs[0])] for cs in CALL_SETS) + (
    [{'form': 'str', 'as': 'str'}, {'form': 'str', 'as': 'id'}, {'form': 'list', 'as': 'str'}],)


def _tlc_range_cases(raw):
    cases = []
    for k, c in enumerate(raw):
        ids = [uncodes(x) for x in c['ids']]
        cases.append({'kind': 'range', 'cid': 'tr%d' % k, 'tlc': True, 'ids': ids, 'delim': DELIM,
                      'must': bool(c['must']), 'n': c['n'], 'calls': CALL_SETS[k % 3]})
    return cases


HEAD_POOL = (None, '', 'r', 'rxn', 'a_b', 'surf_r_2', '_', 'R-1', 'r2', 'bep1_syn', 'x__y')


def _suffixes(rnd, n):
    """n integer suffixes in 0..99999: runs, gaps, duplicates, the 9999/10000 boundary"""
    out = []
    while len(out) < n:
        mode = rnd.random()
        if mode < 0.45:
            start = rnd.choice([0, 1, rnd.randint(0, 200), rnd.randint(9990, 10005),
                                rnd.randint(0, 99990), 99995])
            run = rnd.randint(1, 8)
            out.extend(min(99999, start + j) for j in range(run))
        elif mode < 0.6 and out:
            out.append(rnd.choice(out))                         # duplicate
        elif mode < 0.7:
            out.append(rnd.choice([0, 9, 10, 99, 100, 999, 1000, 9999, 10000, 99999]))
        else:
            out.append(rnd.randint(0, 99999))
    out = out[:n]
    rnd.shuffle(out)
    return out


def _print_suffix(rnd, n, style):
    if style == 'canon':
        return '%04d' % n
    if style == 'natural':
        return '%d' % n
    if style == 'wide':
        return '%0*d' % (rnd.choice([5, 6, 7]), n)
    if style == 'narrow':
        return '%0*d' % (rnd.choice([2, 3]), n)
    raise core.MachineryError(style)


# decimal digits of other scripts (str.isdigit() and int() accept them), as code-point offsets
DIGIT_ZEROS = {'arabic-indic': 0x0660, 'ext-arabic-indic': 0x06F0, 'devanagari': 0x0966,
               'bengali': 0x09E6, 'thai': 0x0E50, 'fullwidth': 0xFF10}
# isdigit() is true but int() fails: superscripts, subscripts, circled digits
PSEUDO_DIGITS = '\u00b2\u00b3\u00b9\u2075\u2082\u2460'


def _respell(txt, rnd, script=None, partial=False):
    z = DIGIT_ZEROS[script or rnd.choice(sorted(DIGIT_ZEROS))]
    out = []
    for ch in txt:
        if ch.isascii() and ch.isdigit() and not (partial and rnd.random() < 0.5):
            out.append(chr(z + ord(ch) - 48))
        else:
            out.append(ch)
    return ''.join(out)


def _odd_id(rnd, ids, delim):
    """an identifier with a footer that cannot be written back as an ASCII integer of the same
    spelling; built next to an existing identifier when there is one"""
    head, num, width = 'r' + delim, rnd.randint(0, 99999), rnd.choice([1, 4, 4, 5])
    base = [i for i in ids if i and i[-1].isascii() and i[-1].isdigit()]
    if base and rnd.random() < 0.8:
        b = rnd.choice(base)
        k = len(b)
        while k and b[k - 1].isascii() and b[k - 1].isdigit():
            k -= 1
        head, foot = b[:k], b[k:]
        num = max(0, min(99999, int(foot) + rnd.choice([-1, 0, 1, 1, 2])))
        width = len(foot)
    txt = '%0*d' % (width, num)
    mode = rnd.random()
    if mode < 0.45:
        foot = _respell(txt, rnd)                               # whole footer in another script
    elif mode < 0.6:
        foot = _respell(txt, rnd, partial=True)                 # ASCII and non-ASCII digits mixed
        if foot == txt:
            foot = _respell(txt, rnd)
    elif mode < 0.7:
        foot = rnd.choice(PSEUDO_DIGITS) if rnd.random() < 0.5 else txt + rnd.choice(PSEUDO_DIGITS)
    else:
        foot = rnd.choice(['+' + txt, ' ' + txt, txt + ' ', '-' + txt, '%de1' % (num % 10), ''])
    return head + foot


def _random_range_case(rnd, cid, canonical_only=False, delim=None):
    if delim is None:
        delim = DELIM if rnd.random() < 0.85 else rnd.choice(['-', '.'])
    pool = [h if h is None else h.replace('_', delim) for h in HEAD_POOL]
    heads = rnd.sample(pool, rnd.randint(1, 3))
    n = rnd.choice([0, 1, 2, 3, 5, 8, 13, 21, 34, 60, rnd.randint(0, 60)])
    allcanon = canonical_only or rnd.random() < 0.6
    ids, must = [], True
    for s in _suffixes(rnd, n):
        h = rnd.choice(heads)
        style = 'canon' if allcanon else rnd.choice(['canon', 'canon', 'natural', 'wide', 'narrow'])
        if allcanon and h == '':
            h = None                        # the empty prefix is outside the must-accept form
        txt = _print_suffix(rnd, s, style)
        if style != 'canon' and txt != '%04d' % s:
            must = False
        if h == '':
            must = False
        ids.append(txt if h is None else '%s%s%s' % (h, delim, txt))
    if not allcanon and n and rnd.random() < 0.08:
        ids.insert(rnd.randrange(len(ids) + 1), rnd.choice(['r%sabc' % delim, 'r%s' % delim, 'abc']))
        must = False
    if not canonical_only and rnd.random() < 0.15:
        # identifiers whose footer cannot be encoded (they may only be rejected or kept as they
        # are): ASCII oddities and digits of other scripts, alone (n = 0) or next to encodable
        # identifiers they would merge with if read as numbers
        for _ in range(rnd.randint(1, 3)):
            ids.insert(rnd.randrange(len(ids) + 1), _odd_id(rnd, ids, delim))
        must = False
    return {'kind': 'range', 'cid': cid, 'ids': ids, 'delim': delim, 'must': must,
            'calls': rnd.choice(CALL_SETS3)}


FIELD_HOSTS = ('interface.reactions', 'interface.interactions', 'idealgas.reactions',
               'ct_idealgas.reactions', 'bep.cti.synthesis', 'bep.cti.cleavage',
               'bep.yaml.synthesis', 'bep.yaml.cleavage', 'bep.reactions_cti')


def _field_case(rnd, cid, host):
    # BEP.to_omkm_yaml has no delimiter argument: those fields are written with '_'
    c = _random_range_case(rnd, cid, canonical_only=rnd.random() < 0.7,
                           delim=DELIM if host.startswith('bep.yaml') else None)
    c.update({'kind': 'field', 'host': host})
    c.pop('calls', None)
    return c


def _mk_token(rnd, n, with_colon=False):
    t = ''.join(rnd.choice(TOKEN_ALPHABET) for _ in range(n))
    if with_colon:
        t = t.replace(':', 'c')
    return t


def _tlc_wrap_cases(raw):
    cases = []
    for k, c in enumerate(raw):
        lens = c['lens']
        toks = [chr(97 + i) * n for i, n in enumerate(lens)]
        how = ('list', 'tuple', 'str', 'set')[k % 4]
        case = {'kind': 'wrap', 'cid': 'tw%d' % k, 'tlc': True, 'toks': toks, 'll': c['ll'],
                'ml': c['ml'], 'obj': how,
                'widths': [[c['ll'], c['ml']], [c['ll'], c['ml']] if k % 2 else [c['ml'], c['ll']]]}
        if how != 'set':                      # a set fixes its own order: no reference layout
            case['ref'] = c['ref']
        cases.append(case)
    return cases


def _random_wrap_case(rnd, cid):
    n = rnd.choice([0, 1, 2, 3, 5, 8, 13, 20, 40, 80, rnd.randint(0, 80)])
    how = rnd.choice(['list', 'list', 'tuple', 'str', 'set', 'dict'])
    toks, seen = [], set()
    while len(toks) < n:
        ln = rnd.choice([1, 2, 3, 10, 26, 27, 28, 29, 30, rnd.randint(1, 30), rnd.randint(1, 30)])
        if how == 'dict':
            ln = max(ln, 3)
            key = 'k%d' % len(toks)
            if len(key) + 2 > ln:
                ln = len(key) + 2
            t = '%s:%s' % (key, _mk_token(rnd, ln - len(key) - 1, with_colon=True))
        else:
            t = _mk_token(rnd, ln)
        if how in ('set', 'dict') and t in seen:
            continue
        seen.add(t)
        toks.append(t)
    r = rnd.random()
    if r < 0.5:                                # as the phase writers call it: ll = ml - indent
        ml = rnd.randint(46, 100)
        ll = max(30, ml - rnd.choice([11, 15, 16, 18, 19, 23, 27, 30, 31]))
    elif r < 0.6:
        ml = rnd.randint(30, 99)
        ll = ml + 1                            # as for the `name` field
    elif r < 0.8:
        ll = ml = rnd.randint(30, 100)
    else:
        ll, ml = rnd.randint(30, 100), rnd.randint(30, 100)
    widths = [[ll, ml], [ll, ml]]
    if rnd.random() < 0.6:
        ml2 = rnd.randint(46, 100)
        widths.insert(rnd.choice([1, 2]), [max(30, ml2 - rnd.choice([0, 11, 18, 23, 30])), ml2])
    return {'kind': 'wrap', 'cid': cid, 'toks': toks, 'll': ll, 'ml': ml, 'obj': how, 'widths': widths}


WRAP_HOSTS = ('interface', 'idealgas', 'ct_idealgas')


def _wrapfield_case(rnd, cid, host):
    n = rnd.choice([1, 2, 3, 5, 8, 13, 20, 30])
    toks, seen = [], set()
    while len(toks) < n:
        t = _mk_token(rnd, rnd.choice([1, 3, 8, 12, 20, 28, 30, rnd.randint(1, 30)]))
        if t not in seen:
            seen.add(t)
            toks.append(t)
    ml = rnd.randint(70, 100)
    return {'kind': 'wrap', 'cid': cid, 'host': host, 'toks': toks, 'obj': 'phase:' + host,
            'll': ml, 'ml': ml, 'mls': [ml, ml] if rnd.random() < 0.5 else [ml, rnd.randint(70, 100)]}


def _tags(case):
    if case['kind'] == 'wrap':
        return {'kind': 'wrap', 'obj': case['obj']}
    return {'kind': case['kind'], 'must': bool(case.get('must')), 'host': case.get('host', 'direct')}


def _signature(case):
    if case['kind'] == 'wrap':
        return ['w', case['toks'], case['ll'], case['ml'], case['obj'], case.get('widths'), case.get('mls')]
    return ['r', case['ids'], case.get('delim'), case.get('host'), case.get('calls')]


def _nontrivial(case):
    if case['kind'] == 'wrap':
        return len(case['toks']) >= 2
    return len(case['ids']) >= 2


# --------------------------------------------------------------------------
def run(ctx):
    ctx.coverage['rule'] = (
        'a range case is one identifier collection (sequence, duplicates kept) handed to '
        '_get_omkm_range in the str and the list form, as strings or as objects with id/name, or '
        'carried by the reactions/interactions of a real written phase or BEP; a wrap case is one '
        'token list handed to obj_to_cti as list/tuple/set/dict/str - the SAME object 2-3 times, at other '
        'widths too, read before and after each call - or carried by the species/options/note/phases of '
        'a real phase written twice with to_cti. '
        'Cases are the complete TLC case sets of MC_OmkmRange_cases / MC_CtiWrap_cases plus random '
        'draws from the quantifier (0-60 ids, 1-3 prefixes, suffixes 0-99999; 0-80 tokens of length '
        '1-30, widths 30-100); non-trivial = at least two identifiers / tokens; distinct by input')
    if ctx.replay_case is not None:
        cases = [ctx.replay_case['case']]
    else:
        # (D) design models
        ctx.model('MC_OmkmRange', ctx.pick('MC_OmkmRange', 'MC_OmkmRange_big'))
        bad = ctx.model('MC_OmkmRange', 'MC_OmkmRange_pad4', expect_ok=False)
        if bad.ok or bad.violated is None:
            raise core.MachineryError('the %04d algorithm on arbitrary printed widths should be '
                                      'rejected by the design model:\n' + bad.out[-2000:])
        ctx.notes.append('design model rejects the "%%04d" re-printing on identifiers of other widths '
                         'and on the empty prefix: %s violated' % bad.violated)
        ctx.model('MC_OmkmRange', ctx.pick('MC_OmkmRange_keepwidth', 'MC_OmkmRange_keepwidth_big'))
        bad = ctx.model('MC_OmkmRange', 'MC_OmkmRange_isdigit', expect_ok=False)
        if bad.ok or bad.violated is None:
            raise core.MachineryError('the isdigit()+int() footer test should be rejected by the design '
                                      'model:\n' + bad.out[-2000:])
        ctx.notes.append('design model rejects accepting footers spelt with digits of other scripts '
                         '(isdigit()+int()): %s violated' % bad.violated)
        ctx.model('MC_CtiWrap', ctx.pick('MC_CtiWrap', 'MC_CtiWrap_big'))
        bad = ctx.model('MC_CtiWrap', 'MC_CtiWrap_onelimit', expect_ok=False)
        if bad.ok or bad.violated is None:
            raise core.MachineryError('the one-limit filling should be rejected by the design model:\n'
                                      + bad.out[-2000:])
        ctx.notes.append('design model rejects filling the first line to max_line_len: %s violated'
                         % bad.violated)
        for cfg, what in (('MC_CtiWrap_alias', 'changing the caller\'s list during a call'),
                          ('MC_CtiWrap_alias_tokens', 'the marker left in the caller\'s list showing up '
                                                      'as a token of a later call')):
            bad = ctx.model('MC_CtiWrap', cfg, expect_ok=False)
            if bad.ok or bad.violated is None:
                raise core.MachineryError('%s should be rejected by the design model:\n%s'
                                          % (cfg, bad.out[-2000:]))
            ctx.notes.append('design model rejects %s: %s violated' % (what, bad.violated))
        # (S->C) TLC case sets
        raw_r, _ = core.tlc_cases('MC_OmkmRange_cases', 'MC_OmkmRange_cases')
        raw_w, _ = core.tlc_cases('MC_CtiWrap_cases', 'MC_CtiWrap_cases')
        ctx.coverage['tlc_range_cases'] = len(raw_r)
        ctx.coverage['tlc_wrap_cases'] = len(raw_w)
        cases = _tlc_range_cases(raw_r) + _tlc_wrap_cases(raw_w)
        # random draws from the quantifier
        rnd = random.Random(ctx.seed)
        for k in range(ctx.pick(1500, 20000)):
            cases.append(_random_range_case(rnd, 'rr%d' % k))
        for k in range(ctx.pick(450, 4500)):
            cases.append(_field_case(rnd, 'rf%d' % k, FIELD_HOSTS[k % len(FIELD_HOSTS)]))
        for k in range(ctx.pick(1500, 20000)):
            cases.append(_random_wrap_case(rnd, 'rw%d' % k))
        for k in range(ctx.pick(240, 2400)):
            cases.append(_wrapfield_case(rnd, 'wf%d' % k, WRAP_HOSTS[k % len(WRAP_HOSTS)]))
    results = core.pmap(_safe_execute, cases)
    rtraces, wtraces = [], []
    layout_same = layout_cmp = 0
    for tid, (case, (events, mism, info)) in enumerate(zip(cases, results)):
        ctx.evaluated()
        if _nontrivial(case):
            ctx.nontrivial(_signature(case))
        for m in mism:
            ctx.violation('ReplayMustAccept', case, tags=_tags(case), detail=m)
        if 'layout_equals_model' in info:
            layout_cmp += 1
            layout_same += 1 if info['layout_equals_model'] else 0
        for key, val in info.items():
            if key != 'layout_equals_model':
                ctx.count('exercised_' + key, val)
        (wtraces if case['kind'] == 'wrap' else rtraces).append((tid, events))
        if tid % 7919 == 0 or (not case.get('tlc') and tid % 397 == 0):
            ctx.sample({k: v for k, v in case.items() if k in
                        ('kind', 'ids', 'delim', 'host', 'toks', 'll', 'ml', 'obj', 'must')}, cap=8)
    ctx.coverage['wrap_layouts_compared_with_model'] = layout_cmp
    ctx.coverage['wrap_layouts_equal_to_model'] = layout_same
    if layout_cmp and layout_same != layout_cmp:
        ctx.notes.append('%d of %d real layouts differ from the greedy model of CtiWrap.tla (not a '
                         'violation: layout is not demanded; the design model no longer describes '
                         'the code exactly)' % (layout_cmp - layout_same, layout_cmp))
    lines = 0
    for module, traces in (('Trace_OmkmRange', rtraces), ('Trace_CtiWrap', wtraces)):
        fails, stats = core.validate_traces(module, 'Trace', traces)
        ctx.count('traces_validated_against_impl', len(traces))
        lines += stats['lines']
        by_case = {}
        for tid, idx, clause in fails:
            by_case.setdefault((tid, clause), []).append(idx)
        for (tid, clause), idxs in sorted(by_case.items()):
            ctx.violation(clause, cases[tid], tags=_tags(cases[tid]), detail={'event_indices': idxs[:10]})
    ctx.coverage['trace_lines'] = lines
    ctx.assume('range notation is read numerically: "p_a to p_b" denotes p_n for n in a..b printed at the '
               'width of a (a consumer comparing identifiers lexically agrees only while the width is constant)')
    ctx.assume('tokens are non-empty texts without blanks or double quotes; identifiers contain no '
               'double quote, bracket, ", " or " to "; identifiers are compared as sequences of code points '
               '(a footer spelt with digits of another script is a different identifier from its ASCII spelling)')
    ctx.assume('an over-long line is excused when it holds exactly one word (token, or token glued to the '
               'opening delimiter, or the closing delimiter); line 1 is limited by line_len, later lines '
               'by max_line_len')


if __name__ == '__main__':
    core.main('C18', 'model_checking', run)
