"""C04 - values with units equal the dimensionless values times R (times T for energies,
divided by the molar mass for per-mass units).

(D)    spec/UnitsWrap.tla: the case space class x form x quantity x state x option set x
       T-shape x unit string (applicability transcribed from the API) and the wrapper
       relation Impl = Required on it, checked by TLC for the required wrapper; the
       wrappers of the pinned tree that deviate are separate cfgs TLC must reject.
(S->C) TLC emits every cell with the names of the dimensional getter and of its twin, the
       exact keyword set each of the two calls receives, the documented defaults, the
       object features the options need and the expected result shape.  The driver
       builds real objects, makes exactly those calls and compares the discrete
       projection (methods exist, signatures accept the keywords, result shape).
(C->S) every pair of calls is recorded (twin line, one dim line per unit string, one
       focus line per option) and judged by spec/Trace_UnitsWrap.tla.
"""
import concurrent.futures as cf
import inspect
import math
import random
import zlib

from harness import core
from harness import lib_c04 as lib
from harness.core import to_dec

VARIANTS_REJECTED = ['modes_elements', 'shomate_S', 'chemkin_Hact', 'shomate_native', 'cv_permass']
VARIANTS_ACCEPTED = ['nasa_Cp']
OPT_NAMES = ['P', 'x', 'S_elements', 'use_references', 'verbose', 'include_ZPE', 'rev', 'act', 'del_m']


# --------------------------------------------------------------------------
# projection
# --------------------------------------------------------------------------
def _project(val):
    """library result -> (kind, [floats]) ; kind 'scalar' | 'vector' | 'other'"""
    import numpy as np
    a = np.asarray(val, dtype=float)
    if a.ndim == 0:
        return 'scalar', [float(a)]
    if a.ndim == 1:
        return 'vector', [float(v) for v in a]
    return 'other', [float(v) for v in a.ravel()]


def _call(obj, name, kw):
    """-> (ok, kind, values, exc)"""
    try:
        fn = getattr(obj, name)
        val = fn(**kw)
        kind, vals = _project(val)
    except core.MachineryError:
        raise
    except Exception as ex:                       # the library raised on a valid case
        return False, 'none', [], '%s: %s' % (type(ex).__name__, str(ex)[:120])
    if not all(core.finite(v) for v in vals):
        return False, kind, [], 'NonFinite'
    return True, kind, vals, ''


def _accepts(obj, name, kws):
    fn = getattr(obj, name, None)
    if fn is None:
        return False
    params = inspect.signature(fn).parameters
    if any(p.kind == p.VAR_KEYWORD for p in params.values()):
        return True
    return all(k in params for k in kws)


def _kwargs(names, vals, dflt, drop=('units',)):
    kw = {}
    for k in names:
        if k in drop:
            continue
        kw[k] = vals[k]
    for d in dflt:
        if d['name'] in names:
            kw[d['name']] = lib.DEFAULT_SYMBOLS[d['sym']]
    return kw


def _dec_list(vals):
    return [to_dec(v) for v in vals]


def _shape_kind(cell, kind):
    if kind == 'scalar':
        return 'scalar'
    if kind == 'vector':
        return 'verbose' if 'verbose' in cell['opts'] else 'array'
    return kind


# --------------------------------------------------------------------------
# one cell instance
# --------------------------------------------------------------------------
def _sig(fn):
    """parameter names of a bound method, '**' for **kwargs"""
    out = []
    for name, p in inspect.signature(fn).parameters.items():
        out.append('**' if p.kind == p.VAR_KEYWORD else name)
    return sorted(out)


def _t_list(T):
    import numpy as np
    return [float(t) for t in np.atleast_1d(np.asarray(T, dtype=float))]


def _block(obj, cell, vals, units, comp, events, mism, block):
    """twin line + one dim line per unit for one object at one set of values"""
    from pmutt import constants as c
    getter, twin = cell['getter'], cell['twin']
    kwT = _kwargs(cell['kwT'], vals, cell['dflt'])
    kwD = _kwargs(cell['kwD'], vals, [])
    t_used = vals['T'] if cell['tgiven'] else lib.DEFAULT_SYMBOLS['T0']
    tlist = _t_list(t_used)
    aw = {e: to_dec(c.atomic_weight[e]) for e in ('H', 'N', 'O')}
    t_ok, t_kind, xor, t_exc = _call(obj, twin, kwT)
    events.append({'ev': 'twin', 'block': block, 'cls': cell['cls'], 'form': cell['form'], 'q': cell['q'],
                   'energy': cell['energy'], 'shape': cell['rshape'], 'T': _dec_list(tlist),
                   'ok': t_ok, 'XoR': _dec_list(xor), 'comp': {e: to_dec(float(n)) for e, n in comp.items()},
                   'aw': aw})
    loose = len(tlist) == 1 and cell['shape'] == 'array'
    if cell['cls'] == 'SingleNasa9':
        loose = True                       # scalar T gives a (1,) vector for Cp, a float for S
    if t_ok and not loose and _shape_kind(cell, t_kind) != cell['rshape']:
        mism.append({'what': 'twin result shape', 'block': block, 'expected': cell['rshape'], 'got': t_kind})
    nontrivial, okpairs, first = [], 0, None
    for u in units:
        d_ok, d_kind, x, d_exc = _call(obj, getter, dict(kwD, units=u['ustr']))
        try:
            r_val, r_ok = c.R(u['rkey']), True
        except Exception:
            r_val, r_ok = 0.0, False
        events.append({'ev': 'dim', 'e': u['e'], 'per': u['per'], 'ustr': u['ustr'], 'ok': d_ok,
                       'exc': d_exc.split(':')[0], 'X': _dec_list(x), 'R': to_dec(r_val), 'Rok': r_ok,
                       'Tnow': _dec_list(_t_list(t_used))})
        if t_ok and d_ok:
            okpairs += 1
            # (one temperature in an array: scalar or length-1 vector, the values are judged by TLC)
            if not loose and (d_kind != t_kind or _shape_kind(cell, d_kind) != cell['rshape']):
                mism.append({'what': 'dimensional result shape', 'block': block, 'unit': u['ustr'],
                             'expected': cell['rshape'], 'twin': t_kind, 'got': d_kind})
            if any(v != 0.0 for v in xor):
                nontrivial.append(u['ustr'])
            if first is None:
                first = (u, x)
    return t_ok, t_exc, xor, first, nontrivial, okpairs, tlist


def execute(job):
    """Run one cell on concrete objects.  Returns (events, mismatches, info)."""
    cell = job['cell']
    rnd = random.Random(job['seed'])
    var = job['var']
    obj, comp, trange, ident = lib.build(cell, rnd, var['comp'])
    vals = lib.option_values(cell, rnd, trange, var['ttype'], var['pvar'], var['xvar'],
                             descriptors=(ident[1] if ident else None))
    mism, events = [], []
    getter, twin = cell['getter'], cell['twin']
    info = {'nontrivial': [], 'effective': {}, 'twin_raised': False, 'okpairs': 0, 'sibling': 0, 'repeat': 0}
    # ---- S->C: the API surface TLC described exists
    if not hasattr(obj, getter) or not hasattr(obj, twin):
        mism.append({'what': 'missing method', 'getter': getter, 'twin': twin})
        return events, mism, info
    if not _accepts(obj, getter, cell['kwD']):
        mism.append({'what': 'dimensional getter does not accept the keyword set', 'kwD': cell['kwD']})
    if not _accepts(obj, twin, cell['kwT']):
        mism.append({'what': 'twin does not accept the keyword set', 'kwT': cell['kwT']})
    if not cell['isrxn']:
        got = _sig(getattr(obj, twin))
        if ('**' in cell['sig']) != ('**' in got) or ('**' not in cell['sig'] and got != cell['sig']):
            mism.append({'what': 'signature of the dimensionless twin', 'expected': cell['sig'], 'got': got})
    # ---- block A: the cell itself
    t_ok, t_exc, xor, first, nontrivial, okpairs, tlist = _block(obj, cell, vals, job['units'], comp,
                                                                 events, mism, 'A')
    info.update({'nontrivial': nontrivial, 'okpairs': okpairs, 'twin_raised': not t_ok, 'twin_exc': t_exc,
                 'T': tlist})
    # ---- focus lines: both calls again without one option
    if t_ok and first is not None:
        u, x = first
        for opt, base in sorted(job['base'].items()):
            vals0 = dict(vals)
            for o in base['atdefault']:
                vals0[o] = lib.DEFAULT_VALUES[o]
            kwT0 = _kwargs(base['kwT'], vals0, base['dflt'])
            kwD0 = _kwargs(base['kwD'], vals0, [])
            t0_ok, _, xor0, _ = _call(obj, twin, kwT0)
            d0_ok, _, x0, _ = _call(obj, getter, dict(kwD0, units=u['ustr']))
            events.append({'ev': 'focus', 'opt': opt, 'e': u['e'], 'per': u['per'], 'ok': True,
                           'ok0': d0_ok, 'okT0': t0_ok, 'X': _dec_list(x), 'X0': _dec_list(x0),
                           'XoR0': _dec_list(xor0)})
            if t0_ok:
                info['effective'][opt] = (xor0 != xor)
    # ---- block B: a second species of the same name and element symbols, other stoichiometry,
    #      asked in the per-mass units right after the first one
    if ident is not None and cell['mass']:
        obj2, comp2, _, _ = lib.build(cell, rnd, var['comp'], sibling_of=ident)
        ub = [u for u in job['units'] if u['per'] in ('g', 'kg')] + \
             [u for u in job['units'] if u['per'] not in ('g', 'kg')][:2]
        r = _block(obj2, cell, vals, ub, comp2, events, mism, 'B')
        info['sibling'] = r[5]
    # ---- block C: the first object again, at another temperature
    vals2 = dict(vals)
    breaks = lib.BREAKS.get(trange)            # polynomial families: exactly ON the segment bounds
    vals2['T'] = lib.draw_T(cell['shape'], var['ttype'] if var['ttype'] != 'T0' else 'float', rnd,
                            *lib.T_RANGE[trange], breaks=breaks, pick=var.get('brk', 0))
    info['on_break'] = trange if breaks else ''
    r = _block(obj, cell, vals2, job['units'][:(1 if cell['isrxn'] else 2)], comp, events, mism, 'C')
    info['repeat'] = r[5]
    # ---- block D: the composition is edited in place, then the per-mass forms are asked again
    #      (expected: the molar mass of the CURRENT composition)
    if ident is not None and cell['mass']:
        how = lib.ELEMENT_EDITS[var.get('brk', 0) % len(lib.ELEMENT_EDITS)]
        lib.edit_elements(obj, ident[2], how)
        if how == 'callers_dict' and obj.elements is not ident[2]:
            info['edit'] = ''                  # the class copied the caller's dict: nothing to demand
        else:
            r = _block(obj, cell, vals, job.get('mass_units', []), lib.current_comp(obj), events, mism, 'D')
            info['edit'], info['edited'] = how, r[5]
    info['values'] = {k: (v if isinstance(v, (int, float, str, bool, type(None))) else repr(v))
                      for k, v in vals.items() if k in cell['kwT'] or k in cell['kwD']}
    return events, mism, info


def _safe_execute(job):
    try:
        return execute(job)
    except core.MachineryError:
        raise
    except Exception as ex:          # building the object failed: the library raised on a valid configuration
        return [], [{'what': 'raised outside a getter', 'raised': '%s: %s' % (type(ex).__name__, ex)}], \
               {'nontrivial': [], 'effective': {}, 'twin_raised': False, 'okpairs': 0, 'sibling': 0, 'repeat': 0}


# --------------------------------------------------------------------------
# cells -> jobs
# --------------------------------------------------------------------------
def _cell_key(c, opts=None):
    return (c['cls'], c['form'], c['q'], c['state'], tuple(sorted(c['opts'] if opts is None else opts)),
            c['expl'], c['shape'], c['tgiven'], c['phase'], c['own'], c['species'])


def _unit_list(units, cell):
    key = ('mass' if cell['mass'] else 'molar') + ('_energy' if cell['energy'] else '_perK')
    return units[key]


def make_jobs(ctx, data):
    """Every cell becomes a job.  Thorough: every cell is asked in every unit string.  Quick: the
    cells of one (class, getter) share the unit list between them so that the group asks every
    unit string in every run (a cell gets at least 6, a group of one cell gets all)."""
    cells = data['cells']
    for c in cells:
        for k in ('opts', 'kwD', 'kwT', 'relevant', 'sig', 'must', 'atdefault'):
            c[k] = sorted(c[k])
    index = {_cell_key(c): c for c in cells}
    cells.sort(key=_cell_key)
    groups = {}
    for c in cells:
        groups.setdefault((c['cls'], c['getter']), []).append(c)
    jobs = []
    draws = ctx.pick(1, 2)
    ci = 0
    for gkey in sorted(groups):
        gcells = groups[gkey]
        for gi, c in enumerate(gcells):
            base = {}
            for o in c['opts']:
                if o == 'verbose':
                    continue                      # changes the shape: no element-wise baseline
                b = index.get(_cell_key(c, [p for p in c['opts'] if p != o]))
                if b is None:
                    raise core.MachineryError('case space not closed under removing option %s: %r' % (o, c))
                base[o] = {'kwD': b['kwD'], 'kwT': b['kwT'], 'dflt': b['dflt'], 'atdefault': b['atdefault']}
            ulist = _unit_list(data['units'], c)
            if len(ulist) != c['nunits']:
                raise core.MachineryError('unit list of cell %r has %d entries, TLC counted %d'
                                          % (c, len(ulist), c['nunits']))
            for d in range(draws):
                seed = zlib.crc32(('%d|%d|%d' % (ctx.seed, ci, d)).encode())
                rnd = random.Random(seed)
                order = sorted(ulist, key=lambda u: u['ustr'])
                random.Random(zlib.crc32(('%d|%s|%d' % (ctx.seed, gkey, d)).encode())).shuffle(order)
                if ctx.quick:
                    n, nu = len(gcells), len(order)
                    stride = -(-nu // n)
                    k = min(nu, max(6, stride + 1))
                    us = [order[(gi * stride + j) % nu] for j in range(k)]
                    have = {u['ustr'] for u in us}
                    us += [u for u in order if u['ustr'] in c['must'] and u['ustr'] not in have]
                else:
                    us = list(order)
                if not set(c['must']) <= {u['ustr'] for u in us}:
                    raise core.MachineryError('unit strings %r that TLC demands are not asked' % (c['must'],))
                rot = ci + ctx.seed + d
                ttypes = lib.ARRAY_T_TYPES if c['shape'] == 'array' else lib.SCALAR_T_TYPES
                var = {'ttype': ttypes[rot % len(ttypes)],
                       'pvar': lib.P_VARIANTS[(rot // 5) % len(lib.P_VARIANTS)],
                       'xvar': lib.X_VARIANTS[(rot // 3) % len(lib.X_VARIANTS)],
                       'comp': lib.COMP_VARIANTS[(rot // 2) % len(lib.COMP_VARIANTS)], 'brk': rot}
                mu = [next(u for u in order if u['per'] == m) for m in ('g', 'kg')] if c['mass'] else []
                jobs.append({'cell': c, 'units': us, 'base': base, 'seed': seed, 'var': var, 'mass_units': mu})
            ci += 1
    return jobs


def _tags(cell, exc=''):
    t = {'cls': cell['cls'], 'kind': ('mode' if cell['ismode'] else cell['cls']),
         'form': cell['form'], 'q': cell['q'], 'getter': cell['getter'],
         'opts': ','.join(cell['opts']), 'shape': cell['shape'], 'phase': cell['phase'],
         'own': cell['own'], 'expl': cell['expl'], 'species': cell['species']}
    for o in ('rev', 'P', 'x'):
        t['has_' + o] = o in cell['opts']
    if exc:
        t['exc'] = exc
    return t


def run(ctx):
    ctx.coverage['rule'] = (
        'cells = every applicable (class, form, quantity, state, option subset, explicit-defaults flag, T shape, '
        'T given/defaulted, phase, own unit, species kind of a reaction) emitted by TLC from UnitsWrap.tla, each with '
        'the dimensionless twin and the keyword sets of both calls; every cell is instantiated with random objects '
        '(seeded) carrying the features the options need; quick: the cells of one (class, getter) share TLC\'s unit '
        'list so that every (class, getter) is asked in EVERY unit string in every run (>= 6 per cell, always the '
        'unit a Shomate polynomial is stored in; Shomate fitting units: 4 of 16 rotating with the seed); thorough: '
        'every cell in every unit string, 2 objects per cell, all 16 fitting units; the type/container of T, the '
        'values of P and x and the way the composition is written rotate over the cells; non-trivial: the twin '
        'returned a non-zero value; distinct by (cell, unit string)')
    if ctx.replay_case is not None:
        jobs = [ctx.replay_case['case']]
    else:
        # (D) required wrapper: exhaustive, and emits the cells
        own_rot = 'all' if not ctx.quick else str(ctx.seed % 4)
        ctx.coverage['shomate_own_rotation'] = own_rot
        data, r = core.tlc_cases('MC_UnitsWrap', 'MC_UnitsWrap', env={'OWN_ROT': own_rot})
        ctx.count('states', r.distinct)
        ctx.count('transitions', r.states)
        ctx.coverage.setdefault('models', []).append(
            {'module': 'MC_UnitsWrap', 'cfg': 'MC_UnitsWrap', 'distinct_states': r.distinct, 'ok': r.ok,
             'invariants': ['TypeOK', 'WellFormed', 'Refines'],
             'assumes': ['TableSane', 'UnitStrInjective', 'KeysCovered']})
        if not r.ok:
            raise core.MachineryError('UnitsWrap design model failed:\n' + r.out[-3000:])
        # (D) wrappers of the pinned tree: three must be rejected, the harmless one accepted
        with cf.ThreadPoolExecutor(max_workers=6) as ex:
            futs = {v: ex.submit(core.run_tlc, 'MC_UnitsWrap', 'MC_UnitsWrap_' + v, {'OWN_ROT': own_rot}, 2)
                    for v in VARIANTS_REJECTED + VARIANTS_ACCEPTED}
        for v, f in futs.items():
            rv = f.result()
            ctx.count('states', rv.distinct)
            ctx.count('transitions', rv.states)
            ctx.coverage['models'].append({'module': 'MC_UnitsWrap', 'cfg': 'MC_UnitsWrap_' + v,
                                           'distinct_states': rv.distinct, 'ok': rv.ok, 'violated': rv.violated,
                                           'expected': 'rejected' if v in VARIANTS_REJECTED else 'accepted'})
            if v in VARIANTS_REJECTED and rv.violated != 'Refines':
                raise core.MachineryError('variant %s should be rejected by Refines:\n%s' % (v, rv.out[-2000:]))
            if v in VARIANTS_ACCEPTED and not rv.ok:
                raise core.MachineryError('variant %s should be accepted:\n%s' % (v, rv.out[-2000:]))
        ctx.coverage['tlc_cells'] = len(data['cells'])
        ctx.coverage['tlc_cases'] = sum(c['nunits'] for c in data['cells'])
        jobs = make_jobs(ctx, data)
    results = core.pmap(_safe_execute, jobs)
    traces = []
    eff = {o: [0, 0] for o in OPT_NAMES}
    twin_raised = 0
    vac = {}                                   # vacuity counters: class of input -> ok (twin, dim) pairs

    def bump(kind, key, n):
        vac.setdefault(kind, {})
        vac[kind][key] = vac[kind].get(key, 0) + n
    asked = {}
    for tid, (job, (events, mism, info)) in enumerate(zip(jobs, results)):
        cell = job['cell']
        ctx.evaluated(max(1, len(job['units'])))
        for u in info['nontrivial']:
            ctx.nontrivial([list(_cell_key(cell)), u])
        for m in mism:
            ctx.violation('ReplayState', job, tags=_tags(cell), detail=m)
        for o, e in info['effective'].items():
            eff[o][0] += 1
            eff[o][1] += 1 if e else 0
        if info['twin_raised']:
            twin_raised += 1
            ctx.notes.append('twin raised: %s %s opts=%s: %s' % (cell['cls'], cell['twin'], cell['opts'],
                                                               info.get('twin_exc'))) if twin_raised <= 5 else None
        n = info['okpairs']
        bump('class', cell['cls'], n)
        bump('class_getter', cell['cls'] + '.' + cell['getter'], n)
        bump('T_type', job['var']['ttype'], n)
        bump('shape', cell['rshape'], n)
        bump('explicit_default', ','.join(cell['atdefault']) and 'some', n) if cell['expl'] else None
        for o in cell['atdefault']:
            bump('explicit_default_of', o, n)
        if cell['isrxn']:
            bump('reaction_species', cell['cls'] + '/' + cell['species'], n)
            if cell['shape'] == 'array':
                bump('reaction_array_T', cell['cls'], n)
        if 'P' in cell['kwD'] and 'P' in cell['opts']:
            bump('P_value', job['var']['pvar'], n)
        if 'x' in cell['opts']:
            bump('x_value', job['var']['xvar'], n)
        if cell['mass']:
            bump('composition_written_as', job['var']['comp'], n)
            bump('same_name_other_stoichiometry', cell['cls'], info['sibling'])
            for u in job['units']:
                if u['per'] in ('g', 'kg'):
                    bump('per_mass', cell['cls'] + '/' + u['per'], 1 if n else 0)
        if cell['phase'] != 'none':
            bump('phase', cell['cls'] + '/' + cell['phase'], n)
        if cell['own'] != 'none':
            bump('shomate_own_unit', cell['own'], n)
        if not cell['tgiven']:
            bump('T_defaulted', cell['cls'], n)
        bump('second_use_of_object', cell['cls'], info['repeat'])
        if info.get('edit'):
            bump('elements_edited_in_place_then_per_mass', cell['cls'] + '/' + info['edit'], info['edited'])
        if cell['cls'] == 'StatMech' and cell['mass']:
            bump('translational_mass_differs_from_composition', 'StatMech',
                 sum(1 for u in job['units'] if u['per'] in ('g', 'kg')) if n else 0)
        if info.get('on_break'):
            fam = cell['cls'] + ('/' + cell['species'] if cell['isrxn'] else '')
            kind = 'array_T_containing_a_break_temperature' if cell['shape'] == 'array' else 'scalar_T_on_a_break_temperature'
            bump(kind, fam, info['repeat'])
            if not cell['isrxn'] and not cell['cov'] and cell['phase'] == 'condensed':
                bump(kind + '_no_misc_model', fam, info['repeat'])
        if n:
            asked.setdefault((cell['cls'], cell['getter'], cell['mass'], cell['energy']), set()).update(
                u['ustr'] for u in job['units'])
        traces.append((tid, events))
        if tid % 997 == 0:
            ctx.sample({'cell': {k: cell[k] for k in ('cls', 'getter', 'twin', 'kwD', 'kwT', 'dflt', 'shape')},
                        'units': [u['ustr'] for u in job['units']][:4], 'values': info.get('values')})
    ctx.coverage['twin_raised'] = twin_raised
    ctx.coverage['option_effective'] = {o: {'focus_lines': a, 'twin_changed': b} for o, (a, b) in eff.items()}
    if ctx.replay_case is None:
        if twin_raised > len(jobs) // 50:
            raise core.MachineryError('the dimensionless twin raised on %d of %d applicable cells: the '
                                      'applicability predicate of UnitsWrap.tla is out of step' % (twin_raised, len(jobs)))
        dead = [o for o in OPT_NAMES if o != 'verbose' and eff[o][1] == 0]
        if dead:
            raise core.MachineryError('vacuous: option(s) %s never changed a dimensionless value' % dead)
        # every class of input named by the quantifier was exercised (zero => exit 2)
        want = {'class': sorted({j['cell']['cls'] for j in jobs}),
                'class_getter': sorted({j['cell']['cls'] + '.' + j['cell']['getter'] for j in jobs}),
                'T_type': lib.SCALAR_T_TYPES + lib.ARRAY_T_TYPES, 'shape': ['scalar', 'array', 'verbose'],
                'explicit_default_of': OPT_NAMES,
                'reaction_species': ['Reaction/StatMech', 'Reaction/Nasa', 'SurfaceReaction/StatMech',
                                     'SurfaceReaction/Nasa', 'ChemkinReaction/Nasa'],
                'reaction_array_T': ['Reaction', 'ChemkinReaction', 'SurfaceReaction'],
                'P_value': lib.P_VARIANTS, 'x_value': lib.X_VARIANTS,
                'composition_written_as': lib.COMP_VARIANTS,
                'same_name_other_stoichiometry': ['StatMech', 'Nasa', 'Nasa9', 'Shomate', 'Reference'],
                'per_mass': [c + '/' + m for c in ('StatMech', 'Nasa', 'Nasa9', 'Shomate', 'Reference')
                             for m in ('g', 'kg')],
                'phase': [c + '/' + ph for c in ('Nasa', 'Nasa9', 'Shomate') for ph in ('gas', 'condensed')],
                'T_defaulted': ['StatMech', 'Nasa', 'Reaction', 'SurfaceReaction', 'HarmonicVib', 'Reference'],
                'second_use_of_object': sorted({j['cell']['cls'] for j in jobs}),
                'elements_edited_in_place_then_per_mass': [c + '/' + h for c in ('StatMech', 'Nasa', 'Nasa9', 'Shomate',
                                                                                 'Reference') for h in lib.ELEMENT_EDITS],
                'translational_mass_differs_from_composition': ['StatMech'],
                'array_T_containing_a_break_temperature': ['Nasa', 'Nasa9', 'Shomate', 'Reaction/Nasa',
                                                           'ChemkinReaction/Nasa', 'SurfaceReaction/Nasa'],
                'scalar_T_on_a_break_temperature': ['Nasa', 'Nasa9', 'Shomate', 'Reaction/Nasa',
                                                    'ChemkinReaction/Nasa', 'SurfaceReaction/Nasa'],
                'array_T_containing_a_break_temperature_no_misc_model': ['Nasa', 'Nasa9', 'Shomate'],
                'scalar_T_on_a_break_temperature_no_misc_model': ['Nasa', 'Nasa9', 'Shomate']}
        empty = [(k, v) for k, vs in want.items() for v in vs if not vac.get(k, {}).get(v)]
        if empty:
            raise core.MachineryError('vacuous: no successful call pair for %r' % (empty[:12],))
        if len(vac.get('shomate_own_unit', {})) < (4 if ctx.quick else 16):
            raise core.MachineryError('vacuous: Shomate fitting units exercised: %r' % (vac.get('shomate_own_unit'),))
        # every (class, getter) was asked in every unit string of TLC's list
        for (cls, getter, mass, energy), got in sorted(asked.items()):
            full = {u['ustr'] for u in data['units'][('mass' if mass else 'molar') + ('_energy' if energy else '_perK')]}
            if got != full:
                raise core.MachineryError('vacuous: %s.%s was not asked in %r' % (cls, getter, sorted(full - got)))
        ctx.coverage['unit_strings_per_class_getter'] = 'all (%d groups)' % len(asked)
    ctx.coverage['vacuity_counters'] = {k: dict(sorted(v.items())) for k, v in vac.items() if k != 'class_getter'}
    fails, stats = core.validate_traces('Trace_UnitsWrap', 'Trace', traces, shards=ctx.pick(8, 16))
    ctx.count('traces_validated_against_impl', len(traces))
    ctx.coverage['trace_lines'] = stats['lines']
    for tid, idx, clause in fails:
        job = jobs[tid]
        ev = results[tid][0][idx]
        if clause in ('UnknownUnit', 'UnknownEvent', 'CaseBinding', 'UnitString'):
            raise core.MachineryError('trace spec rejected the harness itself: %s on %r' % (clause, ev))
        tags = _tags(job['cell'], ev.get('exc', ''))
        tags['permass'] = ev.get('per') in ('g', 'kg')
        if ev['ev'] == 'focus':
            tags['opt'] = ev['opt']
        ctx.violation(clause, job, tags=tags,
                      detail={'unit': ev.get('ustr', ev.get('e', '')), 'event': ev, 'twin': results[tid][0][0], 'values': results[tid][2].get('values')})
    ctx.assume('R is the table documented by pmutt.constants.R (CODATA 2014) held by the specification; '
               'a constant differing by less than 1e-6 relative is not distinguished')
    ctx.assume('molar mass = sum n_i * w_i computed by TLC from the logged composition and the library\'s '
               'atomic-weight table, itself checked against abridged standard weights to 1e-4')
    ctx.assume('species are built from H, N, O only; options are either omitted from both calls or passed '
               'to both with the same value; documented defaults (T = 298.15 K, P = 1 bar) stand for omitted ones')


if __name__ == '__main__':
    core.main('C04', 'model_checking', run)
