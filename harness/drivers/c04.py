"""C04 - values with units equal the dimensionless values times R (times T for energies,
divided by the molar mass for per-mass units).

(D)    spec/UnitsWrap.tla: the case space class x form x quantity x state x option set x
       T-shape x unit string (applicability transcribed from the API) and the wrapper
       relation Impl = Required on it, checked by TLC for the required wrapper; the
       wrappers of the pinned tree that deviate are separate cfgs TLC must reject.
(S->C) TLC emits every cell with the names of the dimensional getter and of its twin, the
       exact keyword set each of the two calls receives, the documented defaults, the
       object features the options need and the expected result shape.  The driver
       builds real objects, makes exactly those calls and compares the discrete
       projection (methods exist, signatures accept the keywords, result shape).
(C->S) every pair of calls is recorded (twin line, one dim line per unit string, one
       focus line per option) and judged by spec/Trace_UnitsWrap.tla.
"""
import concurrent.futures as cf
import inspect
import math
import random
import zlib

from harness import core
from harness import lib_c04 as lib
from harness.core import to_dec

VARIANTS_REJECTED = ['modes_elements', 'shomate_S', 'chemkin_Hact', 'shomate_native']
VARIANTS_ACCEPTED = ['nasa_Cp']
OPT_NAMES = ['P', 'x', 'S_elements', 'use_references', 'verbose', 'include_ZPE', 'rev', 'act', 'del_m']


# --------------------------------------------------------------------------
# projection
# --------------------------------------------------------------------------
def _project(val):
    """library result -> (kind, [floats]) ; kind 'scalar' | 'vector' | 'other'"""
    import numpy as np
    a = np.asarray(val, dtype=float)
    if a.ndim == 0:
        return 'scalar', [float(a)]
    if a.ndim == 1:
        return 'vector', [float(v) for v in a]
    return 'other', [float(v) for v in a.ravel()]


def _call(obj, name, kw):
    """-> (ok, kind, values, exc)"""
    try:
        fn = getattr(obj, name)
        val = fn(**kw)
        kind, vals = _project(val)
    except core.MachineryError:
        raise
    except Exception as ex:                       # the library raised on a valid case
        return False, 'none', [], '%s: %s' % (type(ex).__name__, str(ex)[:120])
    if not all(core.finite(v) for v in vals):
        return False, kind, [], 'NonFinite'
    return True, kind, vals, ''


def _accepts(obj, name, kws):
    fn = getattr(obj, name, None)
    if fn is None:
        return False
    params = inspect.signature(fn).parameters
    if any(p.kind == p.VAR_KEYWORD for p in params.values()):
        return True
    return all(k in params for k in kws)


def _kwargs(names, vals, dflt, drop=('units',)):
    kw = {}
    for k in names:
        if k in drop:
            continue
        kw[k] = vals[k]
    for d in dflt:
        if d['name'] in names:
            kw[d['name']] = lib.DEFAULT_SYMBOLS[d['sym']]
    return kw


def _dec_list(vals):
    return [to_dec(v) for v in vals]


def _shape_kind(cell, kind):
    if kind == 'scalar':
        return 'scalar'
    if kind == 'vector':
        return 'verbose' if 'verbose' in cell['opts'] else 'array'
    return kind


# --------------------------------------------------------------------------
# one cell instance
# --------------------------------------------------------------------------
def execute(job):
    """Run one cell on one concrete object.  Returns (events, mismatches, info)."""
    import numpy as np
    from pmutt import constants as c
    cell = job['cell']
    rnd = random.Random(job['seed'])
    obj, comp, trange = lib.build(cell, rnd)
    vals = lib.option_values(cell, rnd, trange)
    mism, events = [], []
    getter, twin = cell['getter'], cell['twin']
    # ---- S->C: the API surface TLC described exists
    if not hasattr(obj, getter) or not hasattr(obj, twin):
        mism.append({'what': 'missing method', 'getter': getter, 'twin': twin})
        return events, mism, {'nontrivial': [], 'effective': {}, 'twin_raised': False}
    if not _accepts(obj, getter, cell['kwD']):
        mism.append({'what': 'dimensional getter does not accept the keyword set', 'kwD': cell['kwD']})
    if not _accepts(obj, twin, cell['kwT']):
        mism.append({'what': 'twin does not accept the keyword set', 'kwT': cell['kwT']})
    if cell['ismode']:
        params = [p for p in inspect.signature(getattr(obj, twin)).parameters]
        if sorted(params) != cell['sig']:
            mism.append({'what': 'signature of the mode twin', 'expected': cell['sig'], 'got': sorted(params)})
    kwT = _kwargs(cell['kwT'], vals, cell['dflt'])
    kwD = _kwargs(cell['kwD'], vals, [])
    t_used = vals['T'] if cell['tgiven'] else lib.DEFAULT_SYMBOLS['T0']
    tlist = [float(t) for t in np.atleast_1d(t_used)]
    aw = {e: to_dec(c.atomic_weight[e]) for e in ('H', 'N', 'O')}
    t_ok, t_kind, xor, t_exc = _call(obj, twin, kwT)
    events.append({'ev': 'twin', 'cls': cell['cls'], 'form': cell['form'], 'q': cell['q'],
                   'energy': cell['energy'], 'shape': cell['rshape'], 'T': _dec_list(tlist),
                   'ok': t_ok, 'XoR': _dec_list(xor), 'comp': comp, 'aw': aw})
    if t_ok and _shape_kind(cell, t_kind) != cell['rshape']:
        mism.append({'what': 'twin result shape', 'expected': cell['rshape'], 'got': t_kind})
    nontrivial = []
    first = None
    for u in job['units']:
        d_ok, d_kind, x, d_exc = _call(obj, getter, dict(kwD, units=u['ustr']))
        try:
            r_val, r_ok = c.R(u['rkey']), True
        except Exception:
            r_val, r_ok = 0.0, False
        events.append({'ev': 'dim', 'e': u['e'], 'per': u['per'], 'ustr': u['ustr'], 'ok': d_ok,
                       'exc': d_exc.split(':')[0], 'X': _dec_list(x), 'R': to_dec(r_val), 'Rok': r_ok})
        if t_ok and d_ok:
            if _shape_kind(cell, d_kind) != cell['rshape']:
                mism.append({'what': 'dimensional result shape', 'unit': u['ustr'],
                             'expected': cell['rshape'], 'got': d_kind})
            if any(v != 0.0 for v in xor):
                nontrivial.append(u['ustr'])
            if first is None:
                first = (u, x)
    # ---- focus lines: both calls again without one option
    effective = {}
    if t_ok and first is not None:
        u, x = first
        for opt, base in sorted(job['base'].items()):
            kwT0 = _kwargs(base['kwT'], vals, base['dflt'])
            kwD0 = _kwargs(base['kwD'], vals, [])
            t0_ok, _, xor0, _ = _call(obj, twin, kwT0)
            d0_ok, _, x0, _ = _call(obj, getter, dict(kwD0, units=u['ustr']))
            events.append({'ev': 'focus', 'opt': opt, 'e': u['e'], 'per': u['per'], 'ok': True,
                           'ok0': d0_ok, 'okT0': t0_ok, 'X': _dec_list(x), 'X0': _dec_list(x0),
                           'XoR0': _dec_list(xor0)})
            if t0_ok:
                effective[opt] = (xor0 != xor)
    info = {'nontrivial': nontrivial, 'effective': effective, 'twin_raised': not t_ok,
            'twin_exc': t_exc, 'T': tlist,
            'values': {k: (v if isinstance(v, (int, float, str, bool, type(None))) else [float(t) for t in v])
                       for k, v in vals.items() if k in cell['kwT'] or k in cell['kwD']}}
    return events, mism, info


def _safe_execute(job):
    try:
        return execute(job)
    except core.MachineryError:
        raise
    except Exception as ex:          # building the object failed: the library raised on a valid configuration
        return [], [{'what': 'raised outside a getter', 'raised': '%s: %s' % (type(ex).__name__, ex)}], \
               {'nontrivial': [], 'effective': {}, 'twin_raised': False}


# --------------------------------------------------------------------------
# cells -> jobs
# --------------------------------------------------------------------------
def _cell_key(c, opts=None):
    return (c['cls'], c['form'], c['q'], c['state'], tuple(sorted(c['opts'] if opts is None else opts)),
            c['shape'], c['tgiven'], c['phase'], c['own'])


def _unit_list(units, cell):
    key = ('mass' if cell['mass'] else 'molar') + ('_energy' if cell['energy'] else '_perK')
    return units[key]


def _pick_units(ulist, rnd, n_molar, n_mass, must):
    forced = [u for u in ulist if u['ustr'] in must]
    if len(forced) != len(must):
        raise core.MachineryError('unit strings %r that TLC demands are not in the unit list' % (must,))
    molar = [u for u in ulist if u['per'] in ('mol', 'molecule') and u['ustr'] not in must]
    mass = [u for u in ulist if u['per'] in ('g', 'kg')]
    rnd.shuffle(molar)
    rnd.shuffle(mass)
    pick = forced + molar[:n_molar - len(forced)] + mass[:n_mass]
    rnd.shuffle(pick)
    return pick


def make_jobs(ctx, data):
    cells = data['cells']
    for c in cells:
        for k in ('opts', 'kwD', 'kwT', 'relevant', 'sig', 'must'):
            c[k] = sorted(c[k])
    index = {_cell_key(c): c for c in cells}
    cells.sort(key=_cell_key)
    jobs = []
    draws = ctx.pick(1, 4)
    for ci, c in enumerate(cells):
        base = {}
        for o in c['opts']:
            if o == 'verbose':
                continue                      # changes the shape: no element-wise baseline
            b = index.get(_cell_key(c, [p for p in c['opts'] if p != o]))
            if b is None:
                raise core.MachineryError('case space not closed under removing option %s: %r' % (o, c))
            base[o] = {'kwD': b['kwD'], 'kwT': b['kwT'], 'dflt': b['dflt']}
        ulist = _unit_list(data['units'], c)
        if len(ulist) != c['nunits']:
            raise core.MachineryError('unit list of cell %r has %d entries, TLC counted %d'
                                      % (c, len(ulist), c['nunits']))
        for d in range(draws):
            seed = zlib.crc32(('%d|%d|%d' % (ctx.seed, ci, d)).encode())
            rnd = random.Random(seed)
            if ctx.quick:
                us = _pick_units(list(ulist), rnd, 6, 4, c['must'])
            else:
                us = list(ulist)
                rnd.shuffle(us)
            jobs.append({'cell': c, 'units': us, 'base': base, 'seed': seed})
    return jobs


def _tags(cell, exc=''):
    t = {'cls': cell['cls'], 'kind': ('mode' if cell['ismode'] else cell['cls']),
         'form': cell['form'], 'q': cell['q'], 'getter': cell['getter'],
         'opts': ','.join(cell['opts']), 'shape': cell['shape'], 'phase': cell['phase'],
         'own': cell['own']}
    for o in ('rev', 'P', 'x'):
        t['has_' + o] = o in cell['opts']
    if exc:
        t['exc'] = exc
    return t


def run(ctx):
    ctx.coverage['rule'] = (
        'cells = every applicable (class, form, quantity, state, option subset, T shape, T given/defaulted) '
        'emitted by TLC from UnitsWrap.tla, each with the dimensionless twin and the keyword sets of both calls; '
        'every cell is instantiated with a random object (seeded) carrying the features the options need and is '
        'asked in unit strings from TLC\'s list (quick: 6 molar/per-molecule + 4 per-mass per cell, always including '
        'the unit a Shomate polynomial is stored in; thorough: all, '
        '4 objects per cell); non-trivial: the twin returned a non-zero value; distinct by (cell, unit string)')
    if ctx.replay_case is not None:
        jobs = [ctx.replay_case['case']]
    else:
        # (D) required wrapper: exhaustive, and emits the cells
        data, r = core.tlc_cases('MC_UnitsWrap', 'MC_UnitsWrap')
        ctx.count('states', r.distinct)
        ctx.count('transitions', r.states)
        ctx.coverage.setdefault('models', []).append(
            {'module': 'MC_UnitsWrap', 'cfg': 'MC_UnitsWrap', 'distinct_states': r.distinct, 'ok': r.ok,
             'invariants': ['TypeOK', 'WellFormed', 'Refines'],
             'assumes': ['TableSane', 'UnitStrInjective', 'KeysCovered']})
        if not r.ok:
            raise core.MachineryError('UnitsWrap design model failed:\n' + r.out[-3000:])
        # (D) wrappers of the pinned tree: three must be rejected, the harmless one accepted
        with cf.ThreadPoolExecutor(max_workers=5) as ex:
            futs = {v: ex.submit(core.run_tlc, 'MC_UnitsWrap', 'MC_UnitsWrap_' + v, None, 4)
                    for v in VARIANTS_REJECTED + VARIANTS_ACCEPTED}
        for v, f in futs.items():
            rv = f.result()
            ctx.count('states', rv.distinct)
            ctx.count('transitions', rv.states)
            ctx.coverage['models'].append({'module': 'MC_UnitsWrap', 'cfg': 'MC_UnitsWrap_' + v,
                                           'distinct_states': rv.distinct, 'ok': rv.ok, 'violated': rv.violated,
                                           'expected': 'rejected' if v in VARIANTS_REJECTED else 'accepted'})
            if v in VARIANTS_REJECTED and rv.violated != 'Refines':
                raise core.MachineryError('variant %s should be rejected by Refines:\n%s' % (v, rv.out[-2000:]))
            if v in VARIANTS_ACCEPTED and not rv.ok:
                raise core.MachineryError('variant %s should be accepted:\n%s' % (v, rv.out[-2000:]))
        ctx.coverage['tlc_cells'] = len(data['cells'])
        ctx.coverage['tlc_cases'] = sum(c['nunits'] for c in data['cells'])
        jobs = make_jobs(ctx, data)
    results = core.pmap(_safe_execute, jobs)
    traces = []
    eff = {o: [0, 0] for o in OPT_NAMES}
    twin_raised = 0
    for tid, (job, (events, mism, info)) in enumerate(zip(jobs, results)):
        cell = job['cell']
        ctx.evaluated(max(1, len(job['units'])))
        for u in info['nontrivial']:
            ctx.nontrivial([list(_cell_key(cell)), u])
        for m in mism:
            ctx.violation('ReplayState', job, tags=_tags(cell), detail=m)
        for o, e in info['effective'].items():
            eff[o][0] += 1
            eff[o][1] += 1 if e else 0
        if info['twin_raised']:
            twin_raised += 1
            ctx.notes.append('twin raised: %s %s opts=%s: %s' % (cell['cls'], cell['twin'], cell['opts'],
                                                               info.get('twin_exc'))) if twin_raised <= 5 else None
        traces.append((tid, events))
        if tid % 997 == 0:
            ctx.sample({'cell': {k: cell[k] for k in ('cls', 'getter', 'twin', 'kwD', 'kwT', 'dflt', 'shape')},
                        'units': [u['ustr'] for u in job['units']][:4], 'values': info.get('values')})
    ctx.coverage['twin_raised'] = twin_raised
    ctx.coverage['option_effective'] = {o: {'focus_lines': a, 'twin_changed': b} for o, (a, b) in eff.items()}
    if ctx.replay_case is None:
        if twin_raised > len(jobs) // 50:
            raise core.MachineryError('the dimensionless twin raised on %d of %d applicable cells: the '
                                      'applicability predicate of UnitsWrap.tla is out of step' % (twin_raised, len(jobs)))
        dead = [o for o in OPT_NAMES if o != 'verbose' and eff[o][1] == 0]
        if dead:
            raise core.MachineryError('vacuous: option(s) %s never changed a dimensionless value' % dead)
    fails, stats = core.validate_traces('Trace_UnitsWrap', 'Trace', traces, shards=ctx.pick(8, 16))
    ctx.count('traces_validated_against_impl', len(traces))
    ctx.coverage['trace_lines'] = stats['lines']
    for tid, idx, clause in fails:
        job = jobs[tid]
        ev = results[tid][0][idx]
        if clause in ('UnknownUnit', 'UnknownEvent', 'CaseBinding', 'UnitString'):
            raise core.MachineryError('trace spec rejected the harness itself: %s on %r' % (clause, ev))
        tags = _tags(job['cell'], ev.get('exc', ''))
        if ev['ev'] == 'focus':
            tags['opt'] = ev['opt']
        ctx.violation(clause, job, tags=tags,
                      detail={'unit': ev.get('ustr', ev.get('e', '')), 'event': ev, 'twin': results[tid][0][0], 'values': results[tid][2].get('values')})
    ctx.assume('R is the table documented by pmutt.constants.R (CODATA 2014) held by the specification; '
               'a constant differing by less than 1e-6 relative is not distinguished')
    ctx.assume('molar mass = sum n_i * w_i computed by TLC from the logged composition and the library\'s '
               'atomic-weight table, itself checked against abridged standard weights to 1e-4')
    ctx.assume('species are built from H, N, O only; options are either omitted from both calls or passed '
               'to both with the same value; documented defaults (T = 298.15 K, P = 1 bar) stand for omitted ones')


if __name__ == '__main__':
    core.main('C04', 'model_checking', run)
