"""C08 - Reaction quantities obey Hess's law, reversal symmetry and detailed balance.

(D)    spec/Reaction.tla: symbolic reactions (formal combinations of atoms <<species, keywords
       it receives>>); TLC checks that the implementation-shaped routing / accumulation /
       state-table refine the requirement and that Hess, Antisymmetry, ActDifference,
       DetailedBalance, KeqActRatio, RouteIsolation and CallerUntouched hold
       (MC_Reaction.cfg: all reactions, MC_Reaction_route.cfg: all caller dictionaries).
(S->C) TLC emits 8 469 (reaction, caller dictionary) cases with the exact value of every state and
       change for integer stand-in species; they are replayed into real Reaction /
       ChemkinReaction / SurfaceReaction objects built from recording stand-in species:
       returned values and the keywords each species received must EQUAL what TLC computed.
(C->S) the same runs plus random reactions over real model classes (StatMech gas / adsorbate /
       ConstantMode, Nasa, Nasa9, Shomate, BEP) are recorded and judged by
       spec/Trace_Reaction.tla.
"""
import json
import math
import random
import time

from harness import core
from harness.core import to_dec

SUM_Q = ['Cv', 'Cp', 'U', 'H', 'S', 'F', 'G', 'E']
DIMLESS = {'Cv': 'CvoR', 'Cp': 'CpoR', 'U': 'UoRT', 'H': 'HoRT', 'S': 'SoR', 'F': 'FoRT',
           'G': 'GoRT', 'E': 'EoRT', 'q': 'q'}
NEEDS_T = ('U', 'H', 'F', 'G', 'E')            # dimensional getters with an explicit T parameter
# every key of pmutt.constants.R with '/K' stripped (the dimensional wrappers build '<units>/K')
ENERGY_UNITS = ['J/mol', 'kJ/mol', 'L kPa/mol', 'cm3 kPa/mol', 'm3 Pa/mol', 'cm3 MPa/mol', 'm3 bar/mol',
                'L bar/mol', 'L torr/mol', 'cal/mol', 'kcal/mol', 'L atm/mol', 'cm3 atm/mol', 'eV', 'Eh', 'Ha']
STATE_ALIASES = {'r': ['reactants', 'Reactants', 'REACTANTS'],
                 'p': ['products', 'Products'],
                 't': ['transition state', 'transition_state', 'ts', 'TS', 'Transition State']}
CLASSES = ['Reaction', 'ChemkinReaction', 'SurfaceReaction']
COMBOS = [(False, False), (False, True), (True, False), (True, True)]     # Idx(rev, act) - 1
REAL_NAMES = ['H2', 'H2O', 'H2O2', 'O2', 'CO', 'CO2', 'C', 'OH', 'H', 'CH3OH', 'CH3', 'N2', 'NH3',
              'M(S)', 'H(S)', 'CO(S)', 'H2O(S)', 'A_B', 'a', 'ab', 'O', 'Hs', 'CO_k', 'args', 'k', 'w_', 'H2_',
              's', 'kwargs', 'CH3-CH2(S)']
# groups whose members are prefixes / suffixes of each other, or end in a character of '_kwargs'
NAME_GROUPS = [['H', 'H2', 'H2O', 'H2O2', 'H2_'], ['O', 'O2', 'CO2', 'CO', 'H2O'], ['s', 'Hs', 'args', 'kwargs'],
               ['a', 'ab', 'A_B', 'w_', 'k', 'CO_k'], ['H(S)', 'CO(S)', 'H2O(S)', 'M(S)', 'CH3-CH2(S)']]
TS_NAMES = ['TS1', 'H2O_TS', 'TS', 'CO-H(S)']
KW_CHARS = set('_kwargs')
# alphabets for the stand-in names A, AB, B, D, Z (A a prefix and B a suffix of AB are preserved)
SPY_ALPHABETS = [{'A': 'A', 'AB': 'AB', 'B': 'B', 'D': 'D', 'Z': 'Z'},
                 {'A': 'H2', 'AB': 'H2O', 'B': 'O', 'D': 'TS_k', 'Z': 'w'},
                 {'A': 'a_', 'AB': 'a_s', 'B': 's', 'D': 'rg(S)', 'Z': '_'}]
SPECIES_DELIMS = ['+', ' + ', '&', ' ; ']
REACTION_DELIMS = ['=', ' = ', '<=>', '=>', '->', ' <--> ']
QUARTERS = [0.25, 0.5, 0.75, 1.0, 1.0, 1.0, 1.5, 2.0, 2.0, 2.5, 3.0, 4.0]


class NonFinite(Exception):
    pass


def fdec(x):
    x = float(x)
    if math.isnan(x) or math.isinf(x):
        raise NonFinite()
    return to_dec(x)


def num_form(rnd, x, forms=None):
    """the same number as float / int / numpy scalar -> (value, name of the form)"""
    import numpy as np
    if forms is None:
        forms = ['float', 'float', 'np.float64'] + (['int', 'np.int64'] if float(x).is_integer() else [])
    f = rnd.choice(forms)
    return {'float': float, 'np.float64': np.float64, 'int': lambda v: int(round(v)),
            'np.int64': lambda v: np.int64(round(v))}[f](x), f


def flag_form(rnd, b):
    """rev / act as bool, int or numpy bool"""
    import numpy as np
    f = rnd.choice(['bool', 'bool', 'int', 'np.bool_'])
    return {'bool': bool(b), 'int': int(b), 'np.bool_': np.bool_(b)}[f], f


# --------------------------------------------------------------------------------------
# stand-in species (exact integers, record the keywords they receive)
# --------------------------------------------------------------------------------------
SPY_BASE = {'A': 1, 'AB': 2, 'B': 3, 'D': 4, 'Z': 5}
SPY_METHODS = ['get_CvoR', 'get_CpoR', 'get_UoRT', 'get_HoRT', 'get_SoR', 'get_FoRT', 'get_GoRT',
               'get_EoRT']


def _spy_classes():
    class SpyKw(object):
        """accepts **kwargs: _force_pass_arguments hands over the whole routed dictionary"""
        def __init__(self, name, base, log):
            self.name, self.base, self.log = name, base, log
            self.phase = 'G'
            self.elements = None

        def _v(self, meth, kw):
            self.log.append((self.name, meth, dict(kw)))
            return float(100 * self.base + 10 * kw.get('T', 0) + kw.get('P', 0))

        def get_q(self, **kw):
            return 1.0 + self._v('get_q', kw) / 64.0

    class SpySig(object):
        """explicit signature: _pass_expected_arguments selects T and P"""
        def __init__(self, name, base, log):
            self.name, self.base, self.log = name, base, log
            self.phase = 'G'
            self.elements = None

        def _v(self, meth, T, P):
            self.log.append((self.name, meth, {'T': T, 'P': P}))
            return float(100 * self.base + 10 * T + P)

        def get_q(self, T, P=0):
            return 1.0 + self._v('get_q', T, P) / 64.0

    for m in SPY_METHODS:
        setattr(SpyKw, m, (lambda mm: lambda self, **kw: self._v(mm, kw))(m))
        setattr(SpySig, m, (lambda mm: lambda self, T, P=0: self._v(mm, T, P))(m))
    return SpyKw, SpySig


# --------------------------------------------------------------------------------------
# real species
# --------------------------------------------------------------------------------------
def _nasa_coeffs(rnd, n9=False):
    p = [-2, -1, 0, 1, 2, 3, 4] if n9 else [0, 1, 2, 3, 4]
    return [rnd.uniform(-2, 2) * 1000.0 ** -x for x in p] + [rnd.uniform(-3e4, 3e4), rnd.uniform(-5, 5)]


def make_species(rnd, name, kind):
    import numpy as np
    from pmutt.statmech import StatMech, ConstantMode, trans, vib, rot, elec
    from pmutt.empirical.nasa import Nasa, Nasa9, SingleNasa9
    from pmutt.empirical.shomate import Shomate
    if kind == 'gas':
        return StatMech(name=name,
                        trans_model=trans.FreeTrans(n_degrees=3, molecular_weight=rnd.uniform(2., 60.)),
                        vib_model=vib.HarmonicVib(vib_wavenumbers=[rnd.uniform(200., 3800.)
                                                                   for _ in range(rnd.randint(1, 6))]),
                        rot_model=rot.RigidRotor(symmetrynumber=rnd.choice([1, 2, 3]),
                                                 rot_temperatures=[rnd.uniform(0.5, 40.) for _ in range(3)],
                                                 geometry='nonlinear'),
                        elec_model=elec.GroundStateElec(potentialenergy=rnd.uniform(-0.5, 0.5),
                                                        spin=rnd.choice([0., 0.5, 1.])))
    if kind == 'ads':
        return StatMech(name=name,
                        vib_model=vib.HarmonicVib(vib_wavenumbers=[rnd.uniform(100., 3500.)
                                                                   for _ in range(rnd.randint(1, 8))]),
                        elec_model=elec.GroundStateElec(potentialenergy=rnd.uniform(-0.5, 0.5), spin=0.))
    if kind == 'const':
        return StatMech(name=name,
                        elec_model=ConstantMode(q=rnd.uniform(0.5, 50.), Cv=rnd.uniform(0, 4e-4),
                                                Cp=rnd.uniform(0, 5e-4), U=rnd.uniform(-1, 1),
                                                H=rnd.uniform(-1, 1), S=rnd.uniform(0, 3e-3),
                                                F=rnd.uniform(-1, 1), G=rnd.uniform(-1, 1)))
    phase = rnd.choice(['G', 'G', 'S'])
    if kind == 'nasa':
        return Nasa(name=name, T_low=100., T_mid=rnd.uniform(600., 1200.), T_high=5000.,
                    a_low=np.array(_nasa_coeffs(rnd)), a_high=np.array(_nasa_coeffs(rnd)),
                    phase=phase, elements={'H': 2})
    if kind == 'nasa9':
        tm = rnd.uniform(600., 1200.)
        return Nasa9(name=name, phase=phase, elements={'H': 2},
                     nasas=[SingleNasa9(T_low=100., T_high=tm, a=np.array(_nasa_coeffs(rnd, True))),
                            SingleNasa9(T_low=tm, T_high=5000., a=np.array(_nasa_coeffs(rnd, True)))])
    if kind == 'shomate':
        a = [rnd.uniform(-30, 30) for _ in range(5)] + [rnd.uniform(-200, 200), rnd.uniform(-50, 50),
                                                        rnd.uniform(-5, 5)]
        return Shomate(name=name, T_low=100., T_high=5000., a=np.array(a),
                       units=rnd.choice(['J/mol/K', 'kJ/mol/K', 'cal/mol/K']), phase=phase,
                       elements={'H': 2})
    raise core.MachineryError('unknown species kind %r' % kind)


def _cls(cls):
    from pmutt.reaction import Reaction, ChemkinReaction
    from pmutt.omkm.reaction import SurfaceReaction
    return {'Reaction': Reaction, 'ChemkinReaction': ChemkinReaction, 'SurfaceReaction': SurfaceReaction}[cls]


def _container(form, items, numeric):
    import numpy as np
    if form == 'tuple':
        return tuple(items)
    if form == 'ndarray' and numeric:
        return np.array(items)
    # a bare species / coefficient instead of a one-element list (_check_iterable_attr wraps it); a Nasa9 is
    # itself iterable (over its SingleNasa9 segments) and cannot be told from a list: always in a list
    if form == 'single' and len(items) == 1 and not hasattr(items[0], '__iter__'):
        return items[0]
    return list(items)


def make_reaction(cls, reactants, rs, products, ps, ts, tss, forms=None, keep=None):
    """forms: {'r': f, 'p': f, 't': f} with f in list | tuple | ndarray (coefficients only) | single
    (one species given without a container)"""
    forms = forms or {}
    kw = dict(reactants=_container(forms.get('r'), list(reactants), False),
              reactants_stoich=_container(forms.get('r'), list(rs), True),
              products=_container(forms.get('p'), list(products), False),
              products_stoich=_container(forms.get('p'), list(ps), True))
    if ts:
        kw['transition_state'] = _container(forms.get('t'), list(ts), False)
        kw['transition_state_stoich'] = _container(forms.get('t'), list(tss), True)
    if keep is not None:
        keep.update(kw)                    # the containers the caller still holds
    return _cls(cls)(**kw)


# --------------------------------------------------------------------------------------
# second use: evaluate, edit a public attribute in place, evaluate again
# --------------------------------------------------------------------------------------
EDITS = ['element of reactants_stoich', 'element of products_stoich', 'element of transition_state_stoich',
         "the caller's own coefficient list", 'species replaced in reactants', 'species replaced in products',
         're-assigned through the setter']


def public_sides(rxn):
    ts = rxn.transition_state
    return {'r': list(zip(rxn.reactants, rxn.reactants_stoich)), 'p': list(zip(rxn.products, rxn.products_stoich)),
            't': list(zip(ts, rxn.transition_state_stoich)) if ts is not None else []}


def second_use(rnd, rxn, cls, glob, blocks, kw, bkeys, held, q, opts, other_species, which):
    """rxn has been evaluated already.  Edit one public attribute in place, then return the events of the second
    evaluation (or None when this edit does not apply to this object) and the name of the edit."""
    attr = {'element of reactants_stoich': 'reactants_stoich', 'element of products_stoich': 'products_stoich',
            'element of transition_state_stoich': 'transition_state_stoich'}
    new = rnd.choice([0.5, 1.5, 2.0, 3.0, 0.25])
    if which in attr:
        lst = getattr(rxn, attr[which])
        if lst is None or isinstance(lst, tuple) or not hasattr(lst, '__setitem__'):
            return None
        i = rnd.randrange(len(lst))
        lst[i] = new if float(lst[i]) != new else new + 0.25
    elif which == "the caller's own coefficient list":
        key = rnd.choice(['reactants_stoich', 'products_stoich'])
        lst = (held or {}).get(key)
        if not isinstance(lst, list):
            return None
        i = rnd.randrange(len(lst))
        lst[i] = new if float(lst[i]) != new else new + 0.25
    elif which.startswith('species replaced'):
        lst = rxn.reactants if which.endswith('reactants') else rxn.products
        if not isinstance(lst, list) or other_species is None:
            return None
        lst[rnd.randrange(len(lst))] = other_species
    else:
        side = rnd.choice(['reactants_stoich', 'products_stoich'] +
                          (['transition_state_stoich'] if rxn.transition_state is not None else []))
        old = getattr(rxn, side)
        setattr(rxn, side, [new + 0.25 * j for j in range(len(old))])
    sides = public_sides(rxn)
    rec = Recorder(rxn, cls, sides, glob, blocks, kw, bkeys, rnd)
    fresh = make_reaction(cls, [a for a, _ in sides['r']], [float(b) for _, b in sides['r']],
                          [a for a, _ in sides['p']], [float(b) for _, b in sides['p']],
                          [a for a, _ in sides['t']], [float(b) for _, b in sides['t']])
    dl_name = DIMLESS[q]

    def values(r):
        out = [fdec(getattr(r, 'get_%s_state' % dl_name)(state=s_, **opts, **kw))
               for s_ in ['reactants', 'products'] + (['ts'] if sides['t'] else [])]
        for rev, act in COMBOS:
            if act and not sides['t']:
                continue
            out.append(fdec(getattr(r, 'get_delta_' + dl_name)(rev=rev, act=act, **opts, **kw)))
        return out
    e = {'ev': 'edit', 'cls': cls, 'q': q, 'kind': 'prod' if q == 'q' else 'sum', 'what': which, 'kb': snapshot(kw)}
    e['a'] = values(rxn)
    e['ka'] = snapshot(kw)
    e['b'] = values(fresh)
    return [e, rec.quant(q, opts=opts, with_sp=(q != 'q' or all(float(4 * nu).is_integer() for s_ in sides
                                                              for _, nu in sides[s_])))], which


def reaction_string(sides, sdel, rdel, rnd):
    """text of the reaction for from_string: coefficient immediately (or after a space) before the name,
    a coefficient of 1 sometimes left out"""
    def side(lst):
        parts = []
        for sp, nu in lst:
            if float(nu) == 1.0 and rnd.random() < 0.5:
                parts.append(sp.name)
            else:
                txt = repr(float(nu)) if rnd.random() < 0.6 or not float(nu).is_integer() else str(int(nu))
                parts.append(txt + (' ' if rnd.random() < 0.3 else '') + sp.name)
        return sdel.join(parts)
    states = [side(sides['r'])] + ([side(sides['t'])] if sides['t'] else []) + [side(sides['p'])]
    return rdel.join(states)


def string_safe(sides, sdel, rdel):
    names = [sp.name for s in sides for sp, _ in sides[s]]
    for s in sides:                                   # from_string merges a species repeated on one side
        ns = [sp.name for sp, _ in sides[s]]
        if len(set(ns)) != len(ns):
            return False
    for n in names:
        if n[0].isdigit() or n[0] == '.' or sdel.strip() in n or rdel.strip() in n or n != n.strip():
            return False
    return sdel.strip() not in rdel and rdel.strip() not in sdel


# --------------------------------------------------------------------------------------
# recording
# --------------------------------------------------------------------------------------
def snapshot(kw):
    """canonical text of the caller's dictionary (order, keys, values with full repr)"""
    out = []
    for k, v in kw.items():
        if isinstance(v, dict):
            out.append([k, [[k2, repr(v2)] for k2, v2 in v.items()], id(v)])
        else:
            out.append([k, repr(v)])
    return json.dumps(out)


def build_kwargs(glob, blocks, order_rnd):
    """caller dictionary: ordinary keywords and '<name>_kwargs' blocks in a shuffled order.
    Returns (kwargs, block_keys_in_order)."""
    items = [(k, v) for k, v in glob.items()] + [('%s_kwargs' % n, dict(b)) for n, b in blocks]
    order_rnd.shuffle(items)
    kw = dict(items)
    return kw, [k for k, v in kw.items() if isinstance(v, dict)]


class Recorder(object):
    def __init__(self, rxn, cls, sides, glob, blocks, kw, bkeys, rnd):
        self.rxn, self.cls, self.sides = rxn, cls, sides     # sides: {'r': [(specie, nu)], 'p':.., 't':..}
        self.glob, self.blocks, self.kw, self.bkeys = glob, blocks, kw, bkeys
        self.rnd = rnd
        self.hasTS = bool(sides['t'])
        self.cache = {}
        self.block_of = {'%s_kwargs' % n: b for n, b in blocks}
        self.cov = set()

    def flag(self, b, what):
        v, f = flag_form(self.rnd, b)
        self.cov.add('%s given as %s' % (what, f))
        return v

    def species_value(self, sp, meth, conds, opts):
        from pmutt.reaction.bep import BEP
        key = (id(sp), meth, tuple(sorted((k, repr(v)) for k, v in conds.items())))
        if key not in self.cache:
            args = dict(conds)
            if isinstance(sp, BEP):
                args['reaction'] = self.rxn
            self.cache[key] = float(getattr(sp, meth)(**args))
        return self.cache[key]

    def sp_side(self, side, meth, opts, n4):
        out = []
        for sp, nu in self.sides[side]:
            base = dict(self.glob)
            base.update(opts)                 # options of the call are ordinary keywords ...
            vals = [self.species_value(sp, meth, base, {})]
            for bk in self.bkeys:
                conds = dict(base)
                conds.update(self.block_of[bk])   # ... that a block overrides
                try:
                    vals.append(self.species_value(sp, meth, conds, {}))
                except Exception:
                    # an option meant for another species may be meaningless for this one (include_ZPE for a
                    # species without vibrations); the candidate then stands for "same as without the block"
                    if bk == '%s_kwargs' % sp.name:
                        raise
                    vals.append(vals[0])
            rec = {'n': sp.name, 'nu': fdec(nu), 'v': [fdec(v) for v in vals]}
            if n4:
                rec['n4'] = int(round(4 * nu))
            out.append(rec)
        return out

    def alias(self, s):
        a = self.rnd.choice(STATE_ALIASES[s])
        self.cov.add('state name %r' % a)
        return a

    def quant(self, q, dim=None, via='named', opts=None, with_sp=True, kw=None):
        """one 'quant' event; dim = units string for the dimensional getters"""
        rxn = self.rxn
        opts = dict(opts or {})
        kw = self.kw if kw is None else kw
        kind = 'prod' if q == 'q' else 'sum'
        dl_name = DIMLESS[q]
        meth = 'get_' + dl_name
        sides = ['r', 'p'] + (['t'] if self.hasTS else [])
        zero = [0, 0]
        e = {'ev': 'quant', 'cls': self.cls, 'q': q, 'kind': kind, 'hasTS': self.hasTS,
             'bk': list(self.bkeys), 'hasK': False, 'dim': dim is not None}
        e['kb'] = snapshot(kw)
        extra = dict(opts)
        if dim is not None:
            extra['units'] = dim + ('/K' if q in ('Cv', 'Cp', 'S') else '')
        # --- library calls
        st = {}
        for s in ('r', 'p', 't'):
            if s not in sides:
                st[s] = zero
            elif via == 'generic':
                st[s] = fdec(rxn.get_state_quantity(state=self.alias(s), method_name=meth, **extra, **kw))
            else:
                name = 'get_%s_state' % (q if dim is not None else dl_name)
                st[s] = fdec(getattr(rxn, name)(state=self.alias(s), **extra, **kw))
        dl = []
        for rev, act in COMBOS:
            if act and not self.hasTS:
                dl.append(zero)
            elif via == 'generic':
                ini = 'p' if rev else 'r'
                fin = 't' if act else ('r' if rev else 'p')
                a_ini, a_fin = self.alias(ini), self.alias(fin)
                self.cov.add('get_delta_quantity state name %r' % a_ini)
                self.cov.add('get_delta_quantity state name %r' % a_fin)
                dl.append(fdec(rxn.get_delta_quantity(initial_state=a_ini, final_state=a_fin,
                                                      method_name=meth, **extra, **kw)))
            else:
                name = 'get_delta_%s' % (q if dim is not None else dl_name)
                dl.append(fdec(getattr(rxn, name)(rev=self.flag(rev, 'rev'), act=self.flag(act, 'act'),
                                                  **extra, **kw)))
        # activation getters: the base class for everything except the Arrhenius energy; on
        # ChemkinReaction / SurfaceReaction the clamped H and G barriers belong to C09
        has_act = (self.hasTS and via == 'named' and q != 'E'
                   and not (self.cls != 'Reaction' and q in ('H', 'G')))
        e['hasAct'] = has_act
        if has_act:
            name = 'get_%s_act' % (q if dim is not None else dl_name)
            e['act'] = [fdec(getattr(rxn, name)(rev=self.flag(rev, 'rev'), **extra, **kw)) for rev in (False, True)]
        if q == 'G' and dim is None and via == 'named':
            keq, ex, kfin = [], [], []
            for i, (rev, act) in enumerate(COMBOS):
                if act and not self.hasTS:
                    keq.append(zero), ex.append(zero), kfin.append(False)
                    continue
                k = float(rxn.get_Keq(rev=self.flag(rev, 'rev'), act=self.flag(act, 'act'), **kw))
                dg = float(getattr(rxn, 'get_delta_GoRT')(rev=rev, act=act, **kw))
                try:
                    x = math.exp(-dg)
                except OverflowError:
                    x = float('inf')
                # only where exp() keeps full precision (no overflow, no subnormal results)
                ok = core.finite(k) and core.finite(x) and 1e-290 < k < 1e290 and 1e-290 < x < 1e290
                keq.append(to_dec(k) if ok else zero)
                ex.append(to_dec(x) if ok else zero)
                kfin.append(bool(ok))
            e.update({'hasK': True, 'keq': keq, 'ex': ex, 'kfin': kfin})
        e['ka'] = snapshot(kw)
        e['st'], e['dl'] = st, dl
        fam = ('get_X_state, get_delta_X' if dim is not None else 'get_XoRT_state, get_delta_XoRT') \
            if via == 'named' else 'get_state_quantity, get_delta_quantity'
        self.cov.add('%s | %s | %s' % (fam, q, self.cls))
        if has_act:
            self.cov.add('%s | %s | %s' % ('get_X_act' if dim is not None else 'get_XoRT_act', q, self.cls))
        if dim is not None:
            self.cov.add('units %s' % dim)
        if 'include_ZPE' in opts:
            self.cov.add('include_ZPE=%s | %s%s' % (bool(opts['include_ZPE']), q, ' (units)' if dim is not None else ''))
        # --- species' own values (every candidate keyword set)
        e['hasSp'] = bool(with_sp and dim is None and kw is self.kw)
        if e['hasSp']:
            e['sp'] = {s: (self.sp_side(s, meth, opts, kind == 'prod') if s in sides else [])
                       for s in ('r', 'p', 't')}
        return e

    def act_applicable(self, q):
        """get_X_act getters judged here: not the Arrhenius energy, not the clamped H/G barriers of the
        subclasses (C09; those fall back to the reaction change by design)"""
        return q != 'E' and not (self.cls != 'Reaction' and q in ('H', 'G'))

    def refuse(self, q, opts=None):
        """a reaction WITHOUT a transition state: every getter asked for an activation quantity"""
        rxn, kw = self.rxn, self.kw
        opts = dict(opts or {})
        kind = 'prod' if q == 'q' else 'sum'
        dl_name = DIMLESS[q]
        meth = 'get_' + dl_name
        units = self.rnd.choice(ENERGY_UNITS) + ('/K' if q in ('Cv', 'Cp', 'S') else '')
        calls = []
        for rev in (False, True):
            calls.append(('get_delta_%s' % dl_name, rev,
                          lambda rev=rev: getattr(rxn, 'get_delta_' + dl_name)(rev=rev, act=True, **opts, **kw)))
        for rev in (False, True):
            calls.append(('get_delta_quantity', rev,
                          lambda rev=rev: rxn.get_delta_quantity(
                              initial_state='products' if rev else 'reactants', final_state='transition state',
                              method_name=meth, **opts, **kw)))
            if self.act_applicable(q):
                calls.append(('get_%s_act' % dl_name, rev,
                              lambda rev=rev: getattr(rxn, 'get_%s_act' % dl_name)(rev=rev, **opts, **kw)))
            if q == 'G':
                calls.append(('get_Keq', rev, lambda rev=rev: rxn.get_Keq(rev=rev, act=True, **kw)))
            if q != 'q':
                calls.append(('get_delta_%s' % q, rev,
                              lambda rev=rev: getattr(rxn, 'get_delta_' + q)(units=units, rev=rev, act=True,
                                                                             **opts, **kw)))
                if self.act_applicable(q):
                    calls.append(('get_%s_act' % q, rev,
                                  lambda rev=rev: getattr(rxn, 'get_%s_act' % q)(units=units, rev=rev, **opts, **kw)))
        e = {'ev': 'refuse', 'cls': self.cls, 'q': q, 'kind': kind, 'hasTS': self.hasTS, 'kb': snapshot(kw)}
        g, out, vals, fam = [], [], {}, []
        for name, rev, fn in calls:
            g.append('%s(rev=%s)' % (name, rev))
            fam.append('get_delta_quantity' if name == 'get_delta_quantity' else 'get_Keq' if name == 'get_Keq'
                       else name.replace(dl_name, 'XoRT') if dl_name in name.split('_') else
                       name.replace('_' + q, '_X'))
            try:
                v = fn()
            except Exception:                 # any exception is a refusal
                out.append('raised')
            else:
                out.append('value')
                vals[(name, rev)] = v
        e['ka'] = snapshot(kw)
        e['g'], e['out'], e['fam'] = g, out, fam
        zero = [0, 0]
        e.update({'both': False, 'af': zero, 'ar': zero, 'd': zero, 'sr': zero, 'sp': zero,
                  'kboth': False, 'kf': zero, 'kr': zero, 'k': zero})
        key = 'get_delta_%s' % dl_name
        if (key, False) in vals and (key, True) in vals and all(core.finite(vals[(key, r)]) for r in (False, True)):
            e['both'] = True
            e['af'], e['ar'] = to_dec(vals[(key, False)]), to_dec(vals[(key, True)])
            e['d'] = fdec(getattr(rxn, key)(rev=False, act=False, **opts, **kw))
            e['sr'] = fdec(getattr(rxn, 'get_%s_state' % dl_name)(state='reactants', **opts, **kw))
            e['sp'] = fdec(getattr(rxn, 'get_%s_state' % dl_name)(state='products', **opts, **kw))
        if ('get_Keq', False) in vals and ('get_Keq', True) in vals:
            ks = [float(vals[('get_Keq', False)]), float(vals[('get_Keq', True)]),
                  float(rxn.get_Keq(rev=False, act=False, **kw))]
            if all(core.finite(x) and 1e-140 < x < 1e140 for x in ks):
                e['kboth'] = True
                e['kf'], e['kr'], e['k'] = [to_dec(x) for x in ks]
        return e

    def iso(self, q, side, drop_key, opts=None):
        """the side evaluated with the caller dictionary and with one block removed"""
        opts = dict(opts or {})
        kind = 'prod' if q == 'q' else 'sum'
        meth = 'get_' + DIMLESS[q]
        name = 'get_%s_state' % DIMLESS[q]
        kw0 = {k: v for k, v in self.kw.items() if k != drop_key}
        e = {'ev': 'iso', 'cls': self.cls, 'q': q, 'kind': kind,
             'bk': list(self.bkeys), 'drop': drop_key}
        e['kb'] = snapshot(self.kw)
        e['s1'] = fdec(getattr(self.rxn, name)(state=self.alias(side), **opts, **self.kw))
        e['s0'] = fdec(getattr(self.rxn, name)(state=self.alias(side), **opts, **kw0))
        e['ka'] = snapshot(self.kw)
        e['side'] = self.sp_side(side, meth, opts, kind == 'prod')
        return e


# --------------------------------------------------------------------------------------
# S->C: a TLC case replayed into stand-in species
# --------------------------------------------------------------------------------------
def exec_spy(case):
    rnd = random.Random(case['cseed'])
    SpyKw, SpySig = _spy_classes()
    flavour = SpySig if case['cseed'] % 3 == 0 else SpyKw
    cls = CLASSES[(case['cseed'] // 3) % 3]
    log = []
    objs = {}
    cov = set()
    alpha = SPY_ALPHABETS[(case['cseed'] // 9) % len(SPY_ALPHABETS)]
    cov.add('stand-in alphabet %s' % '/'.join(alpha[k] for k in ('A', 'AB', 'B', 'D', 'Z')))

    def obj(n):
        name = alpha[''.join(n)]
        if name not in objs:
            objs[name] = flavour(name, SPY_BASE[''.join(n)], log)
        return objs[name]

    def coef(c):                         # 1 and 2 also as int / numpy scalars (exact either way)
        v, f = num_form(rnd, c / 4.0)
        cov.add('coefficient given as %s' % f)
        return v
    sides = {s: [(obj(x['n']), coef(x['c'])) for x in case[s]] for s in ('r', 'p', 't')}
    forms = {s: rnd.choice(['list', 'list', 'tuple', 'ndarray', 'single']) for s in ('r', 'p', 't')}
    for s in ('r', 'p', 't'):
        if sides[s]:
            cov.add('containers given as %s' % (forms[s] if forms[s] != 'single' or len(sides[s]) == 1 else 'list'))
    held = {}
    rxn = make_reaction(cls, [a for a, _ in sides['r']], [b for _, b in sides['r']],
                        [a for a, _ in sides['p']], [b for _, b in sides['p']],
                        [a for a, _ in sides['t']], [b for _, b in sides['t']], forms, keep=held)
    gT, f = num_form(rnd, case['globT'])
    cov.add('T given as %s' % f)
    glob = {'T': gT}
    if case['globP']:
        glob['P'], f = num_form(rnd, case['globP'])
        cov.add('P given as %s' % f)
    blocks = []
    for b in case['blocks']:
        d = {}
        if b['T']:
            d['T'] = num_form(rnd, b['T'])[0]
        if b['P']:
            d['P'] = num_form(rnd, b['P'])[0]
        blocks.append((alpha[''.join(b['n'])], d))
    kw, bkeys = build_kwargs(glob, blocks, rnd)
    before = snapshot(kw)
    mism = []
    q = SUM_Q[case['cseed'] % len(SUM_Q)]
    dl_name = DIMLESS[q]
    # exact replay of the TLC-computed numbers
    got_st = []
    for s in ('r', 'p', 't'):
        if s == 't' and not case['hasTS']:
            got_st.append(0)
            continue
        got_st.append(4 * getattr(rxn, 'get_%s_state' % dl_name)(state=STATE_ALIASES[s][0], **kw))
    got_dl = []
    for rev, act in COMBOS:
        if act and not case['hasTS']:
            got_dl.append(0)
            continue
        got_dl.append(4 * getattr(rxn, 'get_delta_%s' % dl_name)(rev=rev, act=act, **kw))
    if got_st != case['st']:
        mism.append({'what': 'state', 'q': q, 'expected': case['st'], 'got': got_st})
    if got_dl != case['dl']:
        mism.append({'what': 'delta', 'q': q, 'expected': case['dl'], 'got': got_dl})
    if case['actRefused']:               # TLC: no transition state -> act = True is refused
        for rev in (False, True):
            try:
                v = getattr(rxn, 'get_delta_%s' % dl_name)(rev=rev, act=True, **kw)
            except Exception:
                continue
            mism.append({'what': 'refusal', 'q': q, 'getter': 'get_delta_%s(rev=%s, act=True)' % (dl_name, rev),
                         'expected': 'raises', 'got': repr(v)})
    # keywords every species received
    want = {alpha[''.join(r['n'])]: r for r in case['route']}
    for name, meth, got in log:
        r = want[name]
        if q == 'E':                     # get_EoRT_state always forwards include_ZPE (documented parameter)
            got = {k: v for k, v in got.items() if k != 'include_ZPE'}
        exp = {'T': float(r['T'])} if r['T'] else {}
        if r['P']:
            exp['P'] = float(r['P'])
        elif flavour is SpySig:
            exp['P'] = 0
        if flavour is SpySig and 'T' not in exp:
            exp['T'] = 0
        if got != exp:
            mism.append({'what': 'route', 'species': name, 'method': meth, 'expected': exp,
                         'got': {k: (v if isinstance(v, (int, float, str, bool)) else repr(v))
                                 for k, v in got.items()}})
            break
    if snapshot(kw) != before:
        mism.append({'what': 'kwargs', 'before': before, 'after': snapshot(kw)})
    # the same object judged by the trace specification
    rec = Recorder(rxn, cls, sides, glob, blocks, kw, bkeys, rnd)
    events = [rec.quant(q), rec.quant('q'),
              rec.quant(q, dim=ENERGY_UNITS[(case['cseed'] // 7) % len(ENERGY_UNITS)])]
    if case['cseed'] % 5 == 0:
        events.append(rec.quant(q, via='generic'))
    if not case['hasTS']:
        events.append(rec.refuse(q))
        if case['cseed'] % 4 == 0:
            events.append(rec.refuse('q'))
    hit = [k for k in bkeys if any(k == '%s_kwargs' % sp.name for s in sides for sp, _ in sides[s])]
    if hit:
        k = rnd.choice(hit)
        side = rnd.choice([s for s in sides if any(k == '%s_kwargs' % sp.name for sp, _ in sides[s])])
        events.append(rec.iso(q, side, k))
    if case['cseed'] % 4 == 1:           # second use after an in-place edit (LAST: it changes the object)
        start = case['cseed'] // 4
        for j in range(len(EDITS)):
            which = EDITS[(start + j) % len(EDITS)]
            res = second_use(rnd, rxn, cls, glob, blocks, kw, bkeys, held, q, {}, obj(['Z']), which)
            if res is not None:
                events.extend(res[0])
                cov.add('edit: %s | %s' % (which, cls))
                break
    return events, mism, {'cls': cls, 'flavour': flavour.__name__, 'q': q, 'cov': sorted(cov | rec.cov)}


# --------------------------------------------------------------------------------------
# C->S: random reactions over real model classes
# --------------------------------------------------------------------------------------
def exec_real(case):
    import numpy as np
    from pmutt.reaction.bep import BEP
    from pmutt.omkm.reaction import BEP as OmkmBEP
    rnd = random.Random(case['cseed'])
    cls, mix = case['cls'], case['mix']
    kinds = {'statmech': ['gas', 'gas', 'ads', 'ads', 'const'],
             'mixed': ['gas', 'ads', 'const', 'nasa', 'nasa9', 'shomate'],
             'empirical': ['nasa', 'nasa', 'nasa9', 'shomate']}[mix]
    cov = set()
    nR, nP = rnd.randint(1, 4), rnd.randint(1, 4)
    nT = rnd.choice([0, 0, 1, 1, 2])
    quarter = rnd.random() < 0.7
    # names: half of the time start from a group of names that are prefixes / suffixes of each other or end in
    # a character of '_kwargs'
    if rnd.random() < 0.5:
        grp = list(rnd.choice(NAME_GROUPS))
        rnd.shuffle(grp)
        rest = [n for n in REAL_NAMES if n not in grp]
        rnd.shuffle(rest)
        names = (grp + rest)[:nR + nP]
        rnd.shuffle(names)
    else:
        names = rnd.sample(REAL_NAMES, nR + nP)
    pool = {}

    def species(name, kind=None):
        if name not in pool:
            pool[name] = make_species(rnd, name, kind or rnd.choice(kinds))
        return pool[name]

    def coef():
        x = rnd.choice(QUARTERS) if quarter else rnd.choice([rnd.uniform(0.25, 4.0), 1.0, 1.0 / 3.0, 0.7, 0.25, 4.0])
        v, f = num_form(rnd, x)
        cov.add('coefficient given as %s' % f)
        cov.add('coefficient ' + ('= 0.25' if x == 0.25 else '= 4' if x == 4.0 else '> 1' if x > 1 else
                                  'fractional < 1' if x < 1 else '= 1'))
        return v
    R = [(species(n), coef()) for n in names[:nR]]
    P = [(species(n), coef()) for n in names[nR:]]
    shape = rnd.random()
    if shape < 0.15:                        # a species on both sides (catalyst / spectator)
        P[rnd.randrange(len(P))] = (R[0][0], coef())
        cov.add('the same species on both sides')
    elif shape < 0.25 and len(R) > 1:       # the same species listed twice on one side
        R[1] = (R[0][0], coef())
        cov.add('a species listed twice on one side')
    T = []
    use_bep = False
    for j in range(nT):
        if j == 0 and rnd.random() < 0.25:
            use_bep = True
            desc = rnd.choice(['delta_H', 'rev_delta_H', 'reactants_H', 'products_H'] +
                              (['delta_E', 'rev_delta_E', 'reactants_E', 'products_E'] if mix == 'statmech' else []))
            args = dict(slope=rnd.uniform(0., 1.), intercept=rnd.uniform(0., 60.), name=TS_NAMES[j],
                        descriptor=desc)
            T.append((OmkmBEP(**args) if cls == 'SurfaceReaction' and rnd.random() < 0.5 else BEP(**args), 1.0))
        elif j == 1 and rnd.random() < 0.3:  # a reactant also sits in the transition state
            T.append((R[0][0], coef()))
            cov.add('a reactant also in the transition state')
        else:
            T.append((species(TS_NAMES[j]), coef()))
    sides = {'r': R, 'p': P, 't': T}
    cov.add('reactants: %d' % len(R)), cov.add('products: %d' % len(P)), cov.add('TS species: %d' % len(T))
    fams = {('StatMech' if k.__class__.__name__ == 'StatMech' else k.__class__.__name__)
            for s_ in sides for k, _ in sides[s_]} - {'BEP'}
    if len(fams) >= 3:
        cov.add('>= 3 species families in one reaction | ' + cls)
    if fams == {'StatMech', 'Nasa', 'Nasa9', 'Shomate'}:
        cov.add('all 4 species families in one reaction')
    # construction: constructor with lists / tuples / arrays / a bare species, or from_string
    sdel, rdel = rnd.choice(SPECIES_DELIMS), rnd.choice(REACTION_DELIMS)
    if rnd.random() < 0.4 and string_safe(sides, sdel, rdel):
        text = reaction_string(sides, sdel, rdel, rnd)
        objs = {sp.name: sp for s_ in sides for sp, _ in sides[s_]}
        sp_arg = objs if rnd.random() < 0.5 else list(objs.values())
        rxn = _cls(cls).from_string(text, sp_arg, species_delimiter=sdel, reaction_delimiter=rdel)
        cov.add('from_string | ' + cls)
        cov.add('from_string species_delimiter %r' % sdel), cov.add('from_string reaction_delimiter %r' % rdel)
        cov.add('from_string species given as %s' % type(sp_arg).__name__)
        construction = {'how': 'from_string', 'text': text, 'species_delimiter': sdel, 'reaction_delimiter': rdel}
        held = None
    else:
        forms = {s_: rnd.choice(['list', 'list', 'tuple', 'ndarray', 'single']) for s_ in ('r', 'p', 't')}
        for s_ in ('r', 'p', 't'):
            if sides[s_]:
                cov.add('containers given as %s' % (forms[s_] if forms[s_] != 'single' or len(sides[s_]) == 1
                                                    else 'list'))
        held = {}
        rxn = make_reaction(cls, [a for a, _ in R], [b for _, b in R], [a for a, _ in P], [b for _, b in P],
                            [a for a, _ in T], [b for _, b in T], forms, keep=held)
        construction = {'how': 'constructor', 'forms': forms}
    # conditions: T, P as float / int / numpy scalars; ordinary values and the special ones (default
    # temperature, exactly on the bounds of the polynomial species, round numbers)
    if rnd.random() < 0.55:
        Tv, f = num_form(rnd, math.exp(rnd.uniform(math.log(150.), math.log(3000.))))
    else:
        Tv, f = num_form(rnd, rnd.choice([298.15, 100.0, 5000.0, 1000.0, 500.0, 1500.0, 300.0]))
        cov.add('T = %s' % (('298.15' if Tv == 298.15 else 'on a bound of the polynomials' if Tv in (100, 5000)
                             else 'round number')))
    cov.add('T given as %s' % f)
    glob = {'T': Tv}
    if rnd.random() < 0.7:
        if rnd.random() < 0.6:
            glob['P'], f = num_form(rnd, math.exp(rnd.uniform(math.log(0.01), math.log(100.))))
        else:
            glob['P'], f = num_form(rnd, rnd.choice([1.0, 1.0, 0.001, 1000.0, 10.0]))
        cov.add('P given as %s' % f)
    else:
        cov.add('P left to the species default')
    present = [sp.name for s_ in sides for sp, _ in sides[s_]]
    blocks = []
    cand = list(dict.fromkeys(present))
    rnd.shuffle(cand)
    # prefer a name that is a proper prefix / suffix of another species of the reaction, or ends in a
    # character of '_kwargs'
    tricky = [n for n in cand if any(m != n and (m.startswith(n) or m.endswith(n)) for m in cand)
              or n[-1] in KW_CHARS]
    if tricky and rnd.random() < 0.7:
        cand = [tricky[0]] + [n for n in cand if n != tricky[0]]
    objs_by_name = {sp.name: sp for s_ in sides for sp, _ in sides[s_]}
    for n in cand[:rnd.choice([0, 1, 1, 2, 3])]:
        b = {}
        form = rnd.choice(['T', 'P', 'TP', 'e'])
        if 'T' in form:
            b['T'] = num_form(rnd, math.exp(rnd.uniform(math.log(150.), math.log(3000.))))[0]
        if 'P' in form:
            b['P'] = num_form(rnd, math.exp(rnd.uniform(math.log(0.01), math.log(100.))))[0]
        if (mix == 'statmech' and not use_bep and rnd.random() < 0.3
                and getattr(objs_by_name[n], 'vib_model', None).__class__.__name__ == 'HarmonicVib'):
            b['include_ZPE'] = rnd.random() < 0.5      # an option addressed to one species
            cov.add('block carries include_ZPE')
        cov.add('block contents {%s}' % ','.join(sorted(k for k in b if k != 'include_ZPE')))
        if any(m != n and m.startswith(n) for m in present):
            cov.add('block for a name that is a prefix of another species | ' + cls)
        if any(m != n and m.endswith(n) for m in present):
            cov.add('block for a name that is a suffix of another species | ' + cls)
        if n[-1] in KW_CHARS:
            cov.add('block for a name ending in a character of _kwargs | ' + cls)
        blocks.append((n, b))
    if rnd.random() < 0.3:                  # a block for a species that is not in the reaction
        absent = [n for n in REAL_NAMES if n not in present]
        near = [n for n in absent if any(m.startswith(n) or m.endswith(n) or n.startswith(m) or n.endswith(m)
                                         for m in present)]
        blocks.append((rnd.choice(near or absent), {'T': rnd.uniform(250., 1800.), 'P': rnd.uniform(0.01, 100.)}))
        cov.add('block for a species that is not in the reaction')
    kw, bkeys = build_kwargs(glob, blocks, rnd)
    rec = Recorder(rxn, cls, sides, glob, blocks, kw, bkeys, rnd)
    if use_bep:
        qs = ['H', 'S', 'G']
    elif mix == 'statmech':
        qs = ['q'] + SUM_Q
    else:
        qs = ['Cp', 'H', 'S', 'G']
    all_vib = all(getattr(sp, 'vib_model', None).__class__.__name__ == 'HarmonicVib'
                  for s in sides for sp, _ in sides[s])
    events, skipped = [], []
    # no transition state: the Gibbs family (get_delta_GoRT / get_delta_G / get_Keq) always, two more at random
    refuse_q = set(['G'] + rnd.sample(qs, min(2, len(qs)))) if not T else set()
    info = {'cls': cls, 'mix': mix, 'n': [len(R), len(P), len(T)], 'bep': use_bep, 'quarter': quarter,
            'blocks': [n for n, _ in blocks], 'T': repr(glob['T']), 'P': repr(glob.get('P')),
            'construction': construction, 'names': present}

    def emit(fn, tag):
        try:
            events.append(fn())
        except NonFinite:
            skipped.append(tag)
    for q in qs:
        opts = {}
        if q == 'q':
            opts['include_ZPE'] = rnd.random() < 0.5
            if rnd.random() < 0.3:
                opts['ignore_q_elec'] = True
        if q == 'E':
            opts['include_ZPE'] = all_vib and rnd.random() < 0.5
        emit(lambda: rec.quant(q, opts=opts, with_sp=(q != 'q' or quarter)), q)
        if rnd.random() < 0.25:
            emit(lambda: rec.quant(q, via='generic', opts=opts, with_sp=(q != 'q' or quarter)), q + '/generic')
        if q in refuse_q:
            emit(lambda: rec.refuse(q, opts=opts), q + '/refuse')
        if q != 'q' and rnd.random() < 0.35:
            emit(lambda: rec.quant(q, dim=ENERGY_UNITS[(case['cseed'] + len(events)) % len(ENERGY_UNITS)],
                                   opts=({'include_ZPE': opts['include_ZPE']} if q == 'E' else {})), q + '/dim')
    hit = [k for k in bkeys if any(k == '%s_kwargs' % sp.name for s in sides for sp, _ in sides[s])]
    for k in hit[:2]:
        side = rnd.choice([s for s in sides if any(k == '%s_kwargs' % sp.name for sp, _ in sides[s])])
        q = rnd.choice([x for x in qs if x != 'q' or quarter])
        opts = {'include_ZPE': False} if q in ('q', 'E') else {}
        emit(lambda: rec.iso(q, side, k, opts=opts), q + '/iso')
    # second use of the same object after an in-place edit of a public attribute (LAST: it changes the object)
    if case['cseed'] % 5 < 2:
        q2 = rnd.choice(qs)
        opts2 = {'include_ZPE': False} if q2 in ('q', 'E') else {}
        spare = make_species(rnd, rnd.choice([n for n in REAL_NAMES if n not in present]), rnd.choice(kinds))
        start = case['cseed'] // 5
        for j in range(len(EDITS)):
            which = EDITS[(start + j) % len(EDITS)]
            try:
                res = second_use(rnd, rxn, cls, glob, blocks, kw, bkeys, held, q2, opts2, spare, which)
            except NonFinite:
                skipped.append(q2 + '/edit')
                break
            if res is not None:
                events.extend(res[0])
                cov.add('edit: %s | %s' % (which, cls))
                info['edit'] = which
                break
    info['skipped_nonfinite'] = skipped
    info['cov'] = sorted(cov | rec.cov)
    return events, [], info


# --------------------------------------------------------------------------------------
# Hess cycles: members held in a Reactions container, scaled and reversed, closed or with a net reaction
# --------------------------------------------------------------------------------------
def exec_cycle(case):
    from pmutt.reaction import Reactions
    rnd = random.Random(case['cseed'])
    n, closed = case['n'], case['closed']
    cov = set()
    classes = [rnd.choice(CLASSES) for _ in range(n + 1)]
    if rnd.random() < 0.4:
        classes = [case['cls']] * (n + 1)
    emp = 'ChemkinReaction' in classes
    kinds = ['nasa', 'nasa9', 'shomate'] if emp else rnd.choice([['gas', 'ads', 'const'],
                                                                 ['gas', 'ads', 'nasa', 'nasa9', 'shomate']])
    statmech = not emp and 'nasa' not in kinds
    names = rnd.sample(REAL_NAMES, n + 2)
    X = [make_species(rnd, names[i], rnd.choice(kinds)) for i in range(n + 1)]
    if closed:
        X[n] = X[0]
    spect = make_species(rnd, names[n + 1], rnd.choice(kinds))
    alpha = [rnd.choice([0.5, 1.0, 2.0]) for _ in range(n + 1)]
    if closed:
        alpha[n] = alpha[0]
    members, m, flip = [], [], []
    for i in range(n):
        c = rnd.choice([0.5, 1.0, 1.0, 2.0])
        if c != 1.0:
            cov.add('cycle: scaled member')
        Rs, Ps = [(X[i], c * alpha[i])], [(X[i + 1], c * alpha[i + 1])]
        if rnd.random() < 0.3:                       # a spectator on both sides cancels
            a = rnd.choice([0.25, 1.0, 2.0])
            Rs.append((spect, a)), Ps.append((spect, a))
            cov.add('cycle: spectator in a member')
        mode = rnd.choice(['fwd', 'fwd', 'written reversed, rev=True', 'written reversed, m<0'])
        if mode != 'fwd':
            Rs, Ps = Ps, Rs
            cov.add('cycle: ' + mode)
        members.append(make_reaction(classes[i], [a for a, _ in Rs], [b for _, b in Rs],
                                     [a for a, _ in Ps], [b for _, b in Ps], [], []))
        flip.append(mode == 'written reversed, rev=True')
        m.append((-1.0 if mode == 'written reversed, m<0' else 1.0) / c)
    net = None
    if not closed:
        net = make_reaction(classes[n], [X[0]], [alpha[0]], [X[n]], [alpha[n]], [], [])
    box = Reactions(reactions=members + ([net] if net is not None else []))
    mism = []
    if len(box) != n + (0 if closed else 1) or any(a is not box[i] for i, a in enumerate(box)):
        mism.append({'what': 'container', 'detail': 'len / iteration / indexing disagree'})
    got_names = set(box.get_species(key='name').keys())
    want_names = {sp.name for r in box for sp in list(r.reactants) + list(r.products)}
    if got_names != want_names:
        mism.append({'what': 'container', 'detail': 'get_species', 'got': sorted(got_names), 'want': sorted(want_names)})
    Tv, f = num_form(rnd, rnd.choice([298.15, 500.0, math.exp(rnd.uniform(math.log(150.), math.log(3000.)))]))
    glob = {'T': Tv, 'P': math.exp(rnd.uniform(math.log(0.01), math.log(100.)))}
    blocks = [(X[rnd.randrange(n)].name, {'P': rnd.uniform(0.01, 100.)})] if rnd.random() < 0.5 else []
    kw, bkeys = build_kwargs(glob, blocks, rnd)
    order = {nm_: j for j, nm_ in enumerate(list(dict.fromkeys([sp.name for sp in X] + [spect.name])))}

    def vec(r):
        v = [0.0] * len(order)
        for sp, nu in zip(r.reactants, r.reactants_stoich):
            v[order[sp.name]] -= float(nu)
        for sp, nu in zip(r.products, r.products_stoich):
            v[order[sp.name]] += float(nu)
        return [to_dec(x) for x in v]
    qs = SUM_Q if statmech else ['Cp', 'H', 'S', 'G']
    events = []
    zero = [0, 0]
    for q in qs:
        dim = ENERGY_UNITS[(case['cseed'] + len(events)) % len(ENERGY_UNITS)] if rnd.random() < 0.3 else None
        extra = {}
        if dim is not None:
            extra['units'] = dim + ('/K' if q in ('Cv', 'Cp', 'S') else '')
        if q == 'E':
            extra['include_ZPE'] = False
        nm = q if dim is not None else DIMLESS[q]
        e = {'ev': 'cycle', 'cls': '+'.join(sorted(set(classes[:len(box)]))), 'q': q, 'dim': dim is not None,
             'closed': closed, 'kb': snapshot(kw)}
        try:
            e['m'] = [to_dec(x) for x in m]
            e['d'] = [fdec(getattr(box[i], 'get_delta_' + nm)(rev=flip[i], **extra, **kw)) for i in range(n)]
            e['sr'] = [fdec(getattr(box[i], 'get_%s_state' % nm)(state='reactants', **extra, **kw)) for i in range(n)]
            e['sp'] = [fdec(getattr(box[i], 'get_%s_state' % nm)(state='products', **extra, **kw)) for i in range(n)]
            e['vec'] = [vec(box[i]) if not flip[i] else [[-a, b] for a, b in vec(box[i])] for i in range(n)]
            if closed:
                e['net'], e['nr'], e['np'], e['netvec'] = zero, zero, zero, [zero] * len(order)
            else:
                e['net'] = fdec(getattr(box[n], 'get_delta_' + nm)(**extra, **kw))
                e['nr'] = fdec(getattr(box[n], 'get_%s_state' % nm)(state='reactants', **extra, **kw))
                e['np'] = fdec(getattr(box[n], 'get_%s_state' % nm)(state='products', **extra, **kw))
                e['netvec'] = vec(box[n])
        except NonFinite:
            continue
        e['ka'] = snapshot(kw)
        events.append(e)
    cov.add('cycle: %d members' % n)
    cov.add('cycle: closed' if closed else 'cycle: with a net reaction')
    for c in set(classes[:len(box)]):
        cov.add('cycle: member of class ' + c)
    info = {'cls': '+'.join(sorted(set(classes[:len(box)]))), 'n': n, 'closed': closed, 'm': m, 'names': names,
            'cov': sorted(cov)}
    return events, mism, info


def _cpu():
    import os
    t = os.times()
    return t[0] + t[1] + t[2] + t[3]


def execute(case):
    try:
        if case['kind'] == 'spy':
            return exec_spy(case)
        if case['kind'] == 'cycle':
            return exec_cycle(case)
        return exec_real(case)
    except core.MachineryError:
        raise
    except Exception as ex:                      # the library raised on a valid case
        import traceback
        tb = traceback.format_exc().strip().splitlines()
        return [], [{'what': 'raised', 'error': '%s: %s' % (type(ex).__name__, ex), 'where': tb[-4:]}], {}


def _exercise(ev, counts):
    """which clause families of Trace_Reaction.tla this event evaluates with a non-trivial antecedent,
    per reaction class and with / without a transition state"""
    cls = ev['cls']

    def inc(k, ts=None):
        k = '%s | %s%s' % (k, cls, '' if ts is None else (' | TS' if ts else ' | noTS'))
        counts[k] = counts.get(k, 0) + 1
    if ev['ev'] == 'iso':
        inc('RouteIsolation')
        return
    if ev['ev'] == 'edit':
        inc('EditedEqualsFresh')
        return
    if ev['ev'] == 'cycle':
        k = 'HessCycle | %s' % ('closed' if ev['closed'] else 'net reaction')
        counts[k] = counts.get(k, 0) + 1
        return
    if ev['ev'] == 'refuse':
        for f in ev['fam']:
            inc('ActWithoutTSRefused/' + f)
        return
    ts = ev['hasTS']
    k = ev['kind']
    inc('CallerKwargsUntouched', ts)
    inc('Antisymmetry+DeltaOfStates/' + k, ts)
    if ev.get('hasSp'):
        names = {x['n'] for s in ('r', 'p', 't') for x in ev['sp'][s]}
        inc('Hess+StateIsWeightedSum' if k == 'sum' else 'QStateIsProduct', ts)
        if any(kk[:-len('_kwargs')] in names for kk in ev['bk']):
            inc('routing: a block addressed to a species of the reaction')
        if any(kk[:-len('_kwargs')] not in names for kk in ev['bk']):
            inc('routing: a block addressed to somebody else')
    if ts:
        inc('ActDifference(delta, act=True)/' + k)
    if ts and ev['hasAct']:
        inc('ActDifference+ActIsDeltaToTS(get_*_act)/' + k)
    if ev.get('hasK'):
        if ev['kfin'][0] and ev['kfin'][2]:
            inc('KeqIsExpMinusDG+KfKrIsOne', ts)
        if ts and ev['kfin'][0] and ev['kfin'][1] and ev['kfin'][3]:
            inc('KeqActRatio')
    if 'sp' not in ev and k == 'sum' and ev.get('dim'):
        inc('dimensional getters', ts)


def _needed():
    need = []
    for c in CLASSES:
        for ts in (' | TS', ' | noTS'):
            need += [f + ' | ' + c + ts for f in
                     ('CallerKwargsUntouched', 'Antisymmetry+DeltaOfStates/sum', 'Antisymmetry+DeltaOfStates/prod',
                      'Hess+StateIsWeightedSum', 'QStateIsProduct', 'KeqIsExpMinusDG+KfKrIsOne',
                      'dimensional getters')]
        need += [f + ' | ' + c for f in
                 ('RouteIsolation', 'routing: a block addressed to a species of the reaction',
                  'routing: a block addressed to somebody else', 'ActDifference(delta, act=True)/sum',
                  'ActDifference(delta, act=True)/prod', 'ActDifference+ActIsDeltaToTS(get_*_act)/sum',
                  'ActDifference+ActIsDeltaToTS(get_*_act)/prod', 'KeqActRatio',
                  'ActWithoutTSRefused/get_delta_XoRT', 'ActWithoutTSRefused/get_delta_X',
                  'ActWithoutTSRefused/get_delta_quantity', 'ActWithoutTSRefused/get_XoRT_act',
                  'ActWithoutTSRefused/get_X_act', 'ActWithoutTSRefused/get_Keq')]
    return need


def _needed_cov():
    need = ['stand-in alphabet %s' % '/'.join(a[k] for k in ('A', 'AB', 'B', 'D', 'Z')) for a in SPY_ALPHABETS]
    need += ['coefficient given as ' + f for f in ('float', 'int', 'np.int64', 'np.float64')]
    need += ['containers given as ' + f for f in ('list', 'tuple', 'ndarray', 'single')]
    need += ['T given as ' + f for f in ('float', 'int', 'np.int64', 'np.float64')]
    need += ['P given as ' + f for f in ('float', 'int', 'np.int64', 'np.float64')] + ['P left to the species default']
    need += ['T = 298.15', 'T = on a bound of the polynomials', 'T = round number']
    need += ['coefficient ' + c for c in ('= 0.25', '= 4', '> 1', 'fractional < 1', '= 1')]
    need += ['the same species on both sides', 'a species listed twice on one side',
             'a reactant also in the transition state']
    need += ['reactants: %d' % i for i in range(1, 5)] + ['products: %d' % i for i in range(1, 5)]
    need += ['TS species: %d' % i for i in range(3)]
    need += ['>= 3 species families in one reaction | ' + c for c in CLASSES] + ['all 4 species families in one reaction']
    need += ['from_string | ' + c for c in CLASSES]
    need += ['from_string species_delimiter %r' % d for d in SPECIES_DELIMS]
    need += ['from_string reaction_delimiter %r' % d for d in REACTION_DELIMS]
    need += ['from_string species given as dict', 'from_string species given as list']
    need += ['units ' + u for u in ENERGY_UNITS]
    need += ['include_ZPE=%s | %s' % (b, q) for b in (True, False) for q in ('q', 'E', 'E (units)')]
    need += ['block carries include_ZPE', 'block for a species that is not in the reaction']
    need += ['block contents {%s}' % c for c in ('', 'T', 'P', 'P,T')]
    need += ['block for a name that is a %s of another species | %s' % (w, c) for w in ('prefix', 'suffix') for c in CLASSES]
    need += ['block for a name ending in a character of _kwargs | ' + c for c in CLASSES]
    need += ['%s given as %s' % (w, f) for w in ('rev', 'act') for f in ('bool', 'int', 'np.bool_')]
    for names in STATE_ALIASES.values():
        need += ['state name %r' % a for a in names] + ['get_delta_quantity state name %r' % a for a in names]
    for c in CLASSES:
        for q in SUM_Q:
            need += ['%s | %s | %s' % (f, q, c) for f in ('get_XoRT_state, get_delta_XoRT', 'get_X_state, get_delta_X',
                                                          'get_state_quantity, get_delta_quantity')]
            if q != 'E' and not (c != 'Reaction' and q in ('H', 'G')):
                need += ['get_XoRT_act | %s | %s' % (q, c), 'get_X_act | %s | %s' % (q, c)]
        need += ['get_XoRT_state, get_delta_XoRT | q | ' + c, 'get_XoRT_act | q | ' + c]
    need += ['edit: %s | %s' % (w, c) for w in EDITS for c in CLASSES]
    need += ['cycle: %d members' % i for i in range(2, 6)]
    need += ['cycle: closed', 'cycle: with a net reaction', 'cycle: scaled member', 'cycle: spectator in a member',
             'cycle: written reversed, rev=True', 'cycle: written reversed, m<0']
    need += ['cycle: member of class ' + c for c in CLASSES]
    return need


def _signature(case, info):
    if case['kind'] == 'cycle':
        return ['cycle', info.get('cls'), info.get('n'), info.get('closed')]
    if case['kind'] == 'spy':
        return ['spy', info.get('cls'), info.get('flavour'), info.get('q'), len(case['r']), len(case['p']),
                len(case['t']), [[b['n'], bool(b['T']), bool(b['P'])] for b in case['blocks']], case['globP']]
    return ['real', info.get('cls'), info.get('mix'), info.get('n'), info.get('bep'), info.get('quarter'),
            len(info.get('blocks', []))]


def run(ctx):
    ctx.coverage['rule'] = (
        'spy cases: every (reaction, caller dictionary) pair emitted by TLC from Reaction.tla (1-2 species '
        'per side over names A/AB/B, coefficients 1/4, 1, 2, transition state absent / D / D + A; T with or '
        'without P; blocks for subsets of {A, AB, D, Z} with contents {}, {T}, {T, P}), replayed with exact '
        'stand-in species on Reaction, ChemkinReaction and SurfaceReaction; real cases: random reactions with '
        '1-4 species per side, 0-2 transition-state species, coefficients 0.25-4, species drawn from StatMech '
        '(gas, adsorbate, ConstantMode), Nasa, Nasa9, Shomate, BEP, log-uniform T and P and 0-4 per-species '
        'blocks. Non-trivial: the caller dictionary holds a block addressed to a species of the reaction, or '
        'the reaction has a transition state, or a coefficient is fractional. Distinct by (class, species '
        'classes, side sizes, block pattern, quantity).')
    rnd = random.Random(ctx.seed)
    if ctx.replay_case is not None:
        cases = [ctx.replay_case['case']]
    else:
        import concurrent.futures as cf
        t0, c0 = time.time(), _cpu()
        variants = (('alias', 'CallerUntouched'), ('prefix', None), ('suffix', None), ('actswap', None),
                    ('actfallback', 'ActDifference'), ('snapshot', 'EditedEqualsFresh'))
        with cf.ThreadPoolExecutor(max_workers=10) as ex:
            f_route = ex.submit(ctx.model, 'MC_Reaction', ctx.pick('MC_Reaction_route', 'MC_Reaction_route_full'), 6)
            f_alg = ex.submit(ctx.model, 'MC_Reaction', ctx.pick('MC_Reaction', 'MC_Reaction_full'), 8)
            f_var = [ex.submit(ctx.model, 'MC_Reaction', 'MC_Reaction_' + v, 1, False) for v, _ in variants]
            f_edit = ex.submit(ctx.model, 'MC_Reaction', 'MC_Reaction_edit', 2)
            f_cases = ex.submit(core.tlc_cases, 'MC_Reaction', 'MC_Reaction_cases')
            f_route.result(), f_alg.result(), f_edit.result()
            for (v, inv), f in zip(variants, f_var):
                r = f.result()
                if r.ok or r.violated is None or (inv and r.violated != inv):
                    raise core.MachineryError('defective variant %s was not rejected as expected:\n%s'
                                              % (v, r.out[-2000:]))
            data, r = f_cases.result()
        ctx.coverage['phase_wall_s'] = {'tlc_models_and_cases': round(time.time() - t0, 1)}
        ctx.coverage['phase_cpu_s'] = {'tlc_models_and_cases': round(_cpu() - c0, 1)}
        ctx.coverage['tlc_cases'] = len(data)
        spy = list(data)
        rnd.shuffle(spy)
        if ctx.quick:
            spy = spy[:1600]
        cases = [dict(c, kind='spy', cseed=rnd.randrange(1 << 30)) for c in spy]
        n_real = ctx.pick(1000, 12000)
        for i in range(n_real):
            cls = CLASSES[i % 3]
            mix = 'empirical' if cls == 'ChemkinReaction' else ['statmech', 'mixed', 'empirical', 'statmech'][(i // 3) % 4]
            cases.append({'kind': 'real', 'cls': cls, 'mix': mix, 'cseed': rnd.randrange(1 << 30)})
        for i in range(ctx.pick(160, 2400)):
            cases.append({'kind': 'cycle', 'n': 2 + i % 4, 'closed': (i // 4) % 2 == 0, 'cls': CLASSES[i % 3],
                          'cseed': rnd.randrange(1 << 30)})
    t0, c0 = time.time(), _cpu()
    results = core.pmap(execute, cases)
    ctx.coverage.setdefault('phase_wall_s', {})['library_runs'] = round(time.time() - t0, 1)
    ctx.coverage.setdefault('phase_cpu_s', {})['library_runs'] = round(_cpu() - c0, 1)
    traces = []
    exercise = {}
    covered = {}
    skipped = 0
    for tid, (case, (events, mism, info)) in enumerate(zip(cases, results)):
        ctx.evaluated()
        tags = {'kind': case['kind'], 'cls': info.get('cls') or case.get('cls')}
        for m in mism:
            clause = {'raised': 'Raises', 'route': 'ReplayRoute', 'kwargs': 'ReplayKwargsUntouched',
                      'refusal': 'ReplayActRefused', 'container': 'ReplayContainer'}.get(
                m['what'], 'ReplayState')
            ctx.violation(clause, case, tags=dict(tags, q=m.get('q')), detail=m)
        skipped += len(info.get('skipped_nonfinite', []))
        for c in info.get('cov', []):
            covered[c] = covered.get(c, 0) + 1
        if case['kind'] == 'spy':
            nontriv = bool(case['blocks']) or case['hasTS']
        elif case['kind'] == 'cycle':
            nontriv = True
        else:
            nontriv = bool(info.get('blocks')) or (info.get('n') or [0, 0, 0])[2] > 0 or not info.get('quarter', True)
        if nontriv and info:
            ctx.nontrivial(_signature(case, info))
        traces.append((tid, events))
        for ev in events:
            _exercise(ev, exercise)
        if tid % 997 == 0:
            ctx.sample({'case': {k: v for k, v in case.items() if k not in ('route',)}, 'info': info})
    t0, c0 = time.time(), _cpu()
    fails, stats = core.validate_traces('Trace_Reaction', 'Trace', traces)
    ctx.coverage['phase_wall_s']['trace_validation'] = round(time.time() - t0, 1)
    ctx.coverage['phase_cpu_s']['trace_validation'] = round(_cpu() - c0, 1)
    ctx.count('traces_validated_against_impl', len([t for t in traces if t[1]]))
    ctx.coverage['trace_lines'] = stats['lines']
    ctx.coverage['events_skipped_nonfinite'] = skipped
    ctx.coverage['clause_exercise'] = dict(sorted(exercise.items()))
    if ctx.replay_case is None:
        need = _needed() + ['HessCycle | closed', 'HessCycle | net reaction'] + ['EditedEqualsFresh | ' + c for c in CLASSES]
        ctx.coverage['input_classes'] = dict(sorted(covered.items()))
        missing = [k for k in _needed_cov() if covered.get(k, 0) == 0]
        # a case in which the library raised cannot report its classes: the Raises violations are the verdict
        raised = any(v['clause'] == 'Raises' for v in ctx.violations)
        if missing and not raised:
            raise core.MachineryError('input classes of the quantifier never generated: %s' % missing)
        vac = [k for k in need if exercise.get(k, 0) < 5]
        if vac and not raised:
            raise core.MachineryError('vacuous clauses (never exercised non-trivially): %s' % vac)
    per_clause = {}
    for tid, idx, clause in fails:
        case = cases[tid]
        ev = results[tid][0][idx]
        tags = {'kind': case['kind'], 'cls': ev.get('cls'), 'q': ev.get('q'), 'ev': ev.get('ev')}
        if case['kind'] == 'real':
            tags['built'] = results[tid][2].get('construction', {}).get('how')
        if ev.get('ev') == 'edit':
            tags['edit'] = ev.get('what')
        if ev.get('ev') == 'refuse':
            tags['getters'] = ','.join(sorted({g.split('(')[0] for g, o in zip(ev['g'], ev['out']) if o == 'value'}))
        per_clause[clause] = per_clause.get(clause, 0) + 1
        ctx.violation(clause, case, tags=tags, detail={'info': results[tid][2], 'event': ev})
    ctx.assume('exp(-delta G/RT) is a libm sensor computed from the logged get_delta_GoRT value')
    ctx.assume('a species\' own getter called with plain keywords (no *_kwargs entries) is the reference for its '
               'contribution; which keyword set applies is decided by the specification from the logged keys')
    ctx.assume('partition functions: coefficients are multiples of 1/4 when the product clause is evaluated '
               '(q_state^4 = prod q_i^(4 nu_i) by repeated multiplication); otherwise only the ratio clauses')
    ctx.assume('relative errors below ~1e-6 (1e-5 for the partition-function product) are invisible')


if __name__ == '__main__':
    core.main('C08', 'model_checking', run)
