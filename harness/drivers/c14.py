"""C14 - reaction strings print and parse as inverses; the balance check is exact;
formulas parse to their element counts.

(D)    spec/MC_RxnString (printing + reading reaction strings, lexer automaton),
       spec/MC_Formula (formula reader), spec/MC_Balance (Counter-shaped totals) are
       checked exhaustively by TLC; the implementation-shaped variants that
       reproduce a defect ("trunc" printer, "overwrite" formula reader, "dict"
       totals) must be rejected.
(S->C) spec/Gen_C14 emits every case of the bounded families with the abstract
       result computed by TLC (names + coefficients in thousandths, Balanced,
       element counts); each is run through the real Reaction.to_string /
       from_string / pmutt.io.ring.read_reactions / check_element_balance /
       parse_formula and the discrete projection is compared by equality.
(C->S) those runs plus random cases drawn from the property's quantifier are
       recorded as NDJSON and judged line by line by spec/Trace_RxnString.tla.

Python only builds inputs, calls the library and projects what it saw (text ->
character codes, float -> text of repr); every relation is evaluated by TLC.
"""
import concurrent.futures as cf
import json
import os
import random
import re
import string
import tempfile
import warnings
from decimal import Decimal

from harness import core
from harness.core import to_dec_exact

NAME_FIRST = string.ascii_letters + '()*_'
NAME_REST = NAME_FIRST + string.digits
DELIM_PAIRS = [('+', '='), ('+', '<=>'), ('.', '>>'), (' ; ', '<=>'), ('|', '->'), ('+', ' = '),
               (',', '=>'), (' + ', ' = '), ('&', '<->'), ('+', '>>'), (' . ', ' >> '), (';', ':')]
ELEMENT_SYMBOLS = ['H', 'He', 'C', 'N', 'O', 'F', 'Na', 'Mg', 'Al', 'Si', 'P', 'S', 'Cl', 'K', 'Ca',
                   'Fe', 'Co', 'Ni', 'Cu', 'Zn', 'Pt', 'Pd', 'Au', 'Ag', 'Os', 'B', 'Br', 'I', 'W', 'U']
_NUMERAL = re.compile(r'^\d{1,9}(\.\d{0,18})?$')


def codes(s):
    return [ord(ch) for ch in s]


def uncodes(c):
    return ''.join(chr(x) for x in c)


def num_repr(x):
    """repr of a float as a plain numeral the specification can read exactly."""
    s = repr(float(x))
    if not _NUMERAL.match(s):
        raise core.MachineryError('coefficient %r is outside the numeral range of the specification' % (x,))
    return s


def fx_to_str(fx):
    i, f1, f2 = fx
    s = ('%d.%09d%09d' % (i, f1, f2)).rstrip('0')
    return s + '0' if s.endswith('.') else s


def thousandths(x):
    d = Decimal(repr(float(x))) * 1000
    return int(d) if d == d.to_integral_value() else str(d)


def _species(names, elements=None):
    from pmutt.statmech import StatMech
    return {n: StatMech(name=n, elements=(elements or {}).get(n)) for n in names}


def _proj(rx):
    """Reaction -> names and coefficients as they are."""
    def side(sp, st):
        return [[s.name, float(c)] for s, c in zip(sp, st)]
    has_ts = rx.transition_state is not None
    return {'re': side(rx.reactants, rx.reactants_stoich),
            'pr': side(rx.products, rx.products_stoich),
            'ts': side(rx.transition_state, rx.transition_state_stoich) if has_ts else [],
            'hasTS': has_ts}


def _proj_ev(p):
    return {k: ([[codes(n), codes(num_repr(c))] for n, c in p[k]] if k != 'hasTS' else p[k])
            for k in ('re', 'pr', 'ts', 'hasTS')}


def _proj_units(p):
    return {k: ([[n, thousandths(c)] for n, c in p[k]] if k != 'hasTS' else p[k])
            for k in ('re', 'pr', 'ts', 'hasTS')}


def _err_text(ex):
    msg = ex.args[0] if (ex.args and isinstance(ex.args[0], str)) else str(ex)
    return '%s: %s' % (type(ex).__name__, msg)


def _pad(text, spd, rxd, pad):
    b, a, e = pad
    if b or a:
        text = text.replace(rxd, '\x00').replace(spd, ' ' * b + spd + ' ' * a)
        text = text.replace('\x00', ' ' * b + rxd + ' ' * a)
    return ' ' * e + text + ' ' * e


def _parse_event(text, spd, rxd, species, strict, src):
    from pmutt.reaction import Reaction
    ev = {'ev': 'parse', 'text': codes(text), 'spd': codes(spd), 'rxd': codes(rxd),
          'known': [codes(n) for n in sorted(species)], 'strict': bool(strict), 'src': src,
          'ok': False, 're': [], 'pr': [], 'ts': [], 'hasTS': False, 'err': [], 'warns': []}
    got = None
    with warnings.catch_warnings(record=True) as w:
        warnings.simplefilter('always')
        try:
            rx = Reaction.from_string(text, dict(species), species_delimiter=spd,
                                      reaction_delimiter=rxd, raise_error=strict)
            got = _proj(rx)
        except core.MachineryError:
            raise
        except Exception as ex:
            ev['err'] = codes(_err_text(ex))
    if got is not None:
        ev.update(_proj_ev(got))
        ev['ok'] = True
    ev['warns'] = [codes(str(x.message)) for x in w if issubclass(x.category, RuntimeWarning)]
    return ev, got


def _ring_event(lines, spd, rxd, species):
    from pmutt.io.ring import read_reactions
    ev = {'ev': 'ring', 'lines': [codes(ln) for ln in lines], 'spd': codes(spd), 'rxd': codes(rxd),
          'known': [codes(n) for n in sorted(species)], 'ok': False, 'err': [], 'rxns': []}
    fd, path = tempfile.mkstemp(prefix='c14_ring_', suffix='.txt')
    with os.fdopen(fd, 'w') as f:
        f.write('\n'.join(lines) + '\n')
    got = None
    try:
        rxns = read_reactions(path, dict(species), species_delimiter=spd, reaction_delimiter=rxd)
        got = [_proj(rx) for rx in rxns.reactions]
    except core.MachineryError:
        raise
    except Exception as ex:
        ev['err'] = codes(_err_text(ex))
    finally:
        os.unlink(path)
    if got is not None:
        ev['rxns'] = [_proj_ev(g) for g in got]
        ev['ok'] = True
    return ev, got


def _ring_lines(text):
    return ['RING reaction list', text, '', 'pathway 12 of species list']


# --------------------------------------------------------------------------
# execution of one case against the real library
# --------------------------------------------------------------------------
def _exec_print(case):
    from pmutt.reaction import Reaction
    r = case['r']
    spd, rxd, d = case['spd'], case['rxd'], case['d']
    inc_ts = case.get('incTS', True)
    names = sorted({n for k in ('re', 'ts', 'pr') for n, _ in r[k]})
    sp = _species(names)
    has_ts = bool(r['ts'])

    def side(k):
        return [sp[n] for n, _ in r[k]], [float(c) for _, c in r[k]]

    def side_ev(k):
        return [[codes(n), codes(num_repr(float(c)))] for n, c in r[k]]
    (re_s, re_c), (pr_s, pr_c), (ts_s, ts_c) = side('re'), side('pr'), side('ts')
    rxn = Reaction(reactants=re_s, reactants_stoich=re_c, products=pr_s, products_stoich=pr_c,
                   transition_state=ts_s if has_ts else None,
                   transition_state_stoich=ts_c if has_ts else None)
    ev = {'ev': 'print', 're': side_ev('re'), 'pr': side_ev('pr'), 'ts': side_ev('ts'),
          'hasTS': has_ts, 'incTS': bool(inc_ts), 'spd': codes(spd), 'rxd': codes(rxd), 'd': d,
          'space': bool(case['space']), 'raised': False, 'out': []}
    mism = []
    try:
        out = rxn.to_string(species_delimiter=spd, reaction_delimiter=rxd, stoich_format='.%df' % d,
                            stoich_space=bool(case['space']), include_TS=inc_ts)
    except Exception as ex:
        ev['raised'] = True
        return [ev], [{'raised': _err_text(ex), 'call': 'to_string'}]
    ev['out'] = codes(out)
    padded = _pad(out, spd, rxd, case['pad'])
    pev, got = _parse_event(padded, spd, rxd, sp, True, 'printed')
    events = [ev, pev]
    rgot = None
    if case.get('ring'):
        rev, rgot = _ring_event(_ring_lines(padded), spd, rxd, sp)
        events.append(rev)
    exp = case.get('expect')
    if exp is not None:
        if got is None:
            mism.append({'call': 'from_string', 'raised': uncodes(pev['err']), 'text': padded})
        elif _proj_units(got) != exp:
            mism.append({'call': 'to_string+from_string', 'text': out, 'expected': exp,
                         'got': _proj_units(got)})
        if case.get('ring') and (rgot is None or [_proj_units(g) for g in rgot] != [exp]):
            mism.append({'call': 'read_reactions', 'text': padded, 'expected': [exp],
                         'got': None if rgot is None else [_proj_units(g) for g in rgot]})
    return events, mism


def _exec_hand(case):
    text, spd, rxd = case['text'], case['spd'], case['rxd']
    names = case['names']
    missing = case.get('missing')
    strict = case.get('strict', True)
    sp = _species([n for n in names if n != missing])
    pev, got = _parse_event(text, spd, rxd, sp, strict, 'hand')
    events = [pev]
    mism = []
    rgot = None
    use_ring = case.get('ring') and missing is None
    if use_ring:
        rev, rgot = _ring_event(_ring_lines(text), spd, rxd, sp)
        events.append(rev)
    exp = case.get('expect')
    if exp is not None:
        if missing is not None:
            if got is not None or uncodes(pev['err']).split(':')[0] != 'KeyError':
                mism.append({'call': 'from_string', 'text': text, 'expected': 'KeyError (%s unknown)' % missing,
                             'got': uncodes(pev['err']) if got is None else _proj_units(got)})
        elif got is None:
            mism.append({'call': 'from_string', 'raised': uncodes(pev['err']), 'text': text})
        elif _proj_units(got) != exp:
            mism.append({'call': 'from_string', 'text': text, 'expected': exp, 'got': _proj_units(got)})
        if use_ring and (rgot is None or [_proj_units(g) for g in rgot] != [exp]):
            mism.append({'call': 'read_reactions', 'text': text, 'expected': [exp],
                         'got': None if rgot is None else [_proj_units(g) for g in rgot]})
    return events, mism


def _exec_ring(case):
    sp = _species(case['names'])
    rev, _ = _ring_event(case['lines'], case['spd'], case['rxd'], sp)
    return [rev], []


def _exec_balance(case):
    from pmutt.reaction import Reaction
    from pmutt.statmech import StatMech

    def side(k):
        sps = [StatMech(name='%s%d' % (k, i), elements=dict((e, n) for e, n in comp))
               for i, (_, comp) in enumerate(case[k])]
        return sps, [float(c) for c, _ in case[k]]

    def side_ev(k):
        return [[to_dec_exact(float(c)), [[codes(e), int(n)] for e, n in comp]] for c, comp in case[k]]
    has_ts = bool(case['hasTS'])
    (re_s, re_c), (pr_s, pr_c), (ts_s, ts_c) = side('re'), side('pr'), side('ts')
    rxn = Reaction(reactants=re_s, reactants_stoich=re_c, products=pr_s, products_stoich=pr_c,
                   transition_state=ts_s if has_ts else None,
                   transition_state_stoich=ts_c if has_ts else None)
    ev = {'ev': 'balance', 're': side_ev('re'), 'pr': side_ev('pr'), 'ts': side_ev('ts') if has_ts else [],
          'hasTS': has_ts, 'accepted': True, 'err': []}
    try:
        rxn.check_element_balance()
    except Exception as ex:
        ev['accepted'] = False
        ev['err'] = codes(_err_text(ex)[:200])
    mism = []
    exp = case.get('balanced')
    if exp is not None and ev['accepted'] != exp:
        mism.append({'call': 'check_element_balance', 'expected_accept': exp, 'accepted': ev['accepted'],
                     'error': uncodes(ev['err'])})
    return [ev], mism


def _exec_formula(case):
    from pmutt import parse_formula
    text = ''.join(sym + (str(n) if n else '') for sym, n in case['items'])
    ev = {'ev': 'formula', 'text': codes(text), 'items': [[codes(s), int(n)] for s, n in case['items']],
          'result': [], 'raised': False}
    mism = []
    try:
        res = parse_formula(text)
    except Exception as ex:
        ev['raised'] = True
        return [ev], [{'call': 'parse_formula', 'raised': _err_text(ex), 'text': text}]
    pairs = [[k, int(v) if (isinstance(v, int) or float(v).is_integer()) else -1] for k, v in res.items()]
    ev['result'] = [[codes(k), v] for k, v in pairs]
    exp = case.get('expect')
    if exp is not None and sorted(pairs) != sorted(exp):
        mism.append({'call': 'parse_formula', 'text': text, 'expected': sorted(exp), 'got': sorted(pairs)})
    return [ev], mism


_EXEC = {'print': _exec_print, 'hand': _exec_hand, 'ring': _exec_ring, 'balance': _exec_balance,
         'formula': _exec_formula}


def execute(case):
    return _EXEC[case['kind']](case)


def _safe_execute(case):
    try:
        return execute(case)
    except core.MachineryError:
        raise
    except Exception as ex:          # the library raised outside a recorded call (constructor)
        return [], [{'raised': _err_text(ex), 'call': 'constructor'}]


# --------------------------------------------------------------------------
# cases from TLC (S->C)
# --------------------------------------------------------------------------
def _exp_from_tlc(e):
    return {k: ([[uncodes(x['nm']), x['u']] for x in e[k]] if k != 'hasTS' else e[k])
            for k in ('re', 'pr', 'ts', 'hasTS')}


def _rxn_from_tlc(c, k):
    spd, rxd = uncodes(c['spd']), uncodes(c['rxd'])
    exp = _exp_from_tlc(c['expect'])
    ring = (spd == '.' and rxd == '>>') or k % 4 == 0
    if c['kind'] == 'print':
        r = {s: [[uncodes(x['nm']), fx_to_str(x['co'])] for x in c['r'][s]] for s in ('re', 'ts', 'pr')}
        return {'kind': 'print', 'src': 'tlc', 'r': r, 'd': c['d'], 'space': c['space'], 'spd': spd,
                'rxd': rxd, 'pad': list(c['pad']), 'expect': exp, 'ring': ring}
    names = sorted({n for s in ('re', 'ts', 'pr') for n, _ in exp[s]})
    case = {'kind': 'hand', 'src': 'tlc', 'text': uncodes(c['text']), 'spd': spd, 'rxd': rxd,
            'names': names, 'expect': exp, 'ring': ring}
    if k % 5 == 1:                                   # one name taken out of the species dictionary
        case['missing'] = names[(k // 5) % len(names)]
    return case


def _bal_from_tlc(c):
    def side(s):
        return [['%d.%d' % (x['co'] // 10, x['co'] % 10), [[e, n] for e, n in x['comp']]] for x in s]
    return {'kind': 'balance', 'src': 'tlc', 're': side(c['re']), 'pr': side(c['pr']), 'ts': side(c['ts']),
            'hasTS': c['hasTS'], 'balanced': c['balanced']}


def _for_from_tlc(c):
    return {'kind': 'formula', 'src': 'tlc', 'items': [[uncodes(x['sym']), x['n']] for x in c['items']],
            'expect': [[uncodes(x['sym']), x['n']] for x in c['expect']]}


# --------------------------------------------------------------------------
# random cases from the property's quantifier (C->S)
# --------------------------------------------------------------------------
def _rand_name(rnd, avoid=()):
    while True:
        n = rnd.choice(NAME_FIRST) + ''.join(rnd.choice(NAME_REST) for _ in range(rnd.randint(0, 7)))
        if n not in avoid:
            return n


def _rand_delims(rnd):
    if rnd.random() < 0.7:
        return rnd.choice(DELIM_PAIRS)
    alphabet = '|;,&~^:!#<=>-/+@'
    while True:
        spd = ''.join(rnd.choice(alphabet) for _ in range(rnd.randint(1, 2)))
        rxd = ''.join(rnd.choice(alphabet) for _ in range(rnd.randint(1, 3)))
        if spd not in rxd and rxd not in spd:
            if rnd.random() < 0.3:
                spd, rxd = ' %s ' % spd, ' %s ' % rxd
            return spd, rxd


def _rand_coef(rnd, integers_only):
    m = rnd.random()
    if integers_only or m < 0.2:
        return float(rnd.randint(1, 12))
    if m < 0.3:
        return 1.0
    if m < 0.6:
        return round(rnd.uniform(0.01, 20.0), rnd.choice([1, 2, 3, 4]))
    if m < 0.7:
        return rnd.choice([0.5, 0.25, 1.5, 2.5, 0.125, 0.375, 1.0 / 3.0, 2.0 / 3.0, 0.1 + 0.2, 0.7 + 0.1])
    if m < 0.85:                        # arithmetic results next to an integer
        n = rnd.randint(1, 12)
        return rnd.choice([n * (1 - 2.0 ** -53), n * (1 + 2.0 ** -52), 0.1 * 3 * 10 * n / 3.0,
                           (0.1 * n) * 10, n - 1e-12, n + 1e-12])
    return rnd.uniform(0.01, 20.0)


def _random_print(rnd):
    spd, rxd = _rand_delims(rnd)
    ints = '.' in spd or '.' in rxd
    used = set()

    def side(n):
        out = []
        for _ in range(n):
            nm = _rand_name(rnd, used)
            used.add(nm)
            out.append([nm, repr(_rand_coef(rnd, ints))])
        return out
    r = {'re': side(rnd.randint(1, 4)), 'pr': side(rnd.randint(1, 4)),
         'ts': side(1) if rnd.random() < 0.4 else []}
    return {'kind': 'print', 'src': 'random', 'r': r, 'd': rnd.randint(0, 3), 'space': rnd.random() < 0.5,
            'spd': spd, 'rxd': rxd, 'pad': [rnd.randint(0, 2), rnd.randint(0, 2), rnd.randint(0, 2)],
            'incTS': rnd.random() < 0.9, 'ring': rnd.random() < 0.25}


def _rand_numeral(rnd, integers_only):
    m = rnd.random()
    if m < 0.25:
        return ''
    if integers_only or m < 0.5:
        s = str(rnd.randint(0, 30))
        return ('0' + s) if rnd.random() < 0.1 else s
    s = '%d.%s' % (rnd.randint(0, 20), ''.join(rnd.choice(string.digits) for _ in range(rnd.randint(0, 4))))
    if float(s) != 0.0 and float(s) < 0.001:
        s = '0.5'
    return s


def _random_hand_text(rnd, spd, rxd, n_ts=None):
    ints = '.' in spd or '.' in rxd
    pool = [_rand_name(rnd) for _ in range(4)]

    names = set()
    last = []

    def side(n):
        toks = []
        del last[:]
        for _ in range(n):
            nm = rnd.choice(pool) if rnd.random() < 0.5 else _rand_name(rnd)
            names.add(nm)
            last.append(nm)
            num = _rand_numeral(rnd, ints)
            toks.append((num + ' ' * rnd.randint(0, 2) + nm) if num else nm)
        return toks, None
    states = [side(rnd.randint(1, 4))[0]]
    ts_name = None
    if (rnd.random() < 0.35) if n_ts is None else n_ts:
        states.append(side(1)[0])
        ts_name = last[0]
    states.append(side(rnd.randint(1, 4))[0])

    def sp():
        return ' ' * rnd.randint(0, 3)
    text = sp() + (sp() + rxd + sp()).join((sp() + spd + sp()).join(st) for st in states) + sp()
    return text, sorted(names), ts_name


def _random_hand(rnd):
    spd, rxd = _rand_delims(rnd)
    text, names, ts_name = _random_hand_text(rnd, spd, rxd)
    case = {'kind': 'hand', 'src': 'random', 'text': text, 'spd': spd, 'rxd': rxd, 'names': names,
            'ring': rnd.random() < 0.25}
    m = rnd.random()
    if m < 0.2:
        case['missing'] = ts_name if (ts_name is not None and rnd.random() < 0.5) else rnd.choice(names)
        case['strict'] = rnd.random() < 0.6
    return case


def _random_ring(rnd):
    spd, rxd = rnd.choice([('.', '>>'), ('.', '>>'), ('+', '='), (' . ', ' >> ')])
    lines, names = [], set()
    for _ in range(rnd.randint(1, 4)):
        if rnd.random() < 0.3:
            lines.append(rnd.choice(['', 'comment', 'species list', 'pathway 7']))
        else:
            text, nms, _ = _random_hand_text(rnd, spd, rxd)
            lines.append(text)
            names.update(nms)
    return {'kind': 'ring', 'src': 'random', 'lines': lines, 'spd': spd, 'rxd': rxd, 'names': sorted(names)}


def _dec_str(units, places=4):
    """units of 10^-places -> decimal text"""
    s = '%d.%0*d' % (units // 10 ** places, places, units % 10 ** places)
    return s.rstrip('0').rstrip('.') if '.' in s else s


def _random_balance(rnd):
    """Reactions that are balanced by construction (regrouping the same atoms with decimal
    coefficients), perturbed ones, and independent random ones."""
    els = rnd.sample(['C', 'H', 'O', 'N', 'Pt', 'Cl'], rnd.randint(1, 4))

    def comp():
        c = [[e, rnd.choice([0, 1, 1, 2, 3, 4, 6, 12])] for e in rnd.sample(els, rnd.randint(1, len(els)))]
        if all(n == 0 for _, n in c):
            c[0][1] = 1
        return c
    places = rnd.choice([1, 1, 2, 4])
    unit = 10 ** (4 - places)

    def coef():                                   # in units of 10^-4, value <= 5
        return rnd.randint(1, 5 * 10 ** places) * unit
    re_side = [[coef(), comp()] for _ in range(rnd.randint(1, 3))]
    mode = rnd.random()
    pr_side = []
    if mode < 0.75:
        for c, cp in re_side:                     # regroup every reactant term on the product side
            how = rnd.random()
            if how < 0.35 and c >= 2 * unit:      # split the coefficient
                a = rnd.randint(1, c // unit - 1) * unit
                pr_side += [[a, [list(x) for x in cp]], [c - a, [list(x) for x in cp]]]
            elif how < 0.7:                       # scale: c * (k * comp)  ->  (c * k) * comp
                k = rnd.choice([2, 3, 5, 7])
                pr_side.append([c * k, [list(x) for x in cp]])
                cp[:] = [[e, n * k] for e, n in cp]
            else:
                pr_side.append([c, [[e, n] for e, n in cp if n or rnd.random() < 0.5]])
        rnd.shuffle(pr_side)
        pr_side = pr_side[:4] if len(pr_side) <= 4 else None
    if pr_side is None or mode >= 0.75 or not pr_side:
        pr_side = [[coef(), comp()] for _ in range(rnd.randint(1, 3))]
    ts_side = []
    if rnd.random() < 0.4:
        ts_side = [[c, [list(x) for x in cp]] for c, cp in (re_side if rnd.random() < 0.5 else pr_side)]
        if len(ts_side) > 1 and rnd.random() < 0.5:      # one lumped transition state species
            tot = {}
            for c, cp in ts_side:
                for e, n in cp:
                    tot[e] = tot.get(e, 0) + c * n
            if all(v % unit == 0 and v // unit <= 999 for v in tot.values()):
                ts_side = [[unit, [[e, v // unit] for e, v in tot.items()]]]
    if rnd.random() < 0.3:                        # perturb one count or one coefficient
        sd = rnd.choice([s for s in (re_side, pr_side, ts_side) if s])
        t = rnd.choice(sd)
        if rnd.random() < 0.5:
            t[1][0][1] += 1
        else:
            t[0] += unit
    ok = all(0 < c <= 200000 and all(0 <= n <= 999 for _, n in cp)
             for sd in (re_side, pr_side, ts_side) for c, cp in sd)
    if not ok:
        return _random_balance(rnd)

    def out(sd):
        return [[_dec_str(c), cp] for c, cp in sd]
    return {'kind': 'balance', 'src': 'random', 're': out(re_side), 'pr': out(pr_side), 'ts': out(ts_side),
            'hasTS': bool(ts_side)}


def _random_formula(rnd):
    pool = rnd.sample(ELEMENT_SYMBOLS, rnd.randint(1, 5))
    items = []
    for _ in range(rnd.randint(1, 8)):
        m = rnd.random()
        n = 0 if m < 0.3 else rnd.randint(1, 9) if m < 0.7 else rnd.randint(10, 999)
        items.append([rnd.choice(pool), n])
    return {'kind': 'formula', 'src': 'random', 'items': items}


# --------------------------------------------------------------------------
# classification of a case (tags for known-finding matchers, coverage signature)
# --------------------------------------------------------------------------
def _tags(case):
    t = {'kind': case['kind'], 'src': case.get('src', 'replay')}
    if case['kind'] == 'print':
        cs = [float(c) for k in ('re', 'ts', 'pr') for _, c in case['r'][k]]
        t['near_integer_inexact'] = any(c != round(c) and abs(c - round(c)) < 1e-9 for c in cs)
    if case['kind'] == 'balance':
        t['decimal_coefficients'] = any('.' in c for k in ('re', 'ts', 'pr') for c, _ in case[k])
    return t


def _nontrivial(case):
    k = case['kind']
    if k == 'print':
        return any(float(c) != 1.0 for s in ('re', 'ts', 'pr') for _, c in case['r'][s])
    if k == 'hand':
        return any(ch.isdigit() for ch in case['text'])
    if k == 'ring':
        return any(case['rxd'] in ln for ln in case['lines'])
    if k == 'balance':
        return True
    return len(case['items']) >= 1


def _signature(case):
    return json.dumps({k: v for k, v in case.items() if k not in ('expect', 'balanced', 'src')},
                      sort_keys=True)


_REPLAY_CLAUSE = {'print': 'ReplayRoundTrip', 'hand': 'ReplayParse', 'ring': 'ReplayRing',
                  'balance': 'ReplayBalance', 'formula': 'ReplayFormula'}


def _vacuity(ctx, cases, traces):
    """Run the trace spec once more on a sample that contains every bucket of cases and read
    register 2 (situation counts): a clause whose antecedent never held would be vacuous."""
    buckets = {}
    for tid, case in enumerate(cases):
        key = (case['kind'], case.get('src'), 'missing' in case, case.get('strict', True),
               bool(case.get('hasTS')), bool(case.get('ring')))
        buckets.setdefault(key, []).append(tid)
    pick = set()
    for tids in buckets.values():
        pick.update(tids[:40])
    pick.update(range(0, len(cases), max(1, len(cases) // 800)))
    d = tempfile.mkdtemp(prefix='c14_vac_')
    try:
        path = os.path.join(d, 'trace.ndjson')
        n = 0
        with open(path, 'w') as f:
            for tid in sorted(pick):
                for ev in traces[tid][1]:
                    f.write(json.dumps(dict(ev, tid=tid), separators=(',', ':')) + '\n')
                    n += 1
        r = core.run_tlc('Trace_RxnString', 'Trace', env={'TRACE_FILE': path, 'VACUITY': '1'}, workers=1, timeout=1500,
                         metadir=os.path.join(d, 'meta'))
    finally:
        import shutil
        shutil.rmtree(d, ignore_errors=True)
    seen = None
    for pv in r.prints():
        if core.tagged(pv, 'SEEN'):
            seen = core.parse_tla(pv)[1]
    if r.rc != 0 or not isinstance(seen, dict):
        raise core.MachineryError('vacuity pass of Trace_RxnString failed:\n' + r.out[-3000:])
    ctx.coverage['situations_in_sample'] = {'lines': n, 'counts': seen}
    never = sorted(k for k, v in seen.items() if v == 0)
    if never:
        raise core.MachineryError('vacuous: no recorded line exercised %s' % never)


def _run_models(ctx):
    """(D): the design models side by side; variants that reproduce a defect must be rejected."""
    th = not ctx.quick
    jobs = [('MC_RxnString', 'MC_RxnString_thorough' if th else 'MC_RxnString', True, 8),
            ('MC_RxnString', 'MC_RxnString_trunc', False, 2),
            ('MC_Formula', 'MC_Formula_thorough' if th else 'MC_Formula', True, 4),
            ('MC_Formula', 'MC_Formula_overwrite', False, 1),
            ('MC_Balance', 'MC_Balance_thorough' if th else 'MC_Balance', True, 4),
            ('MC_Balance', 'MC_Balance_dict', False, 1)]
    gens = ['rxn', 'balance', 'formula']
    env = {'SCOPE': 'quick' if ctx.quick else 'thorough'}
    with cf.ThreadPoolExecutor(max_workers=len(jobs) + len(gens)) as ex:
        mf = [ex.submit(core.run_tlc, m, c, None, w, None, 1800) for m, c, _, w in jobs]
        gf = [ex.submit(core.tlc_cases, 'Gen_C14', 'Gen_C14', dict(env, PART=p), 1500) for p in gens]
        mres = [f.result() for f in mf]
        gres = [f.result() for f in gf]
    for (m, c, expect_ok, _), r in zip(jobs, mres):
        ctx.count('states', r.distinct)
        ctx.count('transitions', r.states)
        ctx.coverage.setdefault('models', []).append(
            {'module': m, 'cfg': c, 'distinct_states': r.distinct, 'states_generated': r.states,
             'depth': r.depth, 'ok': r.ok, 'violated': r.violated, 'wall_s': round(r.wall, 1)})
        if expect_ok and not r.ok:
            raise core.MachineryError('design model %s/%s failed:\n%s' % (m, c, r.out[-4000:]))
        if not expect_ok:
            if r.ok or r.violated != 'Requirement':
                raise core.MachineryError('variant %s/%s should be rejected by invariant Requirement:\n%s'
                                          % (m, c, r.out[-2000:]))
            ctx.notes.append('design model %s rejects the defect-shaped variant (Requirement violated)' % c)
    data = {}
    for p, (d, _) in zip(gens, gres):
        data[p] = d[p]
    return data


def run(ctx):
    ctx.coverage['rule'] = (
        'a case is one of: print (a reaction with 1-4 species per side, coefficients, optional TS, '
        'delimiters, format .0f-.3f, blanks; printed, padded, read back and read through a RING file), '
        'hand (a hand-written reaction string with integer/decimal/omitted coefficients, repeated and '
        'unknown species), ring (a file of several lines), balance (a reaction with compositions and '
        'decimal coefficients) or formula (a sequence of symbol[count] items). TLC cases are the complete '
        'bounded families of RxnCases/Balance/Formula with TLC-computed expectations; random cases are drawn '
        'from the quantifier of the property. Non-trivial: a print case has a coefficient other than 1, a '
        'hand case a written coefficient, a ring case a reaction line; distinct by the full case content')
    if ctx.replay_case is not None:
        cases = [ctx.replay_case['case']]
    else:
        data = _run_models(ctx)
        rnd = random.Random(ctx.seed)
        cases = [_rxn_from_tlc(c, k) for k, c in enumerate(data['rxn'])]
        cases += [_bal_from_tlc(c) for c in data['balance']]
        cases += [_for_from_tlc(c) for c in data['formula']]
        ctx.coverage['tlc_cases'] = {k: len(v) for k, v in data.items()}
        for _ in range(ctx.pick(2000, 40000)):
            cases.append(_random_print(rnd))
        for _ in range(ctx.pick(2000, 40000)):
            cases.append(_random_hand(rnd))
        for _ in range(ctx.pick(400, 6000)):
            cases.append(_random_ring(rnd))
        for _ in range(ctx.pick(2500, 50000)):
            cases.append(_random_balance(rnd))
        for _ in range(ctx.pick(1500, 30000)):
            cases.append(_random_formula(rnd))
    results = core.pmap(_safe_execute, cases)
    traces = []
    kinds = {}
    for tid, (case, (events, mism)) in enumerate(zip(cases, results)):
        ctx.evaluated()
        kinds[case['kind']] = kinds.get(case['kind'], 0) + 1
        if _nontrivial(case):
            ctx.nontrivial(_signature(case))
        for m in mism:
            clause = 'Raises' if 'raised' in m else _REPLAY_CLAUSE[case['kind']]
            ctx.violation(clause, case, tags=_tags(case), detail=m)
        # quick tier: every TLC case is replayed with equality (S->C); every second one is
        # also judged by the trace specification (all of them in the thorough tier, and
        # always when the replay disagreed)
        if not (ctx.quick and case.get('src') == 'tlc' and tid % 2 == 1 and not mism):
            traces.append((tid, events))
        else:
            traces.append((tid, []))
        if tid % 4999 == 0:
            ctx.sample({k: v for k, v in case.items() if k != 'expect'})
    ctx.coverage['cases_by_kind'] = kinds
    with cf.ThreadPoolExecutor(max_workers=2) as ex:
        vac = ex.submit(_vacuity, ctx, cases, traces) if ctx.replay_case is None else None
        fails, stats = core.validate_traces('Trace_RxnString', 'Trace', traces, shards=core.NCPU - 1)
        if vac is not None:
            vac.result()
    ctx.count('traces_validated_against_impl', sum(1 for _, evs in traces if evs))
    ctx.coverage['trace_lines'] = stats['lines']
    by_case = {}
    for tid, idx, clause in fails:
        by_case.setdefault((tid, clause), []).append(idx)
    for (tid, clause), idxs in sorted(by_case.items()):
        if clause in ('Unsupported', 'UnknownEvent', 'PadWitness', 'FormulaWitness'):
            raise core.MachineryError('trace clause %s on case %s' % (clause, json.dumps(cases[tid])[:600]))
        ctx.violation(clause, cases[tid], tags=_tags(cases[tid]), detail={'event_indices': idxs[:10]})
    # interleave the clauses so that the (capped) list of printed replays shows each of them
    rank, seen = [], {}
    for v in ctx.violations:
        seen[v['clause']] = seen.get(v['clause'], 0) + 1
        rank.append(seen[v['clause']])
    ctx.violations[:] = [v for _, _, v in sorted(zip(rank, range(len(rank)), ctx.violations),
                                                 key=lambda t: (t[0], t[1]))]
    ctx.assume('coefficients are read as the decimal text of repr(float) (exact to 18 fractional digits); '
               'range 0.001 <= c <= 30, formats .0f-.3f')
    ctx.assume('species names contain neither delimiter, do not start with a digit or "."; delimiters are '
               'not substrings of each other; a delimiter containing "." is used with integer coefficients only')
    ctx.assume('printed reactions have distinct species within a side')
    ctx.assume('balance: coefficients with at most 4 decimals, element counts 0-999, totals compared exactly')


if __name__ == '__main__':
    core.main('C14', 'model_checking', run)
