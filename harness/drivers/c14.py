"""C14 - reaction strings print and parse as inverses; the balance check is exact;
formulas parse to their element counts.

(D)    spec/MC_RxnString (printing + reading reaction strings, lexer automaton),
       spec/MC_Formula (formula reader), spec/MC_Balance (Counter-shaped totals) are
       checked exhaustively by TLC; the implementation-shaped variants that
       reproduce a defect ("trunc" printer, "overwrite" formula reader, "dict"
       totals) must be rejected.
(S->C) spec/Gen_C14 emits every case of the bounded families with the abstract
       result computed by TLC (names + coefficients in millionths, Balanced,
       element counts); each is run through the real to_string / from_string /
       pmutt.io.ring.read_reactions / check_element_balance / parse_formula of
       Reaction, ChemkinReaction and SurfaceReaction (rotating) and the discrete
       projection is compared by equality.
(C->S) those runs plus random cases drawn from the property's quantifier are
       recorded as NDJSON and judged line by line by spec/Trace_RxnString.tla.

Python only builds inputs, calls the library and projects what it saw (text ->
character codes, float -> text of repr); every relation is evaluated by TLC.
The random generators force, in rotation, every documented option, format,
delimiter, class, container type and name class (see notes/C14.md, Quantifier
audit); Trace_RxnString.tla counts the situations it actually met and a zero
count is a machinery failure.
"""
import concurrent.futures as cf
import json
import os
import random
import re
import shutil
import string
import tempfile
import warnings
from decimal import Decimal
from fractions import Fraction

from harness import core
from harness.core import to_dec_exact

NAME_FIRST = string.ascii_letters + '()*_'
NAME_REST = NAME_FIRST + string.digits
# the five documented delimiters ('+', '=', '<=>', '.', '>>'), the same with surrounding blanks
# ("Leading and trailing spaces will be trimmed"), and custom ones
DELIM_PAIRS = [('+', '='), ('+', '<=>'), ('.', '>>'), (' ; ', '<=>'), ('|', '->'), ('+', ' = '),
               (',', '=>'), (' + ', ' = '), ('&', '<->'), ('+', '>>'), (' . ', ' >> '), (';', ':'),
               (' + ', ' <=> '), ('.', '=')]
BLANK_PAIRS = [(' + ', ' = '), (' + ', ' <=> '), (' . ', ' >> '), (' ; ', ' -> '), (' + ', ' >> ')]
FORMATS = ['.0f', '.1f', '.2f', '.3f', '.4f', '.5f', '.6f', 'f', 'g', '.2g', '.3g', '.4g', '']
CLASSES = ['Reaction', 'ChemkinReaction', 'SurfaceReaction']
ELEMENT_SYMBOLS = ['H', 'He', 'C', 'N', 'O', 'F', 'Na', 'Mg', 'Al', 'Si', 'P', 'S', 'Cl', 'K', 'Ca',
                   'Fe', 'Co', 'Ni', 'Cu', 'Zn', 'Pt', 'Pd', 'Au', 'Ag', 'Os', 'B', 'Br', 'I', 'W', 'U']
_NUMERAL = re.compile(r'^\d{1,9}(\.\d{0,18})?$')
MILLION = 1000000


def codes(s):
    return [ord(ch) for ch in s]


def uncodes(c):
    return ''.join(chr(x) for x in c)


def num_repr(x):
    """repr of a float as a plain numeral the specification can read exactly."""
    s = repr(float(x))
    if not _NUMERAL.match(s):
        raise core.MachineryError('coefficient %r is outside the numeral range of the specification' % (x,))
    return s


def fx_to_str(fx):
    i, f1, f2 = fx
    s = ('%d.%09d%09d' % (i, f1, f2)).rstrip('0')
    return s + '0' if s.endswith('.') else s


def millionths(x):
    d = Decimal(repr(float(x))) * MILLION
    return int(d) if d == d.to_integral_value() else str(d)


def _alias(name):
    """the value of the second key attribute (smiles) of a species: another token of the name alphabet"""
    return 'k' + name[::-1] + '_'


def _species(names, elements=None, no_comp=()):
    """name -> species object with .name, .phase (ChemkinReaction needs it), .elements, .smiles"""
    from pmutt.empirical import EmpiricalBase
    out = {}
    for n in names:
        el = None if n in no_comp else (elements or {}).get(n)
        out[n] = EmpiricalBase(name=n, phase='G', elements=el, smiles=_alias(n))
    return out


def _class(name):
    if name == 'ChemkinReaction':
        from pmutt.reaction import ChemkinReaction
        return ChemkinReaction
    if name == 'SurfaceReaction':
        from pmutt.omkm.reaction import SurfaceReaction
        return SurfaceReaction
    from pmutt.reaction import Reaction
    return Reaction


def _proj(rx, key='name'):
    """reaction object -> names and coefficients as they are."""
    def side(sp, st):
        return [[getattr(s, key), float(c)] for s, c in zip(sp, st)]
    has_ts = rx.transition_state is not None
    return {'re': side(rx.reactants, rx.reactants_stoich),
            'pr': side(rx.products, rx.products_stoich),
            'ts': side(rx.transition_state, rx.transition_state_stoich) if has_ts else [],
            'hasTS': has_ts}


def _proj_ev(p):
    return {k: ([[codes(n), codes(num_repr(c))] for n, c in p[k]] if k != 'hasTS' else p[k])
            for k in ('re', 'pr', 'ts', 'hasTS')}


def _proj_units(p):
    return {k: ([[n, millionths(c)] for n, c in p[k]] if k != 'hasTS' else p[k])
            for k in ('re', 'pr', 'ts', 'hasTS')}


def _err_text(ex):
    msg = ex.args[0] if (ex.args and isinstance(ex.args[0], str)) else str(ex)
    return '%s: %s' % (type(ex).__name__, msg)


def _pad(text, spd, rxd, pad):
    b, a, e = pad
    if b or a:
        text = text.replace(rxd, '\x00').replace(spd, ' ' * b + spd + ' ' * a)
        text = text.replace('\x00', ' ' * b + rxd + ' ' * a)
    return ' ' * e + text + ' ' * e


def _parse_event(text, spd, rxd, species, src, cls='Reaction', strict=True, warn=True, spform='dict',
                 key='name', notes=None):
    """One from_string call.  `species` maps the lookup key to the object; it is handed over as a
    dict or (key 'name' only) as a list."""
    klass = _class(cls)
    ev = {'ev': 'parse', 'text': codes(text), 'spd': codes(spd), 'rxd': codes(rxd),
          'known': [codes(n) for n in sorted(species)], 'strict': bool(strict), 'warn': bool(warn),
          'src': src, 'cls': cls, 'spform': spform,
          'ok': False, 're': [], 'pr': [], 'ts': [], 'hasTS': False, 'err': [], 'warns': []}
    arg = list(species.values()) if spform == 'list' else dict(species)
    kw = {'species_delimiter': spd, 'reaction_delimiter': rxd}
    if notes is not None:
        kw['notes'] = notes
    if cls == 'Reaction':
        kw['raise_error'] = strict
        kw['raise_warning'] = warn
    got = None
    with warnings.catch_warnings(record=True) as w:
        warnings.simplefilter('always')
        try:
            rx = klass.from_string(text, arg, **kw)
            got = _proj(rx, key)
        except core.MachineryError:
            raise
        except Exception as ex:
            ev['err'] = codes(_err_text(ex))
    if got is not None:
        ev.update(_proj_ev(got))
        ev['ok'] = True
    ev['warns'] = [codes(str(x.message)) for x in w if issubclass(x.category, RuntimeWarning)]
    return ev, got


def _ring_event(lines, spd, rxd, species, strict=True, warn=True):
    from pmutt.io.ring import read_reactions
    ev = {'ev': 'ring', 'lines': [codes(ln) for ln in lines], 'spd': codes(spd), 'rxd': codes(rxd),
          'known': [codes(n) for n in sorted(species)], 'strict': bool(strict), 'warn': bool(warn),
          'ok': False, 'err': [], 'rxns': []}
    fd, path = tempfile.mkstemp(prefix='c14_ring_', suffix='.txt')
    with os.fdopen(fd, 'w') as f:
        f.write('\n'.join(lines) + '\n')
    got = None
    try:
        with warnings.catch_warnings():
            warnings.simplefilter('ignore')
            rxns = read_reactions(path, dict(species), species_delimiter=spd, reaction_delimiter=rxd,
                                  raise_error=strict, raise_warning=warn)
        got = [_proj(rx) for rx in rxns.reactions]
    except core.MachineryError:
        raise
    except Exception as ex:
        ev['err'] = codes(_err_text(ex))
    finally:
        os.unlink(path)
    if got is not None:
        ev['rxns'] = [_proj_ev(g) for g in got]
        ev['ok'] = True
    return ev, got


def _ring_lines(text):
    return ['RING reaction list', text, '', 'pathway 12 of species list']


def _stoich_type(r, stype):
    """'int' only applies when every coefficient of the reaction is integral"""
    if stype == 'int' and not all(float(c) == int(float(c)) for k in ('re', 'ts', 'pr') for _, c in r[k]):
        return 'float'
    return stype


def _stoich(vals, stype):
    """the stoichiometry container handed to the constructor"""
    vals = [float(v) for v in vals]
    if stype == 'int':
        return [int(v) for v in vals]
    if stype == 'numpy':
        import numpy as np
        return np.array(vals)
    if stype == 'npscalar':
        import numpy as np
        return [np.float64(v) for v in vals]
    if stype == 'tuple':
        return tuple(vals)
    return vals


# --------------------------------------------------------------------------
# execution of one case against the real library
# --------------------------------------------------------------------------
def _exec_print(case):
    r = case['r']
    spd, rxd, fmt = case['spd'], case['rxd'], case['fmt']
    inc_ts = case.get('incTS', True)
    cls = case.get('cls', 'Reaction')
    key = case.get('key', 'name')
    stype = _stoich_type(r, case.get('stype', 'float'))
    via = case.get('via', 'to_string')
    names = sorted({n for k in ('re', 'ts', 'pr') for n, _ in r[k]})
    sp = _species(names)
    has_ts = bool(r['ts'])

    def shown(n):
        return getattr(sp[n], key)

    def side(k):
        return [sp[n] for n, _ in r[k]], _stoich([c for _, c in r[k]], stype)

    def side_ev(k):
        return [[codes(shown(n)), codes(num_repr(float(c)))] for n, c in r[k]]
    (re_s, re_c), (pr_s, pr_c), (ts_s, ts_c) = side('re'), side('pr'), side('ts')
    kw = {}
    if case.get('notes') is not None:
        kw['notes'] = case['notes']
    rxn = _class(cls)(reactants=re_s, reactants_stoich=re_c, products=pr_s, products_stoich=pr_c,
                      transition_state=ts_s if has_ts else None,
                      transition_state_stoich=ts_c if has_ts else None, **kw)
    ev = {'ev': 'print', 're': side_ev('re'), 'pr': side_ev('pr'), 'ts': side_ev('ts'),
          'hasTS': has_ts, 'incTS': bool(inc_ts), 'spd': codes(spd), 'rxd': codes(rxd), 'fmt': codes(fmt),
          'space': bool(case['space']), 'cls': cls, 'key': key, 'stype': stype, 'via': via,
          'raised': False, 'out': []}
    mism = []
    try:
        if via == 'str':
            out = str(rxn)
        else:
            out = rxn.to_string(species_delimiter=spd, reaction_delimiter=rxd, stoich_format=fmt,
                                stoich_space=bool(case['space']), include_TS=inc_ts, key=key)
    except Exception as ex:
        ev['raised'] = True
        return [ev], [{'raised': _err_text(ex), 'call': 'to_string'}]
    ev['out'] = codes(out)
    padded = _pad(out, spd, rxd, case['pad'])
    lookup = {shown(n): sp[n] for n in names}
    pev, got = _parse_event(padded, spd, rxd, lookup, 'printed', cls=cls,
                            spform=case.get('spform', 'dict') if key == 'name' else 'dict', key=key,
                            notes=case.get('notes'))
    events = [ev, pev]
    rgot = None
    ring = case.get('ring') and key == 'name'
    if ring:
        rev, rgot = _ring_event(_ring_lines(padded), spd, rxd, sp)
        events.append(rev)
    exp = case.get('expect')
    if exp is not None:
        if got is None:
            mism.append({'call': 'from_string', 'raised': uncodes(pev['err']), 'text': padded})
        elif _proj_units(got) != exp:
            mism.append({'call': 'to_string+from_string', 'text': out, 'expected': exp,
                         'got': _proj_units(got)})
        if ring and (rgot is None or [_proj_units(g) for g in rgot] != [exp]):
            mism.append({'call': 'read_reactions', 'text': padded, 'expected': [exp],
                         'got': None if rgot is None else [_proj_units(g) for g in rgot]})
    return events, mism


def _exec_hand(case):
    text, spd, rxd = case['text'], case['spd'], case['rxd']
    names = case['names']
    missing = case.get('missing')
    cls = case.get('cls', 'Reaction')
    strict = case.get('strict', True) or cls != 'Reaction'
    warn = case.get('warn', True) or cls != 'Reaction'
    sp = _species([n for n in names if n != missing])
    pev, got = _parse_event(text, spd, rxd, sp, 'hand', cls=cls, strict=strict, warn=warn,
                            spform=case.get('spform', 'dict'), notes=case.get('notes'))
    events = [pev]
    mism = []
    rgot = None
    use_ring = case.get('ring') and missing is None
    if use_ring:
        rev, rgot = _ring_event(_ring_lines(text), spd, rxd, sp)
        events.append(rev)
    exp = case.get('expect')
    if exp is not None:
        if missing is not None:
            if got is not None or uncodes(pev['err']).split(':')[0] != 'KeyError':
                mism.append({'call': 'from_string', 'text': text, 'expected': 'KeyError (%s unknown)' % missing,
                             'got': uncodes(pev['err']) if got is None else _proj_units(got)})
        elif got is None:
            mism.append({'call': 'from_string', 'raised': uncodes(pev['err']), 'text': text})
        elif _proj_units(got) != exp:
            mism.append({'call': 'from_string', 'text': text, 'expected': exp, 'got': _proj_units(got)})
        if use_ring and (rgot is None or [_proj_units(g) for g in rgot] != [exp]):
            mism.append({'call': 'read_reactions', 'text': text, 'expected': [exp],
                         'got': None if rgot is None else [_proj_units(g) for g in rgot]})
    return events, mism


def _exec_ring(case):
    missing = case.get('missing')
    sp = _species([n for n in case['names'] if n != missing])
    rev, _ = _ring_event(case['lines'], case['spd'], case['rxd'], sp, strict=case.get('strict', True),
                         warn=case.get('warn', True))
    return [rev], []


def _count_value(n):
    """element count as handed to the library: int, or float when written with a point"""
    return float(n) if isinstance(n, float) else int(n)


def _exec_balance(case):
    """species = [[p, q], [[element, count], ...], has_composition]; the coefficient handed to the
    library is the double nearest p/q."""
    from pmutt.empirical import EmpiricalBase
    cls = case.get('cls', 'Reaction')

    def side(k):
        sps = [EmpiricalBase(name='%s%d' % (k, i), phase='G',
                             elements=dict((e, _count_value(n)) for e, n in comp) if has else None)
               for i, (_, comp, has) in enumerate(case[k])]
        return sps, [p / q for (p, q), _, _ in case[k]]

    def side_ev(k):
        return [[[int(p), int(q)],
                 [[codes(e), to_dec_exact(float(n)), isinstance(n, float)] for e, n in comp] if has else [],
                 bool(has)] for (p, q), comp, has in case[k]]
    has_ts = bool(case['hasTS'])
    (re_s, re_c), (pr_s, pr_c), (ts_s, ts_c) = side('re'), side('pr'), side('ts')
    rxn = _class(cls)(reactants=re_s, reactants_stoich=re_c, products=pr_s, products_stoich=pr_c,
                      transition_state=ts_s if has_ts else None,
                      transition_state_stoich=ts_c if has_ts else None)
    ev = {'ev': 'balance', 're': side_ev('re'), 'pr': side_ev('pr'), 'ts': side_ev('ts') if has_ts else [],
          'hasTS': has_ts, 'cls': cls, 'accepted': True, 'err': []}
    try:
        rxn.check_element_balance()
    except Exception as ex:
        ev['accepted'] = False
        ev['err'] = codes(_err_text(ex)[:200])
    mism = []
    exp = case.get('balanced')
    if exp is not None and ev['accepted'] != exp:
        mism.append({'call': 'check_element_balance', 'expected_accept': exp, 'accepted': ev['accepted'],
                     'error': uncodes(ev['err'])})
    return [ev], mism


def _exec_formula(case):
    from pmutt import parse_formula
    text = ''.join(sym + (str(n) if n else '') for sym, n in case['items'])
    ev = {'ev': 'formula', 'text': codes(text), 'items': [[codes(s), int(n)] for s, n in case['items']],
          'result': [], 'raised': False}
    mism = []
    try:
        res = parse_formula(text)
    except Exception as ex:
        ev['raised'] = True
        return [ev], [{'call': 'parse_formula', 'raised': _err_text(ex), 'text': text}]
    pairs = [[k, int(v) if (isinstance(v, int) or float(v).is_integer()) else -1] for k, v in res.items()]
    ev['result'] = [[codes(k), v] for k, v in pairs]
    exp = case.get('expect')
    if exp is not None and sorted(pairs) != sorted(exp):
        mism.append({'call': 'parse_formula', 'text': text, 'expected': sorted(exp), 'got': sorted(pairs)})
    return [ev], mism


def _exec_fhist(case):
    """Second-use history of parse_formula: parse, parse, edit the first result in place, parse
    again; then two species built from the same formula, one edited (ethoxy = ethanol - H), used
    together in reactions."""
    from pmutt import parse_formula
    from pmutt.empirical import EmpiricalBase
    from pmutt.reaction import Reaction
    items = case['items']
    text = ''.join(sym + (str(n) if n else '') for sym, n in items)
    sym, new = case['edit']

    def proj(res):
        return [[codes(k), int(v)] for k, v in res.items()]

    def fev(res, rep):
        return {'ev': 'formula', 'text': codes(text), 'items': [[codes(s_), int(n)] for s_, n in items],
                'result': proj(res), 'raised': False, 'rep': rep}
    events, mism = [], []
    r1 = parse_formula(text)
    events.append(fev(r1, 1))
    r2 = parse_formula(text)
    events.append(fev(r2, 2))
    before = proj(r2)
    if case['mode'] == 'del' and sym in r1:
        del r1[sym]
    else:
        r1[sym] = new
    events.append({'ev': 'fhist', 'text': codes(text), 'distinct': r1 is not r2, 'edited': True,
                   'before': before, 'after': proj(r2)})
    r3 = parse_formula(text)
    events.append(fev(r3, 3))
    events.append({'ev': 'fhist', 'text': codes(text), 'distinct': r3 is not r1 and r3 is not r2, 'edited': False,
                   'before': before, 'after': proj(r3)})
    # two species from one formula, one edited; X carries what was taken away
    a = EmpiricalBase(name='a', phase='G', elements=parse_formula(text))
    b = EmpiricalBase(name='b', phase='G', elements=parse_formula(text))
    old = case['old']
    if new == 0 and case['mode'] == 'del':
        del b.elements[sym]
    else:
        b.elements[sym] = new
    x = EmpiricalBase(name='x', phase='G', elements=parse_formula(sym))
    ed = [codes(sym), int(new)]
    for pr_s, pr_c, pr_ev in (([b, x], [1., float(old - new)], [[[1, 1], codes(text), ed], [[old - new, 1], codes(sym), []]]),
                              ([b], [1.], [[[1, 1], codes(text), ed]]),
                              ([a], [1.], [[[1, 1], codes(text), []]])):
        ev = {'ev': 'fbalance', 're': [[[1, 1], codes(text), []]], 'pr': pr_ev, 'accepted': True}
        try:
            Reaction(reactants=[a], reactants_stoich=[1.], products=pr_s, products_stoich=pr_c).check_element_balance()
        except Exception:
            ev['accepted'] = False
        events.append(ev)
    return events, mism


_EXEC = {'fhist': _exec_fhist, 'print': _exec_print, 'hand': _exec_hand, 'ring': _exec_ring, 'balance': _exec_balance,
         'formula': _exec_formula}


def execute(case):
    return _EXEC[case['kind']](case)


def _safe_execute(case):
    try:
        return execute(case)
    except core.MachineryError:
        raise
    except Exception as ex:          # the library raised outside a recorded call (constructor)
        return [], [{'raised': _err_text(ex), 'call': 'constructor'}]


# --------------------------------------------------------------------------
# cases from TLC (S->C)
# --------------------------------------------------------------------------
def _exp_from_tlc(e):
    return {k: ([[uncodes(x['nm']), x['u']] for x in e[k]] if k != 'hasTS' else e[k])
            for k in ('re', 'pr', 'ts', 'hasTS')}


def _rxn_from_tlc(c, k):
    spd, rxd = uncodes(c['spd']), uncodes(c['rxd'])
    exp = _exp_from_tlc(c['expect'])
    ring = (spd == '.' and rxd == '>>') or k % 4 == 0
    cls = CLASSES[k % 3]
    spform = 'list' if k % 7 == 3 else 'dict'
    if c['kind'] == 'print':
        r = {s: [[uncodes(x['nm']), fx_to_str(x['co'])] for x in c['r'][s]] for s in ('re', 'ts', 'pr')}
        return {'kind': 'print', 'src': 'tlc', 'r': r, 'fmt': '.%df' % c['d'], 'space': c['space'], 'spd': spd,
                'rxd': rxd, 'pad': list(c['pad']), 'expect': exp, 'ring': ring, 'cls': cls, 'spform': spform,
                'stype': ['float', 'float', 'numpy', 'int', 'npscalar'][k % 5]}
    names = sorted({n for s in ('re', 'ts', 'pr') for n, _ in exp[s]})
    case = {'kind': 'hand', 'src': 'tlc', 'text': uncodes(c['text']), 'spd': spd, 'rxd': rxd,
            'names': names, 'expect': exp, 'ring': ring, 'cls': cls, 'spform': spform}
    if k % 5 == 1:                                   # one name taken out of the species dictionary
        case['missing'] = names[(k // 5) % len(names)]
    return case


def _bal_from_tlc(c, k):
    def side(s):
        return [[[x['co'], 10], [[e, n] for e, n in x['comp']], True] for x in s]
    return {'kind': 'balance', 'src': 'tlc', 're': side(c['re']), 'pr': side(c['pr']), 'ts': side(c['ts']),
            'hasTS': c['hasTS'], 'balanced': c['balanced'], 'cls': CLASSES[k % 3]}


def _for_from_tlc(c):
    return {'kind': 'formula', 'src': 'tlc', 'items': [[uncodes(x['sym']), x['n']] for x in c['items']],
            'expect': [[uncodes(x['sym']), x['n']] for x in c['expect']]}


# --------------------------------------------------------------------------
# random cases from the property's quantifier (C->S).  Every generator takes the index i of the case:
# i selects, in rotation, one documented option / format / delimiter / class / container / name class
# that is FORCED for this case; everything else is drawn at random.
# --------------------------------------------------------------------------
def _rand_name(rnd, avoid=(), extra=''):
    while True:
        n = rnd.choice(NAME_FIRST) + ''.join(rnd.choice(NAME_REST + extra) for _ in range(rnd.randint(0, 7)))
        if n not in avoid:
            return n


def _name_pool(rnd, klass, n):
    """n distinct names of one class: 'quant' the alphabet of the quantifier; 'prefix' names that are
    prefixes of each other (A, A2, A2_TS, ...); 'charged' realistic names with charges, hyphens and
    delimiter characters (H+, OH-, CH3-CH2, C=O(S), Ni.CO), used with blank-surrounded delimiters."""
    out = []
    if klass == 'prefix':
        base = _rand_name(rnd)[:3]
        cand = [base, base + '2', base + '2B', base + '_TS', base + '2_TS', base + '(S)', base + '*', base + '2B3',
                base + '_', base + '_T', base + '(S)2', base + '22']
        rnd.shuffle(cand)
        return cand[:n]
    if klass == 'charged':
        fixed = ['H+', 'OH-', 'CH3-CH2', 'C=O', 'Ni.CO', 'e-', 'Fe+3', 'SO4-2', 'CH2=CH2', 'N+(S)', 'a>>b', 'x<=>y']
        rnd.shuffle(fixed)
        out = fixed[:max(1, n // 2)]
        while len(out) < n:
            nm = _rand_name(rnd, out, extra='+-=.')
            out.append(nm)
        return out
    while len(out) < n:
        out.append(_rand_name(rnd, out))
    return out


def _rand_delims(rnd, force=None):
    if force is not None:
        return force
    if rnd.random() < 0.7:
        return rnd.choice(DELIM_PAIRS)
    alphabet = '|;,&~^:!#<=>-/+@'
    while True:
        spd = ''.join(rnd.choice(alphabet) for _ in range(rnd.randint(1, 2)))
        rxd = ''.join(rnd.choice(alphabet) for _ in range(rnd.randint(1, 3)))
        if spd not in rxd and rxd not in spd:
            if rnd.random() < 0.3:
                spd, rxd = ' %s ' % spd, ' %s ' % rxd
            return spd, rxd


def _grey(c):
    """numpy.isclose(c, round(c)) holds although c is not within 1e-9 of the integer: the documented
    'close to an integer' short-cut drops real decimals there - outside the reading of the property"""
    n = round(c)
    return 1e-9 < abs(c - n) <= 1e-8 + 1e-5 * abs(n)


def _rand_coef(rnd, integers_only, exact=False):
    while True:
        m = rnd.random()
        if integers_only or m < 0.2:
            return float(rnd.choice([rnd.randint(1, 12), rnd.randint(10, 20)]))
        if m < 0.3:
            c = 1.0
        elif m < 0.6:
            c = round(rnd.uniform(0.01, 20.0), rnd.choice([1, 2, 3, 4, 5, 6]))
        elif m < 0.7:
            c = rnd.choice([0.5, 0.25, 1.5, 2.5, 0.125, 0.375, 1.0 / 3.0, 2.0 / 3.0, 0.1 + 0.2, 0.7 + 0.1])
        elif m < 0.8 and not exact:               # arithmetic results next to an integer
            n = rnd.randint(1, 12)
            c = rnd.choice([n * (1 - 2.0 ** -53), n * (1 + 2.0 ** -52), 0.1 * 3 * 10 * n / 3.0,
                            (0.1 * n) * 10, n - 1e-12, n + 1e-12])
        elif m < 0.86:                            # just outside the 'close to an integer' short-cut
            n = rnd.randint(1, 12)
            c = round(n + rnd.choice([-1, 1]) * rnd.choice([1.3, 2, 5, 9]) * (1e-8 + 1e-5 * n), 6)
        else:
            c = rnd.uniform(0.01, 20.0)
        if not _grey(c) and not (exact and c != round(c) and abs(c - round(c)) <= 1e-9):
            return c


PRINT_FORCE = ([('fmt', f) for f in FORMATS] + [('cls', c) for c in CLASSES]
               + [('delims', p) for p in DELIM_PAIRS[:5] + BLANK_PAIRS[:3]]
               + [('names', 'prefix'), ('names', 'charged'), ('ts', 1), ('ts', 2), ('via', 'str'),
                  ('key', 'smiles'), ('stype', 'int'), ('stype', 'numpy'), ('stype', 'npscalar'),
                  ('stype', 'tuple'), ('incTS', False), ('spform', 'list'), ('n', 4), ('notes', 'dict')])


def _random_print(rnd, i=0):
    what, val = PRINT_FORCE[i % len(PRINT_FORCE)]
    f = {what: val}
    klass = f.get('names', 'charged' if rnd.random() < 0.1 else 'prefix' if rnd.random() < 0.15 else 'quant')
    if 'delims' in f:
        spd, rxd = f['delims']
        if klass == 'charged' and (spd.strip() == spd or rxd.strip() == rxd):
            klass = 'quant'
    elif klass == 'charged':
        spd, rxd = rnd.choice(BLANK_PAIRS)
    else:
        spd, rxd = _rand_delims(rnd)
    fmt = f.get('fmt', rnd.choice(FORMATS))
    via = f.get('via', 'to_string')
    key = f.get('key', 'smiles' if rnd.random() < 0.05 else 'name')
    if via == 'str':
        spd, rxd, fmt, key = '+', '=', '.2f', 'name'
        klass = 'quant' if klass == 'charged' else klass
    ints = '.' in spd or '.' in rxd
    stype = f.get('stype', rnd.choice(['float', 'float', 'float', 'numpy', 'npscalar', 'tuple', 'int']))
    if stype == 'int':
        ints = True
    n_re = f.get('n', rnd.randint(1, 4))
    n_pr = rnd.randint(1, 4)
    n_ts = f.get('ts', rnd.choice([0, 0, 0, 1, 1, 2]))
    pool = _name_pool(rnd, klass, n_re + n_pr + n_ts)

    def side(n):
        return [[pool.pop(), repr(_rand_coef(rnd, ints, exact=(fmt == '')))] for _ in range(n)]
    r = {'re': side(n_re), 'pr': side(n_pr), 'ts': side(n_ts)}
    pad = [rnd.randint(0, 2), rnd.randint(0, 2), rnd.randint(0, 2)]
    notes = {'dict': {'source': 'x'}, None: None}.get(f.get('notes'), None) if 'notes' in f else \
        rnd.choice([None, None, 'from a paper'])
    return {'kind': 'print', 'src': 'random', 'r': r, 'fmt': fmt, 'space': rnd.random() < 0.5 and via != 'str',
            'spd': spd, 'rxd': rxd, 'pad': pad, 'incTS': f.get('incTS', rnd.random() < 0.85) or via == 'str',
            'ring': rnd.random() < 0.25, 'cls': f.get('cls', rnd.choice(CLASSES)), 'via': via, 'key': key,
            'stype': stype, 'spform': f.get('spform', 'list' if rnd.random() < 0.2 else 'dict'),
            'notes': notes, 'forced': '%s=%s' % (what, val)}


def _rand_numeral(rnd, integers_only, force=None):
    if force == 'one':
        return rnd.choice(['1', '1.0', '1.', '01'])
    if force == 'int10':
        return str(rnd.randint(10, 30))
    m = rnd.random()
    if m < 0.25:
        return ''
    if integers_only or m < 0.5:
        s = str(rnd.randint(0, 30))
        return ('0' + s) if rnd.random() < 0.1 else s
    s = '%d.%s' % (rnd.randint(0, 20), ''.join(rnd.choice(string.digits) for _ in range(rnd.randint(0, 4))))
    if float(s) != 0.0 and float(s) < 0.001:
        s = '0.5'
    return s


def _random_hand_text(rnd, spd, rxd, klass='quant', n_ts=None, tabs=False, force=None, n_re=None,
                      ts_fresh=False, ts_same=False):
    ints = '.' in spd or '.' in rxd
    pool = _name_pool(rnd, klass, 4)
    names = set()
    last = []

    def blank(lo, hi):
        k = rnd.randint(lo, hi)
        return ''.join(rnd.choice(' \t') if tabs else ' ' for _ in range(k))

    def side(n, forced=None, fresh=False):
        toks = []
        del last[:]
        for j in range(n):
            nm = rnd.choice(pool) if (rnd.random() < 0.6 and not fresh) else _name_pool(rnd, klass, 1)[0]
            while fresh and nm in names:
                nm = _rand_name(rnd, names)
            if ts_same and fresh is not None and j == 1 and len(last) == 1 and forced == 'same':
                nm = last[0]
            names.add(nm)
            last.append(nm)
            num = _rand_numeral(rnd, ints, force=forced if j == 0 else None)
            gap = blank(1, 2) if (force == 'gap' and j == 0) else blank(0, 2)
            toks.append((num + gap + nm) if num else nm)
        return toks
    states = [side(n_re or rnd.randint(1, 4), forced=force if force in ('one', 'int10') else None)]
    ts_names = []
    k_ts = rnd.choice([0, 0, 0, 1, 1, 2]) if n_ts is None else n_ts
    if k_ts:
        states.append(side(k_ts, forced='same' if ts_same else None, fresh=ts_fresh))
        ts_names = list(last)
    states.append(side(rnd.randint(1, 4)))
    text = blank(0, 3) + (blank(0, 3) + rxd + blank(0, 3)).join(
        (blank(0, 3) + spd + blank(0, 3)).join(st) for st in states) + blank(0, 3)
    return text, sorted(names), ts_names


HAND_FORCE = ([('cls', c) for c in CLASSES] + [('delims', p) for p in DELIM_PAIRS[:5] + BLANK_PAIRS[:3]]
              + [('names', 'prefix'), ('names', 'charged'), ('ts', 1), ('ts', 2), ('tabs', True),
                 ('num', 'one'), ('num', 'int10'), ('num', 'gap'), ('spform', 'list'), ('n', 4),
                 ('miss', 'ts_warn'), ('miss', 'ts_nowarn'), ('miss', 'ts_multi'), ('miss', 'rp'),
                 ('miss', 'ts_strict'), ('notes', 'str'), ('ts', 'merge')])


def _random_hand(rnd, i=0):
    what, val = HAND_FORCE[i % len(HAND_FORCE)]
    f = {what: val}
    klass = f.get('names', 'charged' if rnd.random() < 0.1 else 'prefix' if rnd.random() < 0.2 else 'quant')
    if 'delims' in f:
        spd, rxd = f['delims']
        if klass == 'charged' and (spd.strip() == spd or rxd.strip() == rxd):
            klass = 'quant'
    elif klass == 'charged':
        spd, rxd = rnd.choice(BLANK_PAIRS)
    else:
        spd, rxd = _rand_delims(rnd)
    miss = f.get('miss')
    n_ts = f.get('ts')
    ts_same = n_ts == 'merge'
    if ts_same:
        n_ts = 2
    if miss in ('ts_warn', 'ts_nowarn', 'ts_strict'):
        n_ts = rnd.choice([1, 2])
    if miss == 'ts_multi':
        n_ts = 2
    text, names, ts_names = _random_hand_text(rnd, spd, rxd, klass, n_ts=n_ts, tabs=f.get('tabs', rnd.random() < 0.1),
                                              force=f.get('num'), n_re=f.get('n'), ts_fresh=miss is not None,
                                              ts_same=ts_same)
    cls = f.get('cls', rnd.choice(CLASSES))
    case = {'kind': 'hand', 'src': 'random', 'text': text, 'spd': spd, 'rxd': rxd, 'names': names,
            'ring': rnd.random() < 0.25, 'cls': cls, 'spform': f.get('spform', 'list' if rnd.random() < 0.2 else 'dict'),
            'notes': 'n' if 'notes' in f else None, 'forced': '%s=%s' % (what, val), 'n_ts': len(ts_names)}
    if miss is None and rnd.random() < 0.2:
        miss = rnd.choice(['rp', 'ts_warn', 'ts_nowarn', 'ts_strict', 'any'])
    if miss is not None:
        case['cls'] = 'Reaction' if miss in ('ts_warn', 'ts_nowarn', 'ts_multi') else cls
        if miss in ('ts_warn', 'ts_nowarn', 'ts_multi', 'ts_strict') and ts_names:
            # a TS species that is neither a reactant nor a product, so that only the TS is affected
            only_ts = [n for n in ts_names]
            case['missing'] = only_ts[0] if miss != 'ts_multi' else rnd.choice(only_ts)
        else:
            case['missing'] = rnd.choice(names)
        case['strict'] = miss in ('rp', 'ts_strict') or (miss == 'any' and rnd.random() < 0.5)
        case['warn'] = miss != 'ts_nowarn' and not (miss == 'any' and rnd.random() < 0.3)
    return case


def _random_ring(rnd, i=0):
    spd, rxd = [('.', '>>'), ('.', '>>'), ('+', '='), (' . ', ' >> ')][i % 4]
    lines, names, ts_all = [], set(), []
    for _ in range(rnd.randint(1, 4)):
        if rnd.random() < 0.3:
            lines.append(rnd.choice(['', 'comment', 'species list', 'pathway 7']))
        else:
            text, nms, ts_names = _random_hand_text(rnd, spd, rxd, 'prefix' if rnd.random() < 0.3 else 'quant')
            lines.append(text)
            names.update(nms)
            ts_all += ts_names
    case = {'kind': 'ring', 'src': 'random', 'lines': lines, 'spd': spd, 'rxd': rxd, 'names': sorted(names)}
    m = i % 6
    if m == 1 and ts_all:                         # raise_error=False: the TS is dropped, the file is read
        case.update(missing=rnd.choice(ts_all), strict=False, warn=rnd.random() < 0.5)
    elif m == 3 and names:                        # an unknown species with raise_error=True
        case.update(missing=rnd.choice(sorted(names)), strict=True, warn=True)
    return case


# ---- balance: exact rational bookkeeping on the generator side (fractions.Fraction)
def _regroup(rnd, side, unit, allow_half):
    """Another list of (coefficient, composition) with exactly the same element totals: coefficients
    split, scaled against the composition (c * (k comp) = (c k) * comp, also with half counts),
    zero entries dropped or added, order shuffled."""
    out = []
    for c, cp in side:
        how = rnd.random()
        cp = dict(cp)
        if how < 0.3 and c >= 2 * unit:                       # split the coefficient
            a = unit * rnd.randint(1, int(c / unit) - 1)
            out += [(a, dict(cp)), (c - a, dict(cp))]
        elif how < 0.5:                                        # (c k) * (comp / k)
            k = rnd.choice([2, 3, 5])
            if all(v % k == 0 for v in cp.values()):
                out.append((c * k, {e: v / k for e, v in cp.items()}))
            elif allow_half and k == 2:
                out.append((c * 2, {e: v / 2 for e, v in cp.items()}))
            else:
                out.append((c, cp))
        elif how < 0.7 and (c / unit) % 2 == 0:                # (c / 2) * (2 comp)
            out.append((c / 2, {e: v * 2 for e, v in cp.items()}))
        else:
            cp = {e: v for e, v in cp.items() if v or rnd.random() < 0.5}
            out.append((c, cp))
    if len(out) >= 2 and rnd.random() < 0.3:                  # lump two species with equal coefficient
        for a in range(len(out)):
            for b in range(a + 1, len(out)):
                if out[a][0] == out[b][0]:
                    ca, cpa = out[a]
                    cpb = out[b][1]
                    out[a] = (ca, {e: cpa.get(e, 0) + cpb.get(e, 0) for e in set(cpa) | set(cpb)})
                    del out[b]
                    break
            else:
                continue
            break
    rnd.shuffle(out)
    return out


BAL_FORCE = ([('cls', c) for c in CLASSES] + [('mode', 'rat'), ('mode', 'dec'), ('float', True), ('nocomp', True),
             ('ts', 'regroup'), ('ts', 'lump'), ('perturb', 'ts'), ('perturb', 'pr'), ('zero', True)])


def _random_balance(rnd, i=0, depth=0):
    """Reactions balanced by construction (regrouping the same atoms with fractional coefficients),
    perturbed ones and independent random ones; coefficients exact decimals or exact rationals p/q."""
    what, val = BAL_FORCE[i % len(BAL_FORCE)]
    f = {what: val}
    mode = f.get('mode', 'rat' if rnd.random() < 0.3 else 'dec')
    if mode == 'rat':
        q = rnd.choice([2, 3, 4, 6, 7, 8, 9, 12])
        unit = Fraction(1, q)
        top = 5 * q
    else:
        places = rnd.choice([1, 1, 2, 4])
        unit = Fraction(1, 10 ** places)
        q = 10 ** places
        top = 5 * q
    allow_half = f.get('float', rnd.random() < 0.2)
    els = rnd.sample(['C', 'H', 'O', 'N', 'Pt', 'Cl'], rnd.randint(1, 4))

    def comp():
        c = {e: Fraction(rnd.choice([0, 1, 1, 2, 3, 4, 6, 12])) for e in rnd.sample(els, rnd.randint(1, len(els)))}
        if f.get('zero') and len(c) > 1:
            c[sorted(c)[0]] = Fraction(0)
        if all(v == 0 for v in c.values()):
            c[sorted(c)[0]] = Fraction(1)
        return c

    def coef():
        return unit * rnd.randint(1, top)
    re_side = [(coef(), comp()) for _ in range(rnd.randint(1, 3))]
    if rnd.random() < 0.75 or 'ts' in f or 'perturb' in f:
        pr_side = _regroup(rnd, re_side, unit, allow_half)
    else:
        pr_side = [(coef(), comp()) for _ in range(rnd.randint(1, 3))]
    ts_side = []
    ts_how = f.get('ts', rnd.choice([None, None, None, 'regroup', 'lump', 'copy']))
    if 'perturb' in f and f['perturb'] == 'ts':
        ts_how = 'regroup'
    if ts_how == 'regroup':
        ts_side = _regroup(rnd, rnd.choice([re_side, pr_side]), unit, allow_half)
    elif ts_how == 'copy':
        ts_side = [(c, dict(cp)) for c, cp in rnd.choice([re_side, pr_side])]
    elif ts_how == 'lump':
        tot = {}
        for c, cp in re_side:
            for e, n in cp.items():
                tot[e] = tot.get(e, 0) + c * n
        ts_side = [(unit, {e: v / unit for e, v in tot.items()})]
    perturb = f.get('perturb', rnd.choice(['re', 'pr', 'ts']) if rnd.random() < 0.3 else None)
    if perturb:
        sd = {'re': re_side, 'pr': pr_side, 'ts': ts_side}[perturb] or pr_side
        j = rnd.randrange(len(sd))
        c, cp = sd[j]
        if rnd.random() < 0.5 and cp:
            e = rnd.choice(sorted(cp))
            cp = dict(cp)
            cp[e] += 1
            sd[j] = (c, cp)
        else:
            sd[j] = (c + unit, cp)
    sides = {'re': re_side, 'pr': pr_side, 'ts': ts_side}
    ok = all(len(sd) <= 4 and all(0 < c <= 25 and all(0 <= n <= 999 and (n * 4).denominator == 1
                                                        for n in cp.values()) for c, cp in sd)
             for sd in sides.values())
    if not ok:
        if depth > 50:
            raise core.MachineryError('balance generator cannot satisfy its bounds')
        return _random_balance(rnd, i, depth + 1)
    as_float = rnd.random() < 0.15 or bool(f.get('float'))
    nocomp = f.get('nocomp', rnd.random() < 0.02)

    def cnt(n):
        if n.denominator != 1:
            return float(n)
        return float(n) if (as_float and rnd.random() < 0.5) else int(n)

    def out(sd, tag):
        res = []
        for j, (c, cp) in enumerate(sd):
            p, qq = (c.numerator * (q // c.denominator), q) if q % c.denominator == 0 \
                else (c.numerator, c.denominator)
            has = not (nocomp and tag == 'pr' and j == 0)
            res.append([[p, qq], [[e, cnt(n)] for e, n in sorted(cp.items())], has])
        return res
    return {'kind': 'balance', 'src': 'random', 're': out(re_side, 're'), 'pr': out(pr_side, 'pr'),
            'ts': out(ts_side, 'ts'), 'hasTS': bool(ts_side), 'cls': f.get('cls', rnd.choice(CLASSES)),
            'forced': '%s=%s' % (what, val)}


def _random_fhist(rnd, i=0):
    """a formula, and an in-place edit of one symbol's count (t -> t - 1 or t - 2, possibly removing it)"""
    c = _random_formula(rnd, i)
    tot = {}
    for sym, n in c['items']:
        tot[sym] = tot.get(sym, 0) + (n or 1)
    sym = rnd.choice(sorted(tot))
    new = max(0, tot[sym] - rnd.choice([1, 1, 2]))
    return {'kind': 'fhist', 'src': 'random', 'items': c['items'], 'edit': [sym, new], 'old': tot[sym],
            'mode': 'del' if (new == 0 and i % 2) else 'set'}


def _random_formula(rnd, i=0):
    pool = rnd.sample(ELEMENT_SYMBOLS, rnd.randint(1, 5))
    items = []
    n_items = [1, 2, 8, 5][i % 4] if i % 3 == 0 else rnd.randint(1, 8)
    for j in range(n_items):
        m = rnd.random()
        n = 0 if m < 0.3 else rnd.randint(1, 9) if m < 0.7 else rnd.randint(10, 999)
        if j == 0 and i % 5 == 0:
            n = [1, 999, 0, 10, 100][(i // 5) % 5]
        items.append([rnd.choice(pool), n])
    return {'kind': 'formula', 'src': 'random', 'items': items}


# --------------------------------------------------------------------------
# classification of a case (tags for known-finding matchers, coverage signature)
# --------------------------------------------------------------------------
def _tags(case):
    t = {'kind': case['kind'], 'src': case.get('src', 'replay')}
    if case['kind'] == 'print':
        cs = [float(c) for k in ('re', 'ts', 'pr') for _, c in case['r'][k]]
        t['near_integer_inexact'] = any(c != round(c) and abs(c - round(c)) < 1e-9 for c in cs)
    if case['kind'] in ('hand', 'ring'):
        t['raise_error'] = bool(case.get('strict', True))
        t['raise_warning'] = bool(case.get('warn', True))
        t['species_unknown'] = bool(case.get('missing'))
        t['ts_species'] = case.get('n_ts', 'n/a')
    return t


def _nontrivial(case):
    k = case['kind']
    if k == 'print':
        return any(float(c) != 1.0 for s in ('re', 'ts', 'pr') for _, c in case['r'][s])
    if k == 'hand':
        return any(ch.isdigit() for ch in case['text'])
    if k == 'ring':
        return any(case['rxd'] in ln for ln in case['lines'])
    if k == 'balance':
        return True
    return len(case['items']) >= 1        # formula, fhist


def _signature(case):
    return json.dumps({k: v for k, v in case.items() if k not in ('expect', 'balanced', 'src', 'forced')},
                      sort_keys=True)


_REPLAY_CLAUSE = {'fhist': 'ReplayFormula', 'print': 'ReplayRoundTrip', 'hand': 'ReplayParse', 'ring': 'ReplayRing',
                  'balance': 'ReplayBalance', 'formula': 'ReplayFormula'}


def _vacuity(ctx, cases, traces):
    """Run the trace spec once more (VACUITY=1) on a sample that contains every forced feature and
    every bucket of cases and read register 2 (situation counts): a clause or an input class whose
    situation never occurred would be vacuous."""
    buckets = {}
    for tid, case in enumerate(cases):
        keys = [(case['kind'], case.get('src'), case.get('forced')),
                (case['kind'], case.get('src'), 'missing' in case, case.get('strict', True), case.get('warn', True),
                 bool(case.get('hasTS')), bool(case.get('ring')), case.get('cls'))]
        for key in keys:
            buckets.setdefault(key, []).append(tid)
    pick = set()
    for tids in buckets.values():
        pick.update([t for t in tids if traces[t][1]][:6])
    pick.update(range(0, len(cases), max(1, len(cases) // 500)))
    d = tempfile.mkdtemp(prefix='c14_vac_')
    try:
        path = os.path.join(d, 'trace.ndjson')
        n = 0
        with open(path, 'w') as f:
            for tid in sorted(pick):
                for ev in traces[tid][1]:
                    f.write(json.dumps(dict(ev, tid=tid), separators=(',', ':')) + '\n')
                    n += 1
        r = core.run_tlc('Trace_RxnString', 'Trace', env={'TRACE_FILE': path, 'VACUITY': '1'}, workers=1,
                         timeout=1500, metadir=os.path.join(d, 'meta'))
    finally:
        shutil.rmtree(d, ignore_errors=True)
    seen = None
    for pv in r.prints():
        if core.tagged(pv, 'SEEN'):
            seen = core.parse_tla(pv)[1]
    if r.rc != 0 or not isinstance(seen, dict):
        raise core.MachineryError('vacuity pass of Trace_RxnString failed:\n' + r.out[-3000:])
    ctx.coverage['situations_in_sample'] = {'lines': n, 'counts': seen}
    never = sorted(k for k, v in seen.items() if v == 0)
    if never:
        raise core.MachineryError('vacuous: no recorded line exercised %s' % never)


def _run_models(ctx):
    """(D): the design models side by side; variants that reproduce a defect must be rejected."""
    th = not ctx.quick
    jobs = [('MC_RxnString', 'MC_RxnString_thorough' if th else 'MC_RxnString', True, 6),
            ('MC_RxnString', 'MC_RxnString_trunc', False, 2),
            ('MC_Formula', 'MC_Formula_thorough' if th else 'MC_Formula', True, 4),
            ('MC_Formula', 'MC_Formula_overwrite', False, 1),
            ('MC_Balance', 'MC_Balance_thorough' if th else 'MC_Balance', True, 4),
            ('MC_Balance', 'MC_Balance_dict', False, 1)]
    gens = ['rxn', 'balance', 'formula']
    env = {'SCOPE': 'quick' if ctx.quick else 'thorough'}
    with cf.ThreadPoolExecutor(max_workers=len(jobs) + len(gens)) as ex:
        mf = [ex.submit(core.run_tlc, m, c, None, w, None, 1800) for m, c, _, w in jobs]
        gf = [ex.submit(core.tlc_cases, 'Gen_C14', 'Gen_C14', dict(env, PART=p), 1500) for p in gens]
        mres = [f.result() for f in mf]
        gres = [f.result() for f in gf]
    for (m, c, expect_ok, _), r in zip(jobs, mres):
        ctx.count('states', r.distinct)
        ctx.count('transitions', r.states)
        ctx.coverage.setdefault('models', []).append(
            {'module': m, 'cfg': c, 'distinct_states': r.distinct, 'states_generated': r.states,
             'depth': r.depth, 'ok': r.ok, 'violated': r.violated, 'wall_s': round(r.wall, 1)})
        if expect_ok and not r.ok:
            raise core.MachineryError('design model %s/%s failed:\n%s' % (m, c, r.out[-4000:]))
        if not expect_ok:
            if r.ok or r.violated != 'Requirement':
                raise core.MachineryError('variant %s/%s should be rejected by invariant Requirement:\n%s'
                                          % (m, c, r.out[-2000:]))
            ctx.notes.append('design model %s rejects the defect-shaped variant (Requirement violated)' % c)
    data = {}
    for p, (d, _) in zip(gens, gres):
        data[p] = d[p]
    return data


def run(ctx):
    ctx.coverage['rule'] = (
        'a case is one of: print (a reaction of Reaction/ChemkinReaction/SurfaceReaction with 1-4 species per '
        'side, coefficients, a transition state of 0-2 species, delimiters, a stoich_format of '
        + ' '.join(repr(f) for f in FORMATS) + ', stoich_space, include_TS, key, stoichiometry given as '
        'list/tuple/ndarray of float/int/numpy scalars, blanks; printed by to_string or str(), padded, read '
        'back from a species dict or list and read through a RING file), hand (a hand-written reaction string '
        'with integer/decimal/omitted coefficients, repeated and unknown species, raise_error / raise_warning), '
        'ring (a file of several lines), balance (a reaction with compositions, exact decimal or rational '
        'coefficients, int or float counts, species without composition) or formula (a sequence of '
        'symbol[count] items). TLC cases are the complete bounded families of RxnCases/Balance/Formula with '
        'TLC-computed expectations; random cases are drawn from the quantifier of the property, the i-th one '
        'with one documented option/format/delimiter/class/container/name class forced in rotation. '
        'Non-trivial: a print case has a coefficient other than 1, a hand case a written coefficient, a ring '
        'case a reaction line; distinct by the full case content')
    if ctx.replay_case is not None:
        cases = [ctx.replay_case['case']]
    else:
        data = _run_models(ctx)
        rnd = random.Random(ctx.seed)
        cases = [_rxn_from_tlc(c, k) for k, c in enumerate(data['rxn'])]
        cases += [_bal_from_tlc(c, k) for k, c in enumerate(data['balance'])]
        cases += [_for_from_tlc(c) for c in data['formula']]
        ctx.coverage['tlc_cases'] = {k: len(v) for k, v in data.items()}
        for i in range(ctx.pick(2000, 40000)):
            cases.append(_random_print(rnd, i))
        for i in range(ctx.pick(2000, 40000)):
            cases.append(_random_hand(rnd, i))
        for i in range(ctx.pick(400, 6000)):
            cases.append(_random_ring(rnd, i))
        for i in range(ctx.pick(2500, 50000)):
            cases.append(_random_balance(rnd, i))
        for i in range(ctx.pick(1500, 30000)):
            cases.append(_random_formula(rnd, i))
        for i in range(ctx.pick(300, 5000)):
            cases.append(_random_fhist(rnd, i))
    results = core.pmap(_safe_execute, cases)
    traces = []
    kinds = {}
    for tid, (case, (events, mism)) in enumerate(zip(cases, results)):
        ctx.evaluated()
        kinds[case['kind']] = kinds.get(case['kind'], 0) + 1
        if _nontrivial(case):
            ctx.nontrivial(_signature(case))
        for m in mism:
            clause = 'Raises' if 'raised' in m else _REPLAY_CLAUSE[case['kind']]
            ctx.violation(clause, case, tags=_tags(case), detail=m)
        # quick tier: every TLC case is replayed with equality (S->C); every second one is
        # also judged by the trace specification (all of them in the thorough tier, and
        # always when the replay disagreed)
        if not (ctx.quick and case.get('src') == 'tlc' and tid % 2 == 1 and not mism):
            traces.append((tid, events))
        else:
            traces.append((tid, []))
        if tid % 4999 == 0:
            ctx.sample({k: v for k, v in case.items() if k != 'expect'})
    ctx.coverage['cases_by_kind'] = kinds
    with cf.ThreadPoolExecutor(max_workers=2) as ex:
        vac = ex.submit(_vacuity, ctx, cases, traces) if ctx.replay_case is None else None
        fails, stats = core.validate_traces('Trace_RxnString', 'Trace', traces, shards=core.NCPU - 1)
        if vac is not None:
            vac.result()
    ctx.count('traces_validated_against_impl', sum(1 for _, evs in traces if evs))
    ctx.coverage['trace_lines'] = stats['lines']
    by_case = {}
    for tid, idx, clause in fails:
        by_case.setdefault((tid, clause), []).append(idx)
    for (tid, clause), idxs in sorted(by_case.items()):
        if clause in ('Unsupported', 'UnknownEvent', 'PadWitness', 'FormulaWitness'):
            raise core.MachineryError('trace clause %s on case %s' % (clause, json.dumps(cases[tid])[:600]))
        ctx.violation(clause, cases[tid], tags=_tags(cases[tid]), detail={'event_indices': idxs[:10]})
    # interleave the clauses so that the (capped) list of printed replays shows each of them
    rank, seen = [], {}
    for v in ctx.violations:
        seen[v['clause']] = seen.get(v['clause'], 0) + 1
        rank.append(seen[v['clause']])
    ctx.violations[:] = [v for _, _, v in sorted(zip(rank, range(len(rank)), ctx.violations),
                                                 key=lambda t: (t[0], t[1]))]
    ctx.assume('coefficients are read as the decimal text of repr(float) (exact to 18 fractional digits); '
               'range 0.001 <= c <= 30; stoich_format fixed-point, general or empty (no exponent notation: '
               'the grammar of from_string has none)')
    ctx.assume('coefficients in the grey zone of numpy.isclose(c, round(c)) (further than 1e-9 from an integer '
               'yet within 1e-8 + 1e-5 n) are not generated: the printer documents that it drops their decimals')
    ctx.assume('species names contain no blank and neither delimiter, do not start with a digit or "."; '
               'delimiters are not substrings of each other; a delimiter containing "." is used with integer '
               'coefficients only; names with +, -, =, . are used with blank-surrounded delimiters')
    ctx.assume('printed reactions have distinct species within a side')
    ctx.assume('balance: coefficients exact decimals (<= 4 places) or rationals p/q (q <= 12) handed over as '
               'the nearest double, counts 0-999 with at most 2 decimals, totals compared exactly; a species '
               'without a composition must not be accepted')


if __name__ == '__main__':
    core.main('C14', 'model_checking', run)
