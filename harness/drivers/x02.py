"""X02 - reaction networks: pmutt.reaction.network.Network.

(D)    spec/Network.tla checked exhaustively: every network of <= 3 reactions over <= 4
       intermediates (<= 6 nodes, <= 6 edges), both include_TS values, every query
       (MC_Network.cfg); neighbour order reversed / transition states as end points / three
       targets (MC_Network_ends.cfg); every energy assignment over 0..2 (MC_Network_span.cfg);
       the lemmas of MC_Network_lemmas.  The implementation-shaped variants of the pinned code
       (include_TS ignored; cutoff handed to networkx as an edge bound) must be REJECTED.
(S->C) MC_Network_cases: TLC emits the networks with their required graph and the required
       pathways of every query, and (network, energies, query) cases with the acceptable spans
       of every pathway and the acceptable minimum spans.  They are realised with real
       Reaction objects over electronic StatMech species (integer energies in eV) and replayed
       into the real Network; graph, enumerated pathways, spans and minimum span are compared
       with TLC's sets (discrete projection only).
(C->S) the same calls plus random real-valued networks (several species per state, fractional
       amounts, harmonic / electronic / Nasa species, reactions from objects and from strings,
       with and without units, update_network(include_TS=False), get_min_E_span and
       plot_coordinate_diagram with cutoff / max_paths / max_energy_span / pathway_numbers)
       are recorded as NDJSON and judged by spec/Trace_Network.tla.
The enumeration inside get_min_E_span / plot_coordinate_diagram is observed through the
get_E_span calls they make (one per enumerated pathway); the diagram's selection through the
legend entries of the plotted lines (matplotlib, Agg backend; nothing is shown or saved).
"""
import os
import random
import re

os.environ.setdefault('MPLBACKEND', 'Agg')

from harness import core
from harness.core import to_dec

UNITS = ['eV', 'kJ/mol', 'kcal/mol', 'J/mol', None]
T_CHOICES = [298.15, 500.0, 933.0]
LABEL = re.compile(r'^Pathway\s+(\d+) \(\s*([-+0-9.eE]+|nan|inf|-inf) ?(.*)\)$')


# --------------------------------------------------------------------------
# realisation of a network: states -> species, reactions -> Reaction objects
# --------------------------------------------------------------------------
def _species(spec):
    """spec = {'name', 'kind': 'elec'|'harm'|'nasa', 'e', 'vib'/'a'}"""
    from pmutt.statmech import StatMech, presets
    if spec['kind'] == 'elec':
        return StatMech(name=spec['name'], potentialenergy=float(spec['e']), **presets['electronic'])
    if spec['kind'] == 'harm':
        return StatMech(name=spec['name'], potentialenergy=float(spec['e']),
                        vib_wavenumbers=list(spec['vib']), **presets['harmonic'])
    import numpy as np
    from pmutt.empirical.nasa import Nasa
    a = np.array([float(v) for v in spec['a']])
    return Nasa(name=spec['name'], T_low=100.0, T_mid=3000.0, T_high=6000.0, a_low=a,
                a_high=a.copy(), phase='G')


def _amount_str(x):
    """amount as the library's string parser reads it back exactly (1 is left out)"""
    if x == 1.0:
        return ''
    return repr(int(x)) if float(x).is_integer() else repr(float(x))


def _state_str(comp, delim='+'):
    return delim.join('%s%s' % (_amount_str(a), n) for n, a in comp)


class Realised:
    """The real objects of one network description
    net = {'species': [spec...], 'states': [[(species index, amount)...]...] (state id = index + 1),
           'rx': [[r, p, t]...], 'from_string': [bool per reaction]}"""

    def __init__(self, net):
        from pmutt.reaction import Reaction
        self.net = net
        self.species = [_species(s) for s in net['species']]
        self.names = [s['name'] for s in net['species']]
        self.comp = [[(self.names[i], float(a)) for i, a in st] for st in net['states']]
        self.key2id = {frozenset(c): k + 1 for k, c in enumerate(self.comp)}
        if len(self.key2id) != len(self.comp):
            raise core.MachineryError('driver built two states with the same composition')
        by_name = dict(zip(self.names, self.species))
        self.reactions = []
        for k, (r, p, t) in enumerate(net['rx']):
            if net.get('from_string', [False] * len(net['rx']))[k]:
                s = _state_str(self.comp[r - 1]) + ' = '
                if t:
                    s += _state_str(self.comp[t - 1]) + ' = '
                s += _state_str(self.comp[p - 1])
                self.reactions.append(Reaction.from_string(s, by_name))
            else:
                def side(i):
                    return ([by_name[n] for n, _ in self.comp[i - 1]], [a for _, a in self.comp[i - 1]])
                R, P = side(r), side(p)
                TS = side(t) if t else (None, None)
                self.reactions.append(Reaction(reactants=R[0], reactants_stoich=R[1],
                                               products=P[0], products_stoich=P[1],
                                               transition_state=TS[0], transition_state_stoich=TS[1]))

    def node_id(self, key):
        return self.key2id.get(key, 0)

    def state_energies(self, units, T):
        """G of every state from the species' own getters (the reference of S1)"""
        out = []
        for c in self.comp:
            g = 0.0
            for (n, a) in c:
                sp = self.species[self.names.index(n)]
                g += a * (float(sp.get_GoRT(T=T)) if units is None else float(sp.get_G(units=units, T=T)))
            out.append(g)
        return out


def _comp_proj(names, pairs):
    return [[names.index(n) + 1 if n in names else 0, to_dec(a)] for n, a in pairs]


def observe_graph(R, net_obj):
    g = net_obj.graph
    nodes = []
    for key, data in g.nodes(data=True):
        sp = data.get('species') or []
        st = data.get('stoich') or []
        nodes.append([R.node_id(key), bool(data.get('is_transition_state')),
                      _comp_proj(R.names, [(s.name, a) for s, a in zip(sp, st)])])
    edges = [[R.node_id(a), R.node_id(b)] for a, b in g.edges()]
    return nodes, edges


def build_event(R, net_obj, inc, raised=''):
    ev = {'ev': 'build', 'inc': bool(inc), 'rx': [list(x) for x in R.net['rx']],
          'comp': [_comp_proj(R.names, c) for c in R.comp], 'nodes': [], 'edges': [], 'raised': raised}
    if not raised:
        ev['nodes'], ev['edges'] = observe_graph(R, net_obj)
    return ev


class Recorder:
    """wraps net.get_E_span of one instance: every call (path, result) is kept"""

    def __init__(self, R, net_obj):
        self.R, self.net, self.calls = R, net_obj, []
        self.orig = net_obj.get_E_span          # bound method of the class

        def rec(path, units=None, **kw):
            res = self.orig(path, units, **kw)
            self.calls.append(([R.node_id(k) for k in path], float(res)))
            return res
        net_obj.get_E_span = rec

    def take(self):
        c, self.calls = self.calls, []
        return c

    def close(self):
        del self.net.get_E_span


def _calls_proj(calls):
    fin = all(core.finite(v) for _, v in calls)
    return [[p, to_dec(v) if core.finite(v) else [0, 0]] for p, v in calls], fin


def _exc(ex):
    return ('%s: %s' % (type(ex).__name__, str(ex)[:160])).encode('ascii', 'replace').decode()


def _stage(ex):
    """where a plot_coordinate_diagram exception came from: ('enum', '') = the pathway
    enumeration / span evaluation; ('draw', site) = the layout and drawing after it, site =
    'x_vals' (a look-up of a state's x position), 'splrep' (the spline through a transition
    state) or '' (anywhere else)"""
    import traceback
    frames = traceback.extract_tb(ex.__traceback__)
    names = [(f.filename, f.name) for f in frames]
    if any(n in ('get_E_span', 'get_state_quantity', 'rec') or 'networkx' in fn for fn, n in names):
        return 'enum', ''
    site = ''
    own = [f for f in frames if f.filename.endswith('network.py') and f.name == 'plot_coordinate_diagram']
    if own:
        line = own[-1].line or ''
        if isinstance(ex, KeyError) and 'x_vals[' in line:
            site = 'x_vals'
        elif isinstance(ex, ValueError) and 'splrep' in line:
            site = 'splrep'
    return 'draw', site


def _target_arg(R, tg, as_list, delim='+'):
    strs = [_state_str(R.comp[t - 1], delim) for t in tg]
    return strs if (as_list or len(strs) > 1) else strs[0]


def do_minspan(R, net_obj, recd, q):
    units, T = q.get('units', 'eV'), q.get('T', 298.15)
    G = R.state_energies(units, T)
    ev = {'ev': 'minspan', 's': q['s'], 'tg': list(q['t']), 'c': int(q.get('c') or 0),
          'G': [to_dec(g) for g in G], 'raised': '', 'out': [0, 0], 'finite': True, 'units': units or ''}
    kw = {'T': T}
    if q.get('c'):
        kw['cutoff'] = int(q['c'])
    delim = q.get('delim', '+')
    ev['delim'] = delim
    if delim != '+':
        kw['species_delimiter'] = delim
    out = None
    try:
        out = float(net_obj.get_min_E_span(_state_str(R.comp[q['s'] - 1], delim),
                                           _target_arg(R, q['t'], q.get('tlist', False), delim),
                                           units=units, **kw))
    except Exception as ex:
        ev['raised'] = _exc(ex)
    calls = recd.take()
    ev['calls'], fin = _calls_proj(calls)
    if out is not None:
        ev['finite'] = fin and core.finite(out)
        ev['out'] = to_dec(out) if core.finite(out) else [0, 0]
    return ev, calls, out


def do_span(R, net_obj, recd, path, units, T):
    """get_E_span called directly with a path of node keys"""
    G = R.state_energies(units, T)
    keys = [frozenset(R.comp[i - 1]) for i in path]
    ev = {'ev': 'span', 'p': list(path), 'G': [to_dec(g) for g in G], 'raised': '', 'span': [0, 0],
          'finite': True}
    try:
        v = float(recd.orig(keys, units, T=T))
        ev['finite'] = core.finite(v)
        ev['span'] = to_dec(v) if core.finite(v) else [0, 0]
    except Exception as ex:
        ev['raised'] = _exc(ex)
    return ev


def do_diagram(R, net_obj, recd, q):
    import matplotlib.pyplot as plt
    units, T = q.get('units', 'eV'), q.get('T', 298.15)
    G = R.state_energies(units, T)
    ev = {'ev': 'diagram', 's': q['s'], 'tg': list(q['t']), 'c': int(q.get('c') or 0),
          'G': [to_dec(g) for g in G], 'raised': '', 'stage': '', 'finite': True,
          'maxp': int(q.get('maxp') or 0), 'hasmax': q.get('maxspan') is not None,
          'maxspan': to_dec(q['maxspan']) if q.get('maxspan') is not None else [0, 0],
          'nums': list(q['nums']) if q.get('nums') else [], 'labels': [], 'delim': q.get('delim', '+')}
    kw = {'T': T, 'show_energy_span': True, 'energy_span_format': '.9e',
          'show_state_table': bool(q.get('table', False))}
    if q.get('c'):
        kw['cutoff'] = int(q['c'])
    if q.get('maxp'):
        kw['max_paths'] = int(q['maxp'])
    if q.get('maxspan') is not None:
        kw['max_energy_span'] = float(q['maxspan'])
    if q.get('nums'):
        kw['pathway_numbers'] = q['nums'][0] if q.get('nums_scalar') else list(q['nums'])
    delim = q.get('delim', '+')
    if delim != '+':
        kw['species_delimiter'] = delim
    labels = None
    try:
        src = _state_str(R.comp[q['s'] - 1], delim)
        tgs = [_state_str(R.comp[t - 1], delim) for t in q['t']]
        res = net_obj.plot_coordinate_diagram(src, tgs if len(tgs) > 1 or q.get('tlist') else tgs[0],
                                              'get_GoRT' if units is None else 'get_G', units=units, **kw)
        fig, axes = res
        labels = []
        for ln in axes[0].get_lines():
            m = LABEL.match(ln.get_label())
            if not m:
                raise core.MachineryError('unreadable legend entry %r' % ln.get_label())
            labels.append((int(m.group(1)), float(m.group(2))))
        plt.close(fig)
    except core.MachineryError:
        raise
    except Exception as ex:
        ev['raised'] = _exc(ex)
        ev['stage'], ev['site'] = _stage(ex)
        ev['exc'] = type(ex).__name__
        plt.close('all')
    calls = recd.take()
    ev['calls'], fin = _calls_proj(calls)
    ev['finite'] = fin
    ev['src_multi'] = len(R.comp[q['s'] - 1]) > 1
    ev['nf_source'] = ev['raised'].startswith('NodeNotFound: source node')
    if labels is not None:
        ev['finite'] = fin and all(core.finite(v) for _, v in labels)
        ev['labels'] = [[i, to_dec(v) if core.finite(v) else [0, 0]] for i, v in labels]
    return ev, calls, labels


# --------------------------------------------------------------------------
# executing cases
# --------------------------------------------------------------------------
def _int_net(rx, en=None, from_string=None):
    """single electronic species per state, integer energies (eV)"""
    ids = sorted({i for x in rx for i in x if i})
    n = max(ids)
    species = [{'name': ('T%d' if any(x[2] == i + 1 for x in rx) else 'S%d') % (i + 1), 'kind': 'elec',
                'e': (en[i] if en else (i + 1) % 3)} for i in range(n)]
    return {'species': species, 'states': [[(i, 1.0)] for i in range(n)], 'rx': [list(x) for x in rx],
            'from_string': from_string or [False] * len(rx)}


def _make(case_net, inc, events, explicit_true=False):
    from pmutt.reaction.network import Network
    R = Realised(case_net)
    try:
        net_obj = Network(reactions=R.reactions)
        if not inc:
            net_obj.update_network(include_TS=False)
        elif explicit_true:
            net_obj.update_network(include_TS=True)
    except Exception as ex:
        events.append(build_event(R, None, inc, raised=_exc(ex)))
        return R, None
    events.append(build_event(R, net_obj, inc))
    return R, net_obj


def _exec_path(case):
    """TLC path case: graph and enumerated pathways must equal TLC's"""
    events, mism = [], []
    R, net_obj = _make(_int_net(case['rx'], from_string=case.get('from_string')), case['inc'], events,
                       explicit_true=case.get('explicit_true', False))
    if net_obj is None:
        return events, [('Raises', {'op': 'build', 'raised': events[-1]['raised']})]
    gm = _graph_mismatch(case, events[-1])
    if gm:
        mism.append(gm)
        if gm[0] == 'ReplayGraph':
            return events, mism                   # the queries below presuppose the graph
    recd = Recorder(R, net_obj)
    for q in case['qs']:
        qq = dict(q, units='eV', T=298.15)
        if q.get('op') == 'diagram':
            e, calls, _ = do_diagram(R, net_obj, recd, qq)
        else:
            e, calls, _ = do_minspan(R, net_obj, recd, qq)
        events.append(e)
        got = [p for p, _ in calls]
        if e['raised'] and not (e['ev'] == 'diagram' and e['stage'] == 'draw'):
            continue                               # judged by the trace specification (Raises)
        if gm:
            continue                               # the graph is not the one TLC enumerated on
        pm = _paths_mismatch(q, got, {'op': e['ev'], 'query': {k: q[k] for k in ('s', 't', 'c')},
                                      'cutoff_given': bool(q['c']), 'inc': case['inc']})
        if pm:
            mism.append(pm)
    return events, mism


def _graph_mismatch(case, ev):
    """None, or ('ReplayGraph', ...), or ('ReplayGraph_KnownTSKept', ...) when include_TS = False
    was asked for and the graph is exactly TLC's include_TS = True graph (finding X02-F4)"""
    def norm(nodes, edges):
        return sorted(nodes), sorted(sorted(e) for e in edges)
    got = norm([n[0] for n in ev['nodes']], ev['edges'])
    got_ts = sorted(n[0] for n in ev['nodes'] if n[1])
    want_ts = sorted({x[2] for x in case['rx'] if x[2]} & set(got[0]))
    if got == norm(case['nodes'], case['edges']) and got_ts == want_ts:
        return None
    det = {'op': 'build', 'inc': case['inc'],
           'expected': {'nodes': case['nodes'], 'edges': case['edges']},
           'got': {'nodes': got[0], 'edges': got[1], 'ts': got_ts}}
    if not case['inc'] and got == norm(case['nodes_ts'], case['edges_ts']) and got_ts == want_ts:
        return ('ReplayGraph_KnownTSKept', det)
    return ('ReplayGraph', det)


def _paths_mismatch(q, got, info):
    """None, ('ReplayPaths', ...), or ('ReplayPaths_KnownEdgeCount', ...) when a cutoff was given and
    the enumerated set is exactly TLC's set of simple paths with <= cutoff EDGES (finding X02-F5)"""
    want = sorted(list(p['p']) if isinstance(p, dict) else list(p) for p in q['paths'])
    got = sorted(list(p) for p in got)
    if got == want:
        return None
    det = dict(info, expected=want, got=got)
    if q['c'] and got == sorted(list(p) for p in q.get('paths_e', [])):
        return ('ReplayPaths_KnownEdgeCount', det)
    return ('ReplayPaths', det)


def _exec_span(case):
    """TLC span case: spans of the pathways and the minimum span must lie in TLC's sets"""
    events, mism = [], []
    R, net_obj = _make(_int_net(case['rx'], en=case['en']), case['inc'], events)
    if net_obj is None:
        return events, [('Raises', {'op': 'build', 'raised': events[-1]['raised']})]
    gm = _graph_mismatch(case, events[-1])
    if gm:
        mism.append(gm)
        if gm[0] == 'ReplayGraph':
            return events, mism
    recd = Recorder(R, net_obj)
    for q in case['qs']:
        e, calls, out = do_minspan(R, net_obj, recd, dict(q, units='eV', T=case.get('T', 298.15)))
        events.append(e)
        if e['raised'] or gm:
            continue
        acc = {tuple(p['p']): p['spans'] for p in q['paths']}
        info = {'op': 'minspan', 'query': {k: q[k] for k in ('s', 't', 'c')}, 'cutoff_given': bool(q['c']),
                'inc': case['inc']}
        pm = _paths_mismatch(q, [p for p, _ in calls], info)
        if pm:
            mism.append(pm)
            continue
        for p, v in calls:
            if not core.finite(v) or abs(v - round(v)) > 1e-6 or round(v) not in acc[tuple(p)]:
                mism.append(('ReplaySpan', dict(info, path=p, got=v, acceptable=acc[tuple(p)])))
        if not core.finite(out) or abs(out - round(out)) > 1e-6 or round(out) not in q['mins']:
            mism.append(('ReplayMinSpan', dict(info, got=out, acceptable=q['mins'])))
        # the same pathway through get_E_span called directly
        if calls:
            events.append(do_span(R, net_obj, recd, calls[0][0], 'eV', case.get('T', 298.15)))
    return events, mism


# ---- random real-valued networks -------------------------------------------
def _random_net(rnd):
    ni = rnd.randint(2, 6)
    species, states = [], []
    # spectators shared between states (gas-phase molecules riding along)
    spect = []
    for name in ('H2', 'CO', 'N2'):
        if rnd.random() < 0.6:
            species.append({'name': name, 'kind': 'nasa',
                            'a': [3.5 + rnd.uniform(-0.5, 1.0), rnd.uniform(0, 2e-3), 0, 0, 0,
                                  rnd.uniform(-2e3, 1e3), rnd.uniform(-4, 8)]})
            spect.append(len(species) - 1)

    def new_species(prefix, e):
        k = rnd.random()
        name = '%s%d' % (prefix, len(species))
        if k < 0.5:
            species.append({'name': name, 'kind': 'harm', 'e': e,
                            'vib': [rnd.uniform(80, 3200) for _ in range(rnd.randint(1, 5))]})
        else:
            species.append({'name': name, 'kind': 'elec', 'e': e})
        return len(species) - 1

    def new_state(prefix, e):
        comp = [(new_species(prefix, e), rnd.choice([1.0, 1.0, 1.0, 2.0]))]
        for s in spect:
            if rnd.random() < 0.3:
                comp.append((s, rnd.choice([0.5, 1.0, 1.5, 2.0, 3.0])))
        rnd.shuffle(comp)
        states.append(comp)
        return len(states)

    base = rnd.uniform(-3.0, 3.0)
    en = {}
    for i in range(ni):
        sid = new_state('I', base + rnd.uniform(-1.5, 1.5))
        en[sid] = species[[c for c in states[-1] if c[0] not in spect][0][0]]['e']
    pairs = [(a, b) for a in range(1, ni + 1) for b in range(a + 1, ni + 1)]
    rnd.shuffle(pairs)
    nr = rnd.randint(1, min(7, len(pairs)))
    chosen = pairs[:nr]
    if rnd.random() < 0.25:
        chosen.append(rnd.choice(chosen))            # a second route between the same two states
    rx, fs = [], []
    have_direct = set()
    for (a, b) in chosen:
        if rnd.random() < 0.5:
            a, b = b, a
        key = frozenset((a, b))
        want_ts = rnd.random() < 0.45 or key in have_direct
        t = 0
        if want_ts and len(states) < 11:
            t = new_state('TS', max(en[a], en[b]) + rnd.uniform(0.02, 1.6))
        if not t:
            if key in have_direct:
                continue
            have_direct.add(key)
        rx.append([a, b, t])
        fs.append(rnd.random() < 0.4)
    return {'species': species, 'states': states, 'rx': rx, 'from_string': fs}


def _pick_query(rnd, nodes, ists, allow_multi=True, ts_ends=True):
    ends = [n for n in nodes if n not in ists] if (not ts_ends or rnd.random() < 0.85) else list(nodes)
    if len(ends) < 2:
        ends = list(nodes)
    s = rnd.choice(ends)
    others = [n for n in ends if n != s]
    k = 2 if (allow_multi and len(others) >= 2 and rnd.random() < 0.25) else 1
    t = sorted(rnd.sample(others, k))
    c = 0 if rnd.random() < 0.55 else rnd.randint(2, max(2, len(nodes)))
    return {'s': s, 't': t, 'c': c, 'tlist': rnd.random() < 0.3}


def _threshold(rnd, spans):
    """a max_energy_span that no span is close to (so that 9-digit comparison agrees)"""
    v = sorted(spans)
    cands = [v[-1] + 0.5 * (abs(v[-1]) + 1.0)]
    for a, b in zip(v, v[1:]):
        if b - a > 1e-5 * max(abs(a), abs(b), 1.0):
            cands.append(0.5 * (a + b))
    return rnd.choice(cands)


def _exec_random(case):
    rnd = random.Random(case['seed'])
    net = _random_net(rnd)
    events = []
    R, net_obj = _make(net, True, events, explicit_true=rnd.random() < 0.3)
    if net_obj is None:
        return events, []
    recd = Recorder(R, net_obj)
    phases = [True] + ([False] if rnd.random() < 0.5 else [])
    for inc in phases:
        if not inc:
            try:
                net_obj.update_network(include_TS=False)
                events.append(build_event(R, net_obj, False))
            except Exception as ex:
                events.append(build_event(R, None, False, raised=_exc(ex)))
                break
        # the queries are drawn from the graph the reactions define (not from the library's)
        nodes = sorted({i for x in net['rx'] for i in (x[0], x[1])} |
                       ({x[2] for x in net['rx'] if x[2]} if inc else set()))
        ists = {x[2] for x in net['rx'] if x[2]}
        for _ in range(case['nq']):
            diagram = rnd.random() < case['p_diagram']
            q = _pick_query(rnd, nodes, ists, ts_ends=not diagram)
            q['units'] = rnd.choice(UNITS)
            q['T'] = rnd.choice(T_CHOICES + [rnd.uniform(250.0, 1100.0)])
            if rnd.random() < 0.3 and any(len(R.comp[i - 1]) > 1 for i in [q['s']] + q['t']):
                q['delim'] = ';'
            if diagram:
                q['table'] = rnd.random() < 0.25
                e0, calls, labels = do_diagram(R, net_obj, recd, q)
                events.append(e0)
                if labels:
                    q2 = dict(q)
                    spans = [v for _, v in labels]
                    if rnd.random() < 0.6:
                        q2['maxp'] = rnd.randint(1, len(spans) + 1)
                    if rnd.random() < 0.5 and all(core.finite(v) for v in spans):
                        q2['maxspan'] = _threshold(rnd, spans)
                    if rnd.random() < 0.5:
                        k = rnd.randint(1, min(3, len(spans) + 1))
                        q2['nums'] = sorted(rnd.sample(range(1, len(spans) + 2), k))
                        q2['nums_scalar'] = k == 1 and rnd.random() < 0.5
                    events.append(do_diagram(R, net_obj, recd, q2)[0])
            else:
                e, calls, _ = do_minspan(R, net_obj, recd, q)
                events.append(e)
                if calls and rnd.random() < 0.3:
                    events.append(do_span(R, net_obj, recd, rnd.choice(calls)[0], q['units'], q['T']))
    return events, []


def _exec_bep(case):
    """a transition state given as a BEP relationship (probe; see notes/X02.md)"""
    from pmutt.reaction import Reaction
    from pmutt.reaction.bep import BEP
    from pmutt.reaction.network import Network
    net = _int_net([[1, 2, 0], [2, 3, 0]], en=[0, 1, -1])
    R = Realised(net)
    bep = BEP(slope=0.5, intercept=20.0, name='bepTS', descriptor='delta_H')
    r1 = Reaction(reactants=[R.species[0]], reactants_stoich=[1.0], products=[R.species[1]],
                  products_stoich=[1.0], transition_state=[bep], transition_state_stoich=[1.0])
    try:
        ref = float(Reaction.get_G_state(r1, 'transition state', units='eV', T=300.0))
        net_obj = Network(reactions=[r1, R.reactions[1]])
        v = float(net_obj.get_min_E_span('S1', 'S3', units='eV', T=300.0))
        ok = core.finite(v) and core.finite(ref)
        return [], ([] if ok else [('Finite', {'op': 'bep', 'got': v})])
    except Exception as ex:
        return [], [('Raises', {'op': 'bep', 'exc': type(ex).__name__, 'raised': _exc(ex),
                                'call': "Network([A = bepTS = B, B = C]).get_min_E_span('S1', 'S3', units='eV', T=300.)"})]


EXEC = {'path': _exec_path, 'span': _exec_span, 'random': _exec_random, 'bep': _exec_bep}


def execute(case):
    try:
        return EXEC[case['kind']](case)
    except core.MachineryError:
        raise
    except Exception as ex:                      # the library raised outside a recorded call
        import traceback
        return [], [('Raises', {'op': 'driver', 'raised': _exc(ex),
                                'where': traceback.format_exc().splitlines()[-4:]})]


# --------------------------------------------------------------------------
# case generation
# --------------------------------------------------------------------------
def _tlc_cases(ctx, rnd):
    data, r = core.tlc_cases('MC_Network_cases', 'MC_Network_cases')
    ctx.coverage['tlc_cases'] = {'path_networks': len(data['path']),
                                 'path_queries': sum(len(c['qs']) for c in data['path']),
                                 'span_queries': len(data['span'])}
    cases = []
    for c in sorted(data['path'], key=core._hash):
        qs = sorted(c['qs'], key=core._hash)
        rnd.shuffle(qs)
        if ctx.quick:
            # all shapes of query: with/without cutoff, one/two targets
            groups = {}
            for q in qs:
                groups.setdefault((bool(q['c']), len(q['t'])), []).append(q)
            qs = [q for g in sorted(groups) for q in groups[g][:4]]
        qs = [dict(q, tlist=rnd.random() < 0.3,
                   op='diagram' if (len(q['t']) == 1 and not ({q['s']} | set(q['t'])) & set(c['ts'])
                                    and rnd.random() < (0.1 if ctx.quick else 0.15)) else 'minspan')
              for q in qs]
        cases.append({'kind': 'path', 'rx': c['rx'], 'inc': c['inc'], 'nodes': c['nodes'],
                      'edges': c['edges'], 'nodes_ts': c['nodes_ts'], 'edges_ts': c['edges_ts'],
                      'ts': c['ts'], 'qs': qs,
                      'explicit_true': rnd.random() < 0.3,
                      'from_string': [rnd.random() < 0.3 for _ in c['rx']]})
    # span cases: grouped per (network, include_TS, energies)
    groups = {}
    for c in sorted(data['span'], key=core._hash):
        groups.setdefault(core._hash([c['rx'], c['inc'], c['en']]), []).append(c)
    keys = sorted(groups)
    rnd.shuffle(keys)

    def interesting(c):
        return len(c['mins']) > 1 or any(len(p['spans']) > 1 for p in c['paths']) or len(c['paths']) > 2
    if ctx.quick:
        keep = [k for k in keys if any(interesting(c) for c in groups[k])][:400]
        keep += [k for k in keys if k not in set(keep)][:300]
    else:
        keep = keys
    for k in keep:
        g = groups[k]
        cases.append({'kind': 'span', 'rx': g[0]['rx'], 'inc': g[0]['inc'], 'en': g[0]['en'],
                      'nodes': g[0]['nodes'], 'edges': g[0]['edges'], 'nodes_ts': g[0]['nodes_ts'],
                      'edges_ts': g[0]['edges_ts'], 'T': rnd.choice(T_CHOICES),
                      'qs': [{'s': c['s'], 't': c['t'], 'c': c['c'], 'paths': c['paths'], 'mins': c['mins'],
                              'paths_e': c['paths_e'],
                              'tlist': rnd.random() < 0.3} for c in (g[:6] if ctx.quick else g)]})
    return cases


def _random_cases(ctx, rnd):
    return [{'kind': 'random', 'seed': rnd.randrange(1 << 30), 'nq': rnd.randint(2, 5),
             'p_diagram': 0.3} for _ in range(ctx.pick(220, 5000))] + [{'kind': 'bep'}]


def _signature(case):
    if case['kind'] == 'random':
        return ['random', case['seed']]
    if case['kind'] == 'span':
        return ['span', case['rx'], case['inc'], case['en']]
    return [case['kind'], case.get('rx'), case.get('inc')]


def _tags(case, ev, detail=None):
    t = {'kind': case['kind'], 'op': ev.get('ev') if ev else (detail or {}).get('op')}
    if ev and ev.get('ev') in ('minspan', 'diagram'):
        t['multi_target'] = len(ev['tg']) > 1
        t['cutoff_given'] = ev['c'] != 0
        t['delim'] = ev.get('delim', '+')
    if ev and ev.get('ev') == 'diagram':
        t['stage'] = ev.get('stage', '')
        t['exc'] = ev.get('exc', '')
        t['site'] = ev.get('site', '')
        t['src_multi'] = ev.get('src_multi', False)
        t['nf_source'] = ev.get('nf_source', False)
    if ev and ev.get('ev') == 'build':
        t['inc'] = ev['inc']
    if detail:
        for k in ('inc', 'cutoff_given', 'exc'):
            if k in detail and k not in t:
                t[k] = detail[k]
    return t


def run(ctx):
    ctx.coverage['rule'] = (
        'a case is one reaction network (its reactions and the species of its states) with the '
        'queries put to it; path/span cases are the complete small case sets emitted by TLC from '
        'NetworkDefs.tla (<= 3 reactions over <= 4 intermediates, realised with electronic StatMech '
        'species; the quick tier replays every network with a stratified sample of its queries), '
        'random cases are real-valued networks (2-6 intermediates, <= 8 reactions, 1-4 species per '
        'state, harmonic / electronic / Nasa species, reactions from objects and from strings, with '
        'and without include_TS, units eV / kJ/mol / kcal/mol / J/mol / none); non-trivial: a network '
        'with at least one query that has >= 2 pathways; distinct by reactions / energies / seed')
    rnd = random.Random(ctx.seed)
    if ctx.replay_case is not None:
        cases = [ctx.replay_case['case']]
    else:
        import concurrent.futures as cf
        big = not ctx.quick
        with cf.ThreadPoolExecutor(max_workers=8) as ex:
            f_ok = [ex.submit(ctx.model, 'MC_Network', 'MC_Network_big' if big else 'MC_Network', workers=6),
                    ex.submit(ctx.model, 'MC_Network', 'MC_Network_ends', workers=2),
                    ex.submit(ctx.model, 'MC_Network', 'MC_Network_span_big' if big else 'MC_Network_span',
                              workers=4),
                    ex.submit(ctx.model, 'MC_Network_lemmas', 'MC_Network_lemmas', workers=1)]
            f_bad = [(cfg, inv, ex.submit(ctx.model, 'MC_Network', cfg, workers=1, expect_ok=False))
                     for cfg, inv in (('MC_Network_ignoreflag', 'GraphIsNetwork'),
                                      ('MC_Network_edgecutoff', 'CutoffStates'))]
            f_cases = ex.submit(_tlc_cases, ctx, rnd)
            for f in f_ok:
                f.result()
            for cfg, inv, f in f_bad:
                bad = f.result()
                if bad.ok or bad.violated != inv:
                    raise core.MachineryError('the implementation-shaped variant should be rejected by %s '
                                              '(%s):\n%s' % (inv, cfg, bad.out[-1500:]))
            tlc_cases = f_cases.result()
        ctx.notes.append('design model rejects update_network ignoring include_TS (GraphIsNetwork) and the '
                         'documented state cutoff handed to networkx as an edge bound (CutoffStates)')
        cases = tlc_cases + _random_cases(ctx, rnd)
    results = core.pmap(execute, cases)
    traces, found = [], []
    cov = {'build': 0, 'build_without_TS': 0, 'minspan': 0, 'diagram': 0, 'span': 0, 'with_cutoff': 0,
           'multi_target': 0, 'queries_with_2plus_pathways': 0, 'diagram_with_max_paths': 0,
           'diagram_with_max_span': 0, 'diagram_with_numbers': 0, 'diagram_drawn': 0,
           'min_strictly_below_some_span': 0, 'no_units': 0, 'other_delimiter': 0}
    for tid, (case, (events, mism)) in enumerate(zip(cases, results)):
        ctx.evaluated()
        nontriv = False
        for e in events:                         # coverage statistics only (no judgement)
            cov[e['ev']] += 1
            if e['ev'] == 'build' and not e['inc']:
                cov['build_without_TS'] += 1
            if e['ev'] in ('minspan', 'diagram'):
                cov['with_cutoff'] += 1 if e['c'] else 0
                cov['no_units'] += 1 if e.get('units') == '' else 0
                cov['other_delimiter'] += 1 if e.get('delim', '+') != '+' else 0
                cov['multi_target'] += 1 if len(e['tg']) > 1 else 0
                if len(e['calls']) >= 2:
                    cov['queries_with_2plus_pathways'] += 1
                    nontriv = True
                    if len({tuple(c[1]) for c in e['calls']}) > 1 and e['ev'] == 'minspan':
                        cov['min_strictly_below_some_span'] += 1
            if e['ev'] == 'diagram':
                cov['diagram_with_max_paths'] += 1 if e['maxp'] else 0
                cov['diagram_with_max_span'] += 1 if e['hasmax'] else 0
                cov['diagram_with_numbers'] += 1 if e['nums'] else 0
                cov['diagram_drawn'] += 1 if e['labels'] else 0
        if nontriv:
            ctx.nontrivial(_signature(case))
        for clause, detail in mism:
            found.append((clause, case, _tags(case, None, detail), detail))
        traces.append((tid, events))
        if tid % 397 == 0:
            ctx.sample({k: v for k, v in case.items()
                        if k not in ('qs', 'nodes', 'edges', 'nodes_ts', 'edges_ts')})
    ctx.coverage['exercised'] = cov
    if ctx.replay_case is None and min(cov.values()) == 0:
        raise core.MachineryError('vacuous run: %r' % (cov,))
    fails, stats = core.validate_traces('Trace_Network', 'Trace', traces)
    ctx.count('traces_validated_against_impl', len(traces))
    ctx.coverage['trace_lines'] = stats['lines']
    by = {}
    for tid, idx, clause in fails:
        ev = results[tid][0][idx]
        by.setdefault((tid, clause, _hash_tags(_tags(cases[tid], ev))), []).append(idx)
    for (tid, clause, _), idxs in sorted(by.items(), key=lambda kv: (kv[0][0], kv[0][1])):
        ev = results[tid][0][idxs[0]]
        det = {'event_indices': idxs[:10], 'first_event': ev}
        found.append((clause, cases[tid], _tags(cases[tid], ev), det))
    groups = {}
    for v in found:
        groups.setdefault((v[0], v[2].get('kind')), []).append(v)
    order = sorted(groups, key=lambda g: (g[1] == 'random', g))
    while any(groups.values()):
        for g in order:
            if groups[g]:
                ctx.violation(*groups[g].pop(0))
    ctx.assume('state energies and spans are compared as 9-digit decimals (SpanDefinition to 1e-7 of the '
               'largest state energy; pathway spans agreeing to 9 digits count as tied); the reference '
               'energy of a state is the sum of its species\' own get_G / get_GoRT times the amounts')
    ctx.assume('the pathways enumerated by get_min_E_span / plot_coordinate_diagram are observed as the '
               'get_E_span calls they make; the plotted pathways as the legend entries of the lines')
    ctx.assume('reactions are reversible: the network graph is undirected (as built); a source that is also '
               'a target, queries without any pathway and diagrams from which every pathway is eliminated '
               'are outside the quantifier')


def _hash_tags(t):
    return core._hash(t)


if __name__ == '__main__':
    core.main('X02', 'model_checking', run)
