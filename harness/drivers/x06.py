"""X06 - LogReaders: the line-oriented readers of pmutt.io.vasp and pmutt.io.gaussian return
exactly the values of the lines of their kind, in file order, with the documented selection.

(D)    spec/LogReaders.tla (over LogFormat.tla / Text.tla / Dec.tla) checked exhaustively by TLC: the
       implementation-shaped automata (the regular expressions of the source) against the required line
       classification and the declared results, for every file of <= 3 (thorough: 5 / 4) lines over an
       adversarial alphabet of 37 line kinds; five defect variants are EXPECTED TO BE REJECTED
       (MC_LogReaders_group0 = the source as found, _firstnum, _ge, _imagcut, _last).
(S->C) TLC writes every file of the alphabet (<= 3 lines OUTCAR, <= 2 / 3 lines Gaussian) with every
       result the specification declares for it; the driver writes the file, calls the real readers and
       compares the numeric projection (9-digit decimals, trailing zeros stripped) by equality.
(C->S) those runs, random OUTCAR-like and Gaussian-like files (program formats, repeated blocks,
       imaginary modes, values at the cutoff, look-alike lines, lines of the shipped OUTCAR as noise)
       and the shipped pmutt/tests/input_output/test_OUTCAR are recorded line by line (character codes)
       with every call and judged by spec/Trace_LogReaders.tla, which runs the specification's own
       classifier and fold over the REAL text.
Python only builds text, calls the library and projects (str -> codes, float -> Dec).
"""
import contextlib
import io
import json
import os
import random
import re
import shutil
import tempfile
import concurrent.futures as cf

from harness import core, lib_x06
from harness.core import to_dec

SCALARS = ('zpe', 'sum', 'mass', 'sym')
LISTS = ('freq', 'rott')
MODES = {'rest': '(.*)', 'paren': r'(.*?)\(', 'two': r'(\S+) (.*)'}
SAMPLE_OUTCAR = os.path.join(core.REPO, 'pmutt', 'tests', 'input_output', 'test_OUTCAR')


def codes(s):
    return [ord(ch) for ch in s]


def uncodes(c):
    return ''.join(chr(v) for v in c)


def strip_dec(d):
    m, e = d
    if m == 0:
        return [0, 0]
    while m % 10 == 0:
        m //= 10
        e += 1
    return [m, e]


def dec_or_none(x):
    try:
        return to_dec(x)
    except Exception:
        return None


def regex_of(pat):
    return re.escape(pat[0]) + MODES[pat[1]]


# --------------------------------------------------------------------------
# running one file through the real readers
# --------------------------------------------------------------------------
def _exc(ex):
    return type(ex).__name__


def _call_vib(path, cut, imag):
    from pmutt.io import vasp
    d = {'other': 1, 'vib_wavenumbers': ['stale']}
    e = {'ev': 'vib', 'cut': to_dec(cut), 'imag': bool(imag), 'res': [], 'kept': True, 'raised': ''}
    try:
        with contextlib.redirect_stdout(io.StringIO()):
            vasp.set_vib_wavenumbers_from_outcar(path, d, cut, imag)
        vals = d.get('vib_wavenumbers')
        e['kept'] = (d.get('other') == 1 and set(d.keys()) == {'other', 'vib_wavenumbers'})
        if not isinstance(vals, list) or any(dec_or_none(v) is None for v in vals):
            e['raised'] = 'BadResult: %r' % (vals,)
        else:
            e['res'] = [to_dec(v) for v in vals]
    except Exception as ex:
        e['raised'] = _exc(ex)
    return e


def _call_line(text):
    from pmutt.io import vasp
    e = {'ev': 'linecall', 'c': codes(text), 'res': [], 'raised': ''}
    try:
        v = vasp.get_vib_wavenumber_from_line(text)
        d = dec_or_none(v)
        if d is None:
            e['raised'] = 'BadResult: %r' % (v,)
        else:
            e['res'] = [d]
    except Exception as ex:
        e['raised'] = _exc(ex)
    return e


def _unit_factors(fn, units):
    """(kwargs, fnum, fden) with res * fden = value * fnum; factors from pmutt.constants (C12's subject)."""
    from pmutt import constants as c
    if fn in ('zpe', 'sum'):
        u = units or 'Ha/molecule'
        return {'units': u}, c.convert_unit(initial='Ha/molecule', final=u), 1.0
    if fn == 'freq':
        u = units or '1/cm'
        return {'units': u}, 1.0, c.convert_unit(initial='cm', final=u.split('/')[-1])
    if fn == 'mass':
        u = units or 'amu'
        uu = 'amu/molecule' if u == 'amu' else u
        mu, au = uu.split('/')
        return {'units': u}, c.convert_unit(initial='amu', final=mu), c.convert_unit(initial='molecule', final=au)
    return {}, 1.0, 1.0


def _call_reader(path, fn, units=None):
    from pmutt.io import gaussian as g
    f = {'zpe': g.read_zpe, 'sum': g.read_electronic_and_zpe, 'freq': g.read_frequencies,
         'rott': g.read_rotational_temperatures, 'mass': g.read_molecular_mass,
         'sym': g.read_rot_symmetry_num}[fn]
    kw, fnum, fden = _unit_factors(fn, units)
    e = {'ev': 'greader', 'fn': fn, 'units': units or '', 'res': [], 'fnum': to_dec(fnum), 'fden': to_dec(fden),
         'isint': False, 'raised': ''}
    try:
        r = f(path, **kw)
        vals = list(r) if fn in LISTS else [r]
        e['isint'] = isinstance(r, int) and not isinstance(r, bool)
        if any(dec_or_none(v) is None for v in vals):
            e['raised'] = 'BadResult: %r' % (r,)
        else:
            e['res'] = [to_dec(v) for v in vals]
    except Exception as ex:
        e['raised'] = _exc(ex)
    return e


def _call_pattern(path, idx, pat, group, imm):
    from pmutt.io import gaussian as g
    e = {'ev': 'pattern', 'idx': idx + 1, 'group': group, 'imm': bool(imm), 'kind': '', 'text': [], 'words': [],
         'raised': ''}
    try:
        r = g.read_pattern(path, regex_of(pat), group=group, return_immediately=imm)
        if isinstance(r, str):
            e['kind'] = 'str'
            e['text'] = codes(r)
        elif isinstance(r, list) and all(isinstance(w, str) for w in r):
            e['kind'] = 'list'
            e['words'] = [codes(w) for w in r]
        else:
            e['raised'] = 'BadResult: %r' % (r,)
    except Exception as ex:
        e['raised'] = _exc(ex)
    return e


def execute(case):
    """case: {cid, kind, fam, lines | path, nl, cuts, imags, readers: [[fn, units]..], pats: [[key, mode]..],
    pcalls: [[idx, group, imm]..], linecalls: [text..], missing, expect}.  Returns (events, mismatches)."""
    events, mism = [], []
    d = tempfile.mkdtemp(prefix='x06_')
    try:
        if case.get('path'):
            path = case['path']
            with open(path) as f:
                lines = f.read().split('\n')
            if lines and lines[-1] == '':
                lines.pop()
        else:
            lines = case['lines']
            path = os.path.join(d, 'OUTCAR' if case['fam'] == 'outcar' else 'job.log')
            with open(path, 'w', newline='') as f:
                f.write('\n'.join(lines) + ('\n' if (lines and case.get('nl', True)) else ''))
        pats = case.get('pats') or []
        events.append({'ev': 'open', 'fam': case['fam'], 'pats': [[codes(p[0]), p[1]] for p in pats]})
        for ln in lines:
            events.append({'ev': 'line', 'c': codes(ln)})
        got = {'vib': {}, 'g': {}, 'first': {}, 'all': {}}
        for ci, cut in enumerate(case.get('cuts') or []):
            for im in case.get('imags', (False, True)):
                e = _call_vib(path, cut, im)
                events.append(e)
                got['vib'][(ci, bool(im))] = e
        for fn, units in case.get('readers') or []:
            e = _call_reader(path, fn, units)
            events.append(e)
            got['g'].setdefault(fn, e)
        for idx, group, imm in case.get('pcalls') or []:
            e = _call_pattern(path, idx, pats[idx], group, imm)
            events.append(e)
            got['first' if imm else 'all'][(idx, group)] = e
        for text in case.get('linecalls') or []:
            events.append(_call_line(text))
        if case.get('missing'):
            e = {'ev': 'missing', 'raised': ''}
            try:
                from pmutt.io import vasp
                vasp.set_vib_wavenumbers_from_outcar(os.path.join(d, 'no_such_OUTCAR'), {}, 0.)
            except Exception as ex:
                e['raised'] = _exc(ex)
            events.append(e)
        exp = case.get('expect')
        if exp is not None:
            mism = _compare(exp, got, case)
    finally:
        shutil.rmtree(d, ignore_errors=True)
    return events, mism


def _nums(vs):
    return [[v[0], v[1]] for v in vs]


def _compare(exp, got, case):
    """(S->C) equality with what TLC declared for this file."""
    mism = []

    def diff(what, want, e, have):
        if e['raised']:
            mism.append({'kind': 'ReplayResult', 'what': what, 'raised': e['raised'], 'expected': want})
        elif have != want:
            mism.append({'kind': 'ReplayResult', 'what': what, 'expected': want, 'got': have})

    for ci in range(len(case.get('cuts') or [])):
        for k, im in enumerate((False, True)):
            e = got['vib'].get((ci, im))
            if e is not None:
                diff('vib cut=%r imag=%r' % (case['cuts'][ci], im), _nums(exp['vib'][ci][k]), e,
                     [strip_dec(v) for v in e['res']])
    for k, fn in enumerate(SCALARS):
        e = got['g'].get(fn)
        if e is not None:
            diff(fn, _nums(exp['scalar'][k]), e, [strip_dec(v) for v in e['res']])
    for k, fn in enumerate(LISTS):
        e = got['g'].get(fn)
        if e is not None:
            diff(fn, _nums(exp['list'][k]), e, [strip_dec(v) for v in e['res']])
    for (idx, g), e in got['first'].items():
        w = exp['first'][g]
        want = ['str', w['text']] if w['found'] else ['list', []]
        diff('read_pattern first group=%d' % g, want, e,
             [e['kind'], e['text'] if e['kind'] == 'str' else e['words']])
    for (idx, g), e in got['all'].items():
        n = len(mism)
        diff('read_pattern all group=%d' % g, ['list', exp['all'][g]], e, [e['kind'], e['words']])
        for m in mism[n:]:                        # tags of the known shape X06-F1 (the words TLC declared for group 0)
            m['tags'] = {'call': 'read_pattern', 'group': g, 'immediately': False,
                         'shape': 'group_zero' if (g >= 1 and not e['raised'] and [e['kind'], e['words']] == ['list', exp['all'][0]])
                         else 'other'}
    return mism


def _safe_execute(case):
    try:
        return execute(case)
    except core.MachineryError:
        raise
    except Exception as ex:
        raise core.MachineryError('driver failed on case %s: %s: %s' % (case.get('cid'), type(ex).__name__, ex))


# --------------------------------------------------------------------------
# cases from TLC
# --------------------------------------------------------------------------
def _dec_to_float(d):
    return float('%de%d' % (d[0], d[1]))


def _tlc_cases(doc, fam, tag):
    lines = [uncodes(c) for c in doc['lines']]
    cuts = [_dec_to_float(c) for c in doc['cuts']]
    pat = [uncodes(doc['pat']['key']), doc['pat']['mode']]
    if list(doc['scalars']) != list(SCALARS) or list(doc['lists']) != list(LISTS):
        raise core.MachineryError('reader order of the case generator changed')
    out = []
    for k, c in enumerate(sorted(doc['cases'], key=lambda c: (len(c['f']), c['f']))):
        readers = [[fn, None] for j, fn in enumerate(SCALARS) if c['scalar'][j]] + [[fn, None] for fn in LISTS]
        out.append({'cid': '%s%d' % (tag, k), 'kind': 'tlc', 'fam': 'both', 'src': fam,
                    'lines': [lines[j - 1] for j in c['f']], 'kinds': c['f'], 'nl': True,
                    'cuts': cuts, 'imags': [False, True], 'readers': readers, 'pats': [pat],
                    'pcalls': [[0, g, imm] for g in (0, 1) for imm in (True, False)],
                    'linecalls': [], 'missing': False,
                    'expect': {'vib': c['vib'], 'scalar': c['scalar'], 'list': c['list'],
                               'first': c['first'], 'all': c['all']}})
    return out


def _perline_case(doc):
    lines = [uncodes(c) for c in doc['lines']]
    ok = [t for t, w in zip(lines, doc['perline']) if w['what'] in ('value', 'none')]
    return {'cid': 'perline', 'kind': 'tlc', 'fam': 'both', 'src': 'perline', 'lines': [], 'cuts': [],
            'readers': [], 'pats': [], 'pcalls': [], 'linecalls': ok, 'missing': True, 'expect': None,
            'perline': [[t, w['what'], w['v']] for t, w in zip(lines, doc['perline'])]}


# --------------------------------------------------------------------------
# random files
# --------------------------------------------------------------------------
def _sample_noise():
    try:
        with open(SAMPLE_OUTCAR) as f:
            ls = f.read().split('\n')
    except OSError:
        return []
    rx = re.compile(r'f[ ]*=|f/i[ ]*=|cm-1')
    return [l for l in ls if not rx.search(l) and all(32 <= ord(ch) <= 126 for ch in l)]


OUTCAR_LOOKALIKES = [t for n, t in lib_x06.OUTCAR_LINES if n[0] in 'LN'] + [
    ' Eigenvectors after division by SQRT(mass)',
    ' Finite differences POTIM=   0.01500 DOF=   9',
    '   1 f  =  114.572212 THz   719.878437 2PiTHz',
    '  free  energy   TOTEN  =       -14.22360728 eV',
    '   3 f/i=    0.318004 THz     1.998076 2PiTHz',
    ' wavenumbers are given in cm-1 below',
    '  2PiTHz 3821.717493 cm-1   473.832750 meV',
    ' 12 lines of 100.000000 cm-1 each',
]
GAUSS_LOOKALIKES = [t for n, t in lib_x06.GAUSS_LINES if 'L' in n or n.startswith('G_')] + [
    ' Low frequencies ---    0.0008    0.0014    0.0015    3.2310    4.2224    5.5528',
    ' Zero-point vibrational energy     214937.5 (Joules/Mol)',
    ' Thermal correction to Energy=                    0.086392',
    ' Sum of electronic and thermal Free Energies=        -115.602112',
    ' Rotational constant (GHZ):     57.635980',
    ' Frequencies ---  1602.4829  3817.5313',
    ' Full point group                 C2V     NOp   4',
    ' Normal termination of Gaussian 16 at Mon Sep 28 09:00:00 2026.',
]


def _rand_cm(rnd, specials):
    r = rnd.random()
    if r < 0.18:
        return rnd.choice(specials)
    if r < 0.5:
        return round(rnd.uniform(0, 999.999999), 6)
    if r < 0.9:
        return round(rnd.uniform(1000, 4500), 6)
    return round(rnd.uniform(0, 1.5), 6)


def _sig_digits(text):
    return len(text.replace('.', '').replace('-', '').lstrip('0'))


def _safe_cut(cut, values):
    """A cutoff the 9-digit arithmetic of the specification decides like IEEE does: either far from every
    value (> 1e-5 relative) or equal to a value that has at most nine significant digits."""
    for v in values:
        if cut == v:
            if _sig_digits('%.6f' % v) > 9:
                return False
        elif abs(cut - v) <= 1e-5 * max(abs(v), abs(cut), 1e-3):
            return False
    return True


def _random_outcar(rnd, cid, noise, big=False):
    specials = [0.0, 0.000001, 100.0, 99.999999, 100.000001, 64.404843, 50.5, 250.5, 999.999999, 1000.0, 9999.999999]
    lines = []
    for _ in range(rnd.randint(0, 40 if big else 12)):
        lines.append(rnd.choice(noise) if noise and rnd.random() < 0.8 else rnd.choice(OUTCAR_LOOKALIKES))
    nmodes = rnd.randint(0, 30 if big else 9)
    nimag = rnd.randint(0, min(3, nmodes)) if rnd.random() < 0.6 else 0
    real = [_rand_cm(rnd, specials) for _ in range(nmodes - nimag)]
    if rnd.random() < 0.8:
        real.sort(reverse=True)
    imag = [_rand_cm(rnd, specials) for _ in range(nimag)]
    modes = [(v, False) for v in real] + [(v, True) for v in imag]
    if rnd.random() < 0.15:
        rnd.shuffle(modes)
    nblocks = rnd.choice([1, 1, 1, 2, 2, 3])
    natoms = rnd.randint(1, 4)
    for b in range(nblocks):
        lines.append(' Eigenvectors and eigenvalues of the dynamical matrix' if b == 0
                     else ' Eigenvectors after division by SQRT(mass)')
        lines.append(' ----------------------------------------------------')
        lines.append('')
        for n, (v, im) in enumerate(modes):
            lines.append(lib_x06.vasp_mode_line(n + 1, v, im))
            if rnd.random() < 0.85:
                lines += lib_x06.vasp_eigen_rows(rnd, natoms)
            if rnd.random() < 0.12:
                lines.append(rnd.choice(OUTCAR_LOOKALIKES))
    for _ in range(rnd.randint(0, 8)):
        lines.append(rnd.choice(noise) if noise and rnd.random() < 0.7 else rnd.choice(OUTCAR_LOOKALIKES))
    values = [v for v, _ in modes]
    cands = [0.0, 100.0]
    for _ in range(3):
        r = rnd.random()
        if values and r < 0.45:
            cands.append(rnd.choice(values))
        elif r < 0.8:
            cands.append(round(rnd.uniform(0, 4000), rnd.choice([0, 1, 3])))
        else:
            cands.append(rnd.choice([1e-9, 0.5, 50.0, 5000.0, 1e6, -10.0]))
    cuts = []
    for c in cands:
        if _safe_cut(c, values) and c not in cuts:
            cuts.append(c)
    fl = [l for l in lines if ' cm-1' not in l]
    linecalls = [l for l in lines if re.match(r'\s*\d+ f(/i| +)=', l) and ' cm-1' in l][:6] + rnd.sample(fl, min(3, len(fl)))
    return {'cid': cid, 'kind': 'random_outcar', 'fam': 'outcar', 'lines': lines, 'nl': rnd.random() < 0.85,
            'cuts': cuts, 'imags': [False, True], 'readers': [], 'pats': [], 'pcalls': [],
            'linecalls': linecalls, 'missing': rnd.random() < 0.1, 'expect': None,
            'sig': [len(modes), nimag, nblocks, cuts]}


PAT_POOL = [['Frequencies --', 'rest'], ['Zero-point correction=', 'paren'], ['and ', 'two'],
            ['Thermal correction to ', 'two'], ['Molecular mass:', 'rest'], ['correction', 'paren'],
            ['Rotational ', 'two'], ['No such text ', 'two'], ['(Kelvin)', 'rest'], ['amu', 'paren']]
UNITS = {'zpe': [None, 'Ha/molecule', 'eV/molecule', 'kJ/mol'], 'sum': [None, 'Ha/molecule', 'eV/molecule', 'kcal/mol'],
         'freq': [None, '1/cm', '1/m'], 'mass': [None, 'amu', 'g/mol', 'kg/mol'], 'rott': [None], 'sym': [None]}


def _random_gauss(rnd, cid, mixed=False):
    lines = [' Entering Gaussian System, Link 0=g16', ' %chk=job.chk', ' #P B3LYP/6-31G(d) opt freq', '']
    njobs = rnd.choice([1, 1, 1, 2, 3])
    for j in range(njobs):
        nfreq = rnd.choice([0, 1, 2, 3, 4, 5, 6, 7, 9, 12, 30])
        freqs = [round(rnd.uniform(20, 4000), 4) for _ in range(nfreq)]
        freqs.sort()
        if freqs and rnd.random() < 0.3:
            freqs[0] = -round(rnd.uniform(1, 1800), 4)
        if rnd.random() < 0.8:
            lines.append(rnd.choice(GAUSS_LOOKALIKES[:2] + GAUSS_LOOKALIKES[-8:-7]))
        lines += lib_x06.gauss_freq_lines(freqs)
        linear = rnd.random() < 0.2
        rot_t = [round(rnd.uniform(0.00004, 90), 5) for _ in range(1 if linear else 3)]
        zpe = round(rnd.uniform(0, 0.9), 6)
        e_zpe = -round(rnd.choice([rnd.uniform(0.4, 99), rnd.uniform(100, 40000)]), 6)
        mass = round(rnd.choice([rnd.uniform(1, 300), rnd.uniform(300, 9000)]), 5)
        lines += lib_x06.gauss_thermo_lines(zpe, e_zpe, mass, rnd.choice([1, 2, 3, 4, 6, 12, 24]), rot_t)
        for _ in range(rnd.randint(0, 4)):
            lines.append(rnd.choice(GAUSS_LOOKALIKES))
        if j + 1 < njobs:
            lines += [' Normal termination of Gaussian 16 at Mon Sep 28 09:00:00 2026.', ' Link1:  Proceeding to internal job step number  %d.' % (j + 2)]
    if rnd.random() < 0.25:                       # a few extra lines anywhere
        for _ in range(rnd.randint(1, 6)):
            lines.insert(rnd.randint(0, len(lines)), rnd.choice(GAUSS_LOOKALIKES))
    fam = 'gauss'
    cuts = []
    if mixed:
        fam = 'both'
        for n in range(rnd.randint(1, 5)):
            lines.insert(rnd.randint(0, len(lines)),
                         lib_x06.vasp_mode_line(n + 1, round(rnd.uniform(120, 900), 6), rnd.random() < 0.3))
        cuts = [0.0, 100.0]
    readers = [[fn, rnd.choice(UNITS[fn])] for fn in ('zpe', 'sum', 'freq', 'rott', 'mass', 'sym')]
    readers += [[fn, rnd.choice(UNITS[fn])] for fn in rnd.sample(['zpe', 'sum', 'freq', 'mass'], 2)]
    pats = rnd.sample(PAT_POOL, 3)
    pcalls = []
    for idx, p in enumerate(pats):
        ng = 2 if p[1] == 'two' else 1
        for g in range(ng):
            for imm in (True, False):
                pcalls.append([idx, g, imm])
    return {'cid': cid, 'kind': 'random_gauss', 'fam': fam, 'lines': lines, 'nl': rnd.random() < 0.85,
            'cuts': cuts, 'imags': [False, True], 'readers': readers, 'pats': pats, 'pcalls': pcalls,
            'linecalls': [], 'missing': False, 'expect': None,
            'sig': [njobs, len(lines), [p[0] for p in pats], mixed]}


# --------------------------------------------------------------------------
# design models + case generation (concurrently)
# --------------------------------------------------------------------------
def _models(ctx):
    q = ctx.quick
    return [  # cfg, expected ok, invariants one of which must be violated, workers
        ('MC_LogReaders' if q else 'MC_LogReaders_big', True, None, 6),
        ('MC_LogReaders_gauss' if q else 'MC_LogReaders_gauss_big', True, None, 6),
        ('MC_LogReaders_fold', True, None, 2),
        ('MC_LogReaders_group0', False, ('PatternRequired',), 1),
        ('MC_LogReaders_firstnum', False, ('Refines', 'VibRequired'), 1),
        ('MC_LogReaders_ge', False, ('VibRequired',), 1),
        ('MC_LogReaders_imagcut', False, ('VibRequired',), 1),
        ('MC_LogReaders_last', False, ('Refines', 'ScalarRequired'), 1),
    ]


def _design_and_cases(ctx):
    models = _models(ctx)
    gens = [('outcar', 3), ('gauss', ctx.pick(2, 3))]

    def model(m):
        return core.run_tlc('MC_LogReaders', m[0], workers=m[3], timeout=3000)

    def gen(g):
        d, r = core.tlc_cases('MC_LogReaders_cases', 'MC_LogReaders_cases',
                              env={'CASEKINDS': g[0], 'CASELEN': g[1]}, timeout=1500)
        return d

    with cf.ThreadPoolExecutor(max_workers=len(models) + len(gens)) as ex:
        mf = [ex.submit(model, m) for m in models]
        gf = [ex.submit(gen, g) for g in gens]
        mres = [f.result() for f in mf]
        docs = [f.result() for f in gf]
    for (cfg, ok, viol, _w), r in zip(models, mres):
        ctx.count('states', r.distinct)
        ctx.count('transitions', r.states)
        ctx.coverage.setdefault('models', []).append(
            {'module': 'MC_LogReaders', 'cfg': cfg, 'distinct_states': r.distinct, 'states_generated': r.states,
             'depth': r.depth, 'ok': r.ok, 'violated': r.violated,
             'expected': 'pass' if ok else 'rejected', 'wall_s': round(r.wall, 1)})
        if ok and not r.ok:
            raise core.MachineryError('design model MC_LogReaders/%s failed:\n%s' % (cfg, r.out[-4000:]))
        if not ok:
            if r.ok or r.violated not in viol:
                raise core.MachineryError('the variant %s should be rejected by the design model (%s):\n%s'
                                          % (cfg, '/'.join(viol), r.out[-3000:]))
            ctx.notes.append('design model rejects %s: invariant %s violated' % (cfg, r.violated))
    return docs


# --------------------------------------------------------------------------
def case_tags(case, e=None):
    t = {'kind': case['kind'], 'fam': case['fam']}
    if e is not None:
        if e.get('ev') == 'pattern':
            t.update({'call': 'read_pattern', 'group': e['group'], 'immediately': e['imm']})
        elif e.get('ev') == 'greader':
            t.update({'call': e['fn']})
        else:
            t.update({'call': e.get('ev')})
    return t


def _slim(case):
    c = dict(case)
    c.pop('sig', None)
    return c


def run(ctx):
    ctx.coverage['rule'] = (
        'a case is one text file given to the real readers: tlc cases are every file of <= 3 lines (OUTCAR '
        'alphabet) / <= 2 or 3 lines (Gaussian alphabet) of LogReaders.tla with equality against the results TLC '
        'declared (4 cutoffs x include_imaginary, six Gaussian readers, read_pattern both groups, first/complete); '
        'random cases are OUTCAR-like files (VASP mode-line format, 0-30 modes < 10000 cm-1 with values at / next '
        'to the cutoffs, 0-3 imaginary modes, 1-3 repeated blocks, eigenvector tables, look-alike lines, lines of '
        'the shipped OUTCAR) with 2-5 cutoffs (exactly a value of <= 9 digits, or > 1e-5 away from every value) '
        'and Gaussian-like files (1-3 job steps, 0-30 frequencies, linear / non-linear, look-alike lines; '
        'optionally OUTCAR mode lines mixed in) with units and three read_pattern patterns of the family '
        'key(.*) | key(.*?)\\( | key(\\S+) (.*); plus the shipped test_OUTCAR; every case is judged event by '
        'event by Trace_LogReaders.tla; non-trivial = at least one line of a reader kind in the file; distinct '
        'by line kinds / block structure / options')
    noise = _sample_noise()
    if ctx.replay_case is not None:
        cases = [ctx.replay_case['case']]
    else:
        docs = _design_and_cases(ctx)
        cases = _tlc_cases(docs[0], 'outcar', 'o') + _tlc_cases(docs[1], 'gauss', 'g')
        cases.append(_perline_case(docs[0]))
        ctx.coverage['tlc_cases'] = len(cases)
        rnd = random.Random(ctx.seed * 104729 + 6)
        for k in range(ctx.pick(150, 1500)):
            cases.append(_random_outcar(rnd, 'ro%d' % k, noise, big=(k % 10 == 0)))
        for k in range(ctx.pick(150, 1500)):
            cases.append(_random_gauss(rnd, 'rg%d' % k, mixed=(k % 4 == 0)))
        if os.path.isfile(SAMPLE_OUTCAR):
            cases.append({'cid': 'shipped', 'kind': 'shipped_outcar', 'fam': 'outcar', 'path': SAMPLE_OUTCAR,
                          'cuts': [0.0, 100.0, 64.404843, 1535.0], 'imags': [False, True], 'readers': [], 'pats': [],
                          'pcalls': [], 'linecalls': [], 'missing': False, 'expect': None})
        else:
            ctx.notes.append('shipped sample %s not present' % SAMPLE_OUTCAR)
    results = core.pmap(_safe_execute, cases)
    traces = []
    evals = {}
    for tid, (case, (events, mism)) in enumerate(zip(cases, results)):
        ctx.evaluated()
        nontriv = False
        for e in events:
            k = e['ev'] + ('_' + e['fn'] if e['ev'] == 'greader' else '')
            if e['ev'] == 'pattern':
                k += '_g%d_%s' % (e['group'], 'first' if e['imm'] else 'all')
            evals[k] = evals.get(k, 0) + 1
            if e['ev'] in ('vib', 'greader') and e['res'] or e['ev'] == 'pattern' and (e['text'] or e['words']) \
                    or e['ev'] == 'linecall':
                nontriv = True
                evals[k + '_nonempty'] = evals.get(k + '_nonempty', 0) + 1
        if nontriv:
            ctx.nontrivial(json.dumps(case.get('kinds') or case.get('sig') or case['cid']))
        for m in mism:
            ctx.violation(m['kind'], _slim(case), tags=dict(case_tags(case), what=m['what'].split(' ')[0], **m.pop('tags', {})), detail=m)
        if case.get('perline'):             # (S->C) get_vib_wavenumber_from_line per alphabet line
            calls = {uncodes(e['c']): e for e in events if e['ev'] == 'linecall'}
            for text, what, v in case['perline']:
                e = calls.get(text)
                if e is None:
                    continue
                have = ['value', strip_dec(e['res'][0])] if e['res'] else ['raised', e['raised']]
                want = ['value', [v[0], v[1]]] if what == 'value' else ['raised', 'TypeError']
                if have != want:
                    ctx.violation('ReplayResult', _slim(case), tags=dict(case_tags(case), what='linecall'),
                                  detail={'line': text, 'expected': want, 'got': have})
        # every case is compared with TLC's result above; in the quick tier the trace spec re-judges the
        # TLC files of <= 2 lines and every fourth longer one (all of them in the thorough tier)
        if not (ctx.quick and case['kind'] == 'tlc' and len(case.get('kinds') or []) > 2 and tid % 4):
            traces.append((tid, events))
        if tid % 911 == 0 or case['kind'] == 'shipped_outcar':
            ctx.sample({'kind': case['kind'], 'fam': case['fam'], 'lines': (case.get('lines') or [])[:4],
                        'n_lines': sum(1 for e in events if e['ev'] == 'line'), 'cuts': case.get('cuts'),
                        'calls': [e['ev'] for e in events if e['ev'] not in ('open', 'line')][:8]})
    fails, stats = core.validate_traces('Trace_LogReaders', 'Trace', traces)
    ctx.count('traces_validated_against_impl', len(traces))
    ctx.coverage['trace_lines'] = stats['lines']
    ctx.coverage['clause_evaluations'] = dict(sorted(evals.items()))
    if not ctx.replay_case:
        need = ['vib_nonempty', 'linecall', 'missing', 'pattern_g1_all_nonempty', 'pattern_g0_first_nonempty'] + \
               ['greader_%s_nonempty' % fn for fn in SCALARS + LISTS]
        if min(evals.get(k, 0) for k in need) == 0:
            raise core.MachineryError('vacuous run: %r' % (evals,))
    by_case = {}
    for tid, idx, clause in fails:
        by_case.setdefault((tid, clause), []).append(idx)
    for (tid, clause), idxs in sorted(by_case.items()):
        case = cases[tid]
        evs = results[tid][0]
        if clause == 'OutsideQuantifier':
            raise core.MachineryError('the generator produced a line outside the quantifier (case %s): %r'
                                      % (case['cid'], [uncodes(evs[i].get('c', [])) for i in idxs[:3]]))
        for i in idxs[:3]:
            e = dict(evs[i])
            for k in ('c', 'text'):
                if k in e:
                    e[k] = uncodes(e[k])
            if 'words' in e:
                e['words'] = [uncodes(w) for w in e['words']]
            tags = case_tags(case, evs[i])
            if clause == 'PatternWords_KnownGroupZero':
                tags['shape'] = 'group_zero'
            ctx.violation(clause, _slim(case), tags=tags, detail={'event': i, 'call': e})
    ctx.assume('numbers are compared as 9-digit decimals; a printed value with more than nine significant digits '
               'is compared to one unit in the ninth digit')
    ctx.assume('unit factors of the Gaussian readers are taken from pmutt.constants.convert_unit (subject of C12); '
               'X06 judges which lines are read, which values, in which order')
    ctx.assume('scalar Gaussian readers are called only on files that contain their line (the result on a file '
               'without it is not documented)')


if __name__ == '__main__':
    core.main('X06', 'model_checking', run)
